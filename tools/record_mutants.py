#!/usr/bin/env python3
"""record_mutants.py <prop> <out dir> <result text per patch...> : copies patchN.diff/demoN.rs + meta entries into /verif/seeded/<prop>-<letter>/"""
import json, os, shutil, sys, glob, string
prop, out = sys.argv[1], sys.argv[2]
results = sys.argv[3:]
meta = json.load(open(os.path.join(out, 'meta.json')))
if isinstance(meta, dict): meta = [meta]
existing = sorted(glob.glob(f'/verif/seeded/{prop}-*'))
start = len(existing)
patches = sorted(glob.glob(os.path.join(out, 'patch*.diff')))
for i, p in enumerate(patches):
    d = f'/verif/seeded/{prop}-{string.ascii_lowercase[start + i]}'
    os.makedirs(d, exist_ok=True)
    shutil.copy(p, os.path.join(d, 'patch.diff'))
    n = os.path.basename(p)[5:-5]
    for cand in (f'demo{n}.rs', 'demo.rs'):
        if os.path.exists(os.path.join(out, cand)): shutil.copy(os.path.join(out, cand), os.path.join(d, 'demo.rs')); break
    e = dict(meta[i] if i < len(meta) else meta[-1])
    e['confirmed'] = {'by': 'sub-agent ran compile + the 43 baseline + 44 feature-gated tests + the demo with and without the patch; the main session re-ran the two suites in a scratch worktree (confirm.log) and ran its check with the patch applied to /repo'}
    e['check_result'] = results[i] if i < len(results) else ''
    json.dump(e, open(os.path.join(d, 'meta.json'), 'w'), indent=1)
    print(d)
