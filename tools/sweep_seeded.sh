#!/bin/sh
# sweep_seeded.sh [ids...] : for every recorded seeded change (seeded/C*/), apply it to /repo, run the quick check that is recorded as catching it
# (the check of its own property unless meta.json says "the check of Cxx"), undo it, and write one line per change to seeded/SWEEP.txt:
#   <id> <property checked> detected|MISSED|noapply <last line of the check>
# /repo must be clean before and is clean afterwards.  Evidence files are restored from git afterwards (a run with a patch applied rewrites them).
cd /verif || exit 2
[ -z "$(git -C /repo status --porcelain)" ] || { echo "/repo is not clean"; exit 2; }
OUT=seeded/SWEEP.txt
[ $# -eq 0 ] && : > $OUT
for id in "$@"; do grep -v "^$id " $OUT > $OUT.tmp 2>/dev/null; mv $OUT.tmp $OUT; done
for d in ${@:-$(ls -d seeded/C*/ | xargs -n1 basename)}; do
  id=${d%/}
  P=$(python3 - "$id" <<'PY'
import json, re, sys
i = sys.argv[1]
m = json.load(open(f'/verif/seeded/{i}/meta.json'))
r = m.get('check_result', '')
if not isinstance(r, str): r = json.dumps(r)
x = re.search(r'detected by (?:the check of )?(C\d\d)', r)
print(x.group(1) if x else i.split('-')[0])
PY
)
  if ! git -C /repo apply /verif/seeded/$id/patch.diff 2>/dev/null; then echo "$id $P noapply" >> $OUT; continue; fi
  L=$(./check $P 2>&1 | grep -E "^VIOLATION|tier=" | tail -1)
  git -C /repo checkout -q -- . ; git -C /repo clean -fdq
  case "$L" in VIOLATION*) echo "$id $P detected $L" >> $OUT ;; *) echo "$id $P MISSED $L" >> $OUT ;; esac
done
git checkout -q -- evidence 2>/dev/null
echo "== $(grep -c ' detected ' $OUT) detected, $(grep -c ' MISSED ' $OUT) missed, $(grep -c ' noapply' $OUT) do not apply"
