"""C11 — cookies survive the trip: Cookie header decoding and Set-Cookie building.

impl  : harness C11 (`serde_cookie::from_str` into catalogue structs, `util::iter_cookies`, the response builder's Set-Cookie line on the wire and
        `SetCookie::from_raw` through the public `headers.SetCookie()` iterator)
model : Lean `Ohkami.Cookie.fromStr`, `iterCookies`, `SetCookie.build`, `Cookie.fromRaw`
spec  : here — (a) a jar encoded into a `Cookie:` header (each value plain, percent-encoded or double-quoted as RFC 6265 allows) decodes to the same names and
        values, by the struct decoder and by the iterator; (b) the built `Set-Cookie` line matches the RFC 6265 set-cookie-string grammar on one line and an
        independent reader of that grammar recovers the same cookie and directives, as does the implementation's own `from_raw`
"""
import re
from .common import hx, unhx

ID = 'C11'
GEN_DEPS = []
RULE = ('(a) jars of 1-6 cookies (names over the RFC token alphabet, values over arbitrary Unicode, three value encodings, field subsets / orders / unknown cookies) into 4 catalogue structs '
        '(String, &str, Option<String>, Option<u32>, bool, u64, #[serde(default)] u8, Option<i16>) and through the iterator, plus mutated headers; (b) all 128 directive subsets x boundary values '
        '(Max-Age up to u64::MAX) x names and Unicode values; non-trivial = a jar with >= 2 cookies or an encoded/quoted value; a Set-Cookie with >= 2 directives or a value needing escapes')
ASSUMPTIONS = ['cookie names are RFC 6265 tokens; Expires / Domain / Path values contain no "; " and no control characters (hypotheses of the round trip)',
               'known finding KF-C11-iter-cookies: the iterator returns raw text (no percent-decoding, no quote stripping) and drops values containing "="',
               'an empty value is the absent value for an Option field (as in C09)']
TOKEN = "!#$%&'*+-.^_`|~0123456789ABCDEFGHIJKLMNOPQRSTUVWXYZabcdefghijklmnopqrstuvwxyz"
OCTET = set(range(0x21, 0x7f)) - {0x22, 0x2c, 0x3b, 0x5c}
U = lambda b: {"uint": b}
I = lambda b: {"sint": b}
O = lambda t: {"option": t}
ST = lambda *fs: {"struct": [[n, t, d] for (n, t, d) in fs]}
CAT = {0: ST(("a", "string", False), ("tok", O("string"), False), ("n", O(U(32)), False)),
       1: ST(("s", "str", False), ("b", "bool", False)),
       2: ST(("id", U(64), False), ("d", U(8), True), ("neg", O(I(16)), False)),
       3: ST(("x", "string", False), ("y", "string", False), ("z", "string", False)),
       5: ST(("c", "char", False), ("oc", O("char"), False), ("s", "string", False)),
       4: ST(("session-id", "string", False), ("__Host-tok", O("string"), False), ("a.b!#$*+^_`|~", O(U(32)), False))}          # names over the token alphabet that are not identifiers (serde rename)
DEFAULTS = {2: {"d": {"i": "0"}}}


def pct(v): return ''.join(chr(b) if (48 <= b <= 57 or 65 <= b <= 90 or 97 <= b <= 122) else '%%%02X' % b for b in v.encode())
def pct_dec(b): return re.sub(rb'%([0-9A-Fa-f]{2})', lambda m: bytes([int(m.group(1), 16)]), b)


def uni(rng):
    r = rng.random()
    if r < 0.5: return chr(rng.choice(list(OCTET)))
    if r < 0.7: return rng.choice(' ;,="\\%\t')
    if r < 0.85: return chr(rng.randrange(0x80, 0x800))
    return rng.choice('日本語😀é')


ESCAPED_LOOKING = ['%41', 'next=%2Fhome', '50%25off', '%E3%81%82', 'a%2', '%%41', '100%', '%2B%2b', 'x%3Dy', '%00', '%zz%41']      # texts that read as escapes themselves


def value_text(rng):
    if rng.random() < 0.12: return rng.choice(ESCAPED_LOOKING)
    return ''.join(uni(rng) for _ in range(rng.choice([0, 1, 1, 2, 4, 9])))          # the empty value too: `n=` and `n=""`


def enc_value(rng, v):
    """(wire form, form name)"""
    plain_ok = all(ord(ch) in OCTET for ch in v) and '%' not in v
    forms = ['pct'] + (['plain', 'quoted'] if plain_ok else [])
    f = rng.choice(forms)
    return {'pct': pct(v), 'plain': v, 'quoted': '"' + v + '"'}[f], f


def sval(s): return {"s": s.encode().hex()}


def jar_case(rng):
    tid = rng.randrange(6)
    fields = CAT[tid]['struct']
    want, parts, forms = [], [], []
    order = list(fields)
    if rng.random() < 0.4: rng.shuffle(order)
    for n, t, d in order:
        if isinstance(t, dict) and 'option' in t and rng.random() < 0.3: continue          # absent optional cookie
        if d and rng.random() < 0.5: continue
        if t in ('string',) or (isinstance(t, dict) and t.get('option') == 'string'):
            v = value_text(rng); w, f = enc_value(rng, v)
        elif t == 'char' or (isinstance(t, dict) and t.get('option') == 'char'):
            v = rng.choice(['a', 'Z', '7', 'é', '★', '🐺', '日', ' ', ';', '"', '%', '=']); w, f = enc_value(rng, v)
        elif t == 'str':
            v = ''.join(rng.choice('abcXYZ019-_.') for _ in range(rng.randrange(1, 6))); w, f = v, 'plain'
        elif t == 'bool':
            v = rng.choice(['true', 'false']); w, f = enc_value(rng, v) if rng.random() < 0.3 else (v, 'plain')          # a cookie-value may be quoted or escaped whatever its type
        else:
            bits = (t.get('uint') or t.get('sint') or (t['option'].get('uint') or t['option'].get('sint')))
            signed = 'sint' in t or (isinstance(t.get('option'), dict) and 'sint' in t['option'])
            z = rng.choice([0, 1, 2 ** (bits - (1 if signed else 0)) - 1, rng.randrange(2 ** (bits - 1))] + ([-1, -2 ** (bits - 1)] if signed else []))
            v = str(z); w, f = enc_value(rng, v) if rng.random() < 0.3 else (v, 'plain')
            if f == 'plain' and rng.random() < 0.1: i = rng.randrange(len(w)); w = w[:i] + '%%%02X' % ord(w[i]) + w[i + 1:]; f = 'pct'          # one escaped digit or sign
        parts.append(n + '=' + w); forms.append(f)
        if rng.random() < 0.2: parts.append(rng.choice(['zz=1', 'other=%41', 'q="x"', 'u=a=b',
                                                         # an undeclared cookie is skipped whatever its value: cookie-octets that do not percent-decode, or not to UTF-8
                                                         'zlang=caf%E9', 'zw=%FF', 'zk=%', 'ze=%zz', 'zh=%E3%81', 'zj=a%', 'zq="%FF"', 'zempty=']))
    header = '; '.join(parts)
    return {'case': {'kind': 'struct', 'tid': tid, 'ty': CAT[tid], 'input': header.encode().hex(), 'jar': True}, 'stream': 'jar'}


def mutated_case(rng):
    c = jar_case(rng)['case']
    b = bytearray(unhx(c['input']))
    for _ in range(rng.choice([1, 2])):
        k = rng.random()
        if not b: break
        if k < 0.4: b[rng.randrange(len(b))] = rng.choice(b';= "%,\\a1')
        elif k < 0.6: del b[rng.randrange(len(b))]
        elif k < 0.8: b.insert(rng.randrange(len(b) + 1), rng.choice(b';= "%'))
        else: b += rng.choice([b';', b'; ', b'; x', b'=', b'%FF', b'; a=%FF'])
    try: bytes(b).decode('utf-8')
    except UnicodeDecodeError: b = bytearray(bytes(b).decode('utf-8', 'replace').encode())
    return {'case': {'kind': 'struct', 'tid': c['tid'], 'ty': c['ty'], 'input': bytes(b).hex(), 'jar': False}, 'stream': 'mutated'}


def iter_case(rng):
    n = rng.choice([1, 2, 3, 6])
    jar = []
    for _ in range(n):
        name = ''.join(rng.choice(TOKEN) for _ in range(rng.choice([1, 3, 8])))
        v = value_text(rng) if rng.random() < 0.5 else ''.join(chr(rng.choice(list(OCTET - {0x3d, 0x25}))) for _ in range(rng.choice([0, 1, 5])))
        w, f = enc_value(rng, v)
        jar.append((name, v, w, f))
    return {'case': {'kind': 'iter', 'input': '; '.join(n + '=' + w for n, _, w, _ in jar).encode().hex(), 'jar': [[hx(n), hx(v), f] for n, v, _, f in jar]}, 'stream': 'iter'}


def setcookie_case(rng, mask=None):
    mask = rng.randrange(128) if mask is None else mask
    d = {}
    if mask & 1: d['expires'] = hx(rng.choice(['Wed, 21 Oct 2015 07:28:00 GMT', 'Sun, 06 Nov 1994 08:49:37 GMT']))
    if mask & 2: d['max_age'] = rng.choice([0, 1, 59, 86400, 2 ** 32, 2 ** 53, 2 ** 64 - 1])
    if mask & 4: d['domain'] = hx(rng.choice(['example.com', 'a.b.c', 'localhost']))
    if mask & 8: d['path'] = hx(rng.choice(['/', '/where', '/a/b', '/a%20b']))
    if mask & 16: d['secure'] = True
    if mask & 32: d['http_only'] = True
    if mask & 64: d['same_site'] = rng.choice(['Strict', 'Lax', 'None'])
    name = ''.join(rng.choice(TOKEN) for _ in range(rng.choice([1, 2, 6])))
    return {'case': {'kind': 'setcookie', 'name': hx(name), 'value': hx(value_text(rng) if rng.random() < 0.85 else ''), 'dirs': d}, 'stream': 'setcookie'}


def corpus():
    S = lambda tid, s, jar=False: {'case': {'kind': 'struct', 'tid': tid, 'ty': CAT[tid], 'input': hx(s), 'jar': jar}}
    return [S(0, 'a=1; tok=YWJj='),                       # was: the whole jar refused ('=' in a value)
            S(0, 'a=1; tok=; n=5'),                       # was: tok = Some("") unless last
            S(0, 'a=%FF'),                                # was: a non-UTF-8 String
            S(0, 'a=1; tok="q-v"; n=007'), S(0, 'a=%E3%81%82; zz=9'), S(1, 's=abc; b=true'), S(1, 's=%41; b=true'), S(2, 'id=18446744073709551615; neg=-32768'),
            S(2, 'id=18446744073709551616'), S(0, 'a=1; a=2'), S(0, 'a=1;tok=x'), S(0, 'a'), S(0, '=1'), S(0, 'a=1; '), S(3, 'x=1; y=2; z=3', True),
            {'case': {'kind': 'iter', 'input': hx('a=1; tok=YWJj=; c=%E3%81%82; q="x"'), 'jar': [[hx('a'), hx('1'), 'plain'], [hx('tok'), hx('YWJj='), 'plain'], [hx('c'), hx('あ'), 'pct'], [hx('q'), hx('x'), 'quoted']]}},
            {'case': {'kind': 'setcookie', 'name': hx('id'), 'value': hx('4 2;日本'), 'dirs': {'max_age': 2 ** 64 - 1, 'path': hx('/'), 'same_site': 'Strict', 'secure': True}}}]


def generate(rng, tier):
    n = 1500 if tier == 'quick' else 40000
    out = [jar_case(rng) for _ in range(n)] + [mutated_case(rng) for _ in range(n)] + [iter_case(rng) for _ in range(n // 2)]
    out += [setcookie_case(rng, mask) for mask in range(128) for _ in range(2 if tier == 'quick' else 30)]
    return out


# ------------------------------------------------------------------------------------------------ spec
SETCOOKIE_RE = re.compile(r"^([!#$%&'*+\-.^_`|~0-9A-Za-z]+)=((?:[\x21\x23-\x2b\x2d-\x3a\x3c-\x5b\x5d-\x7e]*)|\"(?:[\x21\x23-\x2b\x2d-\x3a\x3c-\x5b\x5d-\x7e]*)\")((?:; [^;\x00-\x1f\x7f]+)*)$")


def spec_setcookie(case, out):
    wire = unhx(out['wire'])
    lines = [l[len(b'Set-Cookie: '):] for l in wire.split(b'\r\n\r\n')[0].split(b'\r\n') if l.startswith(b'Set-Cookie: ')]
    if len(lines) != 1: return f'{len(lines)} Set-Cookie lines for one cookie'
    try: line = lines[0].decode('ascii')
    except UnicodeDecodeError: return 'Set-Cookie line is not ASCII'
    m = SETCOOKIE_RE.match(line)
    if not m: return f'not an RFC 6265 set-cookie-string: {line!r}'
    name, value, rest = m.group(1), m.group(2), m.group(3)
    d = case['dirs']
    want_name, want_value = unhx(case['name']).decode(), unhx(case['value']).decode()
    if name != want_name: return f'cookie-name {name!r}'
    if pct_dec(value.strip('"').encode()).decode('utf-8', 'replace') != want_value: return f'cookie-value {value!r} does not denote {want_value!r}'
    avs = [a for a in rest.split('; ') if a]
    got = {}
    for a in avs:
        k, _, v = a.partition('=')
        if k in got: return f'attribute {k} twice'
        got[k] = v
    want = {}
    if 'expires' in d: want['Expires'] = unhx(d['expires']).decode()
    if 'max_age' in d: want['Max-Age'] = str(d['max_age'])
    if 'domain' in d: want['Domain'] = unhx(d['domain']).decode()
    if 'path' in d: want['Path'] = unhx(d['path']).decode()
    if d.get('secure'): want['Secure'] = ''
    if d.get('http_only'): want['HttpOnly'] = ''
    if 'same_site' in d: want['SameSite'] = d['same_site']
    if got != want: return f'attributes {got}, built from {want}'
    # the implementation's own reader gives the cookie back
    if len(out['parsed']) != 1: return 'from_raw does not read the built line back'
    p = out['parsed'][0]
    back = {'name': unhx(p['name']).decode(), 'value': unhx(p['value']).decode()}
    if back != {'name': want_name, 'value': want_value}: return f'from_raw reads {back}, built from {want_name!r}={want_value!r}'
    pd = {}
    if p['expires'] is not None: pd['expires'] = p['expires']
    if p['max_age'] is not None: pd['max_age'] = p['max_age']
    if p['domain'] is not None: pd['domain'] = p['domain']
    if p['path'] is not None: pd['path'] = p['path']
    if p['secure']: pd['secure'] = True
    if p['http_only']: pd['http_only'] = True
    if p['same_site'] is not None: pd['same_site'] = p['same_site']
    if pd != d: return f'from_raw reads directives {pd}, built from {d}'
    return None


def jar_want(case):
    """the struct a jar header denotes (values by RFC 6265: strip quotes, percent-decode)"""
    tid = case['tid']
    fields = CAT[tid]['struct']
    got = {}
    for part in unhx(case['input']).decode().split('; '):
        n, _, w = part.partition('=')
        got.setdefault(n, w)
    vals = []
    for n, t, d in fields:
        if n in got:
            raw = got[n]
            txt = pct_dec(raw.strip('"').encode() if (len(raw) >= 2 and raw[0] == raw[-1] == '"') else raw.encode()).decode()
            base = t['option'] if isinstance(t, dict) and 'option' in t else t
            if isinstance(t, dict) and 'option' in t and raw == '': vals.append([n, 'none']); continue
            if base in ('string', 'str'): v = sval(txt)
            elif base == 'char': v = {'c': ord(txt)} if len(txt) == 1 else None
            elif base == 'bool': v = {'b': txt == 'true'}
            else: v = {'i': str(int(txt))}
            vals.append([n, {'some': v} if isinstance(t, dict) and 'option' in t else v])
        elif isinstance(t, dict) and 'option' in t: vals.append([n, 'none'])
        elif d: vals.append([n, DEFAULTS[tid][n]])
        else: return None
    return {'struct': vals}


def norm_model(tid, m):
    import json
    m = json.loads(json.dumps(m))
    if m.get('outcome') == 'ok' and tid in DEFAULTS:
        for f in m['value'].get('struct', []):
            if f[1] == 'default': f[1] = DEFAULTS[tid][f[0]]
    return m


def judge(case, out, m):
    v = []
    if 'panic' in out or out.get('outcome') == 'panic': return [('violation', 'panic: ' + str(out)[:160])]
    mm = m.get('model') if m else None
    k = case['kind']
    served = out.get('served')
    out = {key: x for key, x in out.items() if key != 'served'}
    raw = unhx(case['input']) if 'input' in case else b''
    if served is not None and 'refused' not in served and raw == raw.strip() and k in ('struct', 'iter'):
        # the same header through a real request: the typed extractor in a handler's signature / req.headers.Cookies()
        if k == 'iter':
            if served.get('value') != out.get('pairs'): v.append(('violation', f'req.headers.Cookies() yields {str(served.get("value"))[:120]}, iter_cookies {str(out.get("pairs"))[:120]}'))
        elif out.get('outcome') == 'ok':
            if not served.get('ran') or served.get('value') != out.get('value'): v.append(('violation', f'{raw[:80]!r}: a handler declaring typed::header::Cookie<T> got {str(served)[:160]}, the header decodes to {str(out.get("value"))[:160]}'))
        elif out.get('outcome') == 'err':
            if served.get('ran') or not (400 <= served.get('status', 0) <= 499): v.append(('violation', f'{raw[:80]!r}: the header does not decode into T, but the handler declaring typed::header::Cookie<T> gave {str(served)[:160]}'))
    if k == 'struct':
        if case.get('jar'):
            want = jar_want(case)
            if want is not None and (out.get('outcome') != 'ok' or out.get('value') != want):
                v.append(('violation', f'jar {unhx(case["input"])!r} denotes {want}, decoder gives {str(out)[:200]}'))
        if mm is not None and norm_model(case['tid'], mm) != out: v.append(('disagree', f'{unhx(case["input"])!r}: impl {str(out)[:200]} model {str(norm_model(case["tid"], mm))[:200]}'))
    elif k == 'iter':
        want = [[n, val] for n, val, f in case['jar']]
        if out.get('pairs') != want:
            bad = [(unhx(n), unhx(val), f) for n, val, f in case['jar'] if f != 'plain' or b'=' in unhx(val)]
            if bad: v.append(('violation', f'cookie iterator yields {[(unhx(a), unhx(b)) for a, b in out.get("pairs", [])][:4]}, the jar holds {[(unhx(n), unhx(x)) for n, x, _ in case["jar"]][:4]}', 'KF-C11-iter-cookies'))
            else: v.append(('violation', f'cookie iterator yields {out.get("pairs")}, the jar holds {want}'))
        if mm is not None and mm.get('pairs') != out.get('pairs'): v.append(('disagree', f'iter: impl {out.get("pairs")} model {mm.get("pairs")}'))
    else:
        bad = spec_setcookie(case, out)
        if bad: v.append(('violation', bad))
        if mm is not None:
            wire = unhx(out['wire'])
            lines = [l[len(b'Set-Cookie: '):] for l in wire.split(b'\r\n\r\n')[0].split(b'\r\n') if l.startswith(b'Set-Cookie: ')]
            if [l.hex() for l in lines] != [mm.get('line')]: v.append(('disagree', f'Set-Cookie line: impl {lines} model {unhx(mm.get("line", ""))!r}'))
            if (out['parsed'][0] if out['parsed'] else None) != mm.get('parsed'): v.append(('disagree', f'from_raw: impl {out["parsed"]} model {mm.get("parsed")}'))
    return v


def nontrivial(case):
    if case['kind'] == 'setcookie': return len(case['dirs']) >= 2 or any(b > 0x7e or b in b' ;,"%' for b in unhx(case['value']))
    t = unhx(case['input'])
    return b'; ' in t or b'%' in t or b'"' in t


def features(case, out):
    if case['kind'] == 'struct': return ['struct_t%d_%s' % (case['tid'], out.get('outcome')), 'jar' if case.get('jar') else 'mutated']
    if case['kind'] == 'iter': return ['iter']
    return ['setcookie_dirs_%d' % len(case['dirs'])]
