"""C04 — fangs run in onion order and exactly within their application's scope.

impl  : harness C04 (= C01 executor: application trees with tracing fangs at every level, local fangs on handlers, an optional fang that answers early)
model : Lean `Fangs.build` / `finalize` / `searchP` + `onion` (the per-request trace)
spec  : here — read off the configuration alone: the applications whose composed mount prefix is a prefix of the path (segment-wise, a param matches
        any non-empty segment), outermost first, each contributing its fangs in declaration order, then the handler's local fangs, then the handler
        (or nothing on a 404); mirrored on the way out; cut after the fang that answers early
"""
import json
from .common import hx, unhx
from . import appgen

ID = 'C04'
GEN_DEPS = []
RULE = ('application trees satisfying the property\'s side condition (each mount prefix used by one application, nobody else registers under it; prefixes of 1-2 static/param segments, depth <= 2, '
        '0-8 fangs per application, 0-3 local fangs) x 20 requests (hits, misses inside and outside every mount, 5 methods + HEAD + OPTIONS) x an optional fang that answers early; '
        'non-trivial = at least two applications with fangs or local fangs, and the request lies under a mount prefix or misses; distinct by canonical JSON')
ASSUMPTIONS = ['the side condition of the property is the decidable predicate `sideCond` (DESIGN 6.0): the generator draws only such trees',
               'OPTIONS requests: the fangs that run are judged here by the scope statement (whatever the method); the automatic OPTIONS handlers themselves are C14']


def all_fangs(app):
    out = list(app['fangs'])
    for it in app['items']:
        out += all_fangs(it['app']) if 'mount' in it else it.get('local', [])
    return out


def mk(rng, app, nreq=20):
    paths = appgen.request_paths(rng, app, nreq)
    reqs = [{'m': rng.choice(['GET', 'GET', 'HEAD', 'POST', 'PUT', 'PATCH', 'DELETE', 'OPTIONS']), 'p': p.hex()} for p in paths]
    fs = all_fangs(app)
    stop = rng.choice(fs) if fs and rng.random() < 0.3 else None
    return {'case': {'app': app, 'stop': stop, 'reqs': reqs}}


def corpus():
    R = lambda route, h, local=(), ms=('GET',): {'route': route, 'methods': list(ms), 'h': h, 'local': list(local)}
    q = lambda m, p: {'m': m, 'p': hx(p)}
    A = {'fangs': [1], 'items': [{'mount': '/api', 'app': {'fangs': [2], 'items': [R('/x', 10)]}}, R('/other', 11)]}
    reqs = [q('GET', '/api/x'), q('GET', '/other'), q('GET', '/apix'), q('GET', '/api/y'), q('POST', '/api/x'), q('GET', '/api'), q('DELETE', '/nowhere')]
    B = {'fangs': [1, 2, 3], 'items': [R('/a', 10, local=(7, 8)), {'mount': '/m/:t', 'app': {'fangs': [4, 5], 'items': [R('/', 11), {'mount': '/n', 'app': {'fangs': [6], 'items': [R('/z', 12, local=(9,))]}}]}}]}
    reqsB = [q('GET', '/a'), q('GET', '/m/q'), q('GET', '/m/q/n/z'), q('GET', '/m/q/n/zz'), q('GET', '/m/q/n'), q('GET', '/m'), q('HEAD', '/m/q/n/z')]
    arity = []
    for k in range(1, 9):          # every arity of the fang tuple, through both constructors, with an early answer in the middle
        for via in (False, True):
            app = {'fangs': list(range(1, k + 1)), 'via_new': via, 'items': [R('/x', 10, local=(20, 21, 22)), {'mount': '/m', 'app': {'fangs': list(range(11, 11 + k)), 'via_new': via, 'items': [R('/y', 12)]}}]}
            rq = [q('GET', '/x'), q('GET', '/m/y'), q('GET', '/m/zz'), q('POST', '/nowhere')]
            arity += [{'case': {'app': app, 'stop': None, 'reqs': rq}}, {'case': {'app': app, 'stop': (k + 1) // 2, 'reqs': rq}}, {'case': {'app': app, 'stop': 11 + k // 2, 'reqs': rq}}, {'case': {'app': app, 'stop': 21, 'reqs': rq}}]
    return arity + [{'case': {'app': A, 'stop': None, 'reqs': reqs}},          # was: order C,P and C leaking onto /other and /apix
            {'case': {'app': A, 'stop': 2, 'reqs': reqs}}, {'case': {'app': A, 'stop': 1, 'reqs': reqs}},
            {'case': {'app': B, 'stop': None, 'reqs': reqsB}}, {'case': {'app': B, 'stop': 5, 'reqs': reqsB}}, {'case': {'app': B, 'stop': 8, 'reqs': reqsB}}]


def generate(rng, tier):
    n = 300 if tier == 'quick' else 9000
    out = []
    for _ in range(n):
        ids = appgen.Ids()
        app = appgen.gen_app(rng, ids, fangs=True, local=True)
        if not appgen.flat_routes(app): continue
        out.append(mk(rng, app))
    return out


def would_hit(app, req):
    """handler ids the request may reach (C01's relation): the most-static matching route; [] when none matches"""
    from . import c01
    m = 'GET' if req['m'] == 'HEAD' else req['m']
    routes = [r for r in appgen.flat_routes(app) if m in r[1]]
    segs = appgen.segs_of_path(unhx(req['p']))
    matching = [r for r in routes if appgen.matches(r[0], segs)]
    best = [r for r in matching if all(c01.more_static_ok(r[0], o[0]) for o in matching)]
    cands = [r[2] for r in best]
    if not best or c01.greedy_literal(routes, segs) is None: cands.append(None)     # a statics-first dead end may also be a 404
    return cands


def spec_trace(app, stop, req, out, hid='observed'):
    segs = appgen.segs_of_path(unhx(req['p']))
    chain = appgen.scope_chain(app, segs)
    h = out.get('handler')
    if hid == 'observed': hid = h
    local = next((r[3] for r in appgen.flat_routes(app) if r[2] == hid), []) if hid is not None else []
    seq = chain + local
    tr = []
    for i, f in enumerate(seq):
        tr.append('+%d' % f)
        if f == stop:                    # an early answer: nothing inside runs; the fangs outside still see the way out
            return tr + ['-%d' % g for g in reversed(seq[:i])]
    return tr + (['h%d' % h] if h is not None else []) + ['-%d' % f for f in reversed(seq)]


def judge(case, out, m):
    v = []
    if 'panic' in out: return [('violation', 'panic: ' + out['panic'][:160])]
    mm = m.get('model') if m else None
    if out.get('build') == 'refused' or (mm or {}).get('build') == 'refused':
        if mm is not None and (out.get('build') == 'refused') != (mm.get('build') == 'refused'): v.append(('disagree', f'start-up: impl {out.get("build")} model {mm.get("build")}'))
        return v
    for i, (req, o) in enumerate(zip(case['reqs'], out['reqs'])):
        if 'panic' in o: v.append(('violation', 'panic: ' + o['panic'][:120])); continue
        want = spec_trace(case['app'], case.get('stop'), req, o)
        if o['trace'] != want and o.get('handler') is None and case.get('stop') is not None:
            # a fang answered early, so the handler did not run: the route the request was on its way to is given by C01's relation
            for hid in would_hit(case['app'], req):
                w2 = spec_trace(case['app'], case.get('stop'), req, o, hid=hid)
                if o['trace'] == w2: want = w2
        # "handler-local fangs innermost": the handler the configuration sends the request to must be reached (when no fang answers early),
        # otherwise its local fangs and everything about the hit are missing from the trace although the trace of a miss looks right
        if case.get('stop') is None and req['m'] != 'OPTIONS':
            cands = would_hit(case['app'], req)
            if o.get('handler') not in cands:
                v.append(('violation', f'req {req["m"]} {unhx(req["p"])!r}: handler {o.get("handler")} (status {o.get("status")}), the configuration sends the request to {cands}'))
        if o['trace'] != want:
            v.append(('violation', f'req {req["m"]} {unhx(req["p"])!r} stop={case.get("stop")}: trace {o["trace"]}, the configuration gives {want}'))
        if mm is not None and req['m'] != 'OPTIONS':          # the automatic OPTIONS handlers are modelled in C14; here OPTIONS is judged by the scope statement alone
            x = mm['reqs'][i]
            if x.get('trace') != o.get('trace') or x.get('status') != o.get('status'):
                v.append(('disagree', f'req {req["m"]} {unhx(req["p"])!r}: impl {o.get("status")} {o.get("trace")} model {x.get("status")} {x.get("trace")}'))
            # the tie of theorem C04.scope: its hypotheses (Lean's sideCond, distinct ids) hold for the generated tree, the loop-shaped search
            # agrees with the function the theorem is about, and the theorem's right-hand side (scopeChain) gives the implementation's trace
            if x.get('internal') is False:
                v.append(('disagree', f'req {req["m"]} {unhx(req["p"])!r}: searchP and search (the function of theorem C04.scope) differ'))
            if x.get('scope_hyp') is False:
                v.append(('disagree', f'req {req["m"]} {unhx(req["p"])!r}: the generated tree does not satisfy the hypotheses of theorem C04.scope (Lean sideCond / distinct ids)'))
            elif 'scope_trace' in x and x['scope_trace'] != o.get('trace'):
                v.append(('disagree', f'req {req["m"]} {unhx(req["p"])!r}: impl trace {o.get("trace")}, scopeChain (right-hand side of C04.scope) gives {x["scope_trace"]}'))
    return v[:6]


def nontrivial(case):
    def count(app): return (1 if app['fangs'] else 0) + sum(count(it['app']) if 'mount' in it else (1 if it.get('local') else 0) for it in app['items'])
    return count(case['app']) >= 2


def features(case, out):
    f = ['stop' if case.get('stop') is not None else 'nostop']
    for o in out.get('reqs', []):
        f.append('trace_len_%s' % min(len(o.get('trace', [])) // 4 * 4, 16))
    return f


def shrink(case, still_fails):
    from .common import shrink_list
    c = shrink_list(case, ['reqs'], still_fails)
    return shrink_list(c, ['app', 'items'], still_fails)
