"""C08 — network-facing decoders are total and memory-safe on arbitrary bytes.

impl  : harness C08 (every decoder — URL-encoded forms / query strings, Cookie header into structs and through the iterator, multipart bodies, Set-Cookie parsing,
        percent-decoding of paths, params and queries — on arbitrary bytes, over a family of target types covering the serde entry points; panics are caught, aborts and
        hangs are detected by the orchestrator; yielded strings are re-validated as UTF-8, borrowed slices are checked to point inside the input)
model : Lean models of the URL-encoded reader (`from_bytes_total` proved), the cookie reader and the multipart reader; other kinds are judged on the implementation alone
spec  : outcome is a value or an error — never a panic, abort, overflow or hang; utf8_ok; inside
"""
from .common import hx, unhx
from . import c09, c10, c11

ID = 'C08'
GEN_DEPS = []
CASE_TIMEOUT = 5.0
RULE = ('byte strings (random, grammar-generated and mutated from valid encodings) x decoders (urlencoded into 22 target types: bool, 8 integer widths, i128/u128, f32/f64, char, &str/String/Cow, '
        '&[u8], Option, nested Option, unit, unit struct, enums with unit/newtype/struct variants, newtype, seq, tuple, map, nested struct, IgnoredAny; cookie structs; cookie iterator; multipart structs with '
        'File / Vec<File> / Option<File>; Set-Cookie parsing; percent-decoding of targets and queries); non-trivial = input of at least 3 bytes containing a separator or escape of its format; distinct by canonical JSON')
ASSUMPTIONS = ['target types are the shapes the key=value decoders are for: a struct or map at top level, scalars / options / sequences / unit enums in value position; a map or struct in value position and a scalar at top level are programming errors that the decoders flag with debug assertions (DESIGN 6.0), they are not in the family',
               'a Cookie header value is text (non-UTF-8 header values are refused by the request parser, C02)',
               'panics are caught with catch_unwind per case; an abort or hang kills the executor and is attributed to the case it stopped at']
URL_EXT = list(range(20, 32))
NOISE = b"ab1=&&==,%+2F\xff-;\" \r\n\x00:/?"


def noise(rng, n=None):
    return bytes(rng.choice(NOISE) for _ in range(rng.randrange(0, 24) if n is None else n))


def mutate(rng, b):
    b = bytearray(b)
    for _ in range(rng.choice([1, 1, 2, 4])):
        k = rng.random()
        if not b: b += noise(rng, 3); continue
        if k < 0.3: b[rng.randrange(len(b))] = rng.choice(NOISE)
        elif k < 0.5: del b[rng.randrange(len(b))]
        elif k < 0.7: b.insert(rng.randrange(len(b) + 1), rng.choice(NOISE))
        elif k < 0.85: b = b[:rng.randrange(len(b) + 1)]
        else: b += rng.choice([b'%', b'%F', b'%FF', b'&', b'=', b'; ', b'\r\n--', b'"'])
    return bytes(b)


def mk(rng):
    k = rng.random()
    if k < 0.30:
        tid = rng.choice(list(c09.CAT) + URL_EXT + URL_EXT)
        base = c09.gen_structured(rng, rng.choice(list(c09.CAT))) if rng.random() < 0.7 else noise(rng)
        if tid >= 20 and rng.random() < 0.6:
            base = rng.choice([b'f=1.5&g=-2e10', b'f=nan&g=inf', b'b=%00%FF&c=%F0%9F%98%80', b's=a%20b&t=1,x', b'k=1&u=', b'x=-170141183460469231731687303715884105728&y=340282366920938463463374607431768211455&z=',
                               b'e=A&o=', b'e=B&o=A', b'e=C', b'a=x&b=&v=1,-2,3&w=true,false', b'n=x&o=&ignored=zzz', b'k=v&k2=v2', b'a=b', b'7', b'a=1&a=2', b'=', b'&', b'a', b'a=%', b'a=%F', b'%=%'])
        inp = mutate(rng, base) if rng.random() < 0.6 else base
        case = {'kind': 'url', 'tid': tid, 'input': inp.hex()}
        if tid < 20: case['ty'] = c09.CAT[tid]
        return {'case': case, 'stream': 'url'}
    if k < 0.50:
        c = c11.jar_case(rng)['case']
        inp = unhx(c['input'])
        if rng.random() < 0.7: inp = mutate(rng, inp)
        inp = inp.decode('utf-8', 'replace').encode()
        return {'case': {'kind': 'cookie', 'tid': c['tid'], 'ty': c['ty'], 'input': inp.hex()}, 'stream': 'cookie'}
    if k < 0.58: return {'case': {'kind': 'iter', 'input': mutate(rng, b'a=1; b=2; c=%41').hex()}, 'stream': 'iter'}
    if k < 0.85:
        c = c10.mk(rng)['case']
        inp = unhx(c['input'])
        if len(inp) > 1500: inp = inp[:1500]
        if rng.random() < 0.8: inp = mutate(rng, inp)
        return {'case': {'kind': 'multipart', 'tid': c['tid'], 'fields': c['fields'], 'input': inp.hex()}, 'stream': 'multipart'}
    if k < 0.92: return {'case': {'kind': 'setcookie', 'input': mutate(rng, rng.choice([b'/; Max-Age=abc', b'/; Secure; HttpOnly', b'/a; Expires=x; SameSite=Lax', b'; ', b'=', b'/; Max-Age=99999999999999999999999'])).hex()}, 'stream': 'setcookie'}
    t = b'/' + mutate(rng, rng.choice([b'a/b?x=%41&y=%FF', b'%E3%81%82/%2F', b'a%', b'%zz/%4', b'?=&==', b'a/b/c/d?&&&']))
    t = bytes(x for x in t if x not in b' \r\n') or b'/'
    return {'case': {'kind': 'percent', 'input': t.hex()}, 'stream': 'percent'}


def corpus():
    W = [{'kind': 'url', 'tid': 0, 'ty': c09.CAT[0], 'input': hx('id=1=2&name=x')},                       # was: panic
         {'kind': 'cookie', 'tid': 0, 'ty': c11.CAT[0], 'input': hx('a=%FF')},                            # was: non-UTF-8 String
         {'kind': 'multipart', 'tid': 1, 'fields': c10.FIELDS[1], 'input': c10.encode('XbX', [('title', None, None, b't'), ('doc', '', 'application/octet-stream', b'')]).hex()},   # was: abort
         {'kind': 'multipart', 'tid': 3, 'fields': c10.FIELDS[3], 'input': b'--XbX\r\nContent-Disposition: form-data; name="x"\r\n\r\n--XbX--\r\n'.hex()},                      # was: underflow
         {'kind': 'setcookie', 'input': hx('/; Max-Age=abc')},                                            # was: underflow
         {'kind': 'percent', 'input': hx('/%FF')}]
    W += [{'kind': 'url', 'tid': t, 'input': hx(s)} for t in URL_EXT for s in ('', 'a', 'a=1', 'f=1&g=2', 'b=x&c=y', '=', '&', 'a=1=2', 'a=%')]
    return [{'case': w} for w in W] + edge_cases()


def generate(rng, tier):
    n = 6000 if tier == 'quick' else 200000
    return [mk(rng) for _ in range(n)]


def strings_utf8(o):
    """every {"s": hex} / {"f": hex} in a canonical value is valid UTF-8"""
    if isinstance(o, dict):
        for k, x in o.items():
            if k in ('s', 'f') and isinstance(x, str):
                try: bytes.fromhex(x).decode('utf-8')
                except (UnicodeDecodeError, ValueError): return False
            elif not strings_utf8(x): return False
    elif isinstance(o, list): return all(strings_utf8(x) for x in o)
    return True


EDGE = [b'"', b'""', b'"x', b'x"', b'"""', b'%', b'%4', b'%zz', b'%E7%8B', b'%80', b'%C0%AF', b'=', b';', b'; ', b'&', b',', b',,', b' ', b'', b'%00', b'+', b'\\', b'%22', b'a%FF']


LONG = [('狼' * 40).encode(), b'%E7%8B%BC' * 40, ('é' * 70).encode(), b'a' * 127 + '狼'.encode(), b'a' * 126 + '😀'.encode() * 3, ('日本' * 33).encode(), b'x' * 300]      # long refused texts: error messages that quote them


def long_and_mixed():
    """values / keys longer than any message cap, in multi-byte UTF-8; and multipart forms whose parts share a name across kinds"""
    out = []
    for e in LONG:
        for tmpl in (b'id=%s&name=x', b'name=x&id=%s', b'%s=1&id=2', b'id=1&name=%s'):
            out.append({'case': {'kind': 'url', 'tid': 0, 'ty': c09.CAT[0], 'input': (tmpl % e).hex()}, 'stream': 'long'})
        for tmpl in (b'v=a&n=%s', b'v=a&n=1,%s', b'c=%s&i=1', b'c=x&i=%s', b'w=%s&z=1'):
            tid = {b'v': 4, b'c': 6, b'w': 9}[tmpl[:1]]
            out.append({'case': {'kind': 'url', 'tid': tid, 'ty': c09.CAT[tid], 'input': (tmpl % e).hex()}, 'stream': 'long'})
        for tid in URL_EXT:
            for tmpl in (b'f=%s&g=1', b'e=%s&o=', b'x=%s&y=1&z=', b'k=%s', b'%s=v', b'a=1&b=%s&v=1&w=true', b'n=%s&o='):
                out.append({'case': {'kind': 'url', 'tid': tid, 'input': (tmpl % e).hex()}, 'stream': 'long'})
        for tmpl in (b'a=1; n=%s', b'a=%s; tok=x', b'%s=1'):
            out.append({'case': {'kind': 'cookie', 'tid': 0, 'ty': c11.CAT[0], 'input': (tmpl % e).hex()}, 'stream': 'long'})
        out.append({'case': {'kind': 'setcookie', 'input': (b'/; Max-Age=' + e).hex()}, 'stream': 'long'})
    F = lambda n, fn='f.bin', c=b'data': (n, fn, 'application/octet-stream', c)
    T = lambda n, t=b'text': (n, None, None, t)
    for tid, fields in c10.FIELDS.items():
        names = [f[0] for f in fields] + ['unknown']
        for n in names:
            for parts in ([T(n), F(n)], [F(n), T(n)], [T(n), T(n)], [F(n), F(n), T(n)], [T(n), F(n), F(n)], [T(n), F(n, '', b'')], [F(n, '', b''), T(n)], [T(n, b''), F(n)]):
                out.append({'case': {'kind': 'multipart', 'tid': tid, 'fields': fields, 'input': c10.encode('XbX', parts).hex()}, 'stream': 'mixed-names'})
    return out


def edge_cases():
    out = long_and_mixed()
    for e in EDGE:
        try: e.decode('utf-8')
        except UnicodeDecodeError: continue
        for tmpl in (b'a=%s', b'a=%s; tok=x', b'a=1; tok=%s; n=5', b'a=1; tok=%s', b'%s=1', b'a=1; %s'):
            out.append({'case': {'kind': 'cookie', 'tid': 0, 'ty': c11.CAT[0], 'input': (tmpl % e).hex()}, 'stream': 'edge'})
        for tmpl in (b'id=1&name=%s', b'name=%s&id=1', b'name=%s', b'%s=1&id=2', b'id=%s&name=x'):
            out.append({'case': {'kind': 'url', 'tid': 0, 'ty': c09.CAT[0], 'input': (tmpl % e).hex()}, 'stream': 'edge'})
        for tmpl in (b's=%s&t=x', b'v=%s&n=1', b'v=a,%s&n=1,2', b'c=%s&i=1', b'w=%s&z=1'):
            tid = {b's': 2, b'v': 4, b'c': 6, b'w': 9}[tmpl[:1]]
            out.append({'case': {'kind': 'url', 'tid': tid, 'ty': c09.CAT[tid], 'input': (tmpl % e).hex()}, 'stream': 'edge'})
        out.append({'case': {'kind': 'multipart', 'tid': 3, 'fields': c10.FIELDS[3], 'input': (b'--B\r\nContent-Disposition: form-data; name="x"\r\n\r\n' + e + b'\r\n--B--\r\n').hex()}, 'stream': 'edge'})
        out.append({'case': {'kind': 'multipart', 'tid': 3, 'fields': c10.FIELDS[3], 'input': (b'--B\r\nContent-Disposition: form-data; name=' + e + b'\r\n\r\nv\r\n--B--\r\n').hex()}, 'stream': 'edge'})
        out.append({'case': {'kind': 'percent', 'input': (b'/' + e.replace(b' ', b'')).hex()}, 'stream': 'edge'})
    # degenerate first lines of a multipart body (the boundary is whatever the first line holds): empty, only hyphens, only CR or LF, no line end at all
    part = b'Content-Disposition: form-data; name="x"\r\n\r\nJoe\r\n'
    for first in (b'', b'-', b'--', b'---', b'\r', b' ', b'\x00', b'--\x00'):
        for rest in (b'', b'\r\n', b'\r\n\r\n', b'\r\n' + part, b'\r\n' + part + first + b'--\r\n', b'\r\n' + part + first + b'\r\n' + part + first + b'--', b'\n', b'\r\n\r\n\r\n--'):
            for tid in (1, 3):
                out.append({'case': {'kind': 'multipart', 'tid': tid, 'fields': c10.FIELDS[tid], 'input': (first + rest).hex()}, 'stream': 'edge'})
    return out


def judge(case, out, m):
    v = []
    if 'value' in out and not strings_utf8(out['value']): v.append(('violation', f'{case["kind"]} decoder yielded a string that is not UTF-8 for {unhx(case["input"])[:60]!r}'))
    if 'panic' in out or 'abort' in out or 'hang' in out or out.get('outcome') in ('panic', 'abort'):
        return [('violation', f'{case["kind"]} decoder panicked / aborted / hung on {unhx(case["input"])[:60]!r}: {str(out)[:120]}')]
    oc = out.get('outcome')
    if case['kind'] in ('iter',): oc = 'ok' if 'pairs' in out else oc
    if oc not in ('ok', 'err', 'not-utf8-input'): v.append(('violation', f'{case["kind"]}: outcome {oc!r} is neither a value nor an error'))
    if out.get('utf8_ok') is False: v.append(('violation', f'{case["kind"]} decoder yielded a string that is not UTF-8 for {unhx(case["input"])[:60]!r}'))
    if out.get('inside') is False: v.append(('violation', f'{case["kind"]} decoder yielded a slice outside the input'))
    mm = m.get('model') if m else None
    if mm is not None and not mm.get('nomodel'):
        if case['kind'] == 'url': got = c09.norm_model(case['tid'], mm)
        elif case['kind'] == 'cookie': got = c11.norm_model(case['tid'], mm)
        else: got = mm
        if got != {k: x for k, x in out.items() if k != 'served'}: v.append(('disagree', f'{case["kind"]} {unhx(case["input"])[:80]!r}: impl {str(out)[:160]} model {str(got)[:160]}'))
    return v


def nontrivial(case):
    t = unhx(case['input'])
    return len(t) >= 3 and any(x in t for x in (b'=', b'&', b'%', b';', b'--'))


def features(case, out):
    return ['%s_%s' % (case['kind'], out.get('outcome', 'pairs' if 'pairs' in out else '?'))]
