"""C12 — JWT fang admits exactly the tokens signed with the configured key and valid now.

impl  : harness C12 (an application whose only route is behind the real fang, clock pinned through hook H5; `issue` of the same configuration)
model : Lean `Ohkami.Jwt.verified`, base64url concrete (`B64Url.decode`), HMAC / JSON / clock instantiated from the case
spec  : here — Python's hmac/hashlib (independent MAC), json, fractions: the admission predicate of the property written out directly
"""
import base64, hashlib, hmac, json, re
from fractions import Fraction
from .common import hx, unhx

ID = 'C12'
GEN_DEPS = []
RULE = ('configurations (3 algorithms x secrets x pinned clocks) x tokens: issued by the real `issue`, built and signed here, every kind of mutation (single characters in each part, '
        're-signing with another key/algorithm, alg none, header variations, 0-5 parts, wrong-length / padded / standard-alphabet signatures, non-canonical base64url, arbitrary strings) '
        'and time claims before/at/after now, negative, fractional, non-numeric; non-trivial = a three-part token whose first two parts decode to JSON; distinct by canonical JSON')
ASSUMPTIONS = ['HMAC-SHA2 is a parameter of the model; its values come from Python hmac (independent of the hmac/sha2 crates)',
               'serde_json parsing is a parameter; its values come from Python json on the same bytes (no duplicate keys, no exponents, |numbers| < 2^53 with <= 3 fractional digits so that f64 comparison is exact)',
               'an OPTIONS request is answered 200 by the fang without running the inside (preflight bypass): outside the property, compared with the model only']
DIG = {'HS256': hashlib.sha256, 'HS384': hashlib.sha384, 'HS512': hashlib.sha512}
SECRETS = ['s3cret', 'k', 'another-secret-key', 'ü-key', 'x' * 70, ' s3cret', 's3cret\n', '\ts3cret \r\n', ' ', 'S3CRET']          # a secret is a byte string: surrounding whitespace and letter case are part of it
URL = 'ABCDEFGHIJKLMNOPQRSTUVWXYZabcdefghijklmnopqrstuvwxyz0123456789-_'


def b64u(b): return base64.urlsafe_b64encode(b).rstrip(b'=')


def b64u_strict(s):
    if not re.fullmatch(rb'[A-Za-z0-9_-]*', s) or len(s) % 4 == 1: return None
    d = base64.urlsafe_b64decode(s + b'=' * (-len(s) % 4))
    return d if b64u(d) == s else None


def mac(alg, secret, msg): return hmac.new(secret, msg, DIG[alg]).digest()


def cj(o): return json.dumps(o, separators=(',', ':'), ensure_ascii=False).encode()


def token(alg, secret, header, payload_bytes, sign_alg=None, sign_secret=None):
    h = b64u(cj(header) if not isinstance(header, bytes) else header)
    p = b64u(payload_bytes)
    s = b64u(mac(sign_alg or alg, (sign_secret if sign_secret is not None else secret), h + b'.' + p))
    return h + b'.' + p + b'.' + s


def time_claim(rng, now):
    return rng.choice([now - 1000, now - 1, now, now + 1, now + 1000, -5, 0, now + 0.5, now - 0.5, now + 0.001, 1.5, str(now + 1000), None, True, [now + 1000], 4102444800.5])


def payload_gen(rng, now):
    p = {'sub': rng.choice(['alice', 'bob', '', 'ü', 'x' * 40])}
    r = rng.random()
    if r < 0.45: pass
    elif r < 0.6: p['exp'] = now + rng.choice([1, 60, 100000])
    else:
        for k in ('exp', 'nbf', 'iat'):
            if rng.random() < 0.5: p[k] = time_claim(rng, now)
    if rng.random() < 0.12: p['big'] = rng.choice([0, 7, 2 ** 53 + 1, 2 ** 64 - 1, 2 ** 64, 2 ** 100 + 3, 2 ** 128 - 1])          # an integer claim of the payload type (u128): beyond 64 bits a JSON tree cannot hold it
    if rng.random() < 0.05: p = rng.choice([[1, 2], 'str', 7, {'sub': 7}, {'user': 'x'}, {'sub': 'a', 'extra': {'k': [1]}}, {'sub': 'a', 'big': -1}, {'sub': 'a', 'big': 2 ** 128}, {'sub': 'a', 'big': 'x'}])
    return p


def view_of(decoded):
    """the JSON view the model's `jsonParse` parameter returns for these bytes (None: not JSON)"""
    try:
        def num(s):          # a JSON number is a double or a 64-bit integer for the parser behind the fang: beyond the range of a double it is not a number ("number out of range")
            f = Fraction(s)
            if abs(f) >= Fraction(2) ** 1024: raise ValueError('number out of range')
            return f
        def integer(s):
            if abs(int(s)) >= 2 ** 1024: raise ValueError('number out of range')
            return int(s)
        o = json.loads(decoded.decode('utf-8'), parse_float=num, parse_int=integer, parse_constant=lambda s: (_ for _ in ()).throw(ValueError()))
    except (ValueError, UnicodeDecodeError, RecursionError):
        return None
    def s(k):
        if not isinstance(o, dict) or k not in o: return None
        return {'s': hx(o[k])} if isinstance(o[k], str) else 'nonstr'
    def c(k):
        if not isinstance(o, dict) or k not in o: return None
        x = o[k]
        if isinstance(x, bool) or not isinstance(x, (int, Fraction)): return 'other'
        f = Fraction(x)
        return {'neg': f < 0, 'n': abs(f.numerator), 'd': f.denominator}
    ok = isinstance(o, dict) and isinstance(o.get('sub'), str) and (o.get('big') is None or (isinstance(o['big'], int) and not isinstance(o['big'], bool) and 0 <= o['big'] < 2 ** 128))
    return {'typ': s('typ'), 'cty': s('cty'), 'alg': s('alg'), 'nbf': c('nbf'), 'exp': c('exp'), 'iat': c('iat'), '_ok': ok, '_obj': o}


def mk(alg, secret, now, method, auth, issue=None, kind='built'):
    case = {'alg': alg, 'secret': hx(secret), 'now': now, 'method': method, 'auth': hx(auth) if auth is not None else None,
            'issue': issue, 'macs': {}, 'json': {}, 'from_value': {}, 'kind': kind}
    if auth is not None and auth.startswith(b'Bearer '):
        parts = auth[7:].split(b'.')
        if len(parts) >= 2: case['macs'][hx(parts[0] + b'.' + parts[1])] = hx(mac(alg, secret.encode(), parts[0] + b'.' + parts[1]))
        for i, part in enumerate(parts[:2]):
            d = b64u_strict(part)
            if d is not None:
                v = view_of(d)
                if v is None: case['json'][hx(d)] = None
                else:
                    vv = {k: v[k] for k in ('typ', 'cty', 'alg', 'nbf', 'exp', 'iat')}
                    vv['id'] = i
                    case['json'][hx(d)] = vv
                    case['from_value'][str(i)] = v['_ok']
    return {'case': case}


def mutations(rng, alg, secret, now):
    hdr = {'typ': 'JWT', 'alg': alg}
    pl = payload_gen(rng, now)
    good = token(alg, secret.encode(), hdr, cj(pl))
    r = rng.random()
    if r < 0.22: return good, 'built'
    if r < 0.40:
        i = rng.randrange(len(good))
        return good[:i] + rng.choice(URL + '.=+/').encode() + good[i + 1:], 'char'
    if r < 0.50:
        other = rng.choice([a for a in DIG if a != alg])
        near = rng.choice([secret.strip(), ' ' + secret, secret + '\n', secret.upper(), secret.lower(), secret[:-1], secret + secret[-1:]]).encode()          # a key one step away from the configured one
        return rng.choice([token(alg, secret.encode(), hdr, cj(pl), sign_secret=b'wrong'), token(alg, secret.encode(), hdr, cj(pl), sign_secret=near), token(alg, secret.encode(), hdr, cj(pl), sign_secret=near), token(alg, secret.encode(), hdr, cj(pl), sign_alg=other),
                           token(alg, secret.encode(), {'typ': 'JWT', 'alg': other}, cj(pl), sign_alg=other), token(alg, secret.encode(), {'typ': 'JWT', 'alg': other}, cj(pl))]), 'resign'
    if r < 0.60:
        h2 = rng.choice([{'alg': alg}, {'typ': 'jwt', 'alg': alg}, {'typ': 'JWS', 'alg': alg}, {'typ': 7, 'alg': alg}, {'typ': 'JWT'}, {'typ': 'JWT', 'alg': 'none'}, {'typ': 'JWT', 'alg': alg.lower()},
                         {'typ': 'JWT', 'alg': alg, 'cty': 'JWT'}, {'typ': 'JWT', 'alg': alg, 'cty': 'x'}, {'typ': 'JWT', 'alg': [alg]}, [alg], b'not json', b'{"alg":"' + alg.encode() + b'"} '])
        return token(alg, secret.encode(), h2, cj(pl)), 'header'
    if r < 0.70:
        ps = good.split(b'.')
        return rng.choice([b'', b'.', b'..', ps[0], ps[0] + b'.' + ps[1], ps[0] + b'.' + ps[1] + b'.', good + b'.', good + b'.junk', good + b'..', b'.' + good, ps[0] + b'..' + ps[2], ps[1] + b'.' + ps[0] + b'.' + ps[2]]), 'parts'
    if r < 0.80:
        ps = good.split(b'.')
        sig = b64u_strict(ps[2])
        return ps[0] + b'.' + ps[1] + b'.' + rng.choice([b64u(sig[:16]), b64u(sig + b'\x00'), ps[2] + b'=', ps[2] + b'A', ps[2][:-1], base64.b64encode(sig).rstrip(b'='), base64.b64encode(sig), b'', b64u(sig[::-1]),
                                                          ps[2][:-1] + URL[(URL.index(chr(ps[2][-1])) + 1) % 64].encode()]), 'sig'
    if r < 0.88:
        pl2 = payload_gen(rng, now)
        ps = good.split(b'.')
        return ps[0] + b'.' + b64u(cj(pl2)) + b'.' + ps[2], 'swap'
    if r < 0.94: return token(alg, secret.encode(), hdr, rng.choice([b'not json', b'{"sub":"a"', b'', b'null', b'{"sub":"a","exp":1e400}'.replace(b'1e400', b'12')])), 'payload'
    return bytes(rng.choice((URL + '. ').encode()) for _ in range(rng.randrange(0, 30))), 'noise'


def corpus():
    now = 1700000000
    A, S = 'HS256', 's3cret'
    hdr = {'typ': 'JWT', 'alg': A}
    t = lambda pl: b'Bearer ' + token(A, S.encode(), hdr, cj(pl))
    good = token(A, S.encode(), hdr, cj({'sub': 'a'}))
    return [mk(A, S, now, 'GET', t({'sub': 'a', 'exp': -5})),             # was: admitted (negative exp treated as absent)
            mk(A, S, now, 'GET', b'Bearer ' + good + b'.junk'),            # was: admitted (fourth part ignored)
            mk(A, S, now, 'GET', t({'sub': 'a', 'exp': now + 0.5})), mk(A, S, now, 'GET', t({'sub': 'a', 'exp': now})), mk(A, S, now, 'GET', t({'sub': 'a', 'exp': now + 1})),
            mk(A, S, now, 'GET', t({'sub': 'a', 'nbf': now})), mk(A, S, now, 'GET', t({'sub': 'a', 'nbf': now + 1})), mk(A, S, now, 'GET', t({'sub': 'a', 'iat': now + 1})),
            mk(A, S, now, 'GET', t({'sub': 'a', 'exp': str(now + 9)})), mk(A, S, now, 'GET', b'Bearer ' + good), mk(A, S, now, 'GET', None), mk(A, S, now, 'OPTIONS', None),
            mk(A, S, now, 'GET', good), mk(A, S, now, 'GET', b'bearer ' + good), mk(A, S, now, 'GET', None, issue={'sub': 'alice', 'exp': now + 60}, kind='issued'),
            mk(A, S, now, 'GET', None, issue={'sub': 'alice', 'big': str(2 ** 128 - 1)}, kind='issued'),             # was: a token issued by the configuration itself refused with 500 (the typed payload was read through serde_json::Value)
            mk(A, S, now, 'GET', t({'sub': 'a', 'big': 2 ** 64})), mk(A, S, now, 'GET', t({'sub': 'a', 'big': 2 ** 128}))]


def generate(rng, tier):
    n = 3000 if tier == 'quick' else 80000
    out = []
    for _ in range(n):
        alg, secret, now = rng.choice(list(DIG)), rng.choice(SECRETS), rng.choice([1700000000, 1, 4102444800, 253402300000])
        r = rng.random()
        if r < 0.12:
            pl = {'sub': rng.choice(['alice', '', 'ü'])}
            if rng.random() < 0.5: pl['exp'] = now + rng.choice([1, 1000])
            if rng.random() < 0.3: pl['nbf'] = now - rng.choice([0, 5])
            if rng.random() < 0.3: pl['iat'] = now
            if rng.random() < 0.3: pl['big'] = str(rng.choice([0, 7, 2 ** 64 - 1, 2 ** 64, 2 ** 100 + 3, 2 ** 128 - 1]))          # (decimal text in the case; the executor puts the number into the payload it issues)
            out.append(mk(alg, secret, now, 'GET', None, issue=pl, kind='issued'))
        elif r < 0.15: out.append(mk(alg, secret, now, 'OPTIONS', rng.choice([None, b'Bearer x.y.z']), kind='options'))
        elif r < 0.18: out.append(mk(alg, secret, now, 'GET', rng.choice([None, b'', b'Bearer', b'Bearer ', b'Basic dTpw', b'Token abc']), kind='noauth'))
        else:
            tok, kind = mutations(rng, alg, secret, now)
            out.append(mk(alg, secret, now, 'GET', b'Bearer ' + tok, kind=kind))
        c = out[-1]['case']
        if c['method'] == 'GET' and rng.random() < 0.25 and (c['issue'] is not None or (c['auth'] is not None and unhx(c['auth']).startswith(b'Bearer ') and unhx(c['auth'])[7:].isascii()
                                                                                         and not any(ch in unhx(c['auth'])[7:] for ch in b'\r\n') and unhx(c['auth'])[7:].strip() == unhx(c['auth'])[7:] and unhx(c['auth'])[7:])):
            # the configuration with `get_token_by`: the same token text travels in X-Api-Token; sometimes a token issued by the configuration sits in Authorization, where it must not be looked for
            c['getter'] = 'x'; c['decoy'] = rng.random() < 0.4
        elif c['method'] == 'GET' and c['auth'] is None and c['issue'] is None and rng.random() < 0.5: c['getter'] = 'x'; c['decoy'] = True      # no token where the configuration looks, a valid one elsewhere
    return out


# ------------------------------------------------------------------------------------------------ spec
def admits(case, auth):
    """the property's admission predicate, written out with Python's own primitives; returns the payload object or None"""
    alg, secret, now = case['alg'], unhx(case['secret']), case['now']
    if auth is None or not auth.startswith(b'Bearer '): return None
    parts = auth[7:].split(b'.')
    if len(parts) != 3: return None
    h, p, s = (b64u_strict(x) for x in parts)
    if h is None or p is None or s is None: return None
    hv, pv = view_of(h), view_of(p)
    if hv is None or pv is None: return None
    ho, po = hv['_obj'], pv['_obj']
    if not isinstance(ho, dict) or ho.get('alg') != alg: return None
    for k in ('typ', 'cty'):
        if k in ho and not (isinstance(ho[k], str) and ho[k].lower() == 'jwt'): return None
    if not hmac.compare_digest(s, mac(alg, secret, parts[0] + b'.' + parts[1])): return None
    if isinstance(po, dict):
        for k, bad in (('nbf', lambda t: t > now), ('exp', lambda t: t <= now), ('iat', lambda t: t > now)):
            if k in po:
                x = po[k]
                if isinstance(x, bool) or not isinstance(x, (int, Fraction)) or bad(Fraction(x)): return None
    if not pv['_ok']: return 'undeserializable'
    return po


def canon_payload(o):
    if not isinstance(o, dict): return o
    out = {'sub': o.get('sub')}
    if o.get('big') is not None: out['big'] = int(o['big'])
    for k in ('exp', 'nbf', 'iat'):
        if k in o and o[k] is not None: out[k] = float(o[k]) if isinstance(o[k], Fraction) else o[k]
    return out


def spec_check(case, out):
    if 'panic' in out: return 'panic: ' + out['panic'][:120]
    if 'seen' not in out: out['seen'] = json.loads(out['seen_text']) if out.get('seen_text') is not None else None
    if case['method'] == 'OPTIONS': return 'handler ran on an OPTIONS request without a token' if out['ran'] and case['auth'] is None else None
    if case.get('issue') is not None:
        if not out['ran']: return f'a token issued by the same configuration is refused (status {out["status"]})'
        if canon_payload(out['seen']) != canon_payload(case['issue']): return f'handler saw {out["seen"]}, issued payload was {case["issue"]}'
        return None
    auth = unhx(case['auth']) if case['auth'] is not None else None
    want = admits(case, auth)
    if out['ran']:
        if want is None or want == 'undeserializable': return 'the handler ran for a token the property does not admit'
        if canon_payload(out['seen']) != canon_payload(want): return f'handler saw {out["seen"]}, signed payload is {want}'
    else:
        if want is not None and want != 'undeserializable': return f'a correctly signed, currently valid token was refused (status {out["status"]})'
        if not (400 <= out['status'] <= 599): return f'refused with status {out["status"]}'
    return None


def judge(case, out, m):
    v = []
    bad = spec_check(case, out)
    if bad: v.append(('violation', bad))
    if m is not None and case.get('issue') is None:
        mm = m.get('model', {})
        if mm.get('ran') != out.get('ran') or mm.get('status') != out.get('status'):
            v.append(('disagree', f'impl ran={out.get("ran")} status={out.get("status")} model {mm}'))
    return v


def nontrivial(case):
    if case.get('issue') is not None: return True
    return len(case['json']) >= 2 and case['auth'] is not None and unhx(case['auth']).count(b'.') == 2


def features(case, out):
    return ['kind_' + case.get('kind', '?'), 'admitted' if out.get('ran') else 'status_%s' % out.get('status'), case['alg']]
