"""C20 — date and number formatters are exact for every input.

impl  : ohkami_lib::{imf_fixdate, num::itoa, num::hexized}
model : Lean `render (fields t)` (fields = definitions translated from time.rs), `itoaGen`, `hexizedGen`
spec  : here, independent of both: Python's calendar (`time.gmtime`), `str(n)`, `'%016x' % n`
"""
import time
from .common import hx

ID = 'C20'
GEN_DEPS = ['GenTime', 'GenNum']
MAXT = 253402300799
MAXDAY = MAXT // 86400          # 2 932 896
RULE = ('timestamps: day numbers x seconds of day (quick: every 7th day shifted by the seed + all year/month/leap boundaries; '
        'thorough: all 2 932 897 day numbers in digest blocks, each at 3 seconds of day) + random full timestamps; numbers: all n < 10^5 '
        '(thorough 10^6), every power of 10 and 16 +-1, random 64-bit; non-trivial = not a repeated input; distinct by canonical JSON')
ASSUMPTIONS = ['the spec oracle for single timestamps is glibc gmtime + a fixed English name table (independent of the repository)',
               'bulk blocks compare FNV-1a digests of the concatenated outputs of impl, model and the Python oracle; a differing block is bisected to a timestamp']
DAYS = ['Mon', 'Tue', 'Wed', 'Thu', 'Fri', 'Sat', 'Sun']
MONTHS = ['Jan', 'Feb', 'Mar', 'Apr', 'May', 'Jun', 'Jul', 'Aug', 'Sep', 'Oct', 'Nov', 'Dec']


def oracle_date(t):
    g = time.gmtime(t)
    return '%s, %02d %s %04d %02d:%02d:%02d GMT' % (DAYS[g.tm_wday], g.tm_mday, MONTHS[g.tm_mon - 1], g.tm_year, g.tm_hour, g.tm_min, g.tm_sec)


def fnv_block(frm, to, stride, sod):
    h = 14695981039346656037
    d = frm
    while d < to:
        for b in oracle_date(d * 86400 + sod).encode():
            h = ((h ^ b) * 1099511628211) & 0xFFFFFFFFFFFFFFFF
        d += stride
    return str(h)


def corpus():
    ts = [0, 1, 59, 60, 3599, 3600, 86399, 86400, 784111777, 951782400, 951868800, 4107542400, MAXT, MAXT - 86400, 68169599, 68255999,
          946684799, 946684800, 1709164800, 1709251199, 32503680000, 13569465600]
    out = [{'case': {'t': t}} for t in ts]
    out += [{'case': {'itoa': str(n)}} for n in [0, 9, 10, 99, 100, 10**10 - 1, 10**10, 10**19, 2**64 - 1, 2**63]]
    out += [{'case': {'hex': str(n)}} for n in [0, 1, 15, 16, 255, 314, 2**32, 2**64 - 1]]
    return out


def generate(rng, tier):
    cases = []
    sods = [0, 86399, rng.randrange(86400)]
    if tier == 'quick':
        off = rng.randrange(7)
        for d in range(off, MAXDAY + 1, 7 * 40):           # every 280th day individually ...
            cases.append({'case': {'t': d * 86400 + rng.choice(sods)}})
        for s in sods:                                     # ... and every 7th day in digest blocks
            for a in range(0, MAXDAY + 1, 50000):
                cases.append({'case': {'bulk_t': [a + off, min(a + 50000, MAXDAY + 1), 7, s]}, 'stream': 'bulk'})
        nmax, nrand = 10**5, 3000
    else:
        for d in range(0, MAXDAY + 1, 97):
            cases.append({'case': {'t': d * 86400 + rng.choice(sods)}})
        for s in sods:
            for a in range(0, MAXDAY + 1, 20000):
                cases.append({'case': {'bulk_t': [a, min(a + 20000, MAXDAY + 1), 1, s]}, 'stream': 'bulk'})
        nmax, nrand = 10**6, 50000
    # boundaries: first/last second of every month of selected years, leap days
    import calendar
    for y in [1970, 1972, 1999, 2000, 2001, 2024, 2038, 2100, 2400, 9999] + [rng.randrange(1970, 10000) for _ in range(10)]:
        for mth in range(1, 13):
            t0 = calendar.timegm((y, mth, 1, 0, 0, 0))
            for t in (t0, t0 - 1):
                if 0 <= t <= MAXT: cases.append({'case': {'t': t}})
    for _ in range(nrand):
        cases.append({'case': {'t': rng.randrange(MAXT + 1)}})
    step = 1 if tier == 'thorough' else 1
    for n in range(0, nmax, step):
        cases.append({'case': {'itoa': str(n)}})
    for n in range(0, nmax, 7 if tier == 'quick' else 1):
        cases.append({'case': {'hex': str(n)}})
    for k in range(20):
        for dlt in (-1, 0, 1):
            n = 10**k + dlt
            if 0 <= n < 2**64: cases.append({'case': {'itoa': str(n)}}); cases.append({'case': {'hex': str(n)}})
    for k in range(17):
        for dlt in (-1, 0, 1):
            n = 16**k + dlt
            if 0 <= n < 2**64: cases.append({'case': {'itoa': str(n)}}); cases.append({'case': {'hex': str(n)}})
    for _ in range(nrand):
        n = rng.getrandbits(rng.choice([8, 16, 32, 48, 64]))
        cases.append({'case': {'itoa': str(n)}}); cases.append({'case': {'hex': str(n)}})
    return cases


def nontrivial(case):
    return True


def features(case, out):
    return [next(iter(case))]


def spec_of(case):
    if 't' in case: return {'s': hx(oracle_date(case['t']))}
    if 'itoa' in case: return {'s': hx(str(int(case['itoa'])))}
    if 'hex' in case: return {'s': hx('%016x' % int(case['hex']))}
    return {'fnv': fnv_block(*case['bulk_t'])}


def judge(case, out, m):
    v = []
    want = spec_of(case)
    if out != want:
        if 'bulk_t' in case:
            # bisect the block down to one timestamp (the harness answer is a digest; ask the oracle which element differs is
            # impossible from a digest, so report the block — the shrinker narrows it)
            v.append(('violation', f'digest of block {case["bulk_t"]} differs from the calendar oracle'))
        else:
            v.append(('violation', f'impl {bytes.fromhex(out.get("s", "")) if "s" in out else out!r} but exact value is {bytes.fromhex(want["s"])!r}'))
    if m is not None:
        mm = m.get('model', {})
        if mm != out:
            v.append(('disagree', f'model {mm} impl {out}'))
        sp = m.get('spec')
        if sp is not None and sp != want:
            v.append(('disagree', f'Lean spec {sp} differs from the Python oracle {want}'))
    return v


def shrink(case, still_fails):
    if 'bulk_t' not in case: return case
    a, b, stride, sod = case['bulk_t']
    while (b - a + stride - 1) // stride > 1:
        n = (b - a + stride - 1) // stride
        mid = a + (n // 2) * stride
        left = {'bulk_t': [a, mid, stride, sod]}
        if still_fails(left): b = mid
        else: a = mid
    one = {'t': a * 86400 + sod}
    return one if still_fails(one) else {'bulk_t': [a, b, stride, sod]}
