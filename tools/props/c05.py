"""C05 — requests on a keep-alive connection are handled independently and in order (partial).

impl  : harness C05 (a mirror of the session loop — clear, read, handle, send through hooks H2 — over a scripted in-memory connection, against a
        fixed echo application whose body lists everything a handler can observe, incl. a per-request context entry set by a fang)
model : Lean `Ohkami.Session.run` with `EchoApp` (the same loop over the parser model and the response model)
spec  : here — metamorphic, on the implementation itself: the k-th response of the session equals the response the same request gets as the only
        request of a fresh connection; in request order; nothing after the first `Connection: close`
What the model cannot exhibit: real TCP, the keep-alive timer, task scheduling (DESIGN section 6).
"""
from .common import hx, unhx
from . import reqgen

ID = 'C05'
GEN_DEPS = ['GenReqHeaders', 'GenResHeaders', 'GenStatus', 'GenConsts', 'GenSession']
RULE = ('histories of 1-8 requests on one connection, each delivered as one segment (mixed methods, routes with 0-2 params, header sets incl. a context-setting header, bodies of any bytes incl. NUL and '
        'request look-alikes, sizes 1-3000 around the 1 KiB buffer, refused requests in between, Connection: close anywhere); non-trivial = at least 2 requests of which an earlier one has a header, body, '
        'param or context entry that a later one lacks; distinct by canonical JSON')
ASSUMPTIONS = ['one segment per request; a segment longer than the buffer is delivered over consecutive reads; the head fits the 1 KiB buffer (C06 treats other segmentations)',
               'the harness mirrors the 15-line session loop through the hooks over a scripted in-memory connection (exact control of what each read returns); 40 % of the cases also go through the real Session::manage over a loopback TCP connection (hook H6), one write per request, waiting for the answer']


def mk(rng):
    n = rng.choice([1, 2, 3, 5, 8])
    close_at = rng.randrange(n * 2)
    script = []
    for i in range(n):
        if rng.random() < 0.1: script.append(reqgen.malformed(rng)); continue
        h, b = reqgen.request(rng, close=(i == close_at))
        if len(h) > 1024: continue
        script.append(h + b)
    return {'case': {'script': [s.hex() for s in script], 'eof': True, 'fresh': True, 'real': rng.random() < 0.4}}


def corpus():
    r1 = b'POST /a HTTP/1.1\r\nX-A: 1\r\nX-Ctx: secret\r\nContent-Length: 5\r\n\r\n\x00bcde'
    r2 = b'GET / HTTP/1.1\r\n\r\n'
    r3 = b'GET /p/q HTTP/1.1\r\nConnection: close\r\n\r\n'
    big = b'PUT /a/b HTTP/1.1\r\nContent-Length: 3000\r\n\r\n' + bytes(range(256)) * 11 + bytes(184)
    return [{'case': {'script': [hx(r1), hx(r2)], 'eof': True, 'fresh': True, 'real': True}},
            {'case': {'script': [hx(r1), hx(r2), hx(r3), hx(r2)], 'eof': True, 'fresh': True, 'real': True}},
            {'case': {'script': [hx(big), hx(r2), hx(big), hx(r1)], 'eof': True, 'fresh': True, 'real': True}},
            {'case': {'script': [hx(b'GET x HTTP/1.1\r\n\r\n'), hx(r1), hx(r2)], 'eof': True, 'fresh': True, 'real': True}},
            # was: the value a fang wrote into the public field `ip` for one request was still there for the next
            {'case': {'script': [hx(b'GET /a HTTP/1.1\r\nX-Set-Ip: 203.0.113.9\r\n\r\n'), hx(r2), hx(b'GET /b HTTP/1.1\r\nX-Set-Ip: 2001:db8::7\r\n\r\n'), hx(r2)], 'eof': True, 'fresh': True, 'real': True}},
            # was: the Keep-Alive timeout bounded the life of the session, handler and response included (real time, OHKAMI_KEEPALIVE_TIMEOUT=2)
            {'case': {'timed': True}}]


def generate(rng, tier):
    n = 800 if tier == 'quick' else 25000
    return [mk(rng) for _ in range(n)]


def asks_close(raw):
    """the request's own words, read independently of the implementation: a Connection field one of whose comma-separated, case-insensitive options is `close`"""
    head = raw.split(b'\r\n\r\n', 1)[0].split(b'\r\n')[1:]
    vals = [l.split(b': ', 1)[1] for l in head if l.lower().startswith(b'connection: ')]
    return any(o.strip().lower() == b'close' for v in vals for o in v.split(b','))


def against_fresh(res, fresh, who, script=None):
    """the property on one observed response list: k-th response = what the same request gets alone, in order, nothing after Connection: close"""
    v, k = [], 0
    for i, f in enumerate(fresh):
        if 'panic' in f: v.append(('violation', f'request {i + 1} alone panics')); break
        fr = f['responses']
        if k >= len(res):
            if fr: v.append(('violation', f'{who}: request {i + 1} got no response on the shared connection; alone it is answered'))
            break
        if not fr:            # the request alone is not answered (unknown method ...): the session ends there
            break
        if res[k] != fr[0]:
            v.append(('violation', f'{who}: response {k + 1} differs from the response the same request gets on a fresh connection: {unhx(res[k])[-160:]!r} vs {unhx(fr[0])[-160:]!r}'))
            break
        k += 1
        if script is not None and i < len(script) and fr and unhx(fr[0])[9:12] not in (b'400', b'413', b'501', b'505') and asks_close(unhx(script[i])) and f['end'] != 'closed_by_server':
            v.append(('violation', f'{who}: request {i + 1} carries Connection: close (as one of its options, in some letter case) and the session went on after its response'))
            break
        if f['end'] == 'closed_by_server':
            if len(res) > k: v.append(('violation', f'{who}: responses were written after the Connection: close response'))
            break
    return v


def judge_timed(out):
    """the session loop in real time (OHKAMI_KEEPALIVE_TIMEOUT=2): a request that comes within the Keep-Alive timeout of the previous response is answered as it
    would be alone, however old the session is and however long its handler takes"""
    t = out.get('timed')
    if not t: return [('violation', f'the timed scenarios did not run: {str(out)[:160]}')]
    v = []
    def answers(name): return unhx(t[name]['all']).count(b'HTTP/1.1 200 OK\r\n'), unhx(t[name]['all'])
    n, raw = answers('keepalive')
    if n != 4 or raw.count(b'\r\n\r\nroot') != 4: v.append(('violation', f'four requests 0.9 s apart on one connection (Keep-Alive timeout 2 s): {n} answered; alone each is answered 200 "root"'))
    n, raw = answers('slow')
    if n != 1 or not raw.endswith(b'slow'): v.append(('violation', f'a request whose handler takes 3 s (Keep-Alive timeout 2 s) got {raw[-60:]!r}; alone on a fresh connection it IS this case: the answer is 200 "slow"'))
    n, raw = answers('idle')
    if n != 1: v.append(('violation', f'a single request got {n} answers'))
    return v


def judge(case, out, m):
    if 'panic' in out: return [('violation', 'panic: ' + out['panic'][:160])]
    if case.get('timed'): return judge_timed(out)
    res = out['responses']
    fresh = out.get('fresh', [])
    v = against_fresh(res, fresh, 'session loop (mirror over the hooks)', case.get('script'))
    if 'real' in out:
        if 'panic' in out['real']: v.append(('violation', 'the real session loop panicked: ' + str(out['real'])[:160]))
        elif unhx(out['real']['all']) != b''.join(unhx(r) for r in res) and not v:
            # the mirror's responses were just judged request by request; the real loop must write exactly their concatenation
            a, b = unhx(out['real']['all']), b''.join(unhx(r) for r in res)
            i = next((i for i, (x, y) in enumerate(zip(a, b)) if x != y), min(len(a), len(b)))
            v.append(('violation', f'Session::manage over loopback TCP writes {len(a)} bytes, request by request the answers are {len(b)} bytes; first difference at byte {i}: {a[max(0, i - 60):i + 80]!r} vs {b[max(0, i - 60):i + 80]!r}'))
    if m is not None:
        mm = m.get('model', {})
        if mm.get('responses') != res or mm.get('end') != out.get('end'):
            i = next((i for i, (a, b) in enumerate(zip(mm.get('responses', []), res)) if a != b), min(len(res), len(mm.get('responses', []))))
            v.append(('disagree', f'session differs at response {i + 1}: impl end={out.get("end")} n={len(res)} model end={mm.get("end")} n={len(mm.get("responses", []))}'))
    return v


def nontrivial(case):
    if case.get('timed'): return True
    return len(case['script']) >= 2 and any(b'X-' in unhx(s) or b'Content-Length' in unhx(s) for s in case['script'][:-1])


def features(case, out):
    if case.get('timed'): return ['timed']
    return ['n_%d' % len(case['script']), 'end_' + str(out.get('end'))] + ['resp_%s' % unhx(r)[9:12].decode() for r in out.get('responses', [])]


def shrink(case, still_fails):
    from .common import shrink_list
    if case.get('timed'): return case
    return shrink_list(case, ['script'], still_fails)
