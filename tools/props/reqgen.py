"""request generator shared by C05 / C06 (an echo application answers `/`, `/:a`, `/:a/:b`)"""
METHODS = ['GET', 'PUT', 'POST', 'PATCH', 'DELETE', 'HEAD']
STANDARD = [('Expect', '100-continue'), ('Expect', '100-continue'), ('Accept-Encoding', 'gzip, br'), ('Accept-Language', 'en'), ('If-None-Match', '"x"'), ('If-Modified-Since', 'Sun, 06 Nov 1994 08:49:37 GMT'),
            ('Range', 'bytes=0-1'), ('Content-Type', 'text/plain'), ('Content-Type', 'application/json'), ('Origin', 'http://o.example'), ('Referer', 'http://r.example/'), ('Authorization', 'Bearer abc'),
            ('Cache-Control', 'no-cache'), ('Pragma', 'no-cache'), ('TE', 'trailers'), ('Via', '1.1 p'), ('X-Forwarded-For', '10.0.0.1'), ('Keep-Alive', 'timeout=5'), ('Upgrade-Insecure-Requests', '1'),
            ('Content-Encoding', 'identity'), ('Trailer', 'X-T'), ('Max-Forwards', '1'), ('DNT', '1'), ('Sec-Fetch-Mode', 'cors'), ('Transfer-Encoding', 'identity'), ('Upgrade', 'h2c'), ('Date', 'Sun, 06 Nov 1994 08:49:37 GMT'),
            ('Forwarded', 'for=1'), ('If-Match', '*'), ('Link', '<a>'), ('Access-Control-Request-Method', 'PUT'), ('Proxy-Authorization', 'Basic eA==')]


def request(rng, close=False, big=False):
    path = rng.choice(['/', '/a', '/a/b', '/x%20y', '/a/b/c', '/%E3%81%82/z', '/a/', '//'])
    q = rng.choice(['', '', '?k=v', '?a=%41&b=', '?x'])
    if rng.random() < 0.25: q = '?token=abc123&mode=full&page=2&' + '&'.join('k%d=%s' % (i, 'v' * rng.choice([1, 5, 12])) for i in range(rng.choice([1, 3, 8])))      # a long query: its region of the reused buffer later holds other requests' header lines
    m = rng.choice(METHODS)
    hs = []
    for _ in range(rng.choice([0, 1, 2, 4])):
        hs.append(rng.choice([('X-A', '1'), ('X-A', 'two'), ('X-B', 'b' * rng.choice([1, 30])), ('X-Ctx', 'ctx%d' % rng.randrange(100)), ('Host', 'h.example'), ('accept', 'a/b'), ('Accept', 'c/d'),
                              ('Cookie', 'a=1; b=2'), ('Cookie', 'sid=1'), ('X-Eq', 'p=q&r=s=t'), ('x-lower', 'l'), ('User-Agent', 'u' * rng.choice([3, 200]))]))
    if rng.random() < 0.12 and not close and not big:          # a client that sends custom headers only, not even Host (the standard-header table of the request stays empty)
        hs = [rng.choice([('X-A', '1'), ('X-A', 'two'), ('X-B', 'b'), ('x-lower', 'l'), ('X-Ctx', 'ctx%d' % rng.randrange(100))]) for _ in range(rng.choice([1, 2, 3]))]
        head = f'{rng.choice(["GET", "DELETE", "HEAD"])} {rng.choice(["/", "/a", "/a/b"])}{q} HTTP/1.1\r\n' + ''.join(f'{k}: {v}\r\n' for k, v in hs) + '\r\n'
        return head.encode(), b''
    if rng.random() < 0.3:          # standard request headers, those about connection handling and body delivery among them
        hs.insert(rng.randrange(len(hs) + 1), rng.choice(STANDARD))
    if big: hs.append(('X-B', 'p' * rng.choice([600, 900])))
    body = b''
    if (m in ('POST', 'PUT', 'PATCH') and rng.random() < 0.8) or rng.random() < 0.15:          # any method may carry a body (GET / HEAD / DELETE too)
        n = rng.choice([1, 3, 17, 200, 900, 1100, 3000])
        body = bytes(rng.randrange(256) for _ in range(n))
        if rng.random() < 0.25: body = b'\x00' + body[1:]
        if rng.random() < 0.1: body = b'GET / HTTP/1.1\r\n\r\n'[:n].ljust(n, b'x')       # a body that looks like a request
        hs.insert(rng.randrange(len(hs) + 1), ('Content-Length', ('0' * rng.choice([1, 8, 12, 25]) if rng.random() < 0.08 else '') + str(len(body))))          # 1*DIGIT: any number of leading zeros
    if close:
        hs.append(('Connection', rng.choice(['close', 'Close', 'close', 'CLOSE', 'cLoSe', 'close, TE', 'keep-alive, close', 'TE,close', ' close', 'Upgrade,  Close ,TE'])))          # a list of case-insensitive options
        if rng.random() < 0.3: hs.insert(0, ('X-Scrub', '1'))          # the echo application's Scrub fang then removes `Connection` from the request after the handler
    elif rng.random() < 0.1: hs.append(('Connection', rng.choice(['keep-alive', 'keep-alive', 'Keep-Alive, TE', 'closed', 'close-notify', 'TE, disclose'])))          # not `close`
    if rng.random() < 0.08: hs.insert(rng.randrange(len(hs) + 1), ('X-Set-Ip', rng.choice(['10.1.2.3', '203.0.113.9', '2001:db8::7'])))          # the context fang then overwrites the public field `ip` for this request
    if rng.random() < 0.12: hs.insert(rng.randrange(len(hs) + 1), ('X-Res-Conn', rng.choice(['keep-alive', 'keep-alive', 'close', 'Keep-Alive, Upgrade'])))          # the Scrub fang then writes this Connection field on the response
    head = f'{m} {path}{q} HTTP/1.1\r\n' + ''.join(f'{k}: {v}\r\n' for k, v in hs) + '\r\n'
    return head.encode(), body


def malformed(rng):
    return rng.choice([b'GET x HTTP/1.1\r\n\r\n', b'GET / HTTP/1.0\r\n\r\n', b'GET /a HTTP/1.1\r\nBad\r\n\r\n', b'POST /a HTTP/1.1\r\nContent-Length: abc\r\n\r\n', b'POST /a HTTP/1.1\r\nContent-Length: 4294967296\r\n\r\n'])
