"""C10 — multipart/form-data bodies decode to exactly the submitted fields and files.

impl  : harness C10 (`serde_multipart::from_bytes` into catalogue structs with text fields, File, Vec<File>, Option<File>)
model : Lean `Ohkami.Multipart.fromBytes` (parser over byte_reader primitives, `next`, field decoding)
spec  : here — forms are encoded by an RFC 7578 encoder written here (independent of the repository and of the model), with and without optional part
        headers; the decoded struct must be the form read off directly: text values, per file the filename / media type / byte-exact content, same-name files
        in submission order, empty file input = absent / empty, shape mismatch = error
"""
import re
from .common import hx, unhx

ID = 'C10'
GEN_DEPS = []
RULE = ('forms for 4 catalogue structs (text fields, Option<String>, File, Option<File>, Vec<File>): 0-5 files under one name, empty files, contents with CR / LF / CRLF / "--" / NUL / high bytes / '
        'near-miss delimiters, Unicode names and filenames, any boundary token, optional part headers (Content-Type on text parts, extra headers, header-name case), fields in any order, unknown fields, '
        'shape mismatches (two files into File, text into File, file into text), plus mutated bodies; non-trivial = a file part with awkward content or >= 2 files or optional headers')
ASSUMPTIONS = ['the delimiter (CRLF "--" boundary, RFC 2046 5.1.1) occurs nowhere inside a part content, i.e. "--" boundary starts no line of it (hypothesis Fits of parse_encode); in the middle of a line it is content',
               'a file part without a Content-Type is text/plain (RFC 7578 4.4)']
FIELDS = {0: [['note', 'optText', False], ['f', 'optFile', False], ['fs', 'files', True]],
          1: [['title', 'text', False], ['doc', 'file', False]],
          2: [['a', 'text', False], ['b', 'text', False], ['pics', 'files', False]],
          3: [['x', 'text', False], ['y', 'optText', False]],
          4: [['user-name', 'text', False], ['pet photos', 'files', False], ['ü', 'optText', False], ['a.b[0]', 'optFile', False]]}          # names that are not identifiers (serde rename)
MIMES = ['application/octet-stream', 'image/png', 'text/plain', 'text/plain; charset=utf-8', 'application/pdf', 'multipart/related', 'multipart/signed; micalg=sha-256', 'multipart/byteranges', 'message/rfc822',
         'application/x-www-form-urlencoded', 'multipart/form-data', 'MULTIPART/MIXEDX', 'x/y; a=b; c="d;e"']          # any media type (a part of type multipart/mixed itself is a nested multipart, which RFC 7578 deprecates: not generated)


def DELIM(boundary):
    return b'\r\n--' + boundary.encode()


def content_gen(rng, boundary):
    n = rng.choice([0, 1, 2, 5, 40, 600])
    kind = rng.random()
    if kind < 0.4: c = bytes(rng.randrange(256) for _ in range(n))
    elif kind < 0.6: c = rng.choice([b'abc\r', b'abc\n', b'abc\r\n', b'\r\n', b'\r\n\r\n', b'a--b--', b'--', b'\r\n--', b'\x00\xff\x01\xfe', b'pre\r\n--' + boundary[:-1].encode() + b'Y post', b'-' * 5,
                                     # "--" boundary in the middle of a line is content: the delimiter is CRLF "--" boundary (RFC 2046 5.1.1)
                                     b'pre --' + boundary.encode() + b' post', b'x--' + boundary.encode() + b'--', b'a\n--' + boundary.encode() + b'\r\n', b'a\r--' + boundary.encode(), b'see --' + boundary.encode() + b'\r\nnext line'])
    elif kind < 0.7: c = ('line1\r\nline2 ' + 'é日本').encode()
    else: c = bytes(rng.choice(b'ab \r\n-') for _ in range(n))
    if DELIM(boundary) in b'\r\n' + c: c = c.replace(b'-', b'_')          # a conforming encoder's delimiter starts no line of a part
    return c


def text_gen(rng):
    return rng.choice(['', 'hello', 'multi\r\nline', 'é日本😀', ' lead', 'a--b', 'x' * 300, 'k=v&z', '"quoted"'])


def encode(boundary, parts, rng=None, optional=False):
    """RFC 7578: parts = [(name, None, None, text bytes) | (name, filename, mimetype, content)]"""
    out = b''
    for name, filename, mime, content in parts:
        out += b'--' + boundary.encode() + b'\r\n'
        cd = 'Content-Disposition' if not (optional and rng and rng.random() < 0.3) else rng.choice(['content-disposition', 'CONTENT-DISPOSITION'])
        hs = []
        d = f'{cd}: form-data; name="{name}"'
        if filename is not None: d += f'; filename="{filename}"'
        hs.append(d.encode())
        if filename is not None:
            if not (optional and rng and mime == 'text/plain' and rng.random() < 0.6): hs.append(('Content-Type: ' + mime).encode())          # the Content-Type of a part is optional and defaults to text/plain (RFC 7578 4.4)
        elif optional and rng and rng.random() < 0.5: hs.append(b'Content-Type: text/plain; charset=utf-8')
        if optional and rng and rng.random() < 0.4: hs.append(rng.choice([b'X-Extra: 1', b'Content-Transfer-Encoding: binary', b'Content-Length: 3', b'X-Weird:no-space']))
        if optional and rng and rng.random() < 0.3: hs.reverse()
        out += b'\r\n'.join(hs) + b'\r\n\r\n' + content + b'\r\n'
    return out + b'--' + boundary.encode() + b'--\r\n'


def form_gen(rng, tid, boundary):
    """(parts in submission order, expected struct or 'error' or None)"""
    fields = FIELDS[tid]
    parts, want = [], {}
    order = list(fields)
    if rng.random() < 0.5: rng.shuffle(order)
    mismatch = rng.random() < 0.12
    for name, ty, dflt in order:
        if ty in ('text', 'optText'):
            if ty == 'optText' and rng.random() < 0.25: want[name] = 'none'; continue
            t = text_gen(rng)
            parts.append((name, None, None, t.encode()))
            want[name] = {'s': hx(t)} if ty == 'text' else ('none' if t == '' else {'some': {'s': hx(t)}})
        else:
            k = {'file': 1, 'optFile': rng.choice([0, 1, 1]), 'files': rng.choice([0, 1, 2, 3, 5])}[ty]
            absent_as_empty = rng.random() < 0.5
            files = []
            for i in range(k):
                fn = rng.choice(['a.bin', 'pic 1.png', 'ü.txt', 'x' * 40 + '.dat', 'no-ext', '1', 'report; final.pdf', 'x;name=note;.pdf', 'a=b; c.txt', "it's (1).txt",
                                'chapter1/1.txt', 'C:\\fakepath\\cover.png', 'drafts/', '../up.txt', '/abs', 'a\\', '.hidden', 'trailing.', 'UPPER.TXT', 'dir.d/x.tar.gz'])      # a quoted-string may hold ';' and '='; a filename is delivered as sent (path separators included: what to do with them is the application's call)
                files.append((fn + str(i) if ty == 'files' else fn, rng.choice(MIMES), content_gen(rng, boundary)))
            if k == 0:
                if ty == 'optFile' or (ty == 'files'):
                    if absent_as_empty: parts.append((name, '', 'application/octet-stream', b''))      # an empty file input, as browsers send it
                    elif ty == 'files' and not dflt: parts.append((name, '', 'application/octet-stream', b''))
                want[name] = 'none' if ty == 'optFile' else {'seq': []}
            else:
                group = [(name, fn, mt, c) for fn, mt, c in files]
                if rng.random() < 0.15:          # a second input of the same name left unselected, anywhere among the files: no file (two <input type=file name=..>, one empty)
                    group.insert(rng.randrange(len(group) + 1), (name, '', 'application/octet-stream', b''))
                parts += group
                fj = [{'filename': hx(fn), 'mimetype': hx(mt), 'content': c.hex()} for fn, mt, c in files]
                want[name] = {'file': fj[0]} if ty == 'file' else {'some': {'file': fj[0]}} if ty == 'optFile' else {'seq': fj}
    expected = [[hx(n), want[n]] for n, _, _ in fields]
    if not mismatch and rng.random() < 0.2:          # the parts of one name need not be adjacent: the last file of a group is submitted after the other fields (its place within the name is unchanged)
        multi = [n for n, t, _ in fields if t == 'files' and sum(1 for p in parts if p[0] == n) >= 2]
        if multi:
            n = rng.choice(multi)
            i = max(j for j, p in enumerate(parts) if p[0] == n)
            parts.append(parts.pop(i))
            if rng.random() < 0.5:          # ... or the first one before them
                i = min(j for j, p in enumerate(parts) if p[0] == n)
                parts.insert(0, parts.pop(i))
    if mismatch:
        name, ty, _ = rng.choice(fields)
        k = rng.random()
        if ty in ('text',):
            parts = [p for p in parts if p[0] != name] + [(name, 'f.bin', 'image/png', b'xx')]; expected = 'error'
        elif ty == 'file':
            if k < 0.5: parts += [(name, 'second.bin', 'image/png', b'2')]; parts.sort(key=lambda p: p[0] != name); expected = 'error'
            else: parts = [p for p in parts if p[0] != name] + [(name, None, None, b'text')]; expected = 'error'
        else: expected = expected          # no mismatch injected for this field type
    if rng.random() < 0.25 and expected != 'error':          # a field the target type does not know is skipped whatever it holds (not placed between two files of one name)
        unk = rng.choice([[('unknown', None, None, b'ignored')], [('unknown', None, None, b'a'), ('unknown', None, None, b'b')], [('other', 'u.bin', 'image/png', b'zz')],
                          [('other', 'u1.bin', 'image/png', b'zz'), ('other', 'u2.bin', 'text/plain', b'')], [('other', '', 'application/octet-stream', b'')],
                          [('unknown', None, None, b't'), ('other', 'u1', 'a/b', b'1'), ('other', 'u2', 'a/b', b'2'), ('other', 'u3', 'a/b', b'3')]])
        at = rng.choice([0, len(parts)])
        parts[at:at] = unk
    return parts, expected


def mk(rng):
    tid = rng.randrange(5)
    boundary = rng.choice(['XbX', '----WebKitFormBoundary7MA4YWxkTrZu0gW', 'b', "a'()+_,-./:=?", '0' * 70, 'boundary', 'AaB03x--', '--', '----form--', '-'])          # a boundary token may itself end in two hyphens
    parts, expected = form_gen(rng, tid, boundary)
    while any(DELIM(boundary) in b'\r\n' + p[3] for p in parts): boundary += 'Zq9'        # a conforming encoder picks a delimiter (CRLF "--" boundary) that occurs in no part
    body = encode(boundary, parts, rng, optional=rng.random() < 0.5)
    return {'case': {'tid': tid, 'fields': FIELDS[tid], 'input': body.hex(), 'expected': expected}, 'stream': 'form'}


def mutated(rng):
    c = mk(rng)['case']
    b = bytearray(unhx(c['input']))
    for _ in range(rng.choice([1, 1, 3])):
        if not b: break
        k = rng.random()
        if k < 0.3: b = b[:rng.randrange(len(b) + 1)]
        elif k < 0.6: b[rng.randrange(len(b))] = rng.choice(b'\r\n-";= \x00\xff')
        elif k < 0.8: del b[rng.randrange(len(b))]
        else: b[rng.randrange(len(b)):rng.randrange(len(b))] = rng.choice([b'\r\n', b'--', b'"', b'; ', b'Content-Type: multipart/mixed\r\n'])
    return {'case': {'tid': c['tid'], 'fields': c['fields'], 'input': bytes(b).hex(), 'expected': None}, 'stream': 'mutated'}


def corpus():
    def body(b, parts): return encode(b, parts)
    B = 'XbX'
    C = lambda tid, parts, expected: {'case': {'tid': tid, 'fields': FIELDS[tid], 'input': body(B, parts).hex(), 'expected': expected}}
    file_j = lambda fn, mt, c: {'filename': hx(fn), 'mimetype': hx(mt), 'content': c.hex()}
    out = [C(1, [('title', None, None, b't'), ('doc', '', 'application/octet-stream', b'')], 'error'),                     # was: process abort (eager unwrap_unchecked)
           {'case': {'tid': 3, 'fields': FIELDS[3], 'input': b'--XbX\r\nContent-Disposition: form-data; name="x"\r\n\r\n--XbX--\r\n'.hex(), 'expected': None}},   # was: subtraction overflow
           {'case': {'tid': 3, 'fields': FIELDS[3], 'input': b'--XbX\r\nContent-Disposition: form-data; name="x"\r\n\r\nx--XbX--\r\n'.hex(), 'expected': None}},
           C(0, [('fs', '1', 'a/b', b'one'), ('fs', '2', 'a/b', b'two'), ('fs', '3', 'a/b', b'three')], [[hx('note'), 'none'], [hx('f'), 'none'], [hx('fs'), {'seq': [file_j('1', 'a/b', b'one'), file_j('2', 'a/b', b'two'), file_j('3', 'a/b', b'three')]}]]),
           {'case': {'tid': 1, 'fields': FIELDS[1], 'input': body(B, [('title', None, None, b't'), ('doc', 'a.bin', 'image/png', b'pre --XbX post')]).hex(),
                     'expected': [[hx('title'), {'s': hx('t')}], [hx('doc'), {'file': file_j('a.bin', 'image/png', b'pre --XbX post')}]]}}]     # was: refused with 'Missing CRLF' (known finding KF-C10-boundary-in-content until the part loop searched for CRLF "--" boundary)
    for c in [b'abc\r', b'abc\n', b'abc\r\n', b'a--b--', b'pre\r\n--XbY post', b'\x00\xff\x01\xfe', b'', b'\r\n']:
        out.append(C(1, [('title', None, None, b't'), ('doc', 'a.bin', 'application/octet-stream', c)], [[hx('title'), {'s': hx('t')}], [hx('doc'), {'file': file_j('a.bin', 'application/octet-stream', c)}]] if c or True else None))
    return out


def generate(rng, tier):
    n = 2000 if tier == 'quick' else 60000
    return [mk(rng) for _ in range(n)] + [mutated(rng) for _ in range(n // 2)]


def judge(case, out, m):
    v = []
    if 'panic' in out or 'abort' in out or 'hang' in out or out.get('outcome') == 'panic': return [('violation', 'decoder panicked / aborted: ' + str(out)[:140])]
    exp = case.get('expected')
    if exp == 'error':
        if out.get('outcome') != 'err': v.append(('violation', f'the form does not fit the target type but was accepted as {str(out)[:200]}'))
    elif exp is not None:
        # a File field given the empty file input is a shape mismatch too
        if out.get('outcome') != 'ok' or out.get('value') != exp:
            v.append(('violation', f'decoded {str(out)[:300]}, the form holds {str(exp)[:300]}'))
    mm = m.get('model') if m else None
    if mm is not None and mm != out: v.append(('disagree', f'impl {str(out)[:240]} model {str(mm)[:240]}'))
    return v


def nontrivial(case):
    t = unhx(case['input'])
    return t.count(b'filename=') >= 1 and (t.count(b'filename=') >= 2 or b'X-Extra' in t or b'\x00' in t or b'\r\n\r\n\r\n' in t or b'ontent-type' in t.lower())


def features(case, out):
    return ['t%d_%s' % (case['tid'], out.get('outcome')), 'exp_' + ('none' if case.get('expected') is None else 'error' if case.get('expected') == 'error' else 'value')]
