"""C06 — responses depend on the byte stream, not on how TCP segmented it (partial).

impl  : harness C06 (= C05 executor) on a segmentation of the byte stream and on its canonical segmentation (one read per request)
model : Lean `Ohkami.Session.run` with `EchoApp` on the same scripts
spec  : here — metamorphic: the responses under the segmentation equal the responses under the canonical segmentation.  The code supports
        the class of segmentations in which every request starts a read and its head lies within that read (the body may be split anywhere);
        the two other classes are recorded findings: `head_split` (a head delivered in two reads, or larger than the buffer) and `coalesced`
        (a read that carries the end of one request and the start of the next)
"""
from .common import hx, unhx
from . import reqgen, c02

ID = 'C06'
GEN_DEPS = ['GenReqHeaders', 'GenResHeaders', 'GenStatus', 'GenConsts', 'GenSession']
RULE = ('request sequences (1-4 requests, bodies 0-3000 bytes) x segmentations of their concatenated bytes: every single split point of the body region, split between head and body, several '
        'splits inside the body, chunks larger than the buffer; plus the two unsupported classes (split points inside a head, coalesced requests) which must reproduce the recorded findings; '
        'non-trivial = a segmentation that differs from the canonical one; distinct by canonical JSON')
ASSUMPTIONS = ['a read returns what one script element holds (at most the buffer size); the peer closes after the script',
               'known findings: KF-C06-head-split, KF-C06-coalesced (head reassembly and carry-over of pipelined bytes need a redesign of Request::read)']
BUF = 1024


def classify(reqs, script):
    """'supported' | 'head_split' | 'coalesced' for a segmentation of the concatenation of reqs = [(head, body)].
    (a request the parser refuses is answered and ends the session, wherever its body bytes are: such segmentations are 'supported' — they were the class
    'refused_body' of known finding KF-C06-refused-body until the session loop was repaired)
    Read discipline (the documented limits of Request::read): a request is started by ONE read of at most BUF bytes, which returns what is left of the
    segment it falls in; the part of the body that read did not bring is then read exactly (any number of reads, never beyond the body).  So a request
    starts at a read boundary iff the starting read of the previous one did not reach beyond that request's end."""
    ends, p = [], 0
    for c in script:
        p += len(c); ends.append(p)
    cls, pos = 'supported', 0
    for h, b in reqs:
        s, hl, tl = pos, len(h), len(h) + len(b)
        seg_end = next((e for e in ends if e > s), s)
        r_end = s + min(BUF, seg_end - s)                     # the starting read brings [s, r_end)
        if r_end < s + hl: cls = 'head_split'
        pos = s + tl
        if r_end > pos and pos < ends[-1]: return 'coalesced'          # bytes of the next request came with it
    return cls


def mk(rng, kind=None):
    n = rng.choice([1, 1, 2, 3, 4])
    reqs = []
    for i in range(n):
        h, b = reqgen.request(rng, close=False, big=rng.random() < 0.1)
        if len(h) > BUF: continue
        reqs.append((h, b))
    if not reqs: reqs = [reqgen.request(rng)]
    stream = b''.join(h + b for h, b in reqs)
    canon = [h + b for h, b in reqs]
    kind = kind or rng.choice(['body', 'body', 'body', 'headbody', 'multi', 'head', 'coalesce'] * 3 + ['refused'])
    if kind == 'refused':          # one request the parser refuses (a second Content-Length line, a header line that is no `Name: value`), with its body cut off the head
        k = rng.randrange(len(reqs))
        h, b = reqs[k]
        if not b: b = b'abc'; h = h[:-2] + b'Content-Length: 3\r\n\r\n'
        line = rng.choice([b'Content-Length: %d\r\n' % len(b), b'Bad Name: v\r\n', b'NoColon\r\n', b': empty\r\n', b'Host:nospace\r\n'])
        reqs[k] = (h[:-2] + line + b'\r\n', b)
        if len(reqs[k][0]) > BUF: reqs[k] = (h, b)
        stream = b''.join(h + b for h, b in reqs); canon = [h + b for h, b in reqs]
    cuts = set()
    pos = 0
    for h, b in reqs:
        s, e = pos, pos + len(h) + len(b)
        cuts.add(s)
        if kind in ('body', 'refused') and b: cuts.add(rng.randrange(s + len(h), e) if rng.random() < 0.5 else s + len(h))
        elif kind == 'headbody' and b: cuts.add(s + len(h))
        elif kind == 'multi' and b:
            for _ in range(rng.choice([2, 3, 6])): cuts.add(rng.randrange(s + len(h), e))
        elif kind == 'head': cuts.add(rng.randrange(s + 1, s + len(h)))
        pos = e
    if kind == 'coalesce' and len(reqs) >= 2:
        k = rng.randrange(1, len(reqs))
        cuts.discard(sum(len(h) + len(b) for h, b in reqs[:k]))
    cuts = sorted(c for c in cuts if 0 < c < len(stream))
    script = [stream[a:b] for a, b in zip([0] + cuts, cuts + [len(stream)])]
    cls = classify(reqs, script)
    return {'case': {'script': [s.hex() for s in script], 'canon': [s.hex() for s in canon], 'eof': True, 'class': cls, 'kind': kind, 'real': cls == 'supported' and rng.random() < 0.04}}


def corpus():
    r1 = (b'POST /a HTTP/1.1\r\nX-A: 1\r\nContent-Length: 5\r\n\r\n', b'\x00bcde')
    r2 = (b'GET / HTTP/1.1\r\n\r\n', b'')
    def c(script, reqs): return {'case': {'script': [hx(s) for s in script], 'canon': [hx(h + b) for h, b in reqs], 'eof': True, 'class': classify(reqs, script), 'kind': 'corpus'}}
    s = r1[0] + r1[1]
    odd = (b'POST /a HTTP/1.1\r\nX\r\n\r\nY: v\r\nContent-Length: 3\r\n\r\n', b'abc')          # a header line that is no `Name: value` (its "name" would hold a blank line): refused with 400 since the field-name fix
    dup = (b'POST /a HTTP/1.1\r\nContent-Length: 3\r\nContent-Length: 3\r\n\r\n', b'abc')            # two Content-Length lines: refused with 400
    return [c([odd[0] + b'a', b'bc', r2[0]], [odd, r2]),                 # known finding: the body of a refused request arrives later and is taken for a request
            c([dup[0], dup[1], r2[0]], [dup, r2]),                         # known finding (the same)
            c([dup[0] + dup[1], r2[0]], [dup, r2]),                        # ... while with its body in the same read the refused request is answered and forgotten
            c([r1[0], r1[1], r2[0]], [r1, r2]),                       # body entirely after the head, starting with NUL (was: misread)
            c([s[:-2], s[-2:], r2[0]], [r1, r2]),                      # body split inside
            c([s[:10], s[10:], r2[0]], [r1, r2]),                      # known finding: head split
            c([s + r2[0]], [r1, r2]),                                  # known finding: two requests in one read
            c([s + r2[0][:5], r2[0][5:]], [r1, r2])]


def generate(rng, tier):
    n = 1200 if tier == 'quick' else 30000
    out = [mk(rng) for _ in range(n)]
    # every single split point of a few requests (quick: 3 requests, thorough: 60)
    for _ in range(3 if tier == 'quick' else 60):
        h, b = reqgen.request(rng)
        while not b or len(h) > BUF: h, b = reqgen.request(rng)
        b = b[:rng.choice([5, 40])]
        h = h.replace(b'Content-Length: ' + str(len(h)).encode(), b'X: y')
        import re
        h = re.sub(rb'Content-Length: \d+', b'Content-Length: ' + str(len(b)).encode(), h)
        s = h + b
        for cut in range(1, len(s)):
            out.append({'case': {'script': [s[:cut].hex(), s[cut:].hex()], 'canon': [s.hex()], 'eof': True, 'class': classify([(h, b)], [s[:cut], s[cut:]]), 'kind': 'every_split'}})
    return out


def judge(case, out, m):
    v = []
    if 'panic' in out: return [('violation', 'panic: ' + out['panic'][:160], 'KF-C06-' + case['class'].replace('_', '-')) if case['class'] != 'supported' else ('violation', 'panic: ' + out['panic'][:160])]
    canon = out.get('canon', {})
    same = out.get('responses') == canon.get('responses')
    if not same:
        why = f'{len(out.get("responses", []))} response(s) under this segmentation, {len(canon.get("responses", []))} under one read per request (class {case["class"]}, end {out.get("end")})'
        if case['class'] == 'supported': v.append(('violation', why))
        else: v.append(('violation', why, 'KF-C06-' + case['class'].replace('_', '-')))
    if 'real' in out and not v:
        # a few supported segmentations also go through the real Session::manage over loopback TCP (hook H6), one write per segment
        if 'panic' in out['real']: v.append(('violation', 'the real session loop panicked: ' + str(out['real'])[:160]))
        elif unhx(out['real']['all']) != b''.join(unhx(r) for r in out['responses']):
            v.append(('violation', f'Session::manage over loopback TCP writes {len(unhx(out["real"]["all"]))} bytes under this segmentation, the canonical answers are {sum(len(unhx(r)) for r in out["responses"])} bytes'))
    if m is not None:
        mm = m.get('model', {})
        if mm.get('responses') != out.get('responses') or mm.get('end') != out.get('end'):
            v.append(('disagree', f'impl end={out.get("end")} n={len(out.get("responses", []))} model end={mm.get("end")} n={len(mm.get("responses", []))} class={case["class"]}'))
    return v


def nontrivial(case):
    return case['script'] != case['canon']


def features(case, out):
    return ['class_' + case['class'], 'kind_' + case.get('kind', '?'), 'end_' + str(out.get('end'))]
