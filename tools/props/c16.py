"""C16 — derive(Schema) describes the JSON shape that serde actually reads and writes.

impl   : (a) executor harness_c16: the repository's derive(Schema) sources (copied from /repo/ohkami_macros/src on every run and compiled as library
             modules over proc-macro2) run on generated type definitions; the generated builder expression is read back into a shape by walking its
             syntax tree; next to it serde_derive's own `internals` (the pinned serde_derive's attribute interpreter and RenameRule) read the same text
         (b) executor harness C16: a catalogue of real types expanded by the real proc macros at build time: Schema::schema() as JSON, serde_json::to_value
             of sample values, and per key whether from_value still accepts the object without it
model  : Lean `Ohkami.Derive.Macro.*` (the derive) and `Ohkami.Derive.Serde.*` (serde's rules), both evaluated on the abstract definition
spec   : here — the oracle is serde itself: (a) the property names must be the serialize names serde_derive computes, in order, skipped ones left out,
         required iff not (Option | default | container default | skip_serializing_if | skip_deserializing); variant schemas must place tag and content as
         the enum's representation does; (b) every serialized value must validate against the real schema (validator below, JSON Schema 2020-12 subset),
         the properties must be the keys written, required must equal "from_value refuses the object without it"
"""
import itertools, json, os, re
from .common import hx

ID = 'C16'
GEN_DEPS = []
VERIF = os.path.dirname(os.path.dirname(os.path.dirname(os.path.abspath(__file__))))
import sys
sys.path.insert(0, os.path.join(VERIF, 'tools'))
import sync_c16
EXTRA_EXECUTORS = {'c16': {'dir': os.path.join(VERIF, 'harness_c16'), 'bin': os.path.join(VERIF, 'harness_c16', 'target', 'debug', 'verif_harness_c16'), 'sync': sync_c16.run}}
RULE = ('(1) every identifier over {a,b,A,B,_,1} up to length 4 (6 in the thorough tier) plus realistic ones, under each of the 8 rename_all rules, as field and as variant: '
        'macro = serde = model; (2) generated struct / enum definitions over the attribute grammar (rename, rename_all, rename_all_fields, variant rename_all, skip, '
        'skip_serializing, skip_deserializing, default on field and container, skip_serializing_if, flatten, Option, schema_with, r#raw names, the four enum '
        'representations, unit / newtype / tuple / struct variants, attributes split over several #[serde] lists, components, doc comments): the generated schema shape '
        'against serde_derive\'s own reading and against the model; (3) a catalogue of 31 compiled types with values: validation, key sets, requiredness probes; '
        'non-trivial = a definition with a rename rule or >= 2 attributes, or an identifier that the rule changes')
ASSUMPTIONS = ['supported grammar (reading): one name per item (rename = "x" or rename(serialize = ..) alone; a split serialize/deserialize rename is refused by the derive with a compile error), '
               'Option written as `Option<T>`, enums of at most 4 data-carrying variants (the builder API takes tuples up to 4), field types that implement Schema',
               'ASCII identifiers for the model (char::is_uppercase is Unicode-aware); non-ASCII identifiers are compared macro-vs-serde only']
TRUSTED = ['shape.rs (reads the generated builder expression back by syntax), serde_view (prints what serde_derive internals computed), the JSON Schema subset validator in c16.py']

RULES = ['lowercase', 'UPPERCASE', 'PascalCase', 'camelCase', 'snake_case', 'SCREAMING_SNAKE_CASE', 'kebab-case', 'SCREAMING-KEBAB-CASE']
FIELD_IDENTS = ['id', 'user_name', 'userName', 'a_b_c', 'x1', 'r#type', 'r#match', 'http_code', '_private', 'a', 'created_at_ms', 'url', 'is_ok_', '__x', 'x__y', 'fooBar_baz', 'v2_api', 'n', 'UPPER', 'mixed_Case_x']
VARIANT_IDENTS = ['A', 'Foo', 'FooBar', 'HTTPServer', 'V2', 'Ab1C', 'X', 'FooBarBaz', 'Unit', 'r#Type', 'Snake_Case', 'ABC', 'aLower', 'Z9', 'IoError']
TYPES = ['String', 'i32', 'u8', 'u64', 'f64', 'Inner', 'Vec<String>', 'Vec<Inner>', 'Other']
RENAMES = ['x', 'user-name', 'ID', '1st', 'type', 'with space', 'a.b', 'Ünï', '$ref', '']


def executor_of(case): return None if case['kind'] in ('catalogue', 'count') else 'c16'


# ----------------------------------------------------------------------------- generation

def gen_field(rng, idents, named=True, allow_flatten=True):
    inner = rng.choice(TYPES)
    option = rng.random() < 0.3
    f = {'ident': idents.pop() if named else '', 'ty': f'Option<{inner}>' if option else inner, 'inner': inner, 'option': option, 'rename': None,
         'skip': False, 'skip_ser': False, 'skip_de': False, 'default': False, 'skip_if': False, 'flatten': False, 'with': False, 'doc': rng.random() < 0.1}
    r = rng.random
    if named and r() < 0.25: f['rename'] = rng.choice(RENAMES)
    k = r()
    if k < 0.08: f['skip'] = True
    elif k < 0.16: f['skip_ser'] = True
    elif k < 0.26: f['skip_de'] = True
    if r() < 0.2: f['default'] = True
    if r() < 0.2 and not f['skip'] and not f['skip_ser']: f['skip_if'] = True
    if named and allow_flatten and r() < 0.08 and not (f['skip'] or f['skip_ser'] or f['skip_de'] or f['skip_if'] or f['rename'] is not None):
        f['flatten'] = True; f['inner'] = 'Inner'; f['option'] = rng.random() < 0.4; f['ty'] = 'Option<Inner>' if f['option'] else 'Inner'; f['default'] = False
    elif r() < 0.1: f['with'] = True
    return f


def gen_fields(rng, kinds=('named', 'named', 'named', 'unnamed', 'newtype', 'unit')):
    kind = rng.choice(kinds)
    idents = rng.sample(FIELD_IDENTS, len(FIELD_IDENTS))
    if kind == 'named': return {'named': [gen_field(rng, idents) for _ in range(rng.choice([0, 1, 2, 3, 5, 8]))]}
    if kind == 'unnamed': return {'unnamed': [gen_field(rng, idents, named=False) for _ in range(rng.choice([2, 3]))]}
    if kind == 'newtype':
        f = gen_field(rng, idents, named=False); f.update(skip=False, skip_ser=False, skip_de=False, default=False, skip_if=False, option=False); f['ty'] = f['inner']
        return {'unnamed': [f]}
    return 'unit'


def gen_def(rng):
    multi = rng.random() < 0.2
    if rng.random() < 0.04:          # #[serde(transparent)]: the one field that is not skipped IS the value (a named field, or a tuple field beside a skipped marker)
        one = F(rng.choice(['inner', 'value', 'r#type', 'id']), rng.choice(['u8', 'String', 'Inner', 'Vec<u8>']))
        marker = F('marker', 'PhantomData<u8>', skip=True)
        shape = rng.choice(['named1', 'named1', 'named2', 'tuple1', 'tuple2'])
        fields = {'named': [one]} if shape == 'named1' else {'named': rng.sample([one, marker], 2)} if shape == 'named2' else {'unnamed': [dict(one, ident='')]} if shape == 'tuple1' else {'unnamed': [dict(one, ident=''), dict(marker, ident='')]}
        return {'kind': 'struct', 'name': 'T', 'rename_all': rng.choice(RULES) if rng.random() < 0.3 else None, 'default': False, 'transparent': True,
                'component': rng.random() < 0.15, 'multi': multi, 'doc': rng.random() < 0.1, 'fields': fields}
    if rng.random() < 0.5:
        fields = gen_fields(rng, ('named', 'named', 'named', 'named', 'unnamed', 'newtype', 'unit'))
        return {'kind': 'struct', 'name': 'T', 'rename_all': rng.choice(RULES) if rng.random() < 0.7 else None, 'default': rng.random() < 0.15 and isinstance(fields, dict) and 'named' in fields,
                'component': rng.random() < 0.15, 'multi': multi, 'doc': rng.random() < 0.1, 'fields': fields}
    mode = rng.choice(['external', 'external', 'internal', 'adjacent', 'untagged'])
    all_unit = rng.random() < 0.3
    idents = rng.sample(VARIANT_IDENTS, len(VARIANT_IDENTS))
    variants = []
    for _ in range(rng.choice([1, 2, 3, 4])):
        kinds = ('unit',) if all_unit else (('named', 'named', 'newtype', 'unit') if mode == 'internal' else ('named', 'named', 'unnamed', 'newtype', 'unit'))
        v = {'ident': idents.pop(), 'rename': rng.choice(RENAMES) if rng.random() < 0.2 else None, 'rename_all': rng.choice(RULES) if rng.random() < 0.25 and not all_unit else None,
             'skip': False, 'skip_ser': False, 'skip_de': False, 'fields': gen_fields(rng, kinds), 'doc': rng.random() < 0.1}
        k = rng.random()
        if k < 0.07: v['skip'] = True
        elif k < 0.12: v['skip_ser'] = True
        elif k < 0.2: v['skip_de'] = True
        if isinstance(v['fields'], dict) and 'named' in v['fields']:
            for f in v['fields']['named']: f['flatten'] = False
        if mode == 'internal' and isinstance(v['fields'], dict) and 'unnamed' in v['fields']: v['fields']['unnamed'][0].update(ty='Inner', inner='Inner', **{'with': False})
        variants.append(v)
    return {'kind': 'enum', 'name': 'E', 'rename_all': rng.choice(RULES) if rng.random() < 0.7 else None, 'rename_all_fields': rng.choice(RULES) if rng.random() < 0.4 and not all_unit else None,
            'tag': 't' if mode in ('internal', 'adjacent') else None, 'content': 'c' if mode == 'adjacent' else None, 'untagged': mode == 'untagged',
            'component': rng.random() < 0.15, 'multi': multi, 'doc': rng.random() < 0.1, 'variants': variants}


def lit(s): return '"' + s.replace('\\', '\\\\').replace('"', '\\"') + '"'


def attr_lists(parts, multi, rng):
    if not parts: return ''
    if multi and len(parts) >= 2:
        k = rng.randrange(1, len(parts))
        return f'#[serde({", ".join(parts[:k])})] #[serde({", ".join(parts[k:])})] '
    return f'#[serde({", ".join(parts)})] '


def render_field(f, named, multi, rng):
    p = []
    if f['rename'] is not None: p.append(f'rename = {lit(f["rename"])}' if rng.random() < 0.8 else f'rename(serialize = {lit(f["rename"])})')
    if f['skip']: p.append('skip')
    if f['skip_ser']: p.append('skip_serializing')
    if f['skip_de']: p.append('skip_deserializing')
    if f['default']: p.append('default')
    if f['skip_if']: p.append('skip_serializing_if = "Option::is_none"')
    if f['flatten']: p.append('flatten')
    s = ('/// a field\n' if f.get('doc') else '') + attr_lists(p, multi, rng)
    if f['with']: s += '#[openapi(schema_with = "my::schema_fn")] '
    return s + (f'{f["ident"]}: ' if named else '') + f['ty']


def render_fields(fs, multi, rng, top):
    if fs == 'unit': return ';' if top else ''
    if 'named' in fs: return ' { ' + ', '.join(render_field(f, True, multi, rng) for f in fs['named']) + ' }'
    return '(' + ', '.join(render_field(f, False, multi, rng) for f in fs['unnamed']) + ')' + (';' if top else '')


def render(d, rng):
    p = []
    if d.get('rename_all'): p.append(f'rename_all = {lit(d["rename_all"])}')
    if d['kind'] == 'struct':
        if d['default']: p.append('default')
        if d.get('transparent'): p.append('transparent')
        head = ('/// a type\n' if d.get('doc') else '') + attr_lists(p, d['multi'], rng) + ('#[openapi(component)] ' if d['component'] else '')
        return head + 'struct T' + render_fields(d['fields'], d['multi'], rng, True)
    if d.get('rename_all_fields'): p.append(f'rename_all_fields = {lit(d["rename_all_fields"])}')
    if d['tag']: p.append(f'tag = {lit(d["tag"])}')
    if d['content']: p.append(f'content = {lit(d["content"])}')
    if d['untagged']: p.append('untagged')
    head = ('/// a type\n' if d.get('doc') else '') + attr_lists(p, d['multi'], rng) + ('#[openapi(component)] ' if d['component'] else '')
    vs = []
    for v in d['variants']:
        q = []
        if v['rename'] is not None: q.append(f'rename = {lit(v["rename"])}')
        if v['rename_all']: q.append(f'rename_all = {lit(v["rename_all"])}')
        if v['skip']: q.append('skip')
        if v['skip_ser']: q.append('skip_serializing')
        if v['skip_de']: q.append('skip_deserializing')
        vs.append(('/// a variant\n' if v.get('doc') else '') + attr_lists(q, d['multi'], rng) + v['ident'] + render_fields(v['fields'], d['multi'], rng, False))
    return head + 'enum E { ' + ', '.join(vs) + ' }'


def ident_stream(maxlen):
    for n in range(1, maxlen + 1):
        for t in itertools.product('abAB_1', repeat=n): yield ''.join(t)


def case_cases(rng, tier):
    idents = list(ident_stream(4 if tier == 'quick' else 6)) + [i.replace('r#', '') for i in FIELD_IDENTS + VARIANT_IDENTS] + ['', '_', '__', 'é_x', 'Éa', 'aÉb', 'ß', 'ǅx']
    out = []
    for i in idents:
        for r in RULES:
            for field in (True, False): out.append({'case': {'kind': 'case', 'rule': r, 'ident': i, 'field': field}, 'stream': 'case'})
    return out


def F(ident, ty='u8', **kw):
    option = ty.startswith('Option<')
    f = {'ident': ident, 'ty': ty, 'inner': ty[7:-1] if option else ty, 'option': option, 'rename': None, 'skip': False, 'skip_ser': False, 'skip_de': False, 'default': False,
         'skip_if': False, 'flatten': False, 'with': False}
    f.update(kw); return f
def S(fields, **kw):
    d = {'kind': 'struct', 'name': 'T', 'rename_all': None, 'default': False, 'component': False, 'multi': False, 'fields': fields}
    d.update(kw); return d
def V(ident, fields='unit', **kw):
    v = {'ident': ident, 'rename': None, 'rename_all': None, 'skip': False, 'skip_ser': False, 'skip_de': False, 'fields': fields}
    v.update(kw); return v
def E(variants, **kw):
    d = {'kind': 'enum', 'name': 'E', 'rename_all': None, 'rename_all_fields': None, 'tag': None, 'content': None, 'untagged': False, 'component': False, 'multi': False, 'variants': variants}
    d.update(kw); return d


def corpus():
    import random
    rng = random.Random(16)
    out = [{'case': {'kind': 'catalogue', 'idx': i}, 'stream': 'catalogue'} for i in range(33)]
    N = lambda *fs: {'named': list(fs)}
    U = lambda *tys: {'unnamed': [F('', t) for t in tys]}
    seeds = [  # the definitions behind the repairs, kept as regression inputs
        S(N(F('user_name', 'String')), rename_all='kebab-case'),
        E([V('FooBar', N(F('user_name', 'String'))), V('Baz', U('u8'))], rename_all='camelCase'),
        S(N(F('sd', skip_de=True), F('r#type', 'String'))),
        S(N(F('a')), default=True),
        E([V('A', N(F('x'))), V('B')], tag='t'),
        S(N(F('user_name', 'String')), rename_all='camelCase', default=True, multi=True),
        E([V('A'), V('B', U('u8'))]), E([V('A'), V('B', U('u8'))], tag='t', content='c'), E([V('A'), V('B', skip=True)]),
        S(U('i32', 'u8')), E([V('A', U('i32')), V('B', U('u8'))], untagged=True), S(N(F('a', 'Option<bool>', **{'with': True}))),
        E([V('A', N(F('field_one'))), V('Nt', U('Inner'))], tag='t', rename_all_fields='SCREAMING-KEBAB-CASE'),
        E([V('A', N(F('x'))), V('B')], untagged=True)]          # the last one: known finding KF-C16-untagged-unit
    for d in seeds: out.append({'case': {'kind': 'derive', 'src': render(d, rng), 'def': d}, 'stream': 'seed'})
    return out


def generate(rng, tier):
    n = 3000 if tier == 'quick' else 60000
    out = case_cases(rng, tier)
    for _ in range(n):
        d = gen_def(rng)
        out.append({'case': {'kind': 'derive', 'src': render(d, rng), 'def': d}, 'stream': 'derive'})
    return out


# ----------------------------------------------------------------------------- reading the executor's shape

def canon(s):
    if not isinstance(s, dict): return s
    if 'obj' in s:
        return {'obj': [{'name': e['name'], 'required': e['required'], 'schema': canon(e['schema'])} for e in s['obj'] if 'name' in e],
                'flat': [canon(e['flatten']) for e in s['obj'] if 'flatten' in e]}
    if 'enum' in s: return {'enum': s['enum']}
    if 'oneOf' in s: return {'oneOf': [canon(x) for x in s['oneOf']]}
    if 'anyOf' in s: return {'anyOf': [canon(x) for x in s['anyOf']]}
    if 'array' in s: return {'array': canon(s['array'])}
    if 'ty' in s: return {'ty': s['ty'], 'optional': True} if s.get('optional') else {'ty': s['ty']}
    if 'with' in s: return {'with': True}
    if 'extend' in s: return {'extend': canon(s['extend']), 'name': s['entry']['name'], 'schema': canon(s['entry']['schema'])}
    if 'component' in s: return canon(s['schema'])
    return s


def has_unknown(s):
    if isinstance(s, dict): return 'unknown' in s or any(has_unknown(v) for v in s.values())
    if isinstance(s, list): return any(has_unknown(v) for v in s)
    return False


# ----------------------------------------------------------------------------- the oracle: serde_derive's reading -> the shape a faithful schema has

def flist(fs): return [] if fs == 'unit' else fs.get('named', fs.get('unnamed', []))


def exp_fields(style, vfs, dfs, cdefault):
    if style == 'struct':
        props, flat = [], []
        for vf, df in zip(vfs, dfs):
            if vf['skip_ser']: continue
            if vf['flatten'] and not df['with']: flat.append({'ty': df['inner'], 'optional': True} if vf['option'] else {'ty': df['inner']}); continue
            lenient = vf['option'] or vf['default'] or cdefault or vf['skip_if'] or vf['skip_de']
            props.append({'name': vf['ser'], 'required': not lenient, 'schema': {'with': True} if df['with'] else {'ty': df['inner']}})
        return {'obj': props, 'flat': flat}
    if style == 'newtype': return {'with': True} if dfs[0]['with'] else {'ty': dfs[0]['ty']}
    if style == 'unit': return {'obj': [], 'flat': []}
    return {'array': {'anyOf': [({'with': True} if df['with'] else {'ty': df['inner']}) for vf, df in zip(vfs, dfs) if not vf['skip_ser']]}}


def expected(view, d):
    """(expected shape, known-finding id or None)"""
    ser = view['ser']
    data = ser['data']
    if 'struct' in data and ser.get('transparent'):          # serde writes the one field that is not skipped, as it is
        df = next(df for vf, df in zip(data['fields'], flist(d['fields'])) if not vf['skip_ser'])
        return ({'with': True} if df['with'] else {'ty': df['ty']}), None
    if 'struct' in data: return exp_fields(data['struct'], data['fields'], flist(d['fields']), ser['container_default']), None
    vs = [(vv, dv) for vv, dv in zip(data['enum'], d['variants']) if not vv['skip_ser']]
    mode, out, kf = ser['tag'], [], None
    if mode == 'external' and all(vv['style'] == 'unit' for vv in data['enum']): return {'enum': [vv['ser'] for vv, _ in vs]}, None          # only then serde writes bare names
    for vv, dv in vs:
        content = exp_fields(vv['style'], vv['fields'], flist(dv['fields']), False)
        tag, unit = vv['ser'], vv['style'] == 'unit'
        tag_s = {'enum': [tag]}
        if mode == 'untagged':
            if unit: kf = 'KF-C16-untagged-unit'; s = {'null': True}
            else: s = content
        elif mode == 'external': s = tag_s if unit else {'obj': [{'name': tag, 'required': True, 'schema': content}], 'flat': []}
        elif 'internal' in mode:
            t = mode['internal']
            s = {'obj': content['obj'] + [{'name': t, 'required': True, 'schema': tag_s}], 'flat': content['flat']} if 'obj' in content else {'extend': content, 'name': t, 'schema': tag_s}
        else:
            t, c = mode['adjacent']
            s = {'obj': [{'name': t, 'required': True, 'schema': tag_s}] + ([] if unit else [{'name': c, 'required': True, 'schema': content}]), 'flat': []}
        out.append(s)
    return {('anyOf' if mode == 'untagged' else 'oneOf'): out}, kf


def abstract_for_model(d):
    """the definition the Lean driver reads (it never sees the Rust text)"""
    return d


# ----------------------------------------------------------------------------- JSON Schema subset validator (2020-12 semantics for the keywords used)

def validate(s, v, null_ok=False):
    """list of error texts; null_ok: accept null wherever a schema is applied (to tell the Option-null finding apart)"""
    if null_ok and v is None: return []
    errs = []
    if '$ref' in s: return [f'$ref {s["$ref"]} in an inline schema']
    t = s.get('type')
    if t is not None:
        ok = {'string': isinstance(v, str), 'integer': isinstance(v, int) and not isinstance(v, bool), 'number': isinstance(v, (int, float)) and not isinstance(v, bool),
              'boolean': isinstance(v, bool), 'array': isinstance(v, list), 'object': isinstance(v, dict)}.get(t)
        if ok is None: return [f'type {t!r} is not a JSON Schema type']
        if not ok: return [f'{json.dumps(v)[:40]} is not of type {t}']
    if 'enum' in s and v not in s['enum']: errs.append(f'{json.dumps(v)[:40]} not in enum {s["enum"]}')
    if isinstance(v, dict):
        for k in s.get('required', []):
            if k not in v: errs.append(f'required key {k!r} missing')
        for k, ps in s.get('properties', {}).items():
            if k in v: errs += [f'{k}: {e}' for e in validate(ps, v[k], null_ok)]
    if isinstance(v, list) and 'items' in s:
        for i, x in enumerate(v): errs += [f'[{i}]: {e}' for e in validate(s['items'], x, null_ok)]
    if 'oneOf' in s:
        n = sum(1 for x in s['oneOf'] if not validate(x, v, null_ok))
        if n != 1: errs.append(f'{json.dumps(v)[:60]} fits {n} alternatives of oneOf')
    if 'anyOf' in s and not any(not validate(x, v, null_ok) for x in s['anyOf']): errs.append(f'{json.dumps(v)[:60]} fits no alternative of anyOf')
    for x in s.get('allOf', []): errs += validate(x, v, null_ok)
    return errs


# ----------------------------------------------------------------------------- judge

def judge(case, out, m):
    v = []
    if 'panic' in out and 'macro' not in out or 'abort' in out or 'hang' in out: return [('violation', 'executor died: ' + str(out)[:200])]
    mm = (m or {}).get('model')
    kind = case['kind']
    if kind == 'case':
        if out['macro'] != out['serde']: v.append(('violation', f'rename_all = "{case["rule"]}" on {"field" if case["field"] else "variant"} {case["ident"]!r}: derive(Schema) writes {out["macro"]!r}, serde {out["serde"]!r}'))
        if mm is not None and (mm['macro'] != out['macro'] or mm['serde'] != out['serde']): v.append(('disagree', f'{case["rule"]} {case["ident"]!r}: impl {out} model {mm}'))
        return v
    if kind == 'catalogue':
        if 'schema' not in out: return [('violation', 'catalogue entry missing: ' + str(out)[:200])]
        s, name = out['schema'], out['name']
        for val in out['values']:
            e = validate(s, val)
            if e:
                if val is None and name == 'E5u': v.append(('violation', f'{name}: serde writes null for the unit variant of an untagged enum; the schema has {e[0]}', 'KF-C16-untagged-unit'))
                elif not validate(s, val, null_ok=True): v.append(('violation', f'{name}: serde writes null for an Option field that is None, which the property schema (the inner type\'s) does not admit: {e[0]}', 'KF-C16-option-null'))
                else: v.append(('violation', f'{name}: the serialized value {json.dumps(val)[:160]} does not validate: {e[:2]}'))
        if s.get('type') == 'object' and all(isinstance(x, dict) for x in out['values']):
            keys = set().union(*[set(x) for x in out['values']])
            props = set(s.get('properties', {}))
            if keys != props: v.append(('violation', f'{name}: serde writes the keys {sorted(keys)}, the schema has the properties {sorted(props)}'))
            req = set(s.get('required', []))
            if all(out['roundtrip']):
                want = {k for k, om in out['omittable'].items() if not om}
                if req != want: v.append(('violation', f'{name}: required {sorted(req)}, but serde refuses exactly the absence of {sorted(want)}'))
        return v
    # derive
    mac, view = out['macro'], out['serde']
    if 'panic' in view or 'error' in view.get('ser', {}) or 'error' in view.get('de', {}) or 'error' in view: return []          # serde itself rejects the definition: nothing to describe
    d = case.get('def')
    if 'panic' in mac: return [('violation', f'derive(Schema) panics on a definition serde accepts: {mac["panic"][:160]}   [{case["src"][:200]}]')]
    if 'error' in mac: return [('violation', f'derive(Schema) refuses a definition serde accepts: {mac["error"][:160]}   [{case["src"][:200]}]')]
    shape = canon(mac['shape'])
    if has_unknown(shape): return [('violation', f'unreadable generated code: {json.dumps(shape)[:300]}')]
    exp, kf = expected(view, d)
    if shape != exp:
        v.append(('violation', f'schema {json.dumps(shape)[:400]} — serde\'s shape {json.dumps(exp)[:400]}   [{case["src"][:300]}]') + ((kf,) if kf and strip_null(exp) == strip_null_shape(shape) else ()))
    if mm is not None and case.get('def') is not None and not case['def'].get('transparent'):          # (the Lean transcription has no `transparent`: such definitions are judged against serde_derive alone)
        if mm['macro'] != shape: v.append(('disagree', f'derive: impl {json.dumps(shape)[:300]} model {json.dumps(mm["macro"])[:300]}   [{case["src"][:200]}]'))
        ms = model_serde_view(view, d)
        if mm['serde'] != ms: v.append(('disagree', f'serde: real serde_derive {json.dumps(ms)[:300]} model {json.dumps(mm["serde"])[:300]}   [{case["src"][:200]}]'))
    return v


def strip_null(e):
    """the expected shape with the untagged unit variant replaced by what the derive writes for it (the known finding is exactly that difference)"""
    if isinstance(e, dict):
        if e == {'null': True}: return {'obj': [], 'flat': []}
        return {k: strip_null(x) for k, x in e.items()}
    if isinstance(e, list): return [strip_null(x) for x in e]
    return e


def strip_null_shape(s): return s


def model_serde_view(view, d):
    """what the Lean `Serde.*` side is asked to compute, read off the real serde_derive view"""
    ser = view['ser']
    data = ser['data']
    def keys(vfs, cdefault): return [[vf['ser'], not (vf['option'] or vf['default'] or cdefault or vf['skip_if'] or vf['skip_de'])] for vf in vfs if not vf['skip_ser'] and not vf['flatten']]
    if 'struct' in data: return {'keys': keys(data['fields'], ser['container_default'])} if data['struct'] == 'struct' else None
    vs = [vv for vv in data['enum'] if not vv['skip_ser']]
    mode, out = ser['tag'], []
    if mode == 'external' and all(vv['style'] == 'unit' for vv in data['enum']): return {'names': [vv['ser'] for vv in vs]}
    for vv in vs:
        tag, unit = vv['ser'], vv['style'] == 'unit'
        if mode == 'untagged': w = 'content'
        elif mode == 'external': w = {'bare': tag} if unit else {'keyed': tag}
        elif 'internal' in mode: w = {'inline': [mode['internal'], tag]}
        else: w = {'tagOnly': [mode['adjacent'][0], tag]} if unit else {'adjacent': [mode['adjacent'][0], tag, mode['adjacent'][1]]}
        out.append({'wire': w, 'keys': keys(vv['fields'], False) if vv['style'] == 'struct' else None})
    return {'wires': out}


def nontrivial(case):
    if case['kind'] == 'case': return any(c.isupper() or c == '_' for c in case['ident']) and case['rule'] not in ('lowercase', 'snake_case')
    if case['kind'] == 'catalogue': return True
    return 'rename' in case['src'] or case['src'].count('#[') >= 2


def features(case, out):
    if case['kind'] == 'case': return ['case_' + case['rule']]
    if case['kind'] == 'catalogue': return ['catalogue']
    view = out.get('serde', {})
    if 'ser' not in view or 'error' in view['ser']: return ['serde_rejects']
    d = view['ser']['data']
    return ['struct_' + d['struct']] if 'struct' in d else ['enum_' + (view['ser']['tag'] if isinstance(view['ser']['tag'], str) else list(view['ser']['tag'])[0])]
