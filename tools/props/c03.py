"""C03 — responses on the wire are well-formed and never overrun their buffer.

impl   : harness C03 (real `Response`, `complete`, `send` into a Vec, capacity assertion H3, pinned clock H5)
model  : Lean `Ohkami.Response.build/render/declared` (the definitions `send_exact`, `framing`, ... are about)
spec   : this file — an independent HTTP/1.1 response reader + the abstract header-map semantics of the public API
"""
import json
from email.utils import formatdate
from .common import hx, unhx, shrink_list

ID = 'C03'
GEN_DEPS = ['GenResHeaders', 'GenStatus']
DATE = 'Sun, 06 Nov 1994 08:49:37 GMT'      # the pinned clock 784111777 (H5)
RULE = ('operation histories over the public Response API (46 standard headers, custom names, Set-Cookie with directives, '
        'text/html/json/raw payloads, drop_content, every status of the table); non-trivial = at least 3 operations and a '
        'removal or a re-set of a header that was set before, or a body change after a body was set; distinct by canonical JSON')
ASSUMPTIONS = ['operation alphabet = public API except direct writes to Content-Length / Transfer-Encoding (they belong to the body setters)',
               'header names and values carry no CR/LF',
               'Content::Stream (chunked) is covered by C17, WebSocket upgrade is out of scope']

# independent table: the field name each typed setter stands for (RFC 9110 / Fetch / CSP / WebSocket registrations)
STD_NAMES = {
    'AcceptRanges': 'Accept-Ranges', 'AccessControlAllowCredentials': 'Access-Control-Allow-Credentials',
    'AccessControlAllowHeaders': 'Access-Control-Allow-Headers', 'AccessControlAllowMethods': 'Access-Control-Allow-Methods',
    'AccessControlAllowOrigin': 'Access-Control-Allow-Origin', 'AccessControlExposeHeaders': 'Access-Control-Expose-Headers',
    'AccessControlMaxAge': 'Access-Control-Max-Age', 'Age': 'Age', 'Allow': 'Allow', 'AltSvc': 'Alt-Svc',
    'CacheControl': 'Cache-Control', 'CacheStatus': 'Cache-Status', 'CDNCacheControl': 'CDN-Cache-Control',
    'Connection': 'Connection', 'ContentDisposition': 'Content-Disposition', 'ContentEncoding': 'Content-Encoding',
    'ContentLanguage': 'Content-Language', 'ContentLength': 'Content-Length', 'ContentLocation': 'Content-Location',
    'ContentRange': 'Content-Range', 'ContentSecurityPolicy': 'Content-Security-Policy',
    'ContentSecurityPolicyReportOnly': 'Content-Security-Policy-Report-Only', 'ContentType': 'Content-Type',
    'CrossOriginEmbedderPolicy': 'Cross-Origin-Embedder-Policy', 'CrossOriginResourcePolicy': 'Cross-Origin-Resource-Policy',
    'Date': 'Date', 'ETag': 'ETag', 'Expires': 'Expires', 'Link': 'Link', 'Location': 'Location',
    'ProxyAuthenticate': 'Proxy-Authenticate', 'ReferrerPolicy': 'Referrer-Policy', 'Refresh': 'Refresh',
    'RetryAfter': 'Retry-After', 'SecWebSocketAccept': 'Sec-WebSocket-Accept', 'SecWebSocketProtocol': 'Sec-WebSocket-Protocol',
    'SecWebSocketVersion': 'Sec-WebSocket-Version', 'Server': 'Server', 'StrictTransportSecurity': 'Strict-Transport-Security',
    'Trailer': 'Trailer', 'TransferEncoding': 'Transfer-Encoding', 'Upgrade': 'Upgrade', 'Vary': 'Vary', 'Via': 'Via',
    'XContentTypeOptions': 'X-Content-Type-Options', 'XFrameOptions': 'X-Frame-Options', 'WWWAuthenticate': 'WWW-Authenticate',
}
FRAMING = {'ContentLength', 'TransferEncoding'}
USER_STD = [v for v in STD_NAMES if v not in FRAMING and v != 'ContentType']
CUSTOM = ['X-A', 'X-Bb', 'X-Request-Id', 'Y', 'x-c', 'Z-' + 'z' * 30]
STATUSES = [100, 101, 103, 200, 200, 200, 201, 202, 204, 204, 205, 206, 301, 302, 304, 400, 401, 403, 404, 404, 418, 500, 503]
TYPED_VALUE = [('OK', 200), ('Created', 201), ('MultipleChoice', 300), ('BadRequest', 400), ('NotFound', 404), ('InternalServerError', 500)]
TYPED_BARE = [('Continue', 100), ('EarlyHints', 103), ('Accepted', 202), ('NoContent', 204), ('ResetContent', 205), ('NotModified', 304)]
TYPED_REDIRECT = [('MovedPermanently', 301), ('Found', 302), ('SeeOther', 303), ('TemporaryRedirect', 307), ('PermanentRedirect', 308)]
CTYPES = ['application/octet-stream', 'image/png', 'text/csv', 'application/x-www-form-urlencoded']


def _val(rng):
    n = rng.choice([0, 1, 1, 3, 8, 40, 200])
    alphabet = 'abcXYZ019 ,;=-_/."' if rng.random() < 0.85 else 'aé日本 ü'
    return hx(''.join(rng.choice(alphabet) for _ in range(n)))


def _body(rng):
    n = rng.choice([0, 1, 5, 17, 100, 1500])
    return bytes(rng.randrange(256) for _ in range(n))


def _text(rng):
    n = rng.choice([0, 1, 5, 17, 300])
    return ''.join(rng.choice('abc xyz\n\r\té日') for _ in range(n))


def _cookie(rng):
    d = {}
    if rng.random() < 0.3: d['expires'] = hx('Wed, 21 Oct 2015 07:28:00 GMT')
    if rng.random() < 0.4: d['max_age'] = rng.choice([0, 1, 59, 86400, 2**32, 2**64 - 1])
    if rng.random() < 0.3: d['domain'] = hx(rng.choice(['example.com', 'a.b.c']))
    if rng.random() < 0.4: d['path'] = hx(rng.choice(['/', '/where', '/a/b']))
    if rng.random() < 0.3: d['secure'] = True
    if rng.random() < 0.3: d['http_only'] = True
    if rng.random() < 0.4: d['same_site'] = rng.choice(['Strict', 'Lax', 'None'])
    name = rng.choice(['id', 'name', 'SID', 'a_b-c'])
    value = ''.join(rng.choice('abc019 ;=,"é%') for _ in range(rng.choice([0, 1, 4, 12])))
    return ['cookie', hx(name), hx(value), d]


def _case(rng):
    ops = []
    pool = rng.sample(USER_STD, rng.choice([1, 2, 3, 6]))      # few names => many re-sets and removals of the same header
    # names given to the by-name API `.x(name, ..)` in any letter case; among them registered field names, also ones the same history reaches
    # through their typed setters: one header per field name, whatever the spelling and the way in
    xnames = list(CUSTOM)
    if rng.random() < 0.4: xnames += [rng.choice([n.lower(), n.upper(), n.swapcase()]) for n in rng.sample(CUSTOM, 3)] * 2
    if rng.random() < 0.3:
        free = [STD_NAMES[v] for v in USER_STD + ['ContentType']]
        for n in rng.sample(free, rng.choice([1, 2])) + ([STD_NAMES[rng.choice(pool)]] if rng.random() < 0.6 else []):
            xnames += [rng.choice([n, n.lower(), n.upper()])] * 3
    for _ in range(rng.choice([0, 1, 2, 4, 8, 16, 40])):
        k = rng.random()
        if k < 0.42:
            h = rng.choice(pool)
            ops.append(rng.choice([['set', h, _val(rng)], ['sset', h, _val(rng)], ['remove', h], ['append', h, _val(rng)], ['remove', h], ['set', h, _val(rng)]]))
        elif k < 0.70:
            c = hx(rng.choice(xnames))
            ops.append(rng.choice([['xset', c, _val(rng)], ['xremove', c], ['xappend', c, _val(rng)], ['xremove', c]]))
        elif k < 0.78:
            ops.append(_cookie(rng))
        elif k < 0.84: ops.append(['text', hx(_text(rng))])
        elif k < 0.88: ops.append(['html', hx(_text(rng))])
        elif k < 0.91: ops.append(['json', hx(json.dumps(rng.choice([[1, 2, 3], "s", {"a": 1, "b": [True, None]}, 42, []]), separators=(',', ':')))])
        elif k < 0.95: ops.append(['payload', hx(rng.choice(CTYPES)), _body(rng).hex()])
        else: ops.append(['drop'])
    if rng.random() < 0.006:          # one header removed and set again several hundred times (every dead entry stays in the table of standard headers)
        h = rng.choice(pool)
        at = rng.randrange(len(ops) + 1)
        ops[at:at] = [['set', h, _val(rng)], ['remove', h]] * rng.choice([120, 250, 254, 255, 256, 300, 520])
    status = rng.choice(STATUSES)
    if rng.random() < 0.12:          # the response starts as a typed responder a handler returns (typed::status::X(body) / X / X::at(location)); the history goes on from there
        kind = rng.choice(['string', 'str', 'html', 'json', 'unit', 'bare', 'redirect'])
        name, status = rng.choice(TYPED_BARE if kind == 'bare' else TYPED_REDIRECT if kind == 'redirect' else TYPED_VALUE)
        payload = (json.dumps(rng.choice([[1, 2, 3], "s", {"a": 1, "b": [True, None]}, 42, []]), separators=(',', ':')) if kind == 'json' else rng.choice(['/next', 'https://example.org/a?b=c', '/é']) if kind == 'redirect'
                   else '' if kind in ('unit', 'bare') else _text(rng))
        ops.insert(0, ['typed', kind, name, hx(payload)])
    clock = rng.randrange(0, 4102444800) if rng.random() < 0.7 else 86400 * rng.randrange(0, 40000) + 86400 * rng.choice([8, 9, 10]) % (86400 * 28) + rng.randrange(86400)      # the Date line is part of the message: any instant, with days 9-11 of a month frequent
    return {'status': status, 'clock': clock, 'date': formatdate(clock, usegmt=True), 'ops': ops}


def corpus():
    mk = lambda st, ops: {'case': {'status': st, 'date': DATE, 'ops': ops}}
    return [
        # the duplicate-header overrun repaired by the IndexMap::iter fix
        mk(200, [['set', 'Server', '61'], ['remove', 'Server'], ['set', 'Server', hx('b' * 90)]]),
        # length-less 200 repaired in Response::complete
        mk(200, [['drop']]),
        mk(204, [['text', hx('hello')]]),
        mk(304, [['drop']]),
        mk(200, [['text', hx('abc')], ['drop'], ['html', hx('<p>')]]),
        mk(200, [['xset', hx('X-A'), '31'], ['xset', hx('Y'), '32'], ['xset', hx('X-Bb'), '33'], ['xremove', hx('X-A')], ['xappend', hx('X-Bb'), '34'], ['xset', hx('X-A'), '35']]),
        mk(200, [['set', 'ContentEncoding', hx('gzip')]]),
        # a header removed and set again several hundred times on one response (the table of standard headers keeps every dead entry: its one-byte slot index ran over, fix 1007815)
        mk(200, [['set', 'Server', '61'], ['remove', 'Server']] * 254 + [['set', 'Server', hx('last')]]),
        mk(200, [['set', 'Server', '61'], ['remove', 'Server']] * 255 + [['set', 'Server', hx('last')]]),
        mk(200, [['set', 'Vary', hx('Origin')]] + [['set', 'Server', '61'], ['remove', 'Server']] * 256 + [['set', 'Server', hx('b' * 40)], ['set', 'ETag', hx('"1"')]]),
        mk(404, [['set', 'Via', hx('1.1 a')], ['remove', 'Via'], ['set', 'Age', '31'], ['remove', 'Age']] * 140 + [['text', hx('not here')], ['set', 'Via', hx('1.1 b')]]),
        # an event stream replaced or dropped (fix 425e3ae): Content-Length beside Transfer-Encoding / a chunked response without a chunk
        mk(200, [['stream', [hx('tick')]], ['text', hx('hello')]]),
        mk(500, [['stream', [hx('tick')]], ['drop']]),
        mk(200, [['stream', [hx('tick')]], ['json', hx('{"error":1}')], ['stream', [hx('again')]]]),
        mk(200, [['stream', [hx('first')]], ['stream', [hx('second')]]]),          # a stream set over a stream is still announced as chunked
        # a registered field name through the by-name API: set and removed by name
        mk(200, [['xset', hx('Cache-Control'), hx('no-store')], ['xremove', hx('Cache-Control')]]),
        mk(200, [['xset', hx('server'), hx('a')], ['xappend', hx('server'), hx('b')], ['xset', hx('X-A'), '31'], ['xremove', hx('server')], ['xset', hx('VIA'), hx('1.1 p')]]),
        # one field name, several spellings and both ways in (was: two lines `x-a` / `X-A`; `Server` twice)
        mk(200, [['xset', hx('x-a'), '31'], ['xset', hx('X-A'), '32'], ['xappend', hx('X-a'), '33'], ['xset', hx('Y'), '34'], ['xremove', hx('y')]]),
        mk(200, [['set', 'Server', hx('a')], ['xset', hx('server'), hx('b')], ['xappend', hx('SERVER'), hx('c')], ['set', 'Via', hx('1.1 p')], ['xremove', hx('via')], ['xset', hx('date'), hx('never')]]),
        mk(200, [['text', hx('hi')], ['xset', hx('content-type'), hx('text/x-mine')]]),
        mk(200, [['cookie', hx('id'), hx('4 2'), {'path': hx('/'), 'same_site': 'Strict', 'max_age': 120}], ['cookie', hx('id'), hx('x'), {}]]),
    ] + [mk(st, [['set', h, hx('v')]]) for st, h in zip([200] * len(USER_STD), USER_STD)]


def _stream_case(rng):
    """an event stream as content under any status (the model has no stream content: judged by the wire rules alone; C17 covers the stream itself)"""
    msgs = [rng.choice(['tick', 'a b', 'x' * 40, 'é', '0', '', 'log line\n', 'two\nlines', '\n', 'a\n\n', 'x' * 300]) for _ in range(rng.choice([0, 1, 3]))]          # the chunk size is the number of bytes that follow, whatever the text (empty, ending in a line break, long)
    ops = [['stream', [hx(m) for m in msgs]]]
    if rng.random() < 0.5: ops.append(['xset', hx('X-After'), hx('1')])
    r = rng.random()
    if r < 0.35:          # a fang replaces or drops the stream a handler answered with (an error page, a redirect without content): the framing follows the content that is sent
        ops.append(rng.choice([['text', hx('replaced')], ['html', hx('<p>no</p>')], ['json', hx('{"error":1}')], ['payload', hx('image/png'), '0001'], ['drop'], ['drop']]))
        if rng.random() < 0.3: ops.append(['stream', [hx('again')]])
    elif r < 0.5: ops.insert(0, rng.choice([['text', hx('first')], ['set', 'Server', hx('s')], ['drop']]))
    elif r < 0.62: ops.append(['stream', [hx(m) for m in rng.choice([['second'], [], ['a', 'b']])]])          # a stream set over a stream
    return {'status': rng.choice([200, 200, 201, 204, 204, 304, 404]), 'clock': 784111777, 'date': DATE, 'ops': ops}


def generate(rng, tier):
    n = 4000 if tier == 'quick' else 120000
    return [{'case': _case(rng)} for _ in range(n)] + [{'case': _stream_case(rng), 'stream': 'stream-content'} for _ in range(n // 80)]


CONTENT_OPS = ('text', 'html', 'json', 'payload', 'drop', 'stream', 'typed')


def stream_final(case):
    """the content the response ends up with is an event stream: the index of that op, else None"""
    last = next((i for i in range(len(case['ops']) - 1, -1, -1) if case['ops'][i][0] in CONTENT_OPS), None)
    return last if last is not None and case['ops'][last][0] == 'stream' else None


def spec_stream(case, out):
    wire = unhx(out['wire'])
    head, sep, body = wire.partition(b'\r\n\r\n')
    if not sep: return 'no end of head'
    lines = head.split(b'\r\n')
    st = case['status']
    if not lines[0].startswith(b'HTTP/1.1 %d ' % st): return f'status line {lines[0]!r}'
    hs = {}
    for l in lines[1:]:
        k, _, v = l.partition(b': ')
        if k.lower() in hs: return f'header {k!r} twice'
        hs[k.lower()] = v
    if st == 204:
        if body: return f'204 with {len(body)} body bytes on the wire'
        if b'content-length' in hs: return '204 with Content-Length'
        if b'transfer-encoding' in hs: return '204 with Transfer-Encoding (no content, no coding of it: RFC 9112 6.1)'
        return None
    if st == 304 or 100 <= st <= 199: return None          # content set on a 1xx / 304 is left to the user by `complete` (documented there); the property's no-body rules are 204 and HEAD
    if hs.get(b'transfer-encoding') != b'chunked' or b'content-length' in hs: return 'a stream needs Transfer-Encoding: chunked and no Content-Length'
    # de-chunk (RFC 9112 7.1)
    data, rest = b'', body
    while True:
        size, sep, rest = rest.partition(b'\r\n')
        if not sep: return 'chunk size line not terminated'
        try: n = int(size, 16)
        except ValueError: return f'chunk size {size!r}'
        if n == 0:
            if rest != b'\r\n': return f'bytes after the last chunk: {rest[:20]!r}'
            break
        data, rest = data + rest[:n], rest[n:]
        if rest[:2] != b'\r\n': return 'chunk not terminated by CRLF'
        rest = rest[2:]
    want = b''.join(b''.join(b'data: ' + l + b'\n' for l in unhx(m).split(b'\n')) + b'\n' for m in case['ops'][stream_final(case)][1])          # one `data:` line per line of the message, then the blank line (the event-stream format; C17 decodes it with a full parser)
    if data != want: return f'stream body {data[:60]!r}, the messages are {want[:60]!r}'
    return None


def nontrivial(case):
    ops = case['ops']
    if len(ops) < 3: return False
    seen, body = set(), False
    for op in ops:
        if op[0] in ('set', 'sset', 'append', 'xset', 'xappend'):
            if op[1] in seen: return True
            seen.add(op[1])
        elif op[0] in ('remove', 'xremove'):
            if op[1] in seen: return True
        elif op[0] in ('text', 'html', 'json', 'payload', 'drop'):
            if body: return True
            body = True
    return False


def features(case, out):
    f = ['status_%dxx' % (case['status'] // 100), 'ops_%s' % ('0' if not case['ops'] else '1-4' if len(case['ops']) <= 4 else '5-16' if len(case['ops']) <= 16 else '17+')]
    f += ['op_' + op[0] + ('_' + op[1] if op[0] == 'typed' else '') for op in case['ops']]
    return f


# ---- spec: abstract semantics of the operations + independent response reader

def spec_expect(case):
    std, custom, cookies, body = {'Date': case['date'].encode(), 'Content-Length': b'0'}, {}, [], None
    order = ['Date', 'Content-Length']

    def put(d, k, v):
        d[k] = v
    for op in case['ops']:
        t = op[0]
        if t in ('set', 'sset'): put(std, STD_NAMES[op[1]], unhx(op[2]))
        elif t == 'remove': std.pop(STD_NAMES[op[1]], None)
        elif t == 'append':
            n = STD_NAMES[op[1]]
            std[n] = std[n] + b', ' + unhx(op[2]) if n in std else unhx(op[2])
        elif t in ('xset', 'xremove', 'xappend'):
            # a field name is one header whatever its letter case and whichever way the API was given it (RFC 9110 5.1): a registered name
            # reaches the same header as its typed setter, any other name the header of that name in any spelling
            low = unhx(op[1]).lower()
            canon = next((c for c in STD_NAMES.values() if c.lower().encode() == low), None)
            d, n = (std, canon) if canon is not None else (custom, low)
            if t == 'xset': d[n] = unhx(op[2])
            elif t == 'xremove': d.pop(n, None)
            else: d[n] = d[n] + b', ' + unhx(op[2]) if n in d else unhx(op[2])
        elif t == 'cookie': cookies.append((unhx(op[1]), unhx(op[2]), op[3]))
        elif t == 'stream':          # an event stream as content: it announces itself as text/event-stream, uncached, in the chunked coding, with no declared length
            std['Content-Type'] = b'text/event-stream'; std['Cache-Control'] = b'no-cache, must-revalidate'; std['Transfer-Encoding'] = b'chunked'
            std.pop('Content-Length', None); body = ('stream', op[1])
        elif t in ('text', 'html', 'json', 'payload'):
            ct = {'text': b'text/plain; charset=UTF-8', 'html': b'text/html; charset=UTF-8', 'json': b'application/json'}.get(t) or unhx(op[1])
            body = unhx(op[2] if t == 'payload' else op[1])
            std['Content-Type'] = ct
            std['Content-Length'] = str(len(body)).encode()
            std.pop('Transfer-Encoding', None)          # content of a known length replaced the stream: it is sent under its Content-Length, never both (RFC 9112 6.2)
        elif t == 'typed':          # stated from the documentation of the responders: the body as text/plain, text/html or application/json; nothing for () and bare statuses; Location for a redirect
            kind, payload = op[1], unhx(op[3])
            if kind in ('string', 'str', 'html', 'json'):
                std['Content-Type'] = {'string': b'text/plain; charset=UTF-8', 'str': b'text/plain; charset=UTF-8', 'html': b'text/html; charset=UTF-8', 'json': b'application/json'}[kind]
                body = payload; std['Content-Length'] = str(len(body)).encode()
            elif kind == 'redirect': std['Location'] = payload
        elif t == 'drop':
            std.pop('Content-Type', None); std.pop('Content-Length', None)
            if isinstance(body, tuple): std.pop('Transfer-Encoding', None)          # the chunked coding goes with the stream it announced
            body = None
    st = case['status']
    if st == 204:
        std.pop('Content-Length', None); body = None
    elif body is None and 'Content-Length' not in std and not (100 <= st <= 199 or st == 304):
        std['Content-Length'] = b'0'
    return std, custom, cookies, body


def parse_response(wire):
    head, sep, body = wire.partition(b'\r\n\r\n')
    if not sep: return None
    lines = head.split(b'\r\n')
    hs = []
    for l in lines[1:]:
        if b': ' not in l: return None
        hs.append(tuple(l.split(b': ', 1)))
    return lines[0], hs, body


def pct(v):
    return ''.join(chr(b) if (48 <= b <= 57 or 65 <= b <= 90 or 97 <= b <= 122) else '%%%02X' % b for b in v).encode()


def spec_check(case, out):
    if 'panic' in out: return 'panic: ' + out['panic'][:160]
    if 'abort' in out or 'hang' in out: return 'abort/hang'
    wire = unhx(out['wire'])
    if len(wire) > out['declared']: return f'wrote {len(wire)} bytes into a buffer reserved for {out["declared"]}'
    p = parse_response(wire)
    if p is None: return 'wire does not parse as an HTTP/1.1 response'
    line, hs, body = p
    st = case['status']
    if not (line.startswith(b'HTTP/1.1 %d ' % st)): return f'status line {line!r}'
    std, custom, cookies, ebody = spec_expect(case)
    got_cookies = [v for n, v in hs if n == b'Set-Cookie']
    rest = [(n, v) for n, v in hs if n != b'Set-Cookie']
    names = [n.lower() for n, _ in rest]
    if len(names) != len(set(names)): return 'a header appears twice: ' + repr(sorted(n for n in set(names) if names.count(n) > 1))
    want = {k.lower().encode(): v for k, v in std.items()}
    want.update(custom)
    got = {n.lower(): v for n, v in rest}
    if got != want:
        diff = {k: (got.get(k), want.get(k)) for k in set(got) | set(want) if got.get(k) != want.get(k)}
        return 'live headers differ from the operation history (got, want): ' + repr(diff)[:300]
    if body != (ebody or b''): return 'body differs'
    if len(got_cookies) != len(cookies): return 'number of Set-Cookie lines'
    for line_, (n, v, d) in zip(got_cookies, cookies):
        if not line_.startswith(n + b'=' + pct(v)): return f'Set-Cookie line {line_!r} does not start with its cookie pair'
        if b'\r' in line_ or b'\n' in line_: return 'Set-Cookie line break'
    # framing rules of the property, stated on the wire alone
    cl = got.get(b'content-length')
    if st == 204:
        if cl is not None or body: return '204 with Content-Length or body'
    elif not (100 <= st <= 199 or st == 304):
        if cl is None and got.get(b'transfer-encoding') != b'chunked': return 'no declared length on a response that may carry a body'
        if cl is not None and (not cl.isdigit() or int(cl) != len(body)): return f'Content-Length {cl!r} but {len(body)} body bytes'
    else:
        if cl is not None and cl.isdigit() and int(cl) != len(body): return f'Content-Length {cl!r} but {len(body)} body bytes'
    return None


def spec_served(case, out):
    """the same response returned by a handler and sent by the real Router::handle: GET is judged like the direct path; HEAD carries no body, the header
    fields of GET (Content-Length / Transfer-Encoding may be left out; a Content-Length that is sent is the one of GET), and no Content-Length under 204"""
    if not out.get('get') or not out.get('head'): return 'the router path wrote no response'
    stream = stream_final(case) is not None
    bad = spec_stream(case, {'wire': out['get']}) if stream else spec_check(case, {'wire': out['get'], 'declared': 1 << 62})
    if bad: return 'GET through Router::handle: ' + bad
    g, h = parse_response(unhx(out['get'])), parse_response(unhx(out['head']))
    if h is None: return 'HEAD: wire does not parse as an HTTP/1.1 response'
    (gl, ghs, _), (hl, hhs, hbody) = g, h
    if hbody: return f'HEAD answered with {len(hbody)} body bytes'
    if hl != gl: return f'HEAD status line {hl!r}, GET {gl!r}'
    framing = (b'content-length', b'transfer-encoding')
    hn = [n.lower() for n, _ in hhs if n != b'Set-Cookie']
    if len(hn) != len(set(hn)): return 'HEAD: a header appears twice'
    if [x for x in hhs if x[0].lower() not in framing] != [x for x in ghs if x[0].lower() not in framing]: return f'HEAD header fields {hhs[:6]} differ from those of GET {ghs[:6]}'
    hd, gd = {n.lower(): v for n, v in hhs}, {n.lower(): v for n, v in ghs}
    for f in framing:
        if f in hd and hd[f] != gd.get(f): return f'HEAD sends {f.decode()}: {hd[f]!r}, GET {gd.get(f)!r}'
    if case['status'] == 204 and b'content-length' in hd: return 'HEAD: 204 with Content-Length'
    return None


def wire_framing(wire_hex):
    """(declared Content-Length or None, Transfer-Encoding: chunked present) read off a response on the wire"""
    head = unhx(wire_hex).split(b'\r\n\r\n', 1)[0].split(b'\r\n')[1:]
    hs = {l.split(b': ', 1)[0].lower(): l.split(b': ', 1)[1] for l in head if b': ' in l}
    cl = hs.get(b'content-length')
    return (int(cl) if cl is not None and cl.isdigit() else (None if cl is None else cl.decode('latin1'))), hs.get(b'transfer-encoding') == b'chunked'


def judge(case, out, m):
    v = []
    fr = ((m or {}).get('model') or {}).get('framing')
    if fr and 'panic' not in out:
        # the framing automaton (Lean `Ohkami.Framing`: theorems never_both, no_content_204, content_announced, end_determinable) against the wire, GET and HEAD
        for key, which in (('get', 'get'), ('head', 'head')):
            if key in out:
                got = wire_framing(out[key]); want = (fr[which]['cl'], fr[which]['te'])
                if got != want: v.append(('disagree', f'{key.upper()}: Content-Length / chunked on the wire {got}, the framing model gives {want} ({fr[which]["content"]})'))
    if 'wire' in out and 'panic' not in out:
        bad = spec_served(case, out)
        if bad: v.append(('violation', bad))
    if stream_final(case) is not None:
        if 'panic' in out or 'wire' not in out: return [('violation', 'sending a stream response died: ' + str(out)[:160])]
        bad = spec_stream(case, out)
        return v + ([('violation', bad)] if bad else [])
    bad = spec_check(case, out)
    if bad: v.append(('violation', bad))
    if m is not None and not any(op[0] == 'stream' for op in case['ops']):          # the model has no stream content: a history in which a stream was replaced is judged by the oracle alone
        mm = m.get('model', {})
        if 'panic' in out or mm.get('wire') != out.get('wire') or mm.get('declared') != out.get('declared'):
            v.append(('disagree', 'model and implementation differ: impl=%s model=%s' % (str(out)[:160], str(mm)[:160])))
    return v


def shrink(case, still_fails):
    return shrink_list(case, ['ops'], still_fails)
