"""C07 — typed path, query and body extraction delivers exact values or stops the handler.

impl  : harness C07 (a catalogue of 24 handler signatures behind routes and mounts; each handler records the typed values it received; raw requests through parser, router, extractors)
model : Lean `Ohkami.Extract.handle` (param conversion, Content-Type gate, Option rule, all-or-nothing); the body / query codecs enter as data computed here
spec  : here — integers: the whole percent-decoded segment is `[+-]?digits` (no `-` for unsigned) and in range; strings: the percent-decoded segment; Query / JSON / URLEncoded / Text:
        the value the query string or the body denotes under the exactly matching media type (Python json, RFC 3986 pairs, UTF-8); the handler runs iff every declared item is produced,
        an optional item is None only when the request does not carry it
"""
import json, re
from .common import hx, unhx

ID = 'C07'
GEN_DEPS = []
RULE = ('39 handler signatures covering every IntoHandler shape (one param of each of the 10 integer types, String, &str, Cow, two-param tuples, a param under a param mount, Query, JSON, Option<JSON>, URLEncoded, Text, Multipart, Option<Multipart>, param+Query+JSON, two optional bodies) x '
        'requests: segments with digits plus garbage, signs, leading zeros, values at and beyond every width, percent-encoded and non-UTF-8 segments, matching / near-miss / mismatching / missing Content-Type, '
        'valid and invalid bodies and queries; non-trivial = a boundary numeral, an escape in a segment, a near-miss media type or an invalid body')
ASSUMPTIONS = ['with mounts the i-th declared parameter is the i-th capture of the full route (the repository\'s own test check_path_params_counted_accumulatedly)',
               'an extractor error on a path param answers 500, a body/query error 400: both are "an error response", the handler does not run',
               'Multipart: forms for one struct (String, Option<File>, Vec<File>) built here, so what a body denotes is known by construction; the byte-level grammar of multipart bodies is C10']
INT = {0: ('u8', 8, False), 1: ('i8', 8, True), 2: ('u16', 16, False), 3: ('i16', 16, True), 4: ('u32', 32, False), 5: ('i32', 32, True), 6: ('u64', 64, False), 7: ('i64', 64, True), 8: ('usize', 64, False), 9: ('isize', 64, True)}
MIME = {'json': 'application/json', 'form': 'application/x-www-form-urlencoded', 'text': 'text/plain', 'multi': 'multipart/form-data'}
_MULTI = {}          # multipart body -> the echo of the form it was built from (None: the form does not fit the handler's struct)


def pct(b): return re.sub(rb'%([0-9A-Fa-f]{2})', lambda m: bytes([int(m.group(1), 16)]), b)


def seg_int(rng, bits, signed):
    lo, hi = (-(2 ** (bits - 1)), 2 ** (bits - 1) - 1) if signed else (0, 2 ** bits - 1)
    r = rng.random()
    if r < 0.35: return str(rng.choice([lo, hi, 0, 1, hi - 1, lo + 1, rng.randrange(lo, hi + 1)]))
    if r < 0.55: return str(rng.choice([hi + 1, lo - 1, hi * 10, 2 ** 64, 2 ** 64 + 1, -(2 ** 63) - 1, 10 ** 30]))
    if r < 0.7: return rng.choice(['12abc', 'abc', '1 2', '0x10', '1.0', '1e3', '+', '-', '--1', '+-1', '1-', '١٢', '１２'])
    if r < 0.8: return rng.choice(['+7', '-7', '007', '-0', '+0', '00', '-007'])
    if r < 0.9: return rng.choice(['%31%32', '1%32', '%2D5', '%2B5', '%ZZ', '%', '1%', '%FF', '%E3%81%82'])
    return str(rng.randrange(0, 300))


def seg_str(rng):
    return rng.choice(['abc', 'a-b_c.d~', 'x%20y', '%E3%81%82', '%FF', '%41', 'a%2Fb', '%', '%4', 'a+b', '日本', '%zz', 'A' * 40, '%00'])


def body_for(rng, kind):
    if kind == 'json':
        return rng.choice([b'{"x":1,"s":"a"}', b'{"s":"\\u00e9","x":-2147483648}', b'{"x":2147483647,"s":"","extra":[1,{"k":null}]}', b'{"x":2147483648,"s":"a"}', b'{"x":"1","s":"a"}', b'{"x":1}',
                           b'{"x":1,"s":"a"', b'', b'[1,2]', b'{"x":1.0,"s":"a"}', b' {"x" : 7 , "s" : "sp" } ', b'{"x":1,"s":"a"}x', b'{"x":true,"s":"a"}', b'{"x":1,"s":null}'])
    if kind == 'form':
        return rng.choice([b'x=1&s=a', b's=%E3%81%82&x=-5', b'x=2147483647&s=&zz=1', b'x=2147483648&s=a', b'x=1', b'x=a&s=b', b'', b'x=1&s=a&x=2', b'x=+7&s=a%20b', b'x=1&s=%FF', b'x=1=2&s=a', b'x=1&&s=a'])
    if kind == 'multi': return multi_body(rng)[0]
    return rng.choice([b'hello', b'', '日本'.encode(), b'\xff\xfe', b'a\r\nb', b'x' * 500])


def multi_body(rng):
    """a multipart body built from a form for `struct { title: String, icon: Option<File>, pics: Vec<File> }`; what it denotes is known by construction"""
    from . import c10
    boundary = rng.choice(['XbX', '----WebKitFormBoundary7MA4YWxkTrZu0gW', 'b'])
    def file(i): return (rng.choice(['a.bin', 'pic 1.png', 'empty.txt', 'x;y=z.pdf']) + str(i), rng.choice(c10.MIMES), rng.choice([b'', b'', c10.content_gen(rng, boundary)]))
    title = c10.text_gen(rng)
    parts, ok = [('title', None, None, title.encode())], True
    icon = None
    k = rng.random()
    if k < 0.5: icon = file(0); parts.append(('icon',) + icon)
    elif k < 0.7: parts.append(('icon', '', 'application/octet-stream', b''))          # a file input left unselected, as browsers send it
    pics = [file(i + 1) for i in range(rng.choice([0, 1, 2, 3]))]
    parts += [('pics',) + f for f in pics] if pics else [('pics', '', 'application/octet-stream', b'')]
    m = rng.random()
    if m < 0.08: parts = parts[1:]; ok = False                                            # no title
    elif m < 0.14: parts[0] = ('title', 't.bin', 'image/png', b'xx'); ok = False          # a file where the text is declared
    elif m < 0.2 and icon: parts.insert(2, ('icon',) + file(9)); ok = False               # two files for the single file field
    while any(('--' + boundary).encode() in p[3] for p in parts): boundary += 'Zq9'
    if m >= 0.2 and m < 0.3:          # fields in another order, the files of one name kept together and in order
        order = rng.sample(['title', 'icon', 'pics'], 3)
        parts = [p for n in order for p in parts if p[0] == n]
    body = c10.encode(boundary, parts)
    ef = lambda f: '%s/%s/%s' % (hx(f[0]), hx(f[1]), f[2].hex())
    _MULTI[body] = ('t=%s;i=%s;p=%s' % (hx(title), ef(icon) if icon else '-', ','.join(ef(f) for f in pics))).encode() if ok else None
    return body, boundary


def ctype_for(rng, kind, boundary='XbX'):
    m = MIME[kind]
    r = rng.random()
    if kind == 'multi':
        if r < 0.6: return m + '; boundary=' + boundary
        if r < 0.7: return m + rng.choice(['; charset=utf-8; boundary=' + boundary, '; boundary=' + boundary + '; charset=utf-8', ';boundary=' + boundary])
        if r < 0.8: return m + rng.choice(['x', '-data', '2']) + '; boundary=' + boundary
        if r < 0.9: return rng.choice(['multipart/mixed; boundary=' + boundary, 'application/json', 'text/plain', 'multipart/form-dat; boundary=' + boundary])
        return None
    if r < 0.5: return m
    if r < 0.65: return m + rng.choice(['; charset=utf-8', ';charset=UTF-8', ' ; q=1', '; boundary=x', '; charset=utf-8; boundary=x', '; a=1; b=2; c=3', ';a="x;y"'])
    if r < 0.8: return m + rng.choice(['x', 'ly', '-patch+json', '+xml', '/x', '2'])
    if r < 0.88: return rng.choice(['application/octet-stream', 'text/html', 'application/x-www-form-urlencoded', 'application/json', 'text/plain', ' ' + m])
    if r < 0.95: return rng.choice([m.upper(), m.title(), m.upper() + '; charset=utf-8', m[0].upper() + m[1:]])          # the same media type in another letter case
    return None


def query_for(rng):
    return rng.choice(['a=1', 'a=1&b=x', 'b=%E3%81%82&a=4294967295', 'a=4294967296', 'a=x', 'b=only', '', 'a=1&b=', 'a=1&zz=2', 'a=+5', 'a=1&a=2', 'a=%31',
                       'a=1&t=', 't=&a=2', 'a=1&t=1,2,3', 'a=1&t=7', 'a=2&t=x', 'a=1&t=1,,2', 'a=1&t=4294967296', 'a=1&t=0,4294967295&b=y', 'a=1&t=1,', 'a=1&t=,'])


# ---- independent decoders (the values the texts denote)
def dec_pairs(text):
    if text == b'': return []
    out = []
    for part in text.split(b'&'):
        if b'=' not in part: return None
        k, v = part.split(b'=', 1)
        if not k or b'=' in v: return None
        out.append((k, v))
    return out


def dec_kv(text, fields):
    """fields: [(name, 'u32'|'i32'|'string'|'optstring')] -> echo text or None"""
    ps = dec_pairs(text)
    if ps is None: return None
    got = {}
    for k, v in ps:
        try: kd = pct(k).decode('utf-8')
        except UnicodeDecodeError: return None
        if k.decode('latin1') in [f for f, _ in fields]:
            if k.decode() in got: return None
            got[k.decode()] = v
        elif kd in [f for f, _ in fields]: return None
    vals = {}
    for f, t in fields:
        raw = got.get(f)
        if t in ('u32', 'i32'):
            if raw is not None: raw = pct(raw)          # numbers are read from the percent-decoded text (`%37` is `7`)
            if raw is None or not re.fullmatch(rb'[+-]?[0-9]+' if t == 'i32' else rb'\+?[0-9]+', raw): return None
            z = int(raw)
            if not ((-2 ** 31 <= z < 2 ** 31) if t == 'i32' else (0 <= z < 2 ** 32)): return None
            vals[f] = z
        elif t == 'seq_u32_default':          # a comma-separated list; the empty value is the empty list, an absent field the default (empty)
            vals[f] = []
            for e in (raw.split(b',') if raw else []):
                e = pct(e)
                if not re.fullmatch(rb'\+?[0-9]+', e) or not (0 <= int(e) < 2 ** 32): return None
                vals[f].append(int(e))
        else:
            if raw is None:
                if t == 'optstring': vals[f] = None; continue
                return None
            try: s = pct(raw).decode('utf-8')
            except UnicodeDecodeError: return None
            vals[f] = None if (t == 'optstring' and raw == b'') else s
    return vals


def echo_b(v): return ('x=%d;s=%s' % (v['x'], hx(v['s']))).encode()
def echo_q(v): return ('a=%d;b=%s;t=%s' % (v['a'], hx(v['b']) if v['b'] is not None else '-', '.'.join(str(x) for x in v['t']))).encode()


def dec_json_b(body):
    def no_dup(pairs):
        d = {}
        for k, v in pairs:
            if k in d: raise ValueError('dup')
            d[k] = v
        return d
    try: o = json.loads(body.decode('utf-8'), object_pairs_hook=no_dup, parse_constant=lambda s: (_ for _ in ()).throw(ValueError()))
    except (ValueError, UnicodeDecodeError): return None
    if not isinstance(o, dict) or isinstance(o.get('x'), bool) or not isinstance(o.get('x'), int) or not isinstance(o.get('s'), str): return None
    if not (-2 ** 31 <= o['x'] < 2 ** 31): return None
    return echo_b(o)


def decode_item(kind, data):
    if kind == 'json': return dec_json_b(data)
    if kind == 'form':
        v = dec_kv(data, [('x', 'i32'), ('s', 'string')])
        return echo_b(v) if v is not None else None
    if kind == 'text':
        try: data.decode('utf-8'); return data
        except UnicodeDecodeError: return None
    if kind == 'multi': return _MULTI.get(data)          # any other body (JSON, pairs, text) is not a multipart form
    if kind == 'query':
        v = dec_kv(data, [('a', 'u32'), ('b', 'optstring'), ('t', 'seq_u32_default')])
        return echo_q(v) if v is not None else None
    if kind == 'oquery':          # every field may be absent: no query at all denotes the all-default value
        v = dec_kv(data, [('b', 'optstring'), ('t', 'seq_u32_default')])
        return ('b=%s;t=%s' % (hx(v['b']) if v['b'] is not None else '-', '.'.join(str(x) for x in v['t']))).encode() if v is not None else None


SIGS = {10: ['String'], 11: ['str'], 12: ['Cow'], 13: ['u8', 'String'], 14: ['i64', 'str']}
# every shape of IntoHandler: the param form ('T1' = a one-tuple argument, 'B1' = a bare param, 'T2' = a two-tuple argument, '' = none) x 1..4 extractor items
COMBO = {30: ('T1', 1), 31: ('T1', 2), 32: ('T1', 3), 33: ('T1', 4), 34: ('B1', 1), 35: ('B1', 3), 36: ('B1', 4), 37: ('T2', 1), 38: ('T2', 2), 39: ('T2', 3), 40: ('T2', 4), 41: ('', 3), 42: ('', 4)}
LAY = {1: [('query', False)], 2: [('query', False), ('json', False)], 3: [('query', False), ('json', False), ('text', True)], 4: [('query', False), ('json', False), ('form', True), ('text', True)]}


def mk(rng, sig=None):
    sig = rng.choice(list(range(0, 21)) + [22, 23, 43, 43, 44, 45, 45] + list(COMBO)) if sig is None else sig
    headers, body, method, items, q = [], None, 'GET', [], ''
    if sig in INT:
        name, bits, signed = INT[sig]
        segs = [seg_int(rng, bits, signed)]; ptys = [name]; target = ('/q/p%d/%s' if sig in (8, 9) else '/p%d/%s') % (sig, segs[0])
    elif sig in SIGS:
        ptys = SIGS[sig]
        segs = [(seg_int(rng, 8 if t == 'u8' else 64, t == 'i64') if t in ('u8', 'i64') else seg_str(rng)) for t in ptys]
        target = '/t/p%d/' % sig + '/'.join(segs)
    elif sig == 22:
        ptys = ['u8']; segs = [seg_int(rng, 8, False), seg_str(rng)]; target = '/m/%s/x/%s' % (segs[0], segs[1])
    else:
        ptys, segs = [], []
        layout = LAY[COMBO[sig][1]] if sig in COMBO else {15: [('query', False)], 16: [('json', False)], 17: [('json', True)], 18: [('form', False)], 19: [('text', False)], 20: [('query', False), ('json', False)], 23: [('form', True), ('text', True)], 43: [('multi', False)], 44: [('multi', True)], 45: [('oquery', False)]}[sig]
        method = 'GET' if layout in ([('query', False)], [('oquery', False)]) else 'POST'
        target = (('/q/u/c%d' if sig < 37 else '/q/w/c%d') if sig in COMBO else '/f/p%d' if sig in (43, 44, 45) else '/t/p%d') % sig
        if sig == 20: ptys = ['u8']; segs = [seg_int(rng, 8, False)]; target += '/' + segs[0]
        if sig in COMBO and COMBO[sig][0]:
            ptys = ['u8', 'String'] if COMBO[sig][0] == 'T2' else ['u8']
            segs = [seg_int(rng, 8, False)] + ([seg_str(rng)] if len(ptys) == 2 else [])
            target += '/' + '/'.join(segs)
        bkind = next((k for k, _ in layout if k not in ('query', 'oquery')), None)
        ct = None
        if bkind:
            use = rng.choice([bkind, bkind, bkind, rng.choice(['json', 'form', 'text'])])
            if 'multi' in (use, bkind):
                body, bnd = multi_body(rng) if rng.random() < 0.85 else (body_for(rng, rng.choice(['json', 'text'])), 'XbX')
                ct = ctype_for(rng, use, bnd)
            else:
                ct = ctype_for(rng, use)
                if rng.random() < 0.9: body = body_for(rng, rng.choice([use, bkind]))
            if ct is not None: headers.append(['Content-Type', ct])
        if any(k in ('query', 'oquery') for k, _ in layout): q = query_for(rng) if rng.random() < 0.6 else ''
        for k, opt in layout:
            if k in ('query', 'oquery'): items.append({'kind': 'query', 'optional': opt, 'mime': '', 'ctype': None, 'payload': None, 'decoded': (lambda d: d.hex() if d is not None else None)(decode_item(k, q.encode()))})
            else:
                payload = body if body else None          # an empty body is no payload
                items.append({'kind': 'body', 'optional': opt, 'mime': MIME[k], 'ctype': hx(ct) if ct is not None else None, 'payload': payload.hex() if payload is not None else None,
                              'decoded': (lambda d: d.hex() if d is not None else None)(decode_item(k, payload) if payload is not None else None)})
    if any(ch in target for ch in ' ?#') or not target.isascii():
        target = ''.join(ch if (ch.isascii() and ch not in ' ?#') else ''.join('%%%02X' % b for b in ch.encode()) for ch in target)
        segs = None
    tb = target.encode() + (b'?' + q.encode() if q else b'')
    if segs is None:          # re-read the captures from the (re-encoded) target
        parts = target.split('/')
        segs = [parts[3] if sig in (8, 9) else parts[2]] if sig in INT else parts[4:] if sig in COMBO else parts[3:] if sig in SIGS else [parts[2], parts[4]] if sig == 22 else [parts[3]] if sig == 20 else []
        segs = segs[:2]
    caps = [s.encode().hex() for s in segs][:len(ptys)] if sig != 22 else [segs[0].encode().hex()]
    case = {'sig': sig, 'method': method, 'target': tb.hex(), 'headers': [[hx(k), hx(v)] for k, v in headers], 'body': body.hex() if body else None,
            'ptys': ptys, 'captures': caps, 'items': items}
    if body and rng.random() < 0.15:          # bytes behind the body in the same read (a stray CRLF, the next pipelined request, noise): the payload is the Content-Length bytes
        case['tail'] = rng.choice([b'\r\n', b'GET /nowhere HTTP/1.1\r\n\r\n', b'POST /t/p19 HTTP/1.1\r\nContent-Type: text/plain\r\nContent-Length: 3\r\n\r\nabc', b'}', b'x', bytes(rng.randrange(256) for _ in range(rng.choice([1, 7, 40])))]).hex()
    return {'case': case}


def corpus():
    import random
    rng = random.Random(7)
    W = []
    for sig, seg in [(0, '12abc'), (0, '256'), (6, '18446744073709551617'), (0, '%31'), (11, '%41'), (10, '%FF'), (1, '-128'), (1, '-129'), (0, '-0'), (0, '+7')]:       # was: 12abc -> 12, overflow wrap
        c = mk(rng, sig)['case']; c['target'] = (('/q/p%d/' % sig if sig in (8, 9) else '/p%d/' % sig if sig < 10 else '/t/p%d/' % sig) + seg).encode().hex(); c['captures'] = [seg.encode().hex()]; W.append({'case': c})
    for ct in ['application/jsonx', 'application/json', 'application/json; charset=utf-8', 'application/json-patch+json', None]:                                       # was: prefix match
        c = mk(rng, 16)['case']; body = b'{"x":1,"s":"a"}'
        c['headers'] = [[hx('Content-Type'), hx(ct)]] if ct else []; c['body'] = body.hex()
        c['items'] = [{'kind': 'body', 'optional': False, 'mime': MIME['json'], 'ctype': hx(ct) if ct else None, 'payload': body.hex(), 'decoded': decode_item('json', body).hex()}]
        W.append({'case': c})
    return W


def generate(rng, tier):
    n = 3000 if tier == 'quick' else 90000
    return [mk(rng) for _ in range(n)]


def spec_expect(case):
    """('ran', params, items) or ('error',) from the request alone"""
    params = []
    for t, cap in zip(case['ptys'], case['captures']):
        raw = unhx(cap)
        try: dec = pct(raw).decode('utf-8')
        except UnicodeDecodeError: return ('error',)
        if t in ('String', 'Cow'): params.append('s:' + hx(dec))
        elif t == 'str':
            if pct(raw) != raw: return ('error',)
            params.append('s:' + hx(dec))
        else:
            bits = int(re.sub(r'\D', '', t) or 64); signed = t.startswith('i')
            if not re.fullmatch(r'[+-]?[0-9]+' if signed else r'\+?[0-9]+', dec, re.A): return ('error',)
            z = int(dec)
            if not ((-(2 ** (bits - 1)) <= z < 2 ** (bits - 1)) if signed else (0 <= z < 2 ** bits)): return ('error',)
            params.append('i:%d' % z)
    items = []
    ct = next((unhx(v).decode() for k, v in case['headers'] if unhx(k).lower() == b'content-type'), None)
    for it in case['items']:
        if it['kind'] == 'query':
            if it['decoded'] is None: return ('error',)
            items.append(it['decoded'])
        else:
            carried = ct is not None and ct.split(';')[0].strip().lower() == it['mime'].lower() and ct.lower().startswith(it['mime'].lower()) and it['payload'] is not None          # type/subtype are case-insensitive
            if not carried:
                if it['optional']: items.append(None)
                else: return ('error',)
            elif it['decoded'] is None: return ('error',)
            else: items.append(it['decoded'])
    return ('ran', params, items)


def judge(case, out, m):
    v = []
    if 'panic' in out: return [('violation', 'panic: ' + out['panic'][:160])]
    want = spec_expect(case)
    if want[0] == 'ran':
        if not out['ran']: v.append(('violation', f'every declared item is carried by the request, but the handler did not run (status {out["status"]})'))
        elif out['params'] != want[1] or out['items'] != want[2]: v.append(('violation', f'handler received {out["params"]} {out["items"]}, the request denotes {want[1]} {want[2]}'))
    else:
        if out['ran']: v.append(('violation', f'a declared item cannot be produced, but the handler ran with {out.get("params")} {out.get("items")}'))
        elif not (400 <= out['status'] <= 599): v.append(('violation', f'handler did not run but the status is {out["status"]}'))
    mm = m.get('model') if m else None
    if mm is not None:
        same = mm.get('ran') == out.get('ran') and (not out.get('ran') or (mm.get('params') == out.get('params') and mm.get('items') == out.get('items'))) and (out.get('ran') or mm.get('status') == out.get('status'))
        if not same: v.append(('disagree', f'impl {str(out)[:200]} model {str(mm)[:200]}'))
    return v


def nontrivial(case):
    t = unhx(case['target'])
    return b'%' in t or any(it['decoded'] is None or (it['ctype'] and unhx(it['ctype']).decode() not in MIME.values()) for it in case['items']) or bool(re.search(rb'/[+-]?\d{3,}', t))


def features(case, out):
    return ['sig_%d' % case['sig'], 'ran' if out.get('ran') else 'status_%s' % out.get('status')]
