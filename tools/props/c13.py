"""C13 — BasicAuth fang admits exactly the configured credentials.

impl  : harness C13 (an application whose only route is behind the real fang, single-struct and array forms; testing::oneshot)
model : Lean `Ohkami.BasicAuth.fore` (with the concrete UTF-8 predicate)
spec  : here — Python's base64: admitted iff the header is exactly "Basic " + b64(user:password) of a configured pair
"""
import base64
from .common import hx, unhx

ID = 'C13'
GEN_DEPS = []
RULE = ('pair lists of 1-4 pairs (arbitrary Unicode, colons in passwords, empty parts, prefixes of each other) x Authorization values: exact encodings, '
        'swapped/mixed pairs, single-character substitutions, padding variants, URL-safe alphabet, non-canonical trailing bits, other schemes and cases, '
        'invalid base64, non-UTF-8 payloads, missing header; non-trivial = header starts with "Basic " and decodes as base64, or is a near miss of an exact encoding')
ASSUMPTIONS = ['configured user-ids contain no ":" (RFC 7617); Authorization values are UTF-8 (others are refused by the parser, C02)']
B64 = 'ABCDEFGHIJKLMNOPQRSTUVWXYZabcdefghijklmnopqrstuvwxyz0123456789+/'


def pairs_gen(rng):
    users = ['user', 'u2', 'us', 'admin', 'ü', '日本', '', 'a b', 'x' * 20, 'u\ufffdx', '管理者' * rng.choice([1, 10, 20]), 'svc-' + 'a' * rng.choice([60, 100, 123, 124, 125, 200])]          # no length limit on a credential (short of the 1 KiB request head)
    pws = ['pa:ss', '', 'p', 'pass', ':', 'p:', 'é', 'sec ret', 'user', 'pa', 'pass\ufffdword', '\ufffd', 'correct horse battery staple ' * rng.choice([1, 4, 5, 9]), 'ぱすわーど' * rng.choice([3, 9, 18]), 'k' * rng.choice([64, 127, 128, 129, 255, 256, 300])]          # U+FFFD is an ordinary character of a credential
    if rng.random() < 0.3: return [[rng.choice(users), rng.choice(pws)] for _ in range(rng.choice([1, 2]))] + [[rng.choice(users[:4]), rng.choice(pws)] for _ in range(2)]      # one user-id under several passwords
    return [[rng.choice(users), rng.choice(pws)] for _ in range(rng.choice([1, 1, 2, 3, 4]))]


def enc(u, p): return 'Basic ' + base64.b64encode((u + ':' + p).encode()).decode()


def auth_gen(rng, pairs):
    r = rng.random()
    u, p = rng.choice(pairs)
    good = enc(u, p)
    if r < 0.2: return good
    raw = (u + ':' + p).encode()
    if rng.random() < 0.15:                                 # non-UTF-8 payloads that differ from a configured pair in one character only
        bad = rng.choice([b'\xff', b'\xc3', b'\xe3\x81', b'\xed\xa0\x80', b'\xc0\xaf'])
        if b'\xef\xbf\xbd' in raw: return 'Basic ' + base64.b64encode(raw.replace(b'\xef\xbf\xbd', bad, 1)).decode()
        i = rng.randrange(len(raw) + 1)
        return 'Basic ' + base64.b64encode(raw[:i] + bad + raw[i:]).decode()
    if r < 0.25: return None
    if r < 0.45:                                            # one character substituted
        i = rng.randrange(len(good))
        return good[:i] + rng.choice(B64 + '=-_ ') + good[i + 1:]
    if r < 0.55: return rng.choice([good.rstrip('='), good + '=', good + '==', good.replace('+', '-').replace('/', '_'), good + ' ', ' ' + good, good[:6] + ' ' + good[6:]])
    if r < 0.65:                                            # other splits / mixes
        u2, p2 = rng.choice(pairs)
        return rng.choice([enc(u, p2), enc(u2, p), enc(u + ':', p), enc(u, p + ':'), enc(u, ''), enc('', p), 'Basic ' + base64.b64encode((u + p).encode()).decode(), enc(p, u)])
    if r < 0.72: return rng.choice(['basic ' + good[6:], 'BASIC ' + good[6:], 'Basic' + good[6:], 'Bearer ' + good[6:], 'Basic\t' + good[6:], good[6:], 'Basic ', 'Basic'])
    if r < 0.80:                                            # non-canonical trailing bits: last symbol before padding bumped
        b = good.rstrip('=')
        if len(b) > 6 and len(b) < len(good):
            k = B64.index(b[-1])
            return b[:-1] + B64[(k + 1) % 64] + '=' * (len(good) - len(b))
        return good
    if r < 0.88: return 'Basic ' + rng.choice(['/w==', '/+8=', '4pyTw6k=', 'gA==', 'wyg=', '7aCA', '8J+YgA==', '8J+Y', 'Og==', 'dTo=', '!!!!', 'dXNlcjpw', 'dXNlcjpwYTpzcw'])
    return ''.join(rng.choice(B64 + '= :') for _ in range(rng.randrange(0, 20)))


def mk(pairs, auth, single=False, method='GET'):
    return {'case': {'pairs': [[hx(u), hx(p)] for u, p in pairs], 'auth': hx(auth) if auth is not None else None, 'single': single, 'method': method}}


def corpus():
    P = [['user', 'pa:ss'], ['u2', '']]
    return [mk(P, 'Basic /w=='),                         # was: panic in the error mapping (index pos + 1)
            mk(P, enc('user', 'pa:ss')), mk(P, enc('u2', '')), mk(P, None), mk(P, enc('user', 'pa')), mk(P, enc('u2', 'pa:ss')),
            mk([['user', 'p']], enc('user', 'p'), True), mk([['user', 'p']], enc('user', 'q'), True),
            mk(P, 'Basic dTI6'), mk(P, 'Basic dTI6AA=='), mk(P, 'Basic dTI7')]


def generate(rng, tier):
    n = 3000 if tier == 'quick' else 80000
    out = []
    for _ in range(n // 6):
        ps = pairs_gen(rng)
        for _ in range(6):
            out.append(mk(ps, auth_gen(rng, ps), single=(len(ps) == 1 and rng.random() < 0.5), method=rng.choice(['GET', 'GET', 'GET', 'POST', 'PUT', 'PATCH', 'DELETE', 'HEAD', 'OPTIONS', 'OPTIONS'])))          # the guard stands before every method
    return out


def spec(case):
    pairs = [(unhx(u), unhx(p)) for u, p in case['pairs']]
    a = unhx(case['auth']) if case['auth'] is not None else None
    admitted = a is not None and any(a == b'Basic ' + base64.b64encode(u + b':' + p) for u, p in pairs)
    return {'ran': True, 'status': 200, 'challenge': False} if admitted else {'ran': False, 'status': 401, 'challenge': True}


def judge(case, out, m):
    v = []
    want = spec(case)
    if 'panic' in out: v.append(('violation', 'panic: ' + out['panic'][:120]))
    elif case.get('method') == 'OPTIONS' and want['ran']:
        # admitted: the automatic OPTIONS handler of the route answers, not the user's handler
        if out.get('ran') or out.get('challenge') or out.get('status') == 401: v.append(('violation', f'OPTIONS with valid credentials: got {out}'))          # what the automatic handler answers is C14
        return v
    elif out != want: v.append(('violation', f'got {out}, the property gives {want}'))
    if m is not None and m.get('model') != out: v.append(('disagree', f'impl {out} model {m.get("model")}'))
    return v


def nontrivial(case):
    a = unhx(case['auth']) if case['auth'] is not None else b''
    return a.startswith(b'Basic ') and len(a) > 8


def features(case, out):
    return ['admitted' if out.get('ran') else 'refused', 'pairs_%d' % len(case['pairs']), 'single' if case.get('single') else 'array']
