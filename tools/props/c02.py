"""C02 — HTTP/1.1 request bytes are parsed faithfully, malformed bytes are refused.

impl  : harness C02 (real `Request::read` through hook H2 over a scripted in-memory stream, then every accessor under catch_unwind)
model : Lean `Ohkami.Http.parse` + the observation functions of M/HttpObs.lean
spec  : here — an independent reading of the supported HTTP/1.1 subset written with regular expressions / split (not reader
        primitives): grammar -> view (method, decoded path, RFC 3986 query pairs, case-insensitively grouped header values, payload)
"""
import re
from .common import hx, unhx

ID = 'C02'
GEN_DEPS = ['GenReqHeaders', 'GenConsts', 'GenFieldName']
RULE = ('first reads from a request grammar (7 methods, 0-8 headers mixing standard names in canonical/lower/upper/mixed case and custom names, '
        'repeated names, bodies 0-3000 arbitrary bytes, body split between first read and the rest) and a malformed stream (truncations, byte '
        'mutations, bad version, missing separators, Content-Length non-numeric/overflowing/>=2^32, non-UTF-8, NULs); non-trivial = accepted with '
        '>= 2 headers or a body, or refused by something other than the method check; distinct by canonical JSON')
ASSUMPTIONS = ['the head arrives within the first read of <= 1024 bytes (C06 treats other segmentations)',
               'the connection ends after the scripted bytes (a body cut short closes the session)']
STD = ['Host', 'Accept', 'Content-Type', 'Connection', 'User-Agent', 'Cookie', 'Authorization', 'Origin', 'TE', 'If-None-Match', 'Accept-Encoding', 'Upgrade-Insecure-Requests']
CUS = ['X-A', 'x-b', 'X-Request-Id', 'Foo', 'X-Forwarded-For']
METHODS = ['GET', 'PUT', 'POST', 'PATCH', 'DELETE', 'HEAD', 'OPTIONS']
NAMES = [x for x in CUS + [c.upper() for c in CUS[:3]] + [c.lower() for c in CUS[2:]] + ['x-a', 'Host', 'host', 'HOST', 'hOsT', 'Content-Length', 'content-length', 'Nope']]
BUF = 1024
PAYLOAD_LIMIT = 1 << 32


def recase(rng, s):
    k = rng.random()
    return s if k < 0.4 else s.lower() if k < 0.6 else s.upper() if k < 0.75 else ''.join(c.upper() if rng.random() < 0.5 else c.lower() for c in s)


def wellformed(rng):
    seg = lambda: ''.join(rng.choice(['a', 'b', 'c', 'X', 'Y', 'Z', '0', '1', '9', '-', '_', '.', '~', '%41', '%2F', '%e3%81%82', '%FF', '%', '+']) for _ in range(rng.choice([1, 1, 2, 5])))
    hval = lambda: ''.join(rng.choice('abc XYZ019,;=/é"') for _ in range(rng.choice([0, 1, 3, 12, 40])))
    path = '/' + '/'.join(seg() for _ in range(rng.choice([0, 1, 2, 3]))) + rng.choice(['', '', '/'])
    q = ''
    if rng.random() < 0.5:
        q = '?' + '&'.join(rng.choice(['k=v', 'a=%41%20b', 'x=', 'novalue', '=empty', 'j=%E3%81%82', '', 'b=%FF', 'k=v=w', 'p=a+b', '%6B=1']) for _ in range(rng.choice([1, 2, 3])))
    body = bytes(rng.randrange(256) for _ in range(rng.choice([0, 0, 1, 5, 200, 900, 1500, 3000])))
    if rng.random() < 0.1 and body: body = b'\x00' + body[1:]
    hs = []
    for _ in range(rng.choice([0, 1, 2, 4, 8])):
        r = rng.random()
        if r < 0.35: hs.append((recase(rng, rng.choice(STD)), hval()))
        elif r < 0.6: hs.append((recase(rng, rng.choice(all_std())), hval()))      # any name of the source table, any case
        else: hs.append((recase(rng, rng.choice(CUS)), hval()))          # names outside the table: any case as well, so one name comes in several spellings
    if body or rng.random() < 0.2:
        cl = str(len(body))
        if rng.random() < 0.1: cl = '0' * rng.choice([1, 3, 8, 12, 25]) + cl          # 1*DIGIT: any number of leading zeros
        hs.insert(rng.randrange(len(hs) + 1), (recase(rng, 'Content-Length'), cl))
    head = f'{rng.choice(METHODS)} {path}{q} HTTP/1.1\r\n' + ''.join(f'{k}: {v}\r\n' for k, v in hs) + '\r\n'
    raw = head.encode('utf-8') + body
    if rng.random() < 0.15:          # bytes after the body in the same read (a stray CRLF, a pipelined request, noise): the payload is the first Content-Length bytes, no more
        raw += rng.choice([b'\r\n', b'GET /next HTTP/1.1\r\n\r\n', b'\x00', bytes(rng.randrange(256) for _ in range(rng.choice([1, 7, 300])))])
    return raw


def malformed(rng):
    b = bytearray(wellformed(rng)); k = rng.random()
    if k < 0.3: b = b[:rng.randrange(len(b) + 1)]
    elif k < 0.5:
        for _ in range(rng.choice([1, 2, 5])):
            if b: b[rng.randrange(min(len(b), 200))] = rng.choice([0, 0x0d, 0x0a, 0x20, 0x3a, 0xff, 0x3f, 0x80, 0xc3, rng.randrange(256)])
    elif k < 0.6: b = b.replace(b'HTTP/1.1', rng.choice([b'HTTP/1.0', b'HTTP/2', b'http/1.1', b'HTTP/1.1 ']), 1)
    elif k < 0.7: b = b.replace(b': ', rng.choice([b':', b' : ', b':  ']), 1)
    elif k < 0.78:          # a header line whose name is not a token: empty, with a blank, folded, holding a line end, `Name:value` in front of a good line, not ASCII
        bad = rng.choice([b': v', b'A B: v', b' folded: v', b'\tX: v', b'Foo\r\nX-A: 1', b'Host:example.com\r\nX-A: 1', b'Foo\r\nContent-Length: 3', b'X-Caf\xc3\xa9: au lait', b'(x): v', b'X"Y: v', b'X\x00: v',
                          b'X-A\r\n: v', b'\r: v', b'a@b: v', b'x/y: 1',
                          # a control byte in a field VALUE (NUL, bare LF, ESC, DEL, ...): invalid and dangerous (RFC 9110 5.5)
                          b'X-A: a\x00b', b'X-A: a\nInjected: 1', b'X-A: \x1b[31m', b'X-A: a\x7f', b'Host: h\x0bx', b'Cookie: a=1\n', b'X-A: \x01'])
        b = bytearray(b'POST /x HTTP/1.1\r\nHost: h\r\n' + bad + b'\r\nContent-Length: 3\r\n\r\nabc')
    elif k < 0.85:
        cl = rng.choice([b'abc', b'', b'-1', b'99999999999999999999999', b'4294967296', b'4294967295', b'+3', b' 3', b'3 ', b'18446744073709551616', b'3, 3', b'0x3'])
        b = bytearray(b'POST /x HTTP/1.1\r\n' + recase(rng, 'Content-Length').encode() + b': ' + cl + b'\r\n\r\nabc')
    else: b = bytearray(rng.choice([b'GET /x', b'GET', b'GET ', b'BREW / HTTP/1.1\r\n\r\n', b'GET x HTTP/1.1\r\n\r\n', b'GET /\xff HTTP/1.1\r\n\r\n', b' / HTTP/1.1\r\n\r\n',
                                    b'get / HTTP/1.1\r\n\r\n', b'GET  / HTTP/1.1\r\n\r\n', b'GET /a b HTTP/1.1\r\n\r\n', b'GET /x HTTP/1.1\r\nA: b\r\n', b'GET /x HTTP/1.1\r\nA\r\n\r\n',
                                    b'GET /x HTTP/1.1\r\nX-\xff: v\r\n\r\n', b'GET /x HTTP/1.1\r\nX: \xe3\x81\r\n\r\n', b'GET /x?q HTTP/1.1', b'\x00' * 20, b'GET /\x00 HTTP/1.1\r\n\r\n',
                                    b'POST /x HTTP/1.1\r\nContent-Length: 10\r\n\r\nabc', b'POST /x HTTP/1.1\r\nContent-Length: 3\r\nContent-Length: 3\r\n\r\nabc']))
    return bytes(b)


def all_std():
    return [canon for _, canon, _ in std_table() if canon != 'Content-Length']


def mk(raw, rng=None, cut=None):
    if not raw: raw = b'G'
    c = min(len(raw), BUF)
    if cut is not None: c = cut
    elif rng is not None and rng.random() < 0.3 and len(raw) > 40:     # split inside the body (the head stays in the first read)
        he = raw.find(b'\r\n\r\n')
        if 0 <= he + 4 <= BUF: c = min(c, rng.randrange(he + 4, min(len(raw), BUF) + 1))
    return {'case': {'first': raw[:c].hex(), 'more': raw[c:].hex(), 'names': [hx(n) for n in NAMES]}}


def corpus():
    W = [b'POST /x HTTP/1.1\r\nContent-Length: abc\r\n\r\nabc',                       # was: panic
         b'POST /x HTTP/1.1\r\nContent-length: 3\r\n\r\nabc',                          # was: body ignored
         b'GET /x HTTP/1.1\r\nX-Foo: a\r\nX-Foo: b\r\n\r\n',                           # was: last value only
         b'GET /x HTTP/1.1\r\nx-a: 1\r\nFoo: z\r\nX-A: 2\r\nfoo: y\r\n\r\n',                      # was: two entries, and get("X-A") = "2"
         b'GET /%FF HTTP/1.1\r\n\r\n',                                                 # was: path.str() panics
         b'GET /x',                                                                    # was: unwrap panic
         b'GET /x HTTP/1.1\r\nHost: h\r\n\r\n',                                        # was: get("Host") = None
         b'GET /x HTTP/1.1\r\nX: \xff\r\n\r\n',                                        # was: accessor panic
         b'POST /x HTTP/1.1\r\nContent-Length: 10\r\n\r\nabc',                         # was: read_exact panic on EOF
         b'POST /x HTTP/1.1\r\nContent-Length: 3\r\n\r\n\x00bc',                       # was: NUL sentinel
         b'GET / HTTP/1.1\r\n\r\n', b'GET /a/ HTTP/1.1\r\n\r\n', b'GET /a?x=1&y=%20 HTTP/1.1\r\nAccept: a\r\naccept: b\r\nACCEPT: c\r\n\r\n']
    # every standard name of the table in four spellings, once alone and once repeated in two spellings
    def flip(s): return ''.join(ch.lower() if i % 2 else ch.upper() for i, ch in enumerate(s))
    for _, canon, low in std_table():
        if canon == 'Content-Length': continue
        for sp in (canon, low, canon.upper(), flip(canon)):
            W.append(f'GET /h HTTP/1.1\r\n{sp}: v1\r\n\r\n'.encode())
        W.append(f'GET /h HTTP/1.1\r\n{canon.upper()}: v1\r\nX-A: z\r\n{flip(canon)}: v2\r\n{low}: v3\r\n\r\n'.encode())
    return [mk(w) for w in W]


def generate(rng, tier):
    n = 6000 if tier == 'quick' else 200000
    out = []
    for _ in range(n):
        raw = wellformed(rng) if rng.random() < 0.55 else malformed(rng)
        out.append(dict(mk(raw, rng), stream='structured'))
    return out


# ---------------------------------------------------------------------------------------------- spec
HEAD_RE = re.compile(rb'\A(GET|PUT|POST|PATCH|DELETE|HEAD|OPTIONS) (/[^ ?]*)(?:\?([^ ]*))? HTTP/1\.1\r\n', re.S)
LINE_RE = re.compile(rb"([!#$%&'*+\-.^_`|~0-9A-Za-z]+): ([\t\x20-\x7e\x80-\xff]*)\r\n", re.S)          # field-name = token (RFC 9110 5.1); field-value: HTAB, SP, VCHAR, obs-text — no NUL, no bare LF, no other control byte (5.5)
_STD = None


def std_table():
    """[(variant, canonical spelling, lower-case spelling)] read from the source table (names only; the semantics are the spec's)"""
    global _STD
    if _STD is None:
        import os
        src = open(os.path.join(os.environ.get('VERIF_REPO', '/repo'), 'ohkami/src/request/headers.rs')).read()
        tbl = src[src.index('} Header! {'):]
        _STD = [(m.group(1), m.group(2), m.group(2).lower()) for m in re.finditer(r'^\s*(\w+):\s*b"([^"]+)"', tbl, re.M)]
    return _STD


def std_lower():
    return {l: v for v, _, l in std_table()}


def pct_decode(b):
    return re.sub(rb'%([0-9A-Fa-f]{2})', lambda m: bytes([int(m.group(1), 16)]), b)


def lossy(b):
    return b.decode('utf-8', errors='replace').encode('utf-8')


def is_utf8(b):
    try: b.decode('utf-8'); return True
    except UnicodeDecodeError: return False


def spec_parse(first, more):
    """returns ('ok', view) | ('reject', status) | ('close',) | ('refuse',)  — 'refuse' = any refusal is acceptable"""
    m = re.match(rb'\A([^ ]*)', first, re.S)
    if m.group(1) not in [x.encode() for x in METHODS]: return ('close',)
    h = HEAD_RE.match(first)
    if not h: return ('refuse',)
    method, path, query = h.group(1), h.group(2), h.group(3)
    if not is_utf8(path): return ('refuse',)
    pos = h.end()
    std, custom, order = {}, {}, []
    while True:
        if first[pos:pos + 2] == b'\r\n':
            pos += 2; break
        l = LINE_RE.match(first, pos)
        if not l: return ('refuse',)
        name, value = l.group(1), l.group(2)
        if not (is_utf8(name) and is_utf8(value)): return ('refuse',)
        key = std_lower().get(name.decode().lower())
        if key is not None: std[key] = std[key] + b', ' + value if key in std else value
        else:
            lname = name.lower()          # field names are case-insensitive (RFC 9110 5.1), whether the framework has a table entry for them or not
            custom[lname] = custom[lname] + b', ' + value if lname in custom else value
        pos = l.end()
    rest = first[pos:]
    payload = None
    if 'ContentLength' in std:
        cl = std['ContentLength']
        if not re.fullmatch(rb'[0-9]+', cl): return ('refuse',)
        n = int(cl)
        if n >= PAYLOAD_LIMIT: return ('reject', 413)
        if n > 0:
            avail = rest + more if (len(rest) < n) else rest
            if len(avail) < n: return ('close',)
            payload = avail[:n]
    npath = path[:-1] if path.endswith(b'/') else path
    view = {'method': method.decode(), 'path': hx(lossy(pct_decode(npath)) if npath else b'/'),
            'query': [[hx(lossy(pct_decode(kv.split(b'=', 1)[0]))), hx(lossy(pct_decode(kv.split(b'=', 1)[1])))]
                      for kv in (query.split(b'&') if query else []) if b'=' in kv and not kv.startswith(b'=')],
            'std': sorted([k, hx(v)] for k, v in std.items()),
            'custom': custom, 'payload': hx(payload) if payload is not None else None}
    return ('ok', view)


def spec_check(case, out):
    first, more = unhx(case['first']), unhx(case['more'])
    oc = out.get('outcome')
    if 'panic' in out or oc in ('panic', 'stall') or 'abort' in out or 'hang' in out:
        return f'the parser answered with {oc or "a panic"}: {str(out)[:160]}'
    s = spec_parse(first, more)
    if oc == 'ok':
        for k in ('path', 'query'):
            if out[k] == 'panic': return f'accessor {k} panics on an accepted request'
        if any(x == 'panic' or (isinstance(x, list) and 'panic' in x) for x in out['get'] + out['std']): return 'a header accessor panics on an accepted request'
        if s[0] != 'ok': return f'accepted, but the bytes are not a request of the supported subset (spec: {s})'
        v = s[1]
        for k in ('method', 'path', 'query', 'payload'):
            if out[k] != v[k]: return f'{k}: handlers see {out[k]!r}, the wire bytes denote {v[k]!r}'
        if sorted(out['std']) != v['std']: return f'standard headers: handlers see {sorted(out["std"])!r}, the wire denotes {v["std"]!r}'
        for nm, got in out['get']:
            n = unhx(nm)
            want = v['custom'].get(n.lower())
            if want is None:
                key = next((var for var, canon, low in std_table() if n.decode().lower() == low), None)
                want = dict((k, unhx(val)) for k, val in v['std']).get(key) if key else None
            if got != (hx(want) if want is not None else None): return f'get({n!r}) = {got!r}, the wire denotes {want!r}'
    else:
        if s[0] == 'ok': return f'a request of the supported subset was refused ({out})'
        if s[0] == 'reject' and (oc != 'reject' or out.get('status') != s[1]): return f'expected status {s[1]}, got {out}'
        if oc == 'reject' and not (400 <= out.get('status', 0) <= 599): return f'refusal with status {out.get("status")}'
    return None


def judge(case, out, m):
    v = []
    bad = spec_check(case, out)
    if bad: v.append(('violation', bad))
    if m is not None:
        mm = dict(m.get('model', {})); oo = dict(out)
        mm.pop('site', None); oo.pop('site', None)
        if mm != oo: v.append(('disagree', f'impl {str(oo)[:220]} model {str(mm)[:220]}'))
    return v


def nontrivial(case):
    f = unhx(case['first'])
    return f.count(b'\r\n') >= 4 or b'ontent-' in f or not f.split(b' ')[0].isalpha()


def features(case, out):
    oc = out.get('outcome', 'panic')
    return ['outcome_' + oc + (str(out.get('status')) if oc == 'reject' else ''), 'more_nonempty' if case['more'] else 'more_empty']


def shrink(case, still_fails):
    raw = unhx(case['first']) + unhx(case['more'])
    cut = len(unhx(case['first']))
    cur = case
    # drop byte ranges
    n = 2
    while len(raw) > 1:
        chunk = max(1, len(raw) // n); progressed = False
        for i in range(0, len(raw), chunk):
            r2 = raw[:i] + raw[i + chunk:]
            c2 = min(cut if i >= cut else max(cut - chunk, 1), len(r2))
            cand = dict(cur, first=r2[:c2].hex(), more=r2[c2:].hex())
            if r2 and still_fails(cand):
                raw, cut, cur, progressed = r2, c2, cand, True
                break
        if progressed: n = max(n - 1, 2); continue
        if chunk == 1: break
        n = min(n * 2, len(raw))
    return cur
