"""C14 — CORS fang applies the configured policy to every response and preflight.

impl  : harness C14 (application trees whose root carries the real CORS fang; raw requests with Origin / Access-Control-Request-* headers; wire bytes)
model : Lean `Ohkami.Cors.bite` + `defaultOptions` on top of the router model (the OPTIONS tree with the union of methods per route)
spec  : here — the header matrix the property states, from the policy and the registered method sets of the flat route table
"""
import json
from .common import hx, unhx
from . import appgen

ID = 'C14'
GEN_DEPS = []
RULE = ('policies (wildcard or specific origin, credentials, allow/expose header lists of 0-3 names, max-age) x application trees (method subsets, one route registered by two separate items, nested mounts) x 16 requests '
        '(simple requests of every method to registered and unregistered paths, preflights with every requested method incl. HEAD/OPTIONS/lower-case/unknown, with and without requested headers, bare OPTIONS); '
        'non-trivial = a preflight, or a simple request that ends in 404; distinct by canonical JSON')
ASSUMPTIONS = ['"every response" = every response the router produces for a parsed request inside the scope of the CORS fang (the root application, or a mounted one: then the requests go under its prefix)',
               '"the requested method is registered for that path": a request with that method to that path is served, i.e. some route registered for the method matches the path (plus HEAD with GET, plus OPTIONS itself); where the router keeps a per-pattern list instead, the difference is the known finding KF-C14-path-vs-pattern; method names are case-sensitive']
H = ['X-Token', 'Content-Type', 'Authorization', 'X-Requested-With']


def policy_gen(rng):
    return {'origin': rng.choice(['*', '*', 'https://app.example', 'http://localhost:3000']), 'credentials': rng.random() < 0.5,
            'allow_headers': rng.choice([None, None, [], ['X-Token'], ['Content-Type', 'Authorization'], ['X-Token', 'Content-Type', 'Authorization']]),
            'expose_headers': rng.choice([None, None, ['X-Total'], ['X-Total', 'ETag']]), 'max_age': rng.choice([None, None, 0, 600, 86400, 4294967295])}


def split_items(rng, app):
    """sometimes register one route by two separate items (the method-list union)"""
    out = []
    for it in app['items']:
        if 'mount' in it: out.append({'mount': it['mount'], 'app': split_items(rng, it['app'])})
        elif len(it['methods']) >= 2 and rng.random() < 0.5:
            k = rng.randrange(1, len(it['methods']))
            out.append(dict(it, methods=it['methods'][:k])); out.append(dict(it, methods=it['methods'][k:], h=it['h'] + 1000))
        else: out.append(it)
    return dict(app, items=out)


def share_mount_point(rng, app, ids):
    """sometimes the parent registers a route at a mount point itself, with other methods than the mounted application's root route"""
    out = []
    for it in app['items']:
        if 'mount' in it:
            sub = share_mount_point(rng, it['app'], ids)
            if rng.random() < 0.4 and not any(x.get('route') == it['mount'] for x in app['items'] if 'route' in x):
                ms = rng.sample(appgen.METHODS, rng.choice([1, 2, 3]))
                rest = [m for m in appgen.METHODS if m not in ms]
                sub = dict(sub, items=[x for x in sub['items'] if x.get('route') != '/'] + [{'route': '/', 'methods': rng.sample(rest, rng.choice([1, 2])), 'h': ids.handler(), 'local': []}])
                out.append({'route': it['mount'], 'methods': ms, 'h': ids.handler(), 'local': []})
            out.append({'mount': it['mount'], 'app': sub})
        else: out.append(it)
    rng.shuffle(out)
    return dict(app, items=out)


def mk(rng):
    ids = appgen.Ids()
    app = share_mount_point(rng, appgen.gen_app(rng, ids, fangs=False, local=False, free=rng.random() < 0.4), ids)
    appgen.dedupe(app)          # route/method pairs stay distinct over the tree
    app = split_items(rng, app)
    paths = appgen.request_paths(rng, app, 16)
    reqs = []
    for p in paths:
        r = rng.random()
        if r < 0.35: reqs.append({'m': rng.choice(['GET', 'POST', 'PUT', 'PATCH', 'DELETE', 'HEAD']), 'p': p.hex(), 'origin': rng.random() < 0.8, 'acrm': None, 'acrh': None})
        elif r < 0.92: reqs.append({'m': 'OPTIONS', 'p': p.hex(), 'origin': True, 'acrm': (rng.choice(['GET', 'POST', 'PUT', 'PATCH', 'DELETE', 'HEAD', 'OPTIONS', 'get', 'TRACE', 'GET ']).strip() or 'GET') if rng.random() < 0.8 else
                                            rng.choice(['G', 'ET', 'PU', 'T', 'E', 'OPTION', 'PTIONS', 'GET, PUT', 'GET, HEAD', 'HEAD, OPTIONS', 'DELETE, OPTIONS', ', ', ',', 'GET,', 'GETPUT', 'Post', 'PATCH, OPTIONS', 'OPTIONS, GET']),          # not a method: a piece of one, a list
                                    'acrh': rng.choice([None, 'X-Token', 'content-type, x-requested-with'])})
        else: reqs.append({'m': 'OPTIONS', 'p': p.hex(), 'origin': True, 'acrm': None, 'acrh': None})
    for r in reqs: r['hcase'] = rng.choice([0, 0, 1, 2, 3])          # header names in any letter case
    case = {'cors': policy_gen(rng), 'app': app, 'reqs': reqs}
    if rng.random() < 0.25: case['cors_at'] = rng.choice(['/api', '/v1/in'])          # the policy on a mounted application: the same requests under that prefix
    return {'case': case}


def corpus():
    R = lambda route, h, ms: {'route': route, 'methods': list(ms), 'h': h, 'local': []}
    pf = lambda p, m, h=None: {'m': 'OPTIONS', 'p': hx(p), 'origin': True, 'acrm': m, 'acrh': h}
    app = {'fangs': [], 'items': [R('/x', 1, ['GET']), R('/x', 2, ['POST']), {'mount': '/api', 'app': {'fangs': [], 'items': [R('/y', 3, ['PUT'])]}}]}
    reqs = [pf('/x', 'GET'), pf('/x', 'POST'), pf('/x', 'HEAD'), pf('/x', 'PUT'), pf('/api/y', 'PUT', 'X-Token'), pf('/api/y', 'GET'), pf('/nope', 'GET'), {'m': 'OPTIONS', 'p': hx('/x'), 'origin': True, 'acrm': None, 'acrh': None},
            {'m': 'GET', 'p': hx('/x'), 'origin': True, 'acrm': None, 'acrh': None}, {'m': 'GET', 'p': hx('/nope'), 'origin': True, 'acrm': None, 'acrh': None}, {'m': 'HEAD', 'p': hx('/x'), 'origin': False, 'acrm': None, 'acrh': None}]
    pols = [{'origin': '*', 'credentials': True, 'allow_headers': None, 'expose_headers': None, 'max_age': None},
            {'origin': 'https://app.example', 'credentials': True, 'allow_headers': ['X-Token', 'Content-Type'], 'expose_headers': ['X-Total'], 'max_age': 600}]
    shared = {'fangs': [], 'items': [R('/api', 1, ['GET']), {'mount': '/api', 'app': {'fangs': [], 'items': [R('/', 2, ['POST']), R('/z', 3, ['DELETE'])]}}]}
    sreqs = [pf('/api', 'GET'), pf('/api', 'POST'), pf('/api', 'PUT'), pf('/api/z', 'DELETE'), pf('/api/z', 'GET'), {'m': 'GET', 'p': hx('/api'), 'origin': True, 'acrm': None, 'acrh': None}]
    shared2 = {'fangs': [], 'items': [{'mount': '/api', 'app': {'fangs': [], 'items': [R('/', 2, ['POST'])]}}, R('/api', 1, ['GET', 'PUT'])]}
    # fixed by 5f01ca3 / 8878fb7: one pattern under two param names; a route of the parent below the prefix of a mount with a static twin
    names = {'fangs': [], 'items': [R('/:name', 1, ['GET', 'PATCH']), R('/:p', 2, ['PUT']), R('/t/:a/x', 3, ['GET']), {'mount': '/t/:b', 'app': {'fangs': [], 'items': [R('/x', 4, ['DELETE'])]}}]}
    nreqs = [pf('/q', 'GET'), pf('/q', 'PUT'), pf('/q', 'PATCH'), pf('/q', 'DELETE'), pf('/t/1/x', 'GET'), pf('/t/1/x', 'DELETE'), pf('/t/1/x', 'POST')]
    twin = {'fangs': [], 'items': [R('/a/b', 1, ['GET']), {'mount': '/a', 'app': {'fangs': [], 'items': [R('/b', 2, ['POST']), R('/b/c', 3, ['GET'])]}}, R('/a/b/c', 4, ['PUT'])]}
    treqs = [pf('/a/b', 'GET'), pf('/a/b', 'POST'), pf('/a/b', 'PUT'), pf('/a/b/c', 'GET'), pf('/a/b/c', 'PUT'), pf('/a/b/c', 'POST')]
    # known finding KF-C14-path-vs-pattern: GET /users/me is served (by /users/:id), its preflight is answered by the automatic OPTIONS handler of /users/me, which knows POST alone
    over = {'fangs': [], 'items': [R('/users/:id', 1, ['GET']), R('/users/me', 2, ['POST'])]}
    oreqs = [pf('/users/me', 'GET'), pf('/users/me', 'POST'), pf('/users/7', 'GET'), pf('/users/7', 'POST'), {'m': 'GET', 'p': hx('/users/me'), 'origin': True, 'acrm': None, 'acrh': None}]
    return ([{'case': {'cors': pols[1], 'app': over, 'reqs': oreqs}}] + [{'case': {'cors': p, 'app': app, 'reqs': reqs}} for p in pols] + [{'case': {'cors': pols[1], 'app': a, 'reqs': sreqs}} for a in (shared, shared2)]
            + [{'case': {'cors': pols[1], 'app': names, 'reqs': nreqs}}, {'case': {'cors': pols[0], 'app': twin, 'reqs': treqs}}])      # was: /x advertised `POST, OPTIONS` only; the successful preflight had no declared length


def generate(rng, tier):
    n = 250 if tier == 'quick' else 7000
    return [mk(rng) for _ in range(n)]


def parse(wire):
    head, _, body = wire.partition(b'\r\n\r\n')
    lines = head.split(b'\r\n')
    hs = {}
    for l in lines[1:]:
        k, v = l.split(b': ', 1)
        hs.setdefault(k.lower(), []).append(v)
    return int(lines[0].split(b' ')[1]), hs, body


def one(hs, k):
    v = hs.get(k.lower().encode())
    return None if v is None else v[0].decode() if len(v) == 1 else 'DUPLICATE'


def spec_check(case, req, o):
    if 'panic' in o: return 'panic: ' + o['panic'][:120]
    if 'refused' in o: return None
    pol = case['cors']
    status, hs, body = parse(unhx(o['wire']))
    if one(hs, 'Access-Control-Allow-Origin') != pol['origin']: return f'Access-Control-Allow-Origin {one(hs, "Access-Control-Allow-Origin")!r}, configured {pol["origin"]!r}'
    want_cred = 'true' if (pol['credentials'] and pol['origin'] != '*') else None
    if one(hs, 'Access-Control-Allow-Credentials') != want_cred: return f'Access-Control-Allow-Credentials {one(hs, "Access-Control-Allow-Credentials")!r}, policy says {want_cred!r}'
    want_exp = ', '.join(pol['expose_headers']) if pol['expose_headers'] is not None else None
    if one(hs, 'Access-Control-Expose-Headers') != want_exp: return f'Access-Control-Expose-Headers {one(hs, "Access-Control-Expose-Headers")!r}, configured {want_exp!r}'
    if req['m'] == 'OPTIONS':
        segs = appgen.segs_of_path(unhx(req['p']))
        routes = [r for r in appgen.flat_routes(case['app']) if appgen.matches(r[0], segs)]
        allr = appgen.flat_routes(case['app'])
        from . import c01
        KF = 'KF-C14-path-vs-pattern'
        if routes and c01.greedy_literal(allr, segs) is None and 400 <= status < 500:
            # the statics-first dead end of C01 (KF-C01-dead-end) in the OPTIONS tree: the path is served by a route, its preflight is a 404
            return (KF, 'the path is matched by a registered route, its preflight is answered 4xx (statics-first dead end in the OPTIONS tree)') if req['acrm'] is not None else None
        if req['acrm'] is not None and routes:
            # "the methods registered for that path": every method under which a request to this path is served (C01: some route of that method matches it)
            path_ms = []
            for r in routes:
                for m_ in r[1]:
                    if m_ not in path_ms: path_ms.append(m_)
            adv_path = set(path_ms) | ({'HEAD'} if 'GET' in path_ms else set()) | {'OPTIONS'}
            # what the router keeps instead: the methods of the most static matching PATTERN alone (the automatic OPTIONS handler is per route pattern)
            best = [r for r in routes if all(c01.more_static_ok(r[0], q[0]) for q in routes)]
            pats = {tuple(r[0]) for r in best}
            pat_ms = []
            for r in best:
                for m_ in r[1]:
                    if m_ not in pat_ms: pat_ms.append(m_)
            adv_pat = set(pat_ms) | ({'HEAD'} if 'GET' in pat_ms else set()) | {'OPTIONS'}
            if len(pats) == 1:
                ok = req['acrm'] in adv_path
                if ok:
                    if not (200 <= status < 300):
                        if adv_pat != adv_path and req['acrm'] not in adv_pat and 400 <= status < 500:
                            return (KF, f'{req["acrm"]} is served at this path (by a less static route than the one whose automatic OPTIONS handler answers), its preflight is answered {status}')
                        return f'preflight for registered method {req["acrm"]} answered {status}'
                    if body: return 'successful preflight with a body'
                    got = set((one(hs, 'Access-Control-Allow-Methods') or '').split(', '))
                    if got != adv_path:
                        if adv_pat != adv_path and got == adv_pat: return (KF, f'preflight advertises {sorted(got)} (the most static pattern alone), the path is served for {sorted(adv_path)}')
                        return f'preflight advertises {sorted(got)}, registered there: {sorted(adv_path)}'
                    want_ah = ', '.join(pol['allow_headers']) if pol['allow_headers'] is not None else req['acrh']
                    if one(hs, 'Access-Control-Allow-Headers') != want_ah: return f'Access-Control-Allow-Headers {one(hs, "Access-Control-Allow-Headers")!r}, expected {want_ah!r}'
                    want_ma = str(pol['max_age']) if pol['max_age'] is not None else None
                    if one(hs, 'Access-Control-Max-Age') != want_ma: return f'Access-Control-Max-Age {one(hs, "Access-Control-Max-Age")!r}, configured {want_ma!r}'
                elif not (400 <= status < 500): return f'preflight for unregistered method {req["acrm"]} answered {status}'
        elif not routes and not (400 <= status < 500): return f'OPTIONS to an unregistered path answered {status}'
        elif req['acrm'] is None and not (400 <= status < 500): return f'OPTIONS without Access-Control-Request-Method answered {status}'
    return None


def judge(case, out, m):
    v = []
    if 'panic' in out: return [('violation', 'panic: ' + out['panic'][:160])]
    if out.get('build') == 'refused': return [('disagree', 'impl refuses the application at start-up: ' + out.get('why', '')[:100])]
    mm = m.get('model') if m else None
    for i, (req, o) in enumerate(zip(case['reqs'], out['reqs'])):
        bad = spec_check(case, req, o)
        if isinstance(bad, tuple): v.append(('violation', f'{req["m"]} {unhx(req["p"])!r} acrm={req["acrm"]}: {bad[1]}', bad[0]))
        elif bad: v.append(('violation', f'{req["m"]} {unhx(req["p"])!r} acrm={req["acrm"]}: {bad}'))
        if mm is not None and 'wire' in o:
            x = mm['reqs'][i]
            status, hs, body = parse(unhx(o['wire']))
            got = {'status': status, 'acao': one(hs, 'Access-Control-Allow-Origin'), 'acac': one(hs, 'Access-Control-Allow-Credentials'), 'aceh': one(hs, 'Access-Control-Expose-Headers'),
                   'acma': one(hs, 'Access-Control-Max-Age'), 'acah': one(hs, 'Access-Control-Allow-Headers'), 'vary': one(hs, 'Vary'), 'has_body': bool(body)}
            want = {k: (unhx(x[k]).decode() if isinstance(x.get(k), str) else x.get(k)) for k in ('acao', 'acac', 'aceh', 'acma', 'acah', 'vary')}
            want['status'] = x['status']; want['has_body'] = x['has_body']
            gm = set((one(hs, 'Access-Control-Allow-Methods') or '').split(', ')); wm = set((unhx(x['acam']).decode() if x.get('acam') else '').split(', '))
            if got != want or gm != wm: v.append(('disagree', f'{req["m"]} {unhx(req["p"])!r} acrm={req["acrm"]}: impl {got} {sorted(gm)} model {want} {sorted(wm)}'))
    return v[:6]


def nontrivial(case):
    return any(r['m'] == 'OPTIONS' and r['acrm'] for r in case['reqs'])


def features(case, out):
    f = []
    for req, o in zip(case['reqs'], out.get('reqs', [])):
        if 'wire' in o: f.append(('preflight_' if req['m'] == 'OPTIONS' else 'simple_') + str(parse(unhx(o['wire']))[0]))
    return f
