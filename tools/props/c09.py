"""C09 — URL-encoded serialization round-trips and decodes per the percent-encoding rules.

impl  : harness C09 (`ohkami_lib::serde_urlencoded::{to_string, from_bytes}` on a catalogue of derived target types;
        `QueryParams::iter` through the real request parser)
model : Lean `Ohkami.Serde.decode` (reader) and `encode` (writer), `Http.queryPairs`
spec  : (a) value stream: decode(encode v) = v whenever the theorem's hypotheses `unamb v`, `wellTyped ty v` hold (the driver
            evaluates the hypotheses — they are Lean definitions — and this file checks identity on the implementation);
        (b) text stream: for well-formed `k=v&...` texts the decoded struct / map is the one read off the RFC 3986 pairs
            (split on `&`, then on the first `=`, percent-decode), independent of order and of unknown keys — computed here in Python;
        (c) query strings through `QueryParams::iter` = the same pairs.
"""
import json, re
from .common import hx, unhx

ID = 'C09'
GEN_DEPS = []
RULE = ('(a) values of 13 catalogue types (bool, ints of every width and both signs, f32 / f64 by bit pattern without NaN, char, &str, String, Option, unit, newtype, unit enums incl. variant names that need escapes, Vec<String>, Vec<u8>, '
        'Vec<Option<u16>>, Vec<enum>, BTreeMap<String,String>, #[serde(default)]) over arbitrary Unicode / reserved characters / boundary numbers; '
        '(b) texts: grammar-generated encodings with escapes, shuffled fields, unknown and duplicate keys, separators doubled or missing, plus raw byte noise; '
        '(c) query strings, 35 % of them read into a request object that held another query before.  non-trivial = value with a string needing escapes, an option, a sequence or a map entry; text with an escape, an unknown key or a '
        'malformed separator; distinct by canonical JSON')
ASSUMPTIONS = ['floats: the round trip is judged on the implementation alone, bit for bit (how Rust prints a float is not modelled); NaN is not generated (it equals nothing)',
               'round trip is claimed under the hypotheses of `roundtrip_struct`: `unamb` (no Some(""), no [""], no empty map key) and `wellTyped` (&str fields hold only strings whose encoding is the identity)',
               'the catalogue of Rust target types in harness/src/c09.rs and the type descriptors here are kept in step by hand']

U = lambda b: {"uint": b}
I = lambda b: {"sint": b}
O = lambda t: {"option": t}
ST = lambda *fs: {"struct": [[n, t, d] for (n, t, d) in fs]}
E = {"enum": ["A", "B", "Cc"]}
E2 = {"enum": ["not-set", "a b", "ü", "snake_case", "Plain"]}          # variant names the writer has to escape (serde rename / rename_all)
CAT = {
    0: ST(("id", U(32), False), ("name", "string", False)),
    1: ST(("a", O(U(32)), False), ("b", "bool", False), ("c", O("string"), False)),
    2: ST(("s", "str", False), ("t", "string", False)),
    3: ST(("e", E, False), ("o", O(E), False)),
    4: ST(("v", {"seq": "string"}, False), ("n", {"seq": U(8)}, False)),
    5: {"map": "string"},
    6: ST(("c", "char", False), ("i", I(8), False)),
    7: ST(("u", "unit", False), ("n", {"newtype": U(16)}, False)),
    8: ST(("d", U(32), True), ("x", "string", False)),
    9: ST(("w", {"seq": O(U(16))}, False), ("z", I(64), False)),
    13: ST(("user-name", "string", False), ("a b", U(8), False), ("ü", O("string"), False), ("k=&%", "bool", False)),          # keys the writer has to escape (serde rename)
    11: ST(("m", E2, False), ("o", O(E2), False), ("v", {"seq": E2}, False)),
    10: ST(("h", U(64), False), ("g", I(16), False), ("k", I(32), False), ("l", O(U(64)), False), ("m", {"seq": U(64)}, False)),   # with 0-9: every integer width the codec has a method for
}
DEFAULTS = {8: {"d": {"i": "0"}}}

STR_POOL = [b"", b"a", b"ohkami", b"a+b", b"%20x", b"%E3%81%82", b"%FF", b"%2", b"%zz", b"\xe3\x81\x82", b"\xff", b"x,y", b"%2C", b"%26", b"%3D", b"a%00b", b"true", b"A"]
INT_POOL = [b"0", b"1", b"42", b"255", b"256", b"65535", b"65536", b"4294967295", b"4294967296", b"-1", b"-128", b"-129", b"127", b"128", b"+7", b"", b"1a", b"0x1", b" 1", b"007",
            b"9223372036854775807", b"9223372036854775808", b"-9223372036854775808", b"-9223372036854775809", b"%31", b"1.0", b"-", b"+", b"-0"]
VALID = {"bool": [b"true", b"false"], "string": [b"", b"a", b"ohkami", b"a+b", b"%20x", b"%E3%81%82", b"\xe3\x81\x82", b"%2C", b"%26%3D"],
         "str": [b"", b"a", b"ohkami", b"\xe3\x81\x82", b"a+b"], "char": [b"a", b"%E3%81%82", b"\xe3\x81\x82", b"%41", b"%F0%9F%98%80", b"+"], "unit": [b""]}


def esc_some(rng, b, p=0.12):
    """a client may escape any byte of a value: one byte of `b` written as %XX (either letter case)"""
    if not b or rng.random() >= p: return b
    i = rng.randrange(len(b))
    return b[:i] + (b'%%%02X' if rng.random() < 0.5 else b'%%%02x') % b[i] + b[i + 1:]


def gen_valid(rng, t):
    if isinstance(t, str): return esc_some(rng, rng.choice(VALID[t])) if t == "bool" else rng.choice(VALID[t])
    if "uint" in t: return esc_some(rng, str(rng.choice([0, 1, 7, 2 ** t["uint"] - 1, rng.randrange(2 ** t["uint"])])).encode())
    if "sint" in t: return esc_some(rng, str(rng.choice([0, -1, 2 ** (t["sint"] - 1) - 1, -2 ** (t["sint"] - 1), rng.randrange(-2 ** (t["sint"] - 1), 2 ** (t["sint"] - 1))])).encode())
    if "option" in t: return b"" if rng.random() < 0.3 else gen_valid(rng, t["option"])
    if "newtype" in t: return gen_valid(rng, t["newtype"])
    if "enum" in t:
        n = rng.choice(t["enum"]).encode()
        return rng.choice([n, n, b"".join(b"%%%02X" % b for b in n), b"".join(bytes([b]) if (48 <= b <= 57 or 65 <= b <= 90 or 97 <= b <= 122) else b"%%%02X" % b for b in n)]) if not n.isalnum() or rng.random() < 0.2 else n
    if "seq" in t: return b",".join(gen_valid(rng, t["seq"]) for _ in range(rng.choice([0, 1, 2, 3])))


def gen_val(rng, t):
    if rng.random() < 0.8: return gen_valid(rng, t)
    r = rng.random()
    if r < 0.06: return rng.choice(STR_POOL)
    if r < 0.10: return rng.choice(INT_POOL)
    if t == "bool": return rng.choice([b"true", b"false", b"True", b"1", b"", b"tru", b"false ", b"%74rue"])
    if t in ("string", "str"): return rng.choice(STR_POOL)
    if t == "char": return rng.choice([b"a", b"", b"ab", b"%E3%81%82", b"\xe3\x81\x82", b"%41", b"%FF", b"%F0%9F%98%80", b"+", b"%C3%A9x"])
    if t == "unit": return rng.choice([b"", b"", b"x", b"()"])
    if isinstance(t, dict):
        if "uint" in t or "sint" in t: return rng.choice(INT_POOL)
        if "option" in t: return b"" if rng.random() < 0.3 else gen_val(rng, t["option"])
        if "newtype" in t: return gen_val(rng, t["newtype"])
        if "enum" in t: return rng.choice([x.encode() for x in t["enum"]] + [b"a", b"", b"C", b"%41", b"AB", b"not%2Dset", b"not%2dset", b"a%20b", b"a+b", b"%C3%BC", b"%FF", b"snake%5Fcase", b"Pl%61in", b"not_set"])
        if "seq" in t:
            n = rng.choice([0, 1, 1, 2, 3])
            return rng.choice([b",", b",", b",", b",,", b""]).join(gen_val(rng, t["seq"]) for _ in range(n)) if n else rng.choice([b"", b"", b","])
    return b"?"


def gen_structured(rng, tid):
    ty = CAT[tid]
    if "map" in ty:
        pairs = [(rng.choice([b"k", b"a", b"b", b"%6B", b"k+1", b"", b"%FF"]), gen_val(rng, ty["map"])) for _ in range(rng.choice([0, 1, 2, 3]))]
    else:
        fs = list(ty["struct"])
        if rng.random() < 0.25: rng.shuffle(fs)
        pairs = []
        for (n, t, d) in fs:
            r = rng.random()
            if r < 0.05: continue
            key = n.encode()
            if rng.random() < 0.12 and key:          # a client may escape any byte of a key: `%6Eame` is `name`
                i = rng.randrange(len(key)); key = key[:i] + (b'%%%02X' if rng.random() < 0.5 else b'%%%02x') % key[i] + key[i + 1:]
            pairs.append((key, gen_val(rng, t)))
            if r > 0.97: pairs.append((n.encode(), gen_val(rng, t)))
            if 0.85 < r <= 0.95: pairs.append((rng.choice([b"zz", b"%69d", b"x%FF"]), gen_val(rng, "string")))
    sep = lambda: rng.choice([b"&"] * 60 + [b"&&", b"", b"="])
    eq = lambda: rng.choice([b"="] * 80 + [b"", b"==", b"&"])
    out = b""
    for i, (k, v) in enumerate(pairs):
        if i: out += sep()
        out += k + eq() + v
    if rng.random() < 0.03: out += rng.choice([b"&", b"=", b"&x", b"&x="])
    return out


def gen_raw(rng):
    return bytes(rng.choice(b"ab1=&&==,%+2F\xff-") for _ in range(rng.randrange(0, 12)))


def uni(rng):
    r = rng.random()
    if r < 0.35: return chr(rng.choice(list(range(0x20, 0x7f))))
    if r < 0.55: return rng.choice("&=,%+ /?#;\"'\\\x00\n\r\t~-_.")
    if r < 0.70: return chr(rng.randrange(0x80, 0x800))
    if r < 0.85:
        c = rng.randrange(0x800, 0x10000)
        return chr(c) if not 0xD800 <= c < 0xE000 else "�"
    return chr(rng.randrange(0x10000, 0x110000))


def ustr(rng): return "".join(uni(rng) for _ in range(rng.choice([0, 0, 1, 1, 2, 3, 5, 9])))


def S(s): return {"s": s.encode().hex()}


def gen_value(rng, t):
    if t == "bool": return {"b": rng.random() < 0.5}
    if t == "string": return S(ustr(rng))
    if t == "str": return S("".join(rng.choice("abcXYZ019") for _ in range(rng.randrange(0, 5))) if rng.random() < 0.8 else ustr(rng))
    if t == "char": return {"c": ord(uni(rng))}
    if t == "unit": return "unit"
    if "uint" in t: b = t["uint"]; return {"i": str(rng.choice([0, 1, 9, 10, 2 ** b - 1, 2 ** (b - 1), rng.randrange(2 ** b)]))}
    if "sint" in t: b = t["sint"]; return {"i": str(rng.choice([0, -1, 1, 2 ** (b - 1) - 1, -2 ** (b - 1), rng.randrange(-2 ** (b - 1), 2 ** (b - 1))]))}
    if "option" in t: return "none" if rng.random() < 0.3 else {"some": gen_value(rng, t["option"])}
    if "newtype" in t: return {"nt": gen_value(rng, t["newtype"])}
    if "enum" in t: return {"var": rng.choice(t["enum"]).encode().hex()}
    if "seq" in t: return {"seq": [gen_value(rng, t["seq"]) for _ in range(rng.choice([0, 1, 1, 2, 3, 4]))]}
    if "map" in t:
        m = {}
        for _ in range(rng.choice([0, 1, 2, 3])): m[(ustr(rng) if rng.random() < 0.9 else "").encode()] = gen_value(rng, t["map"])
        return {"map": [[{"s": k.hex()}, m[k]] for k in sorted(m)]}
    if "struct" in t: return {"struct": [[n, gen_value(rng, ft)] for (n, ft, d) in t["struct"]]}


FLOAT_T = ST(("f", {"float": 64}, False), ("g", {"float": 32}, False), ("o", O({"float": 64}), False), ("v", {"seq": {"float": 32}}, False))          # tid 12: not in CAT (no model of how Rust prints floats)


def gen_float(rng, bits):
    import struct
    fmt, ifmt, n = ('>d', '>Q', 16) if bits == 64 else ('>f', '>I', 8)
    r = rng.random()
    if r < 0.45:
        x = rng.choice([0.0, -0.0, 1.0, -1.0, 0.1, 0.5, 1.5, 3.141592653589793, 1e21, 1e-7, 123456789.125, -2.5e-5, 1e300, 5e-324, 1.7976931348623157e308, 2.2250738585072014e-308, float('inf'), float('-inf'), 16777217.0, 1e16, 0.3, 2 / 3])
        try: b = struct.pack(fmt, x)
        except OverflowError: b = struct.pack(fmt, float('inf'))
    else:
        while True:
            b = bytes(rng.randrange(256) for _ in range(bits // 8))
            if struct.unpack(fmt, b)[0] == struct.unpack(fmt, b)[0]: break          # no NaN: it equals nothing, itself included
    return {"fbits": b.hex()}


def gen_float_struct(rng):
    return {"struct": [["f", gen_float(rng, 64)], ["g", gen_float(rng, 32)], ["o", "none" if rng.random() < 0.3 else {"some": gen_float(rng, 64)}], ["v", {"seq": [gen_float(rng, 32) for _ in range(rng.choice([0, 1, 2, 4]))]}]]}


def de_case(tid, inp): return {'case': {'tid': tid, 'ty': CAT[tid], 'input': inp.hex()}, 'stream': 'text'}
def rt_case(tid, v): return {'case': {'tid': tid, 'ty': CAT[tid], 'value': v, 'firstFlag': True}, 'stream': 'value'}


def corpus():
    return [
        de_case(0, b'id=1=2&name=x'),                                   # was: panic (unwrap of a failed section split)
        de_case(4, b'v=p,q&n=1,2'),                                     # was: refused "missing ,"
        rt_case(4, {"struct": [["v", {"seq": [S(""), S("a")]}], ["n", {"seq": []}]]}),                 # was: written v=a
        rt_case(9, {"struct": [["w", {"seq": ["none", {"some": {"i": "3"}}]}], ["z", {"i": "0"}]]}),  # was: written w=3
        rt_case(6, {"struct": [["c", {"c": 38}], ["i", {"i": "-1"}]]}),                               # was: c=& unreadable
        rt_case(4, {"struct": [["v", {"seq": [S("p,q"), S("a&b=c"), S("日本")]}], ["n", {"seq": [{"i": "1"}, {"i": "255"}]}]]}),
        rt_case(5, {"map": [[S("k"), S("v")], [S("é k"), S("a=b&c")]]}),
        rt_case(1, {"struct": [["a", "none"], ["b", {"b": True}], ["c", {"some": S("")}]]}),          # known finding: Some("") is written `c=` and read as None
        rt_case(4, {"struct": [["v", {"seq": [S("")]}], ["n", {"seq": []}]]}),                        # known finding: [""] is written `v=` and read as []
        rt_case(5, {"map": [[S(""), S("x")]]}),                                                       # known finding: the empty key is written `=x` and refused
        de_case(0, b'name=a&id=%37'), de_case(0, b'name=a&id=%31%32'), de_case(1, b'b=%74rue&a=&c='), de_case(6, b'c=x&i=%2D5'), de_case(4, b'v=a&n=1,%32,3'),          # escaped digits, sign, letters of a bool (were refused)
        de_case(0, b'name=a%20b&id=7'), de_case(0, b'id=7&zz=1&name=x'), de_case(1, b'b=true&a=&c='), de_case(5, b'a=1&b=%26'),
        {'case': {'tid': 100, 'query': b'k=v&a=%41%20b&x=&novalue&=e&j=%E3%81%82&b=%FF'.hex()}, 'stream': 'query_iter'},
    ]


def generate(rng, tier):
    n = 6000 if tier == 'quick' else 150000
    out = []
    for _ in range(n):
        tid = rng.choice(list(CAT))
        out.append(de_case(tid, gen_raw(rng) if rng.random() < 0.15 else gen_structured(rng, tid)))
    for _ in range(n):
        tid = rng.choice(list(CAT))
        out.append(rt_case(tid, gen_value(rng, CAT[tid])))
    for _ in range(n // 10):          # floats round-trip too (judged on the implementation alone)
        out.append({'case': {'tid': 12, 'ty': FLOAT_T, 'value': gen_float_struct(rng), 'firstFlag': True, 'nomodel': True}, 'stream': 'value'})
    for _ in range(n // 4):
        q = b'&'.join(rng.choice([b'k=v', b'a=%41%20b', b'x=', b'novalue', b'=empty', b'j=%E3%81%82', b'', b'b=%FF', b'k=v=w', b'p=a+b', b'%6B=1', b'%3D=%26', b'a=%zz', b'a=%4'])
                      for _ in range(rng.choice([0, 1, 2, 3, 5])))
        c = {'tid': 100, 'query': q.hex()}
        if rng.random() < 0.35:          # the request object is reused on a keep-alive connection: an earlier request with another query was read into it
            c['prev'] = rng.choice([b'abc=def&x=1', b'token=abc123&mode=full&page=2&k=' + b'v' * 40, b'a=%41', b'k=v']).hex()
            if rng.random() < 0.4: c['query'] = ''; c['noq'] = True          # and this request has no query at all
        out.append({'case': c, 'stream': 'query_iter'})
    return out


# ------------------------------------------------------------------------------------------------ spec
def pct_decode(b):
    return re.sub(rb'%([0-9A-Fa-f]{2})', lambda m: bytes([int(m.group(1), 16)]), b)


def rfc_pairs(text):
    """None if the text is not a well-formed `k=v&...` list (every part has a `=` and a non-empty key)"""
    if text == b'': return []
    out = []
    for part in text.split(b'&'):
        if b'=' not in part: return None
        k, v = part.split(b'=', 1)
        if not k: return None
        out.append((k, v))
    return out


def spec_value(t, raw):
    """the value a raw (still encoded) text denotes for type t; raises ValueError when it denotes none / outside this spec"""
    if t == "string":
        s = pct_decode(raw); s.decode('utf-8'); return {"s": s.hex()}
    if t == "bool" or (isinstance(t, dict) and ("uint" in t or "sint" in t)):
        raw = pct_decode(raw)          # a client may escape any byte: `%35` is `5`, `%2D7` is `-7`, `%74rue` is `true` (RFC 3986 2.1; was refused before fix 2c45ee6)
    if t == "bool":
        if raw in (b"true", b"false"): return {"b": raw == b"true"}
        raise ValueError
    if isinstance(t, dict) and "uint" in t:
        if not re.fullmatch(rb'\+?[0-9]+', raw) or int(raw) >= 2 ** t["uint"]: raise ValueError
        return {"i": str(int(raw))}
    if isinstance(t, dict) and "sint" in t:
        if not re.fullmatch(rb'[+-]?[0-9]+', raw) or not (-2 ** (t["sint"] - 1) <= int(raw) < 2 ** (t["sint"] - 1)): raise ValueError
        return {"i": str(int(raw))}
    if isinstance(t, dict) and "option" in t:
        return "none" if raw == b"" else {"some": spec_value(t["option"], raw)}
    raise KeyError   # type outside the text-side spec


def spec_decode(tid, text):
    """expected decoded value for a well-formed text, or None when the spec does not pin the outcome"""
    ty = CAT[tid]
    pairs = rfc_pairs(text)
    if pairs is None or any(b'=' in v for _, v in pairs): return None
    try:
        if "map" in ty:
            m = {}
            for k, v in pairs:
                kd = pct_decode(k); kd.decode('utf-8')
                if kd in m: return None
                m[kd] = spec_value("string", v)
            return {"map": [[{"s": k.hex()}, m[k]] for k in sorted(m)]}
        fields = ty["struct"]
        names = {n.encode(): (t, d) for n, t, d in fields}
        got = {}
        for k, v in pairs:
            try: pct_decode(k).decode('utf-8')
            except UnicodeDecodeError: return None      # a key that is not text: refusing the form is acceptable, not pinned here
            kd = pct_decode(k)                      # the key is what its percent-decoding denotes (`%6Eame` is `name`)
            if kd in names:
                if kd in got: return None           # duplicate field: serde refuses; not pinned here
                got[kd] = spec_value(names[kd][0], v)
        vals = []
        for n, t, d in fields:
            if n.encode() in got: vals.append([n, got[n.encode()]])
            elif d: vals.append([n, DEFAULTS[tid][n]])
            elif isinstance(t, dict) and "option" in t: vals.append([n, "none"])
            else: return None                       # missing required field: an error, not pinned here
        return {"struct": vals}
    except (ValueError, UnicodeDecodeError):
        return 'error'
    except KeyError:
        return None


def norm_model(tid, m):
    m = json.loads(json.dumps(m))
    if m.get("outcome") == "ok" and tid in DEFAULTS and "value" in m:
        for f in m["value"].get("struct", []):
            if f[1] == "default": f[1] = DEFAULTS[tid][f[0]]
    if m.get("outcome") == "ok" and "value" in m and "map" in m["value"]:
        m["value"]["map"].sort(key=lambda kv: bytes.fromhex(kv[0]["s"]))
    if m.get("outcome") in ("panic", "ub"): m = {"outcome": m["outcome"]}
    return m


def judge(case, out, m):
    v = []
    if 'panic' in out or out.get('outcome') in ('panic', 'abort') or 'abort' in out or 'hang' in out:
        v.append(('violation', f'decoder/encoder panicked or aborted: {str(out)[:120]}'))
        return v
    mm = m.get('model') if m else None
    if 'query' in case:
        q = unhx(case['query'])
        want = [[hx(pct_decode(p.split(b'=', 1)[0]).decode('utf-8', 'replace')), hx(pct_decode(p.split(b'=', 1)[1]).decode('utf-8', 'replace'))]
                for p in (q.split(b'&') if q else []) if b'=' in p and not p.startswith(b'=')]
        if out.get('pairs') != want: v.append(('violation', f'query iterator yields {out.get("pairs")}, RFC 3986 pairs are {want}'))
        if mm is not None and mm.get('pairs') != out.get('pairs'): v.append(('disagree', f'impl {out} model {mm}'))
        return v
    tid = case['tid']
    if 'value' in case:
        hyp = None
        if case.get('nomodel'): mm, hyp = None, True          # floats: every value (NaN is not generated) is unambiguous and must come back bit for bit
        if mm is not None:
            mb = dict(mm)
            if mb.get("outcome") == "ok" and isinstance(mb.get("back"), dict):
                mb["back"] = norm_model(tid, mb["back"])
                if mb["back"].get("outcome") == "ok": mb["same"] = mb["back"].get("value") == case["value"]
            if out.get("text") != mb.get("text") or out.get("back") != mb.get("back") or out.get("same") != mb.get("same"):
                v.append(('disagree', f'impl {str(out)[:200]} model {str(mb)[:200]}'))
            hyp = bool(mb.get("unamb")) and bool(mb.get("welltyped"))
        if hyp and not out.get("same"):
            v.append(('violation', f'value does not round-trip although unambiguous and well-typed: text {bytes.fromhex(out.get("text", ""))!r} back {str(out.get("back"))[:160]}'))
        elif mm is not None and not out.get("same") and mm.get("welltyped") and not mm.get("unamb"):
            # the class excluded by the hypothesis `unamb` of `roundtrip_struct`: listed as a known finding
            v.append(('violation', f'ambiguous value does not round-trip: text {bytes.fromhex(out.get("text", ""))!r} back {str(out.get("back"))[:120]}', 'KF-C09-empty-ambiguity'))
        return v
    # text case
    want = spec_decode(tid, unhx(case['input']))
    if want == 'error':
        if out.get('outcome') != 'err': v.append(('violation', f'text denotes no value of the type but was accepted as {str(out)[:160]}'))
    elif want is not None:
        if out.get('outcome') != 'ok' or out.get('value') != want:
            v.append(('violation', f'RFC 3986 reading gives {json.dumps(want)[:200]}, decoder gives {json.dumps(out)[:200]}'))
    if mm is not None:
        if norm_model(tid, mm) != out: v.append(('disagree', f'impl {json.dumps(out)[:200]} model {json.dumps(norm_model(tid, mm))[:200]}'))
    return v


def nontrivial(case):
    if 'query' in case: return b'%' in unhx(case['query'])
    if 'value' in case:
        s = json.dumps(case['value'])
        return any(k in s for k in ('"some"', '"seq": [{', '"map": [[')) or '25' in s or '26' in s
    t = unhx(case['input'])
    return b'%' in t or b'zz' in t or b'&&' in t or b'==' in t or len(t.split(b'&')) >= 2


def features(case, out):
    if 'query' in case: return ['query_iter']
    if 'value' in case: return ['value_t%d' % case['tid'], 'rt_same' if out.get('same') else 'rt_differs']
    return ['text_t%d' % case['tid'], 'text_' + str(out.get('outcome'))]
