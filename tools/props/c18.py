"""C18 — graceful shutdown waits for in-flight sessions and never loses the interrupt (partial).

impl  : the real `Ohkami::howl` in a child process interrupted by a real SIGINT (the real handler closure, the real accept loop, real sessions); and harness C18 through hook H4: the real `until_interrupt` future polled by hand, the real handler body run at a chosen
        scheduling point of a chosen poll, on the real CATCH / WAKER atomics; the real WaitGroup under add/done/poll histories
model : Lean `Ohkami.Shutdown2.step` (handler / poller / reactor transition system), `wrun` (wait group)
spec  : here — after the interrupt the loop must observe it: the poll during or right after which it lands returns Ready(None), or
        returns Pending with the task woken and the next poll returns Ready(None); a wait-group poll is Ready iff every added token is done
What the model cannot exhibit (named in DESIGN.md): the OS signal path, the ctrlc thread, executor fairness, finer-than-handler-atomic
interleavings on the real atomics (the theorem covers them on the model; the run forces the handler-atomic ones).
"""
ID = 'C18'
GEN_DEPS = ['GenShutdown']
RULE = ('(a) every placement of the interrupt relative to the k-th poll of the accept loop (before it / between load and swap / between swap and re-check / after it), '
        'k = 1..4 with reactor wakes before it, exhaustively, and with a connection waiting at any subset of the polls (the loop under load); (b) wait-group histories of 0-6 sessions with polls anywhere, any completion order, and sessions ending INSIDE a poll at the n-th touch of the waker (a touch-counting waker: clone / wake / wake_by_ref / drop); '
        '(c) the real howl in a child process under a real SIGINT with 0-3 keep-alive sessions closed in every order, one of them possibly after a handler panic; '
        'non-trivial = the interrupt lands inside a poll (points 1, 2) or the history has a poll while a session is alive; exhaustive for (a)')
ASSUMPTIONS = ['the handler body runs atomically at the chosen scheduling point (the theorem no_lost_wakeup covers every finer interleaving on the model)',
               'a woken task is polled again (executor fairness)']


def corpus():
    out = []
    for k in range(0, 4):                      # polls without interrupt before
        for at in (0, 1, 2, 3):
            out.append({'case': {'polls': [None] * k + [at] + [None, None]}, 'stream': 'interleaving'})
    out.append({'case': {'polls': [None, None, None]}, 'stream': 'interleaving'})
    # under load: a connection is waiting when a poll begins (the loop's `accept()` is ready), before / at / after the interrupt, in every combination over 4 polls
    import itertools as _it
    for k in range(0, 3):
        for at in (0, 1, 2, 3):
            for conn in _it.product([False, True], repeat=k + 3):
                if any(conn) and not (conn[k] and at in (1, 2)): out.append(          # (a poll that finds a connection returns before the points 1 and 2)
                    {'case': {'polls': [None] * k + [at] + [None, None], 'conn': list(conn)}, 'stream': 'under-load'})
    # the accept loop polled with a different waker on later polls (the future moved to another task): the interrupt must wake the latest one
    for k in range(1, 4):
        for at in (0, 1, 2, 3):
            for ws in ([0] * k + [1, 1, 1], [0, 1, 0, 1, 0, 1, 0], [1] + [0] * (k + 2)):
                out.append({'case': {'polls': [None] * k + [at] + [None, None], 'wakers': ws[:k + 3]}, 'stream': 'interleaving'})
    # the REAL howl in a child process under a real SIGINT: k keep-alive sessions (one may have made a handler panic), closed in every order
    import itertools
    for k in (0, 1, 2, 3):
        for order in (list(itertools.permutations(range(k))) if k < 3 else [(0, 1, 2), (2, 0, 1), (1, 2, 0)]):
            out.append({'case': {'howl': {'sessions': k, 'order': list(order), 'signal': True}}, 'stream': 'howl'})
    out.append({'case': {'howl': {'sessions': 2, 'order': [0, 1], 'panic': 0, 'signal': True}}, 'stream': 'howl'})
    out.append({'case': {'howl': {'sessions': 2, 'order': [1, 0], 'panic': 1, 'signal': True}}, 'stream': 'howl'})
    out.append({'case': {'howl': {'sessions': 1, 'order': [0], 'panic': 0, 'signal': False}}, 'stream': 'howl'})
    # the process was started with SIGINT ignored (background job of a non-interactive shell): the interrupt must still be honoured
    out.append({'case': {'howl': {'sessions': 1, 'order': [0], 'signal': True, 'ignored': True}}, 'stream': 'howl'})
    out.append({'case': {'howl': {'sessions': 0, 'order': [], 'signal': True, 'ignored': True}}, 'stream': 'howl'})
    for n in (1, 2, 3, 4):           # the last session ends inside the final poll, at the n-th touch of the waker
        out.append({'case': {'wg': ['add', 'poll@%d' % n, 'poll']}, 'stream': 'waitgroup'})
        out.append({'case': {'wg': ['add', 'add', 'poll', 'done', 'poll@%d' % n, 'poll', 'poll']}, 'stream': 'waitgroup'})
    out.append({'case': {'wg': ['add', 'poll', 'done']}, 'stream': 'waitgroup'})          # nobody polls after the last session ended: the task must already be woken
    out.append({'case': {'wg': ['add', 'poll', 'drop', 'poll']}}); out.append({'case': {'wg': ['add', 'add', 'drop', 'poll', 'done', 'poll']}})
    out.append({'case': {'wg': ['poll']}}); out.append({'case': {'wg': ['add', 'poll', 'done', 'poll']}})
    out.append({'case': {'wg': ['add', 'add', 'done', 'poll', 'done', 'poll', 'poll']}})
    return out


def generate(rng, tier):
    n = 1500 if tier == 'quick' else 40000
    out = []
    for _ in range(n):
        ops, live = [], 0
        for _ in range(rng.choice([1, 3, 6, 12, 20])):
            r = rng.random()
            if r < 0.35: ops.append('add'); live += 1
            elif r < 0.65 and live: ops.append(rng.choice(['done', 'done', 'drop'])); live -= 1          # 'drop': the session task unwound, its handle was dropped
            elif live and r < 0.8: ops.append('poll@%d' % rng.choice([1, 1, 1, 2, 3, 4])); live -= 1          # a session ends inside the poll, at the n-th touch of the waker (if the poll touches it that often: `fired` says)
            else: ops.append('poll')
        while live and rng.random() < 0.7: ops.append(rng.choice(['done', 'drop'])); live -= 1
        ops.append('poll')
        out.append({'case': {'wg': ops}, 'stream': 'waitgroup'})
    return out


def spec_check(case, out):
    if 'panic' in out: return 'panic: ' + out['panic'][:120]
    if 'howl' in case:
        sc = case['howl']
        if out.get('hang') or 'error' in out: return f'the howl scenario did not finish: {str(out)[:160]}'
        if out.get('returned_early'): return f'howl returned while a session was still open ({sc})'
        if out.get('served_after_interrupt'): return f'a connection made after the interrupt was served ({sc})'
        if out.get('accepting_after_interrupt') and sc['sessions'] - (1 if sc.get('panic') is not None else 0) >= 1: return f'2 s after the interrupt the server still accepts connections while sessions are open ({sc})'
        if not out.get('returned_after_all'): return f'howl did not return within 3 s after the last session ended ({sc})'
        return None
    if 'wg' in case:
        # ready exactly when no session is alive; a poll that returns Pending once every session has ended — the last one may end INSIDE the
        # poll, at any touch of the waker — must leave the task woken, or nobody will ever poll it again; and the poll after that is Ready
        live, res, last = 0, out['polls'], None
        i = 0
        for o in case['wg']:
            if o == 'add': live += 1
            elif o in ('done', 'drop'): live -= 1
            else:
                r = res[i]; i += 1
                before = live
                if r.get('fired'): live -= 1
                if r['ready'] and live != 0: return f'wait group poll {i} is Ready while {live} session(s) are alive'
                if not r['ready'] and before == 0: return f'wait group poll {i} is Pending although no session is alive'
                if not r['ready'] and live == 0 and not r['woken']:
                    return f'wait group poll {i} ({o}): the last session ended inside the poll, the poll returned Pending and nobody woke the task (lost wake-up: howl never returns)'
                last = r
        if last is not None and not last['ready'] and live == 0 and not out.get('final_woken'):
            return 'every session has ended after the last poll returned Pending, and the task was never woken (howl never returns)'
        return None
    ps, res = case['polls'], out['polls']
    conn = case.get('conn') or []
    isconn = lambda i: i < len(conn) and conn[i]
    k = next((i for i, p in enumerate(ps) if p is not None), None)
    if k is None:
        return 'returned None without an interrupt' if any(r['ready_none'] for r in res) else None
    if any(r['ready_none'] for r in res[:k]): return 'returned None before the interrupt'
    if len(res) <= k: return 'missing poll'
    # the server stops accepting: a poll that BEGINS after the interrupt was delivered takes no connection, ready or not
    delivered_before = k if ps[k] == 0 else k + 1
    for i, r in enumerate(res):
        if i >= delivered_before and r.get('accepted'): return f'poll {i + 1} began after the interrupt had been delivered and still accepted a connection (under load the server never stops accepting)'
    if res[k]['ready_none']: return None if ps[k] != 3 else 'returned None before the interrupt (it lands after the poll)'
    if isconn(k) and res[k].get('accepted'):
        # the connection was taken by a poll that began before the interrupt: fine; the next poll must return None
        if len(res) <= k + 1 or not res[k + 1]['ready_none']: return 'the poll after the interrupt did not return None'
        return None
    # the poll returned Pending with the interrupt delivered: the task must have been woken, and the next poll must return None
    if not res[k]['woken']: return f'interrupt at point {ps[k]} of poll {k + 1}: the poll returned Pending and nobody woke the task (lost wake-up)'
    if len(res) <= k + 1 or not res[k + 1]['ready_none']: return 'woken after the interrupt but the next poll did not return None'
    return None


def judge(case, out, m):
    v = []
    bad = spec_check(case, out)
    if bad: v.append(('violation', bad))
    # `woken` is the flag of the waker THIS poll used; when the poll returns Ready(None) who else was woken (a stale waker of an earlier task) is immaterial
    norm = lambda ps: [({'ready_none': True} if isinstance(p, dict) and p.get('ready_none') else p) for p in (ps or [])]
    if m is not None and 'howl' not in case and norm(m.get('model', {}).get('polls')) != norm(out.get('polls')):
        v.append(('disagree', f'impl {out.get("polls")} model {m.get("model", {}).get("polls")}'))
    return v


def nontrivial(case):
    if 'howl' in case: return case['howl']['sessions'] >= 1
    if 'wg' in case:
        live = 0
        for o in case['wg']:
            if o == 'add': live += 1
            elif o in ('done', 'drop'): live -= 1
            elif live: return True
            if o.startswith('poll@'): live -= 1
        return False
    return any(p in (1, 2) for p in case['polls'])


def features(case, out):
    if 'howl' in case: return ['howl_%d' % case['howl']['sessions']]
    if 'wg' in case: return ['wg']
    return ['interrupt_at_%s' % next((p for p in case['polls'] if p is not None), 'never')]
