"""generator of application trees shared by C01 / C04 / C14, and the segment-level reading of routes used by their specs"""
from .common import hx

VOCAB = ['a', 'ab', 'abc', 'b', 'users', 'users2', 'api', 'apix', 'v1', 'x', 'y', 'index.html', 'a-b', 'a_b', 'a.b', '0']
METHODS = ['GET', 'PUT', 'POST', 'PATCH', 'DELETE']
# a node with many static children: names that are another name plus '-', '.', a digit or a letter (every byte order around '/' = 0x2F)
WIDE = VOCAB + ['api-docs', 'api.json', 'api0', 'apis', 'users.json', 'users-old', 'users_0', 'v1.1', 'v10', 'v1-beta', 'ab-c', 'abc.d', 'x-y', 'x.y', 'y0', 'b-0', 'b.0', 'index', 'index.htm', 'a-0', 'a.0', 'a0', 'aa']          # (a segment ends with a letter or digit: the framework refuses the others)


def lit(rng, depth_max=3, allow_root=True, param_rate=0.3, pnames=None):
    n = rng.choice(([0] if allow_root else []) + [1, 1, 2, 2, 3][:1 + 2 * depth_max])
    n = min(n, depth_max)
    if n == 0: return '/'
    segs = []
    for _ in range(n):
        if rng.random() < param_rate: segs.append(':' + rng.choice(pnames or ['id', 'p', 'name']))
        else: segs.append(rng.choice(VOCAB))
    return '/' + '/'.join(segs)


def pat(route):
    """'/a/:x' -> ['a', None] ; '/' -> []"""
    return [None if s.startswith(':') else s.encode() for s in route.split('/')[1:] if route != '/'] if route != '/' else []


def segs_of_path(path: bytes):
    p = path[:-1] if path.endswith(b'/') else path
    if p == b'': return []
    return p[1:].split(b'/')


def matches(pattern, segs):
    return len(pattern) == len(segs) and all((s != b'' if q is None else q == s) for q, s in zip(pattern, segs))


def under(prefix, segs):
    """segments left after the prefix pattern, or None"""
    if len(segs) < len(prefix): return None
    if all((s != b'' if q is None else q == s) for q, s in zip(prefix, segs)): return segs[len(prefix):]
    return None


class Ids:
    def __init__(self): self.h = 100; self.f = 1
    def handler(self): self.h += 1; return self.h
    def fang(self): self.f += 1; return self.f


def pat_matches(a, b): return (a is None and b is None) or (a is not None and b is not None and a == b)
def compat(a, b): return not (a is not None and b is not None) or a == b


def conflict(pre, r):
    """Lean `Fangs.conflict`: route / sibling prefix r disturbs the mount prefix pre"""
    if not pre: return True
    if not r: return False
    if pat_matches(pre[0], r[0]): return conflict(pre[1:], r[1:])
    return compat(pre[0], r[0])


def gen_app(rng, ids, depth=0, max_routes=6, fangs=True, local=True, mounts=True, nparams_left=2, free=False):
    """free=False: the side condition of C04 holds (nobody else registers under a mount prefix, mount prefixes do not disturb each other);
       free=True : no side condition — the parent also registers routes under its mounts' prefixes (the very routes of the mounted application under other
                   methods, and extensions of them), mounts may share prefixes; route/method pairs are kept distinct (`dedupe`)"""
    app = {'fangs': [], 'items': []}
    if fangs and rng.random() < 0.6:
        app['fangs'] = [ids.fang() for _ in range(rng.choice([3, 4, 5, 6, 7, 8] if rng.random() < 0.35 else [1, 1, 2]))]
        app['via_new'] = rng.random() < 0.5
    routes, mount_pre = [], []
    if mounts and depth < 2:
        for _ in range(rng.choice([0, 0, 1, 1, 2] if depth == 0 else [0, 0, 1])):
            m = lit(rng, depth_max=2, allow_root=False, param_rate=0.25 if nparams_left > 0 else 0)
            mp = pat(m)
            np_ = sum(1 for s in mp if s is None)
            if np_ > nparams_left: continue
            if not free and any(conflict(mp, o) or conflict(o, mp) for o in mount_pre): continue
            mount_pre.append(mp)
            app['items'].append({'mount': m, 'app': gen_app(rng, ids, depth + 1, max_routes=4, fangs=fangs, local=local, mounts=mounts, nparams_left=nparams_left - np_, free=free)})
    seen = set()
    # a mounted application may have fangs and no route of its own (a guard for a whole prefix)
    for _ in range(0 if (depth > 0 and app['fangs'] and rng.random() < 0.2) else rng.choice([1, 2, 3, max_routes])):
        r = lit(rng, depth_max=3, param_rate=0.3 if nparams_left > 0 else 0)
        rp = pat(r)
        if sum(1 for s in rp if s is None) > nparams_left: continue
        key = tuple('*' if s is None else s for s in rp)
        if key in seen: continue
        if not free and any(conflict(mp, rp) for mp in mount_pre): continue          # the property's side condition: nobody else registers under a mount prefix
        seen.add(key)
        ms = rng.sample(METHODS, rng.choice([1, 1, 2, 5]))
        item = {'route': r, 'methods': ms, 'h': ids.handler(), 'local': []}
        if local and rng.random() < 0.25: item['local'] = [ids.fang() for _ in range(rng.choice([1, 2, 3]))]
        app['items'].append(item)
    if free:
        for it in [it for it in app['items'] if 'mount' in it]:
            sub = [r for r in it['app']['items'] if 'route' in r]
            for _ in range(rng.choice([0, 1, 1, 2])):
                if not sub: break
                r = rng.choice(sub)
                full = it['mount'].rstrip('/') + ('' if r['route'] == '/' else r['route'])
                k = rng.random()
                if k < 0.3: full = full + '/' + rng.choice(VOCAB)                                     # below a route of the mounted application
                elif k < 0.45 and r['route'] != '/': full = full.rsplit('/', 1)[0] or '/'            # above it, still at or under the mount point
                item = {'route': full, 'methods': rng.sample(METHODS, rng.choice([1, 2, 3])), 'h': ids.handler(), 'local': []}
                if local and rng.random() < 0.25: item['local'] = [ids.fang() for _ in range(rng.choice([1, 2]))]
                app['items'].append(item)
    if depth == 0 and rng.random() < 0.12:          # a wide node: 9-16 static routes of one segment, in every method tree
        for v in rng.sample(WIDE, rng.choice([9, 10, 12, 16])):
            key = (v,)
            if key in seen: continue
            if not free and any(conflict(mp, [v.encode()]) for mp in mount_pre): continue
            seen.add(key)
            app['items'].append({'route': '/' + v, 'methods': list(METHODS) if rng.random() < 0.8 else rng.sample(METHODS, 3), 'h': ids.handler(), 'local': []})
    rng.shuffle(app['items'])
    if free and depth == 0: dedupe(app)
    return app


def dedupe(app, prefix=(), seen=None):
    """keep route/method pairs distinct over the whole tree (a second handler for one pair is refused at start-up)"""
    seen = set() if seen is None else seen
    keep = []
    for it in app['items']:
        if 'mount' in it:
            dedupe(it['app'], prefix + tuple(pat(it['mount'])), seen)
            keep.append(it)
        else:
            key = tuple('*' if s is None else s for s in list(prefix) + pat(it['route']))
            it['methods'] = [m for m in it['methods'] if (key, m) not in seen]
            seen.update((key, m) for m in it['methods'])
            if it['methods']: keep.append(it)
    app['items'] = keep


def flat_routes(app, prefix=()):
    """[(pattern, methods, handler id, local fangs, [app chain fang lists])]"""
    out = []
    for it in app['items']:
        if 'mount' in it: out += flat_routes(it['app'], prefix + tuple(pat(it['mount'])))
        else: out.append((list(prefix) + pat(it['route']), it['methods'], it['h'], it.get('local', [])))
    return out


def mount_prefixes(app, prefix=()):
    """the composed prefix patterns of every mount of the tree"""
    out = []
    for it in app['items']:
        if 'mount' in it:
            p = prefix + tuple(pat(it['mount']))
            out.append(list(p))
            out += mount_prefixes(it['app'], p)
    return out


def scope_chain(app, segs):
    """fangs of the applications whose composed mount prefix is a prefix of the path, outermost first"""
    out = list(app['fangs'])
    for it in app['items']:
        if 'mount' in it:
            rest = under(pat(it['mount']), segs)
            if rest is not None: return out + scope_chain(it['app'], rest)
    return out


def request_paths(rng, app, n):
    """paths: each route instantiated, plus mutations (extra/empty segments, trailing slashes, shared prefixes, percent-escapes)"""
    fr = flat_routes(app)
    mp = mount_prefixes(app)
    out = []
    def inst(p): return b'/' + b'/'.join((rng.choice([b'7', b'ab', b'users', b'x%2Fy', b'%41', b'a b'.replace(b' ', b'+')]) if s is None else s) for s in p) if p else b'/'
    for _ in range(n):
        base = inst(rng.choice(fr)[0]) if fr and rng.random() < 0.8 else (b'/' + b'/'.join(rng.choice(VOCAB).encode() for _ in range(rng.choice([0, 1, 2, 3]))))
        if mp and rng.random() < 0.15: base = inst(rng.choice(mp))          # a mount point itself (the mounted application may have no route there, or none at all)
        r = rng.random()
        if r < 0.35: p = base
        elif r < 0.45: p = base + b'/'
        elif r < 0.52: p = base + b'//'
        elif r < 0.62: p = base + b'/' + rng.choice(VOCAB).encode()
        elif r < 0.70: p = base + rng.choice([b'2', b'x', b'%20'])
        elif r < 0.78:
            parts = base.split(b'/')
            if len(parts) > 2: parts.pop(rng.randrange(1, len(parts)))
            p = b'/'.join(parts) or b'/'
        elif r < 0.85:
            parts = base.split(b'/')
            parts.insert(rng.randrange(1, len(parts) + 1), rng.choice([b'', b'zz', b'a']))
            p = b'/'.join(parts)
        elif r < 0.92: p = base.replace(b'a', b'%61', 1)
        else: p = base[:max(1, len(base) - 1)]
        if not p.startswith(b'/'): p = b'/' + p
        out.append(p)
    return out
