"""helpers shared by the per-property modules"""
import json, re, os

REPO = os.environ.get('VERIF_REPO', '/repo')


def hx(s):
    return (s.encode() if isinstance(s, str) else bytes(s)).hex()


def unhx(h):
    return bytes.fromhex(h)


def shrink_list(case, path, still_fails):
    """delta-debug the list at case[path...] : drop halves, then single elements"""
    def get(c):
        for k in path: c = c[k]
        return c

    def put(c, v):
        c = json.loads(json.dumps(c))
        d = c
        for k in path[:-1]: d = d[k]
        d[path[-1]] = v
        return c
    cur = case
    n = 2
    while True:
        l = get(cur)
        if len(l) <= 0: break
        chunk = max(1, len(l) // n)
        progressed = False
        for i in range(0, len(l), chunk):
            cand = put(cur, l[:i] + l[i + chunk:])
            if still_fails(cand):
                cur, progressed = cand, True
                break
        if progressed:
            n = max(n - 1, 2)
            continue
        if chunk == 1: break
        n = min(n * 2, len(l))
    return cur
