"""C01 — routing dispatches each request to the handler of the matching route.

impl  : harness C01 (application trees assembled at run time through hook H1, identity-echoing handlers, testing::oneshot)
model : Lean `Fangs.build` (registration, mounts, fang application) -> `finalize` -> `searchP` (exact prediction, including the
        effect of fang scopes on single-child compression); `spec` = `greedyChain` on the flattened routes
spec  : here — the relation the property states, on the flat route table: a hit must be on a route that matches segment by
        segment and is most-static among all matching routes; a miss is allowed when no route matches or the literal
        statics-first walk (no backtracking) misses; HEAD = GET without body; same outcome for a permuted registration order
"""
import json
from .common import hx, unhx
from . import appgen

ID = 'C01'
GEN_DEPS = []
RULE = ('application trees (1-12 routes over a vocabulary full of byte-prefix pairs, depth <= 3, params, 0-2 levels of mounts with static and param prefixes, random method subsets, fangs at '
        'any level) each in two registration orders x 24 requests (every kind of mutation of instantiated routes: extra/empty segments, trailing slashes, shared byte prefixes, percent-escapes, '
        'other methods, HEAD); non-trivial = the app has a static/param sibling pair or a mount, and the request is not a verbatim instantiation; distinct by canonical JSON')
ASSUMPTIONS = ['a mount prefix is a static/param alternative in the tree of every method (C04 requires the fangs of the mounted application to run for every request under its prefix, whatever the method): a path whose statics-first walk enters a mount prefix is answered inside it',
               'a route may hold any number of params, of which the framework stores (and the handlers see) the first two; static segments are compared as raw bytes; a param never matches an empty segment',
               'OPTIONS requests are the subject of C14']


def permute(rng, app):
    a = json.loads(json.dumps(app))
    rng.shuffle(a['items'])
    for it in a['items']:
        if 'mount' in it: it['app'] = permute(rng, it['app'])
    return a


def mk(rng, app, nreq=24):
    paths = appgen.request_paths(rng, app, nreq)
    reqs = [{'m': rng.choice(['GET', 'GET', 'GET', 'HEAD', 'POST', 'PUT', 'PATCH', 'DELETE']), 'p': p.hex()} for p in paths]
    return {'case': {'app': app, 'app2': permute(rng, app), 'stop': None, 'reqs': reqs}}


def corpus():
    R = lambda route, h, ms=('GET',): {'route': route, 'methods': list(ms), 'h': h, 'local': []}
    q = lambda m, p: {'m': m, 'p': hx(p)}
    cases = [
        # the byte-prefix defect: /users + /:page, GET /users2 must reach /:page
        {'app': {'fangs': [], 'items': [R('/users', 1), R('/:page', 2)]}, 'reqs': [q('GET', '/users2'), q('GET', '/users'), q('GET', '/user'), q('GET', '/users/'), q('HEAD', '/users2')]},
        {'app': {'fangs': [], 'items': [R('/api', 1), R('/api/x', 2), R('/:p', 3)]}, 'reqs': [q('GET', '/apix'), q('GET', '/api/x'), q('GET', '/api/'), q('GET', '/api//')]},
        # look-ahead over a forced static chain
        {'app': {'fangs': [], 'items': [R('/a/b', 1), R('/:x/c', 2)]}, 'reqs': [q('GET', '/a/c'), q('GET', '/a/b'), q('GET', '/a')]},
        {'app': {'fangs': [], 'items': [R('/a/b', 1), R('/:x/c', 2), R('/a/d', 3)]}, 'reqs': [q('GET', '/a/c'), q('GET', '/a/d')]},
        {'app': {'fangs': [], 'items': [R('/', 1), R('/:a/:b', 2, ('GET', 'POST'))]}, 'reqs': [q('GET', '/'), q('GET', '//'), q('POST', '/x/y'), q('GET', '/x//'), q('GET', '/x/%2F'), q('PUT', '/x/y')]},
        {'app': {'fangs': [1], 'items': [{'mount': '/t/:tenant', 'app': {'fangs': [2], 'items': [R('/u/:id', 5)]}}, R('/t', 6)]}, 'reqs': [q('GET', '/t/a/u/b'), q('GET', '/t'), q('GET', '/t/a'), q('GET', '/t/a/u')]},
        # fixed by 8878fb7: a route of the parent under the prefix of a later mount; the mounted routes were unreachable (param twin) or start-up panicked (static twin)
        {'app': {'fangs': [], 'items': [R('/a/:v/:x/abc', 1, ('PATCH',)), {'mount': '/a', 'app': {'fangs': [], 'items': [R('/:v', 2, ('PATCH', 'GET'))]}}]},
         'reqs': [q('PATCH', '/a/7'), q('GET', '/a/7'), q('PATCH', '/a/7/8/abc'), q('PATCH', '/a/7/8')]},
        {'app': {'fangs': [], 'items': [R('/a/b', 1), {'mount': '/a', 'app': {'fangs': [], 'items': [R('/b', 2, ('POST',)), R('/b/c', 3)]}}, R('/a/b/c', 4, ('PUT',))]},
         'reqs': [q('GET', '/a/b'), q('POST', '/a/b'), q('GET', '/a/b/c'), q('PUT', '/a/b/c'), q('DELETE', '/a/b')]},
        # the same two routes answer GET /abc/xyz with the param route, or with 404 once an unrelated second route exists under /abc (known finding KF-C01-dead-end);
        # likewise a mount prefix, a node of every method's tree, shadows the param route of another method
        {'app': {'fangs': [], 'items': [R('/abc/def', 1), R('/:p/xyz', 2)]}, 'reqs': [q('GET', '/abc/xyz'), q('GET', '/abc/def')]},
        {'app': {'fangs': [], 'items': [R('/abc/def', 1), R('/abc/ghi', 3), R('/:p/xyz', 2)]}, 'reqs': [q('GET', '/abc/xyz'), q('GET', '/abc/ghi')]},
        {'app': {'fangs': [], 'items': [R('/api/v1', 1), R('/api/v2', 3), R('/:p', 2)]}, 'reqs': [q('GET', '/api'), q('GET', '/apj')]},
        {'app': {'fangs': [], 'items': [{'mount': '/api', 'app': {'fangs': [], 'items': [R('/x', 1)]}}, R('/:p', 2, ('PUT',))]}, 'reqs': [q('PUT', '/api'), q('PUT', '/apj'), q('GET', '/api/x')]},
        # a chain of static routes in which a node WITH a handler has a single static child: single-child compression must stop at a handler
        {'app': {'fangs': [], 'items': [R('/api/users', 1), R('/api/users/me', 2)]}, 'reqs': [q('GET', '/api/users'), q('GET', '/api/users/me'), q('HEAD', '/api/users'), q('GET', '/api')]},
        {'app': {'fangs': [], 'items': [R('/teams/:id/members/admins/owners', 2), R('/teams/:id/members/admins', 1)]}, 'reqs': [q('GET', '/teams/7/members/admins'), q('GET', '/teams/7/members/admins/owners'), q('GET', '/teams/7/members')]},
        # a static branch that captures a param and then leads nowhere, beside a param branch that matches: whichever way the search handles the dead end,
        # the params a handler sees are the segments at the param positions of ITS route (a search that goes back must forget what the abandoned branch captured)
        {'app': {'fangs': [], 'items': [R('/users/:id/posts', 1), R('/:tenant/:name/profile', 2)]}, 'reqs': [q('GET', '/users/alice/profile'), q('GET', '/users/alice/posts'), q('GET', '/acme/bob/profile')]},
        {'app': {'fangs': [], 'items': [R('/a/:x/b/:y/c', 1), R('/a/:x/:z/d', 2), R('/:p/:q/b/e/f', 3)]}, 'reqs': [q('GET', '/a/1/b/2/d'), q('GET', '/a/1/b/e/f'), q('GET', '/a/1/b/d'), q('GET', '/a/1/b/2/c')]},
    ]
    return [{'case': dict(c, app2=c['app'], stop=None)} for c in cases]


def dead_end_app(rng):
    """a static branch that captures params and ends in a literal, beside a param branch of the same depth ending in another literal (and requests that cross over)"""
    lit = lambda: rng.choice(['users', 'a', 'api', 'v1', 'x-y', 'posts', 'profile', 'b'])
    depth = rng.choice([2, 3, 4])
    first = lit()
    r1 = ['/' + first] + ['/:p%d' % i if rng.random() < 0.6 else '/' + lit() for i in range(depth - 1)] + ['/' + rng.choice(['end1', 'posts'])]
    r2 = ['/:t'] + ['/:q%d' % i if rng.random() < 0.5 else (r1[i + 1] if not r1[i + 1].startswith('/:') else '/' + lit()) for i in range(depth - 1)] + ['/' + rng.choice(['end2', 'profile'])]
    def cap(r):          # the framework stores the first two params; keep routes within what handlers can declare
        k = 0; out = []
        for s_ in r:
            if s_.startswith('/:'):
                k += 1
                if k > 2: s_ = '/' + lit()
            out.append(s_)
        return ''.join(out)
    R = lambda route, h: {'route': route, 'methods': ['GET'], 'h': h, 'local': []}
    items = [R(cap(r1), 1), R(cap(r2), 2)]
    if rng.random() < 0.5: items.append(R('/' + first + '/' + lit() + '/zz', 3))
    rng.shuffle(items)
    return {'fangs': [], 'items': items}


def generate(rng, tier):
    n = 250 if tier == 'quick' else 8000
    out = []
    for _ in range(n // 10):
        app = dead_end_app(rng)
        if len({it['route'] for it in app['items']}) != len(app['items']): continue
        c = mk(rng, app, 8)
        conc = lambda route: [seg if not seg.startswith(':') else rng.choice(['alice', '7', 'x', 'bob']) for seg in route.strip('/').split('/')]
        rs = [it['route'] for it in app['items']]
        for a in rs:          # cross-overs: the body of one route with the last literal of another
            for b in rs:
                if a != b and len(conc(a)) == len(conc(b)):
                    c['case']['reqs'].append({'m': 'GET', 'p': ('/' + '/'.join(conc(a)[:-1] + conc(b)[-1:])).encode().hex()})
        out.append(c)
    for _ in range(n):
        ids = appgen.Ids()
        app = appgen.gen_app(rng, ids, fangs=rng.random() < 0.5, local=False, free=rng.random() < 0.5, nparams_left=rng.choice([2, 2, 2, 3, 4, 5]))          # a route may hold any number of params (mount prefixes included); the framework stores the first two
        if not appgen.flat_routes(app): continue
        out.append(mk(rng, app))
    return out


def pct(b):
    import re
    return re.sub(rb'%([0-9A-Fa-f]{2})', lambda m: bytes([int(m.group(1), 16)]), b).decode('utf-8', 'replace').encode()


def greedy_literal(routes, segs):
    """statics first at each position, no backtracking; returns handler id or None"""
    cand = routes
    for i, s in enumerate(segs):
        st = [r for r in cand if len(r[0]) > i and r[0][i] is not None and r[0][i] == s]
        if st: cand = st
        elif s != b'': cand = [r for r in cand if len(r[0]) > i and r[0][i] is None]
        else: cand = []
        if not cand: return None
    done = [r for r in cand if len(r[0]) == len(segs) and r[2] is not None]
    return done[0][2] if done else None


def more_static_ok(r, other):
    """r is not beaten by other: at the first position where they differ, r must not be the param one"""
    for a, b in zip(r, other):
        if (a is None) != (b is None): return a is not None
        if a != b: return True
    return True


def spec_check_one(app, req, out):
    if 'panic' in out: return 'panic: ' + out['panic'][:120]
    m = 'GET' if req['m'] == 'HEAD' else req['m']
    routes = [r for r in appgen.flat_routes(app) if m in r[1]]
    segs = appgen.segs_of_path(unhx(req['p']))
    matching = [r for r in routes if appgen.matches(r[0], segs)]
    if out['handler'] is not None:
        r = next((r for r in routes if r[2] == out['handler']), None)
        if r is None: return f'handler {out["handler"]} is not registered for {m}'
        if not appgen.matches(r[0], segs): return f'handler {out["handler"]} of route {r[0]} ran, but the route does not match {segs}'
        for o in matching:
            if not more_static_ok(r[0], o[0]): return f'handler of {r[0]} ran although the more static route {o[0]} matches'
        want = [hx(pct(s)) for q, s in zip(r[0], segs) if q is None][:2]
        if out['params'] != want: return f'params {out["params"]}, the path denotes {want}'
        if out['status'] != 200: return f'handler ran but status {out["status"]}'
        if (req['m'] == 'HEAD') == out['body']: return 'HEAD must be answered without a body, other methods with one'
    else:
        if out['status'] != 404: return f'no handler ran but status {out["status"]}'
        if matching:
            # the statement: the handler that runs is the one of the route whose pattern matches; 404 is for "no registered route matches".
            # The search never goes back: once a static alternative (a route's or a mount prefix's segment, in the tree of any method: a mount point is a
            # node of every method's tree, C04) has matched a segment, the param alternative at that position is not tried although the static branch
            # leads nowhere.  That class is the recorded finding KF-C01-dead-end; a 404 outside it is a plain violation.
            if greedy_literal(routes + [(p, [], None, []) for p in appgen.mount_prefixes(app)], segs) is not None:
                return f'404 although route {matching[0][0]} matches and the statics-first walk reaches a handler'
            return ('KF-C01-dead-end', f'404 although route {matching[0][0]} matches: a static alternative matched an earlier segment and leads nowhere, the param alternative is not tried')
    return None


def judge(case, out, m):
    v = []
    if 'panic' in out: return [('violation', 'panic: ' + out['panic'][:160])]
    if out.get('build') == 'refused':
        if m is not None and m.get('model', {}).get('build') != 'refused': v.append(('disagree', f'impl refuses the application at start-up ({out.get("why", "")[:100]}), the model builds it'))
        return v
    mm = m.get('model') if m else None
    if mm is not None and mm.get('build') == 'refused':
        return [('disagree', 'the model refuses the application at start-up, impl builds it')]
    for i, (req, o) in enumerate(zip(case['reqs'], out['reqs'])):
        bad = spec_check_one(case['app'], req, o)
        if isinstance(bad, tuple): v.append(('violation', f'req {req["m"]} {unhx(req["p"])!r}: {bad[1]}', bad[0]))
        elif bad: v.append(('violation', f'req {req["m"]} {unhx(req["p"])!r}: {bad}'))
        if 'reqs2' in out:
            o2 = out['reqs2'][i]
            if (o.get('status'), o.get('handler'), o.get('params')) != (o2.get('status'), o2.get('handler'), o2.get('params')):
                v.append(('violation', f'req {req["m"]} {unhx(req["p"])!r}: outcome depends on the registration order: {o} vs {o2}'))
        if mm is not None:
            x = mm['reqs'][i]
            if (x.get('status'), x.get('handler'), x.get('params'), x.get('body')) != (o.get('status'), o.get('handler'), o.get('params'), o.get('body')):
                v.append(('disagree', f'req {req["m"]} {unhx(req["p"])!r}: impl {o} model {x}'))
            if x.get('internal') is False:
                v.append(('disagree', f'req {unhx(req["p"])!r}: the two formulations of the search in the model (searchP, search) differ'))
            if x.get('spec_exact'):
                sp = x.get('spec')
                if (sp or {}).get('handler') != x.get('handler') or ((sp or {}).get('params') if sp else None) != x.get('params'):
                    v.append(('disagree', f'req {unhx(req["p"])!r}: executable model {x.get("handler")} differs from the proved spec greedyChain {sp}'))
    return sorted(v, key=lambda x: len(x) > 2)[:8]          # untagged violations first


def nontrivial(case):
    fr = appgen.flat_routes(case['app'])
    has_mount = any('mount' in it for it in case['app']['items'])
    sib = any(a[0][:i] == b[0][:i] and (a[0][i] is None) != (b[0][i] is None) for a in fr for b in fr for i in range(min(len(a[0]), len(b[0]))))
    return has_mount or sib


def features(case, out):
    f = []
    for o in out.get('reqs', []):
        f.append('hit' if o.get('handler') is not None else 'status_%s' % o.get('status'))
    if out.get('build'): f.append('build_refused')
    return f


def shrink(case, still_fails):
    from .common import shrink_list
    c = shrink_list(case, ['reqs'], still_fails)
    c2 = dict(c); c2.pop('app2', None)
    if still_fails(c2): c = c2
    return shrink_list(c, ['app', 'items'], still_fails)
