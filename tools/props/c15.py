"""C15 — the generated OpenAPI document is valid and describes exactly the application.

impl  : harness C15 — applications assembled at run time from a catalogue of 28 typed handlers (fn items of every IntoHandler shape: no / one / 1-tuple / 2-tuple path params x 0-4 extractors, Query / JSON / URLEncoded / Multipart
        extractors over derived schemas, typed status / JSON / text / Result / Response returns) under plain / JWT / BasicAuth / openapi::Tag fangs at any level,
        nested mounts with param prefixes; the real `__openapi_document_bytes__`; and, for every documented operation, a request built from it (params, query, body of
        the documented media type, documented credentials) through the real router: which handler ran
model : Lean `Ohkami.OpenApi.document` (flatten of the tree, operation assembly per signature, openapi_map_operation through every fang, assign_path_param_name)
spec  : here, independent of both — the document must be well-formed, every schema object structurally valid under JSON Schema 2020-12 (types, keywords' shapes), every
        $ref resolvable, every {param} of a template a required path parameter; paths x methods = the flattened route table with :p -> {p}; per operation the path
        parameters in order with the handler's types, its query parameters, body media type, response statuses, security = the authentication fangs around it, tags;
        every probe must run exactly the handler registered for that route and method
"""
import json, re
from . import appgen

ID = 'C15'
GEN_DEPS = []
RULE = ('application trees: 1-6 routes per application (static / param segments, root route), 1-5 methods per route each with any of the 28 catalogue handlers (every IntoHandler shape) that fits the '
        'number of captured params, 0-3 fangs per application and 0-2 per route drawn from plain / jwt / basic / tag, mounts up to depth 2 with static and param prefixes, in 30 % of mounts one route of the mounted application is registered by the parent too under other methods; '
        'non-trivial = a mount with a param prefix, or an authentication fang, or a handler with extractors')
ASSUMPTIONS = ['param names are distinct along one path (the trees of the generator; one that repeats a name across a mount is in the corpus: known finding KF-C15-duplicate-param-name) and non-empty, and one param position of one route pattern carries one name (OpenAPI treats /u/{id} and /u/{uid} as the same path); route literals hold no "{" "}" (hypothesis `clean` of template_inj)',
               'JWT and BasicAuth around one handler both read the Authorization header, so no request can satisfy both: such operations are documented and compared, but not probed']
SIGS = {0: dict(path=[], query=[], body=None, responses=[200]),
        1: dict(path=['integer'], query=[], body=None, responses=[200]),
        2: dict(path=['string', 'integer'], query=[], body=None, responses=[200]),
        3: dict(path=[], query=[['page', 'integer', False], ['q', 'string', True]], body=None, responses=[200]),
        4: dict(path=[], query=[], body='application/json', responses=[201]),
        5: dict(path=['integer'], query=[], body='application/json', responses=[200, 404, 500]),
        6: dict(path=[], query=[], body='application/x-www-form-urlencoded', responses=[204]),
        7: dict(path=[], query=[], body='multipart/form-data', responses=[200]),
        8: dict(path=['string'], query=[['tag', 'string', True]], body='application/json', responses=[201, 404, 500]),
        9: dict(path=[], query=[], body=None, responses=[]),
        10: dict(path=[], query=[], body='application/json', responses=[], body_optional=True),          # Option<JSON<T>>: a request without the body is served too
        11: dict(path=['integer'], query=[], body=None, responses=[200, 404]),
        12: dict(path=[], query=[['age', 'integer', True], ['limit', 'integer', False], ['name', 'string', True], ['nick', 'string', False], ['zone', 'string', True]], body=None, responses=[200])}
_QA, _QB, _QD, _QE = [['page', 'integer', False], ['q', 'string', True]], [['tag', 'string', True]], [['d', 'string', True]], [['e', 'integer', True], ['f', 'string', False]]
_J, _U, _M = 'application/json', 'application/x-www-form-urlencoded', 'multipart/form-data'
# every remaining IntoHandler shape: (no param | P | (P1,) | (P1, P2)) x 1-4 extractors
SIGS.update({13: dict(path=[], query=_QA, body=_J, responses=[200]),
             14: dict(path=[], query=_QB + _QD, body=_U, responses=[204]),
             15: dict(path=[], query=_QB + _QD + _QE, body=_J, responses=[200]),
             16: dict(path=['integer'], query=_QD + _QE, body=_J, responses=[201]),
             17: dict(path=['string'], query=_QB + _QD + _QE, body=_M, responses=[200]),
             18: dict(path=['integer'], query=_QD, body=None, responses=[200]),
             19: dict(path=['string'], query=_QE, body=_J, responses=[200, 404, 500]),
             20: dict(path=['integer'], query=_QD + _QE, body=_J, responses=[200]),
             21: dict(path=['string'], query=_QB + _QD + _QE, body=_U, responses=[204]),
             22: dict(path=['integer', 'string'], query=[], body=_J, responses=[201]),
             23: dict(path=['string', 'string'], query=_QD, body=_J, responses=[200]),
             24: dict(path=['integer', 'integer'], query=_QD + _QE, body=_J, responses=[200]),
             25: dict(path=['string', 'integer'], query=_QB + _QD + _QE, body=_J, responses=[200, 404, 500]),
             # Option<Query<T>>: the fields of T keep their own required flags (Query never answers None)
             26: dict(path=[], query=_QE, body=None, responses=[200]),
             27: dict(path=['integer'], query=_QD, body=_J, responses=[200])})
SIGS_J = {str(k): v for k, v in SIGS.items()}
KINDS = ['plain', 'jwt', 'basic', 'tag']
AUTH = {'jwt': 'jwtAuth', 'basic': 'basicAuth', 'basic2': 'basicAuth', 'key_header': 'keyHeader', 'key_query': 'keyQuery', 'key_cookie': 'keyCookie'}
# what each scheme must say (the application's fangs look for the credential exactly there)
SCHEMES = {'jwtAuth': {'type': 'http', 'scheme': 'bearer'}, 'basicAuth': {'type': 'http', 'scheme': 'basic'},
           'keyHeader': {'type': 'apiKey', 'in': 'header', 'name': 'X-Key'}, 'keyQuery': {'type': 'apiKey', 'in': 'query', 'name': 'key'}, 'keyCookie': {'type': 'apiKey', 'in': 'cookie', 'name': 'key'}}
PNAMES = ['id', 'p', 'name', 'v', 'k', 'x2', 'user_id', 'n']


def gen_fangs(rng, n_max, auth_rate=0.35):
    out = []
    for _ in range(rng.choice([0, 0, 1, 1, 2, n_max][:2 + 2 * n_max])):
        k = rng.random()
        out.append({'k': 'jwt' if k < auth_rate / 3 else rng.choice(['basic', 'basic', 'basic2']) if k < 2 * auth_rate / 3 else rng.choice(['key_header', 'key_query', 'key_cookie']) if k < auth_rate else 'tag' if k < auth_rate + 0.25 else 'plain', 'id': rng.randrange(1, 5)})
    return out[:n_max]


def gen_app(rng, depth=0, used=(), prefix_params=0):
    used = list(used)
    app = {'fangs': gen_fangs(rng, 3), 'items': []}
    mount_pre = []
    if depth < 2:
        for _ in range(rng.choice([0, 0, 1, 1, 2] if depth == 0 else [0, 1])):
            free = [n for n in PNAMES if n not in used]
            m = '/' if rng.random() < 0.12 else appgen.lit(rng, depth_max=2, allow_root=False, param_rate=0.4, pnames=free[:1] or ['zz'])          # `"/".By(child)`: a child application at the root prefix
            mp = appgen.pat(m)
            names = re.findall(r':([A-Za-z0-9_]+)', m)
            if len(names) != len(set(names)) or any(n in used for n in names): continue
            if m == '/' and (mount_pre or any('mount' in x for x in app['items'])): continue          # only beside no other mount: its routes would be siblings of their prefixes
            if m == '/':          # the child's routes join the parent's own tree: no application-level fangs on it (they would sit on the shared root node), pairs kept distinct by `dedupe`
                child = gen_app(rng, 2, used, prefix_params); child['fangs'] = []          # (depth 2: no mounts of its own, their prefixes would become siblings of the parent's routes)
                app['items'].append({'mount': '/', 'app': child}); break
            if any(appgen.conflict(mp, o) or appgen.conflict(o, mp) for o in mount_pre): continue
            mount_pre.append(mp)
            app['items'].append({'mount': m, 'app': gen_app(rng, depth + 1, used + names, prefix_params + len(names))})
    seen = set()
    for _ in range(rng.choice([1, 2, 3, 6])):
        free = [n for n in PNAMES if n not in used]
        rng.shuffle(free)
        r = appgen.lit(rng, depth_max=3, param_rate=0.35, pnames=free[:1] or ['zz'])
        names = re.findall(r':([A-Za-z0-9_]+)', r)
        if len(names) != len(set(names)):
            # give the second param another free name
            for i, n in enumerate(names[1:], 1): r = r.replace(':' + n, ':' + (free[i] if i < len(free) else 'q%d' % i), 1) if names.count(n) > 1 else r
            names = re.findall(r':([A-Za-z0-9_]+)', r)
            if len(names) != len(set(names)): continue
        rp = appgen.pat(r)
        key = tuple('*' if s is None else s for s in rp)
        if key in seen: continue
        if any(appgen.conflict(mp, rp) for mp in mount_pre): continue
        seen.add(key)
        total = prefix_params + len(names)
        fits = [k for k, s in SIGS.items() if len(s['path']) <= total]
        ms = rng.sample(appgen.METHODS, rng.choice([1, 1, 2, 3, 5]))
        app['items'].append({'route': r, 'methods': {m: rng.choice(fits) for m in ms}, 'local': gen_fangs(rng, 2, auth_rate=0.3) if rng.random() < 0.3 else []})
    # a route of a mounted application that the parent registers too, under other methods (the route table then merges two method maps);
    # in half of these the child keeps its application-level fangs: they sit on the mount node and guard the parent's route as well (a tree outside the side condition of C04,
    # inside the quantifier of C15: "a security requirement iff an authentication fang guards it")
    for it in [it for it in app['items'] if 'mount' in it]:
        routes = [r for r in it['app']['items'] if 'route' in r]
        if not routes or rng.random() >= 0.3: continue
        r = rng.choice(routes)
        free_m = [m for m in appgen.METHODS if m not in r['methods']]
        if not free_m: continue
        full = (it['mount'].rstrip('/') + ('' if r['route'] == '/' else r['route'])) or '/'
        key = tuple('*' if x is None else x for x in appgen.pat(full))
        if key in seen: continue
        seen.add(key)
        if rng.random() < 0.5: it['app']['fangs'] = []          # otherwise the parent's route lies in the scope of the mounted application: its fangs guard it too
        total = prefix_params + len(re.findall(r':([A-Za-z0-9_]+)', full))
        fits = [k for k, sg in SIGS.items() if len(sg['path']) <= total]
        app['items'].append({'route': full, 'methods': {m: rng.choice(fits) for m in rng.sample(free_m, rng.choice([1, 1, 2][:len(free_m)] if len(free_m) < 2 else [1, 1, 2]))},
                             'local': gen_fangs(rng, 2, auth_rate=0.3) if rng.random() < 0.3 else []})
    rng.shuffle(app['items'])
    if depth == 0: dedupe(app)
    return app


def dedupe(app, prefix=(), seen=None, plit=''):
    """route/method pairs stay distinct over the whole tree (a second handler for one pair is refused at start-up), and one param position of one
    route pattern carries one name (ASSUMPTIONS)"""
    seen = {} if seen is None else seen
    keep = []
    for it in app['items']:
        if 'mount' in it:
            dedupe(it['app'], prefix + tuple(appgen.pat(it['mount'])), seen, plit.rstrip('/') + it['mount'])
            keep.append(it)
        else:
            key = tuple('*' if x is None else x for x in list(prefix) + appgen.pat(it['route']))
            names = tuple(re.findall(r':([A-Za-z0-9_]+)', plit.rstrip('/') + it['route']))
            if seen.setdefault(('names', key), names) != names: continue
            it['methods'] = {m: k for m, k in it['methods'].items() if (key, m) not in seen}
            for m in it['methods']: seen[(key, m)] = True
            if it['methods']: keep.append(it)
    app['items'] = keep


def has_route(app): return any('route' in it or has_route(it['app']) for it in app['items'])


def corpus():
    C = lambda app: {'case': {'app': app, 'sigs': SIGS_J}}
    R = lambda route, methods, local=(): {'route': route, 'methods': methods, 'local': list(local)}
    J, B, T, P = {'k': 'jwt', 'id': 0}, {'k': 'basic', 'id': 0}, {'k': 'tag', 'id': 1}, {'k': 'plain', 'id': 1}
    return [C({'fangs': [], 'items': [{'mount': '/:id', 'app': {'fangs': [], 'items': [R('/items/:id', {'GET': 2})]}}]}),          # known finding KF-C15-duplicate-param-name
            C({'fangs': [T], 'items': [R('/', {'GET': 0}), R('/users/:id', {'GET': 1, 'PUT': 5}, [J]),
                                        {'mount': '/api/:v', 'app': {'fangs': [B], 'items': [R('/items/:a/:b', {'GET': 2}), R('/search', {'GET': 3, 'POST': 4}),
                                                                                             R('/x/:k', {'POST': 8, 'PATCH': 6, 'PUT': 7, 'DELETE': 9, 'GET': 11}), R('/opt', {'POST': 10})]}}]}),
            C({'fangs': [], 'items': [{'mount': '/:tenant', 'app': {'fangs': [P, J, T], 'items': [R('/', {'GET': 1}), R('/:id', {'GET': 2, 'POST': 5}),
                                                                                                 {'mount': '/deep/:v', 'app': {'fangs': [T], 'items': [R('/', {'GET': 2, 'DELETE': 0}, [B])]}}]}}]}),
            C({'fangs': [J, B], 'items': [R('/both', {'GET': 0})]}),
            C({'fangs': [T], 'items': [R('/tweets', {'GET': 3}), R('/tweets/:id', {'GET': 1, 'DELETE': 11}, [J]),
                                        {'mount': '/tweets', 'app': {'fangs': [], 'items': [R('/', {'POST': 4}), R('/:id', {'PATCH': 5, 'PUT': 16}, [B])]}}, R('/late/:a/:b', {'GET': 2}),
                                        {'mount': '/late/:a', 'app': {'fangs': [], 'items': [R('/:b', {'POST': 22, 'PUT': 23, 'PATCH': 24, 'DELETE': 25})]}}]}),
            C({'fangs': [], 'items': [R('/s', {'GET': 13, 'POST': 14, 'PUT': 15}), R('/s/:id', {'GET': 18, 'POST': 19, 'PUT': 20, 'PATCH': 21, 'DELETE': 17}), R('/t/:id', {'PUT': 16})]}),
            C({'fangs': [], 'items': [R('/a', {'GET': 0}), R('/a/:id', {'GET': 1}), R('/a/:id/b', {'POST': 4}), R('/ab', {'GET': 3}), R('/a/b', {'GET': 9}), R('/q', {'GET': 12})]})]


def generate(rng, tier):
    n = 400 if tier == 'quick' else 8000
    out = []
    while len(out) < n:
        app = gen_app(rng)
        if has_route(app): out.append({'case': {'app': app, 'sigs': SIGS_J}, 'stream': 'app'})
    return out


# ----------------------------------------------------------------------------- spec

def template(route_prefix, route):
    full = (route_prefix.rstrip('/') + ('' if route == '/' else route)) or '/'
    return re.sub(r':([^/]+)', r'{\1}', full), re.findall(r':([^/]+)', full)


def covering(app, prefix, route_pat):
    """the fangs of the applications mounted below `app` whose composed mount prefix covers the route (segment by segment: equal literals, or params), innermost first.
    A route lies in the scope of every application whose prefix it is under, whoever registered it (C04): the fangs sit on the mount node and guard the whole subtree"""
    out = []
    for it in app['items']:
        if 'mount' in it:
            p = prefix.rstrip('/') + it['mount']
            pp = appgen.pat(p)
            if len(pp) <= len(route_pat) and all((a is None and b is None) or (a is not None and a == b) for a, b in zip(pp, route_pat)):
                out = covering(it['app'], p, route_pat) + list(reversed(it['app']['fangs'])) + out
    return out


def flat(app, prefix='', chain=()):
    """[(template, names, METHOD, handler id, chain innermost first)]"""
    mine = list(reversed(app['fangs'])) + list(chain)
    out = []
    for it in app['items']:
        if 'mount' in it: out += flat(it['app'], prefix.rstrip('/') + it['mount'], mine)
        else:
            t, names = template(prefix, it['route'])
            full = (prefix.rstrip('/') + ('' if it['route'] == '/' else it['route'])) or '/'
            inner = covering(app, prefix, appgen.pat(full))
            for m, k in it['methods'].items(): out.append((t, names, m, k, list(reversed(it.get('local', []))) + inner + mine))
    return out


def expected_op(names, k, chain):
    s = SIGS[k]
    tys = s['path'] + ['string'] * max(0, len(names) - len(s['path']))
    return {'path': [[n, t] for n, t in zip(names, tys)], 'query': sorted(map(tuple, s['query'])), 'body': s['body'], 'body_required': (not s.get('body_optional', False)) if s['body'] else None, 'responses': sorted(s['responses']),
            'security': sorted({AUTH[f['k']] for f in chain if f['k'] in AUTH}),          # one requirement object: every scheme of it must be satisfied (a set)
            'tags': ['t%d' % f['id'] for f in chain if f['k'] == 'tag']}


def read_op(op):
    ps = op.get('parameters', [])
    return {'path': [[p['name'], p['schema'].get('type')] for p in ps if p['in'] == 'path'], 'query': sorted((p['name'], p['schema'].get('type'), p['required']) for p in ps if p['in'] == 'query'),
            'body': (sorted(op['requestBody']['content']) + [None])[0] if 'requestBody' in op else None, 'body_required': op['requestBody'].get('required', False) if 'requestBody' in op else None, 'responses': sorted(int(c) for c in op.get('responses', {})),
            'security': sorted({n for s in op.get('security', []) for n in s}), 'tags': op.get('tags', [])}


TYPES = {'string', 'number', 'integer', 'boolean', 'array', 'object', 'null'}


def schema_errors(s, doc, where):
    """structural validity of a schema object under JSON Schema 2020-12 for the keywords the generator can emit"""
    if not isinstance(s, dict): return [f'{where}: a schema must be an object or boolean, got {json.dumps(s)[:40]}'] if not isinstance(s, bool) else []
    e = []
    if '$ref' in s:
        r = s['$ref']
        if not (isinstance(r, str) and r.startswith('#/components/schemas/') and r[len('#/components/schemas/'):] in doc.get('components', {}).get('schemas', {})): e.append(f'{where}: unresolvable $ref {r!r}')
    t = s.get('type')
    if t is not None and not (t in TYPES or (isinstance(t, list) and all(x in TYPES for x in t))): e.append(f'{where}: type {t!r} is not a JSON Schema type')
    if 'properties' in s:
        if not isinstance(s['properties'], dict): e.append(f'{where}: properties must be an object')
        else:
            for k, v in s['properties'].items(): e += schema_errors(v, doc, f'{where}.{k}')
    if 'required' in s and not (isinstance(s['required'], list) and all(isinstance(x, str) for x in s['required']) and len(set(s['required'])) == len(s['required'])): e.append(f'{where}: required must be a list of distinct strings')
    if 'items' in s: e += schema_errors(s['items'], doc, where + '[]')
    if 'enum' in s and not isinstance(s['enum'], list): e.append(f'{where}: enum must be an array')
    for kw in ('oneOf', 'anyOf', 'allOf'):
        if kw in s:
            if not (isinstance(s[kw], list) and s[kw]): e.append(f'{where}: {kw} must be a non-empty array')
            else:
                for i, x in enumerate(s[kw]): e += schema_errors(x, doc, f'{where}.{kw}[{i}]')
    for kw in ('maxItems', 'minItems', 'maxLength', 'minLength', 'maxProperties', 'minProperties'):
        if kw in s and not (isinstance(s[kw], int) and s[kw] >= 0): e.append(f'{where}: {kw} must be a non-negative integer')
    for kw in ('exclusiveMaximum', 'exclusiveMinimum', 'maximum', 'minimum', 'multipleOf'):
        if kw in s and (isinstance(s[kw], bool) or not isinstance(s[kw], (int, float))): e.append(f'{where}: {kw} must be a number (2020-12), got {json.dumps(s[kw])}')
    if 'format' in s and not isinstance(s['format'], str): e.append(f'{where}: format must be a string')
    return e


def judge(case, out, m):
    v = []
    if 'panic' in out or 'abort' in out or 'hang' in out: return [('violation', 'document generation died: ' + str(out)[:200])]
    if out.get('outcome') != 'ok': return [('violation', 'the document is not well-formed JSON: ' + str(out.get('error'))[:200])]
    doc = out['doc']
    fl = flat(case['app'])
    want_pairs = {(t, meth.lower()): (names, k, chain) for t, names, meth, k, chain in fl}
    got_pairs = {(t, meth): op for t, ops in doc.get('paths', {}).items() for meth, op in ops.items()}
    for p in sorted(set(want_pairs) - set(got_pairs)): v.append(('violation', f'registered but not documented: {p[1].upper()} {p[0]}'))
    for p in sorted(set(got_pairs) - set(want_pairs)): v.append(('violation', f'documented but not registered: {p[1].upper()} {p[0]}'))
    # validity
    for name, s in doc.get('components', {}).get('schemas', {}).items(): v += [('violation', 'invalid schema: ' + e) for e in schema_errors(s, doc, 'components.' + name)]
    for (t, meth), op in got_pairs.items():
        where = f'{meth.upper()} {t}'
        for p in op.get('parameters', []): v += [('violation', 'invalid schema: ' + e) for e in schema_errors(p.get('schema'), doc, where + ' param ' + p.get('name', '?'))]
        for mime, c in op.get('requestBody', {}).get('content', {}).items(): v += [('violation', 'invalid schema: ' + e) for e in schema_errors(c.get('schema', {}), doc, where + ' body')]
        if 'responses' in op and not op['responses']: v.append(('violation', f'{where}: an empty `responses` object (when present it MUST contain at least one response code, OpenAPI 3.1 4.8.16)'))
        for code, r in op.get('responses', {}).items():
            for mime, c in r.get('content', {}).items(): v += [('violation', 'invalid schema: ' + e) for e in schema_errors(c.get('schema', {}), doc, where + ' response ' + code)]
        # a parameter is identified by name and location: the list MUST NOT hold duplicates, and a template names each variable once (OpenAPI 3.1 4.8.10, 4.8.8)
        pkeys = [(p.get('name'), p.get('in')) for p in op.get('parameters', [])]
        tvars = re.findall(r'\{([^}]*)\}', t)
        if len(pkeys) != len(set(pkeys)) or len(tvars) != len(set(tvars)):
            why = f'{where}: duplicated parameters {sorted({k for k in pkeys if pkeys.count(k) > 1})} / template variables {sorted({x for x in tvars if tvars.count(x) > 1})}'
            # the application itself names two params of one route alike (possible across a mount: `/:id` mounted over `/items/:id`): the document just copies the names
            if len(tvars) != len(set(tvars)): v.append(('violation', why, 'KF-C15-duplicate-param-name'))
            else: v.append(('violation', why))
        declared = {p['name'] for p in op.get('parameters', []) if p.get('in') == 'path' and p.get('required') is True}
        for name in re.findall(r'\{([^}]*)\}', t):
            if name not in declared: v.append(('violation', f'{where}: {{{name}}} of the template is not declared as a required path parameter'))
        for s in op.get('security', []):
            for name in s:
                if name not in doc.get('components', {}).get('securitySchemes', {}): v.append(('violation', f'{where}: security scheme {name} is not defined in components'))
                else:
                    sch = doc['components']['securitySchemes'][name]
                    for kk, vv in SCHEMES.get(name, {}).items():
                        if sch.get(kk) != vv: v.append(('violation', f'{where}: security scheme {name} is documented with {kk}: {sch.get(kk)!r}, the fang looks for the credential with {kk}: {vv!r}'))
        if (t, meth) in want_pairs:
            names, k, chain = want_pairs[(t, meth)]
            exp, got = expected_op(names, k, chain), read_op(op)
            for field in ('path', 'query', 'body', 'body_required', 'responses', 'security', 'tags'):
                if exp[field] != got[field]: v.append(('violation', f'{where} (handler h{k}): {field} documented as {got[field]}, the application has {exp[field]}'))
            if len(op.get('security', [])) > 1:
                v.append(('violation', f'{where}: {len(op["security"])} entries in `security` — they are alternatives (any ONE suffices, OpenAPI 3.1 4.8.10), but every authentication fang around the handler must be satisfied: {[f["k"] for f in chain if f["k"] in AUTH]}'))
            if bool(got['security']) != any(f['k'] in AUTH for f in chain): v.append(('violation', f'{where}: security requirement {got["security"]} but authentication fangs around it: {[f["k"] for f in chain]}'))
    # operationId MUST be unique among all operations described in the document (OpenAPI 3.1 4.8.10)
    ids = [op.get('operationId') for t, ops in doc.get('paths', {}).items() for meth, op in ops.items() if isinstance(op, dict) and op.get('operationId') is not None]
    dup = sorted({i for i in ids if ids.count(i) > 1})
    if dup: v.append(('violation', f'operationId not unique among the operations of the document: {dup}'))
    # a request built from a documented operation reaches its handler
    for pr in out.get('probes', []):
        key = (pr['path'], pr['method'])
        if key not in want_pairs: continue
        names, k, chain = want_pairs[key]
        kinds = {'basic' if f['k'] == 'basic2' else f['k'] for f in chain}
        if {'jwt', 'basic'} <= kinds: continue
        if pr['ran'] != k: v.append(('violation', f'a request built from the documented {pr["method"].upper()} {pr["path"]} ({pr["request"]}) ran handler {pr["ran"]} (status {pr["status"]}), the route registers h{k}'))
    # model
    mm = (m or {}).get('model')
    if mm is not None:
        model_ops = {(e['path'], e['method']): e for e in mm['entries']}
        if set(model_ops) != set(got_pairs): v.append(('disagree', f'pairs: impl {sorted(got_pairs)} model {sorted(model_ops)}'))
        for key in set(model_ops) & set(got_pairs):
            e, got = model_ops[key], read_op(got_pairs[key])
            me = {'path': [[p['name'], p['type']] for p in e['parameters'] if p['in'] == 'path'], 'query': sorted((p['name'], p['type'], p['required']) for p in e['parameters'] if p['in'] == 'query'),
                  'body': e['body'], 'responses': sorted(e['responses']), 'security': sorted(set(e['security'])), 'tags': e['tags']}
            got = {k: x for k, x in got.items() if k != 'body_required'}          # (whether the body may be absent is judged by the oracle; the model has the media type)
            if me != got: v.append(('disagree', f'{key}: impl {got} model {me}'))
    return v


def nontrivial(case):
    t = json.dumps(case['app'])
    return '"jwt"' in t or '"basic' in t or re.search(r'"mount": "[^"]*:', t) is not None


def features(case, out):
    fl = flat(case['app'])
    return ['ops_%d' % min(len(fl), 12) if len(fl) < 12 else 'ops_12+', 'depth_%d' % max(t.count('/') for t, *_ in fl)] + sorted({'h%d' % k for _, _, _, k, _ in fl})
