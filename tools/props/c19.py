"""C19 — a mounted directory serves exactly its files, byte-identical, and nothing else (partial).

impl  : harness C19 (a real temporary directory, the real `Route::Dir`, GET requests as raw targets through parser, router and serializer)
model : Lean `Ohkami.Dir.derive` (route derivation, start-up refusals) on top of the router model
spec  : here — the served set read off the file list as the property states it, with an independent extension -> media type table
What the model cannot exhibit: read_dir / canonicalize / symlink behaviour (the walk is an input; two symlink cases are run against the real code only).
"""
from .common import hx, unhx

ID = 'C19'
GEN_DEPS = ['GenMime']
RULE = ('directory trees (1-8 files, nesting <= 3, names over the route alphabet, all 16 supported extensions, empty files, index.html at any level, binary and text contents) x mount routes of depth 0-2 x '
        'omit-extension settings x 30 request paths (each file, each directory, traversal and encoding variants, near-miss names, doubled separators, omitted/unomitted forms); '
        'non-trivial = tree with nesting or index.html or an omit setting; distinct by canonical JSON')
ASSUMPTIONS = ['trees whose names leave the route alphabet, or whose files have no / an unknown extension, are refused at start-up (a lemma of the model, compared with the implementation, not a violation)',
               'the file-system walk is an input of the model']
MIME = {'txt': 'text/plain', 'html': 'text/html', 'css': 'text/css', 'js': 'text/javascript', 'xml': 'text/xml', 'csv': 'text/csv', 'tsv': 'text/tab-separated-values', 'vcard': 'text/vcard',
        'jpeg': 'image/jpeg', 'gif': 'image/gif', 'png': 'image/png', 'svg': 'image/svg+xml', 'woff': 'font/woff', 'woff2': 'font/woff2', 'json': 'application/json', 'pdf': 'application/pdf'}
NAMES = ['a', 'b', 'index', 'main', 'app.min', 'x-y', 'x_y', 'a1', 'data', 'docs', 'search-index', 'myindex', 'index.html', 'notes.txt', 'lib.js', 'page.html', 'conf.json', 'style.css']      # a stem may itself end in an extension of the omit list: one extension is taken off, once      # names that merely end in / start with index.html are ordinary files
DIRS = ['sub', 'deep', 'assets', 'docs', 'v1.2', 'a', 'v1.js', 'site.html', 'x.css']          # a directory may be named like a file with an omitted extension


def tree_gen(rng):
    files, seen = [], set()
    for _ in range(rng.choice([1, 2, 3, 5, 8])):
        d = [rng.choice(DIRS) for _ in range(rng.choice([0, 0, 1, 1, 2, 3]))]
        ext = rng.choice(list(MIME))
        name = 'index.html' if rng.random() < 0.25 else rng.choice(NAMES) + '.' + ext
        p = tuple(d + [name])
        if p in seen or any(q[:len(p)] == p or p[:len(q)] == q for q in seen): continue
        seen.add(p)
        e = name.rsplit('.', 1)[1]
        if MIME[e].startswith('text/') or rng.random() < 0.5:
            content = ''.join(rng.choice('abc <>&\n日本') for _ in range(rng.choice([0, 1, 20, 300]))).encode()
        else:
            content = bytes(rng.randrange(256) for _ in range(rng.choice([0, 1, 20, 300])))
        files.append({'path': [hx(s) for s in p], 'content': content.hex()})
    return files


def expected(case):
    """{request path segments (tuple of bytes) -> (content, mime)} as the property states; None if two files claim one path"""
    mount = [s.encode() for s in case['mount'].strip('/').split('/') if s]
    out = {}
    def put(segs, v):
        k = tuple(mount + segs)
        if k in out: raise KeyError(k)
        out[k] = v
    for f in case['tree']:
        segs = [unhx(s) for s in f['path']]
        name = segs[-1]
        import re
        if b'.' not in name or name.rsplit(b'.', 1)[1].decode('latin1') not in MIME or any(not re.fullmatch(rb'[A-Za-z0-9]([A-Za-z0-9._-]*[A-Za-z0-9])?', s) for s in segs):
            raise KeyError('tree outside the quantifier')          # refused at start-up by the code; not pinned by the property
        ext = name.rsplit(b'.', 1)[1].decode()
        v = (unhx(f['content']), MIME[ext])
        if MIME[ext].startswith('text/'):
            try: v[0].decode('utf-8')
            except UnicodeDecodeError: raise KeyError('non UTF-8 text file')
        if name == b'index.html':
            # the file's own path (with `html` omitted that is `dir/index`: the code serves it at the directory path only — known finding KF-C19-index-stem) and its directory path
            put(segs if 'html' not in case['omit'] else segs[:-1] + [b'index'], v)
            put(segs[:-1], v)
            continue
        if segs:
            for e in case['omit']:
                if segs[-1].endswith(b'.' + e.encode()):
                    segs = segs[:-1] + [segs[-1][:-(len(e) + 1)]]
                    break
        put(segs, v)
    return out


def reqs_gen(rng, case):
    try: exp = expected(case)
    except KeyError: exp = {}
    paths = []
    keys = list(exp) or [(b'x',)]
    mount = case['mount'].rstrip('/').encode()
    for _ in range(30):
        k = rng.choice(keys) or (b'index.html',)
        base = b'/' + b'/'.join(k)
        r = rng.random()
        if r < 0.3: p = base
        elif r < 0.36: p = base + b'/'
        elif r < 0.38: p = base + rng.choice([b'//', b'///', b'/./', b'//index.html'])          # doubled separators at the end
        elif r < 0.45: p = base + rng.choice([b'.html', b'.txt', b'x', b'%00', b'.'])
        elif r < 0.52: p = b'/'.join(base.split(b'/')[:-1]) or b'/'
        elif r < 0.60: p = rng.choice([base.replace(b'/', b'//', 1), b'//'.join(base.rsplit(b'/', 1)), base.replace(b'/', b'//')]) if rng.random() < 0.5 else base.replace(b'/', b'%2F', rng.choice([1, 2]))
        elif r < 0.68: p = mount + b'/../' + rng.choice([b'outside/secret.txt', b'etc/passwd', b'pub/' + b'/'.join(k[-1:])])
        elif r < 0.75: p = base + b'/..' if rng.random() < 0.5 else b'/'.join(base.split(b'/')[:-1]) + b'/./' + k[-1]
        elif r < 0.82: p = base.replace(b'a', b'%61', 1)
        elif r < 0.88: p = base[:-1] if len(base) > 1 else base
        elif r < 0.94: p = mount + b'/' + rng.choice([b'index.html', b'index', b'secret.txt', b'outside/secret.txt', b'.hidden'])
        else: p = base.upper()
        paths.append((p if p.startswith(b'/') else b'/' + p).hex())
    return paths


def mk(rng):
    case = {'tree': tree_gen(rng), 'mount': rng.choice(['/', '/static', '/s', '/assets/v1', '/a']), 'omit': rng.choice([[], [], ['html'], ['html', 'txt'], ['txt', 'html'], ['js'], ['css', 'html', 'json'], ['json', 'js', 'html', 'txt']])}
    if case['omit'] and rng.random() < 0.4: case['omit_dots'] = True          # the extensions handed over as ".html" (the builder trims the leading dot)
    case['reqs'] = reqs_gen(rng, case)
    return {'case': case}


def corpus():
    f = lambda p, c: {'path': [hx(s) for s in p], 'content': hx(c)}
    base = [f(['a.html'], 'A'), f(['sub', 'index.html'], 'SUBINDEX'), f(['sub', 'deep', 'x.y.css'], 'CSS')]
    reqs = [hx(p) for p in ['/s/a.html', '/s/a', '/s/sub', '/s/sub/', '/s/sub/index.html', '/s/sub/deep/x.y.css', '/s/zzz', '/s/zzz.txt', '/s/.hidden.js', '/s/secret.txt', '/s/outside/secret.txt',
                            '/s/../outside/secret.txt', '/s/sub/../a.html', '/s//a.html', '/s/sub%2Findex.html', '/s/%61.html', '/s', '/s/sub/deep', '/s/a.htm', '/s/A.html']]
    return [{'case': {'tree': base, 'mount': '/s', 'omit': [], 'reqs': reqs}},
            {'case': {'tree': base, 'mount': '/s', 'omit': ['html'], 'reqs': reqs}},
            {'case': {'tree': base + [f([':p.txt'], 'PARAMFILE')], 'mount': '/s', 'omit': [], 'reqs': reqs}},                       # was: a param route answering every sibling path
            {'case': {'tree': base, 'mount': '/s', 'omit': [], 'reqs': reqs, 'links': [['link.txt', 'outside/secret.txt']]}},      # was: an outside file served
            {'case': {'tree': base, 'mount': '/s', 'omit': [], 'reqs': reqs + [hx('/s/shared/secret.txt'), hx('/s/shared')], 'links': [['shared', 'outside']]}},          # a link to a directory outside
            # a link into a SIBLING of the served directory whose name begins with the directory's name (pub2, pub-old, pub.bak, pubs): outside it all the same
            {'case': {'tree': base, 'mount': '/s', 'omit': [], 'reqs': reqs + [hx(p) for p in ['/s/link.txt', '/s/2/secret.txt', '/s/pub2/secret.txt', '/s/secret.txt', '/2/secret.txt']], 'links': [['link.txt', 'pub2/secret.txt']]}},
            {'case': {'tree': base, 'mount': '/s', 'omit': [], 'reqs': reqs + [hx(p) for p in ['/s/old.txt', '/s/-old/secret.txt', '/s/s/secret.txt', '/s/.bak/secret.txt', '/s/b.txt', '/s/c.txt']],
                      'links': [['old.txt', 'pub-old/secret.txt'], ['b.txt', 'pub.bak/secret.txt'], ['c.txt', 'pubs/secret.txt']]}},
            {'case': {'tree': base, 'mount': '/s', 'omit': [], 'reqs': reqs + [hx('/s/sub/shared/secret.txt'), hx('/s/sub/l.txt')], 'links': [['sub/shared', 'outside'], ['sub/l.txt', 'outside/secret.txt']]}},
            {'case': {'tree': [f(['docs', 'search-index.html'], 'SI'), f(['docs', 'a.txt'], 'T'), f(['myindex.html'], 'MI')], 'mount': '/site', 'omit': [], 'reqs': [hx(p) for p in ['/site/docs', '/site/docs/', '/site/docs/search-index.html', '/site', '/site/myindex.html', '/site/docs/index.html']]}},
            {'case': {'tree': [f(['noext'], 'x')], 'mount': '/s', 'omit': [], 'reqs': reqs[:3]}},
            # one extension is taken off, once: notes.txt.html under omit [html, txt] answers at notes.txt, not at notes
            {'case': {'tree': [f(['notes.txt.html'], 'N'), f(['lib.js.txt'], 'L')], 'mount': '/s', 'omit': ['html', 'txt'], 'reqs': [hx(p) for p in ['/s/notes.txt', '/s/notes', '/s/notes.txt.html', '/s/lib.js', '/s/lib', '/s/lib.js.txt']]}},
            {'case': {'tree': [f(['docs.html', 'index.html'], 'D')], 'mount': '/', 'omit': ['html'], 'reqs': [hx('/docs'), hx('/docs.html'), hx('/docs.html/index.html'), hx('/')]}},
            {'case': {'tree': [f(['index.html'], 'ROOT'), f(['e.txt'], '')], 'mount': '/', 'omit': [], 'reqs': [hx('/'), hx('/index.html'), hx('/e.txt'), hx('//')]}}]


def generate(rng, tier):
    n = 250 if tier == 'quick' else 6000
    return [mk(rng) for _ in range(n)]


def parse(wire):
    head, _, body = wire.partition(b'\r\n\r\n')
    lines = head.split(b'\r\n')
    hs = dict(l.split(b': ', 1) for l in lines[1:] if b': ' in l)
    return int(lines[0].split(b' ')[1]), hs, body


def judge(case, out, m):
    v = []
    if 'panic' in out: return [('violation', 'panic: ' + out['panic'][:160])]
    mm = m.get('model') if m else None
    if case.get('links'):
        # symlink to a file outside the directory: the start-up must refuse it (or at least never serve the outside content); not in the model
        if out.get('startup') != 'refused':
            for r, o in zip(case['reqs'], out.get('reqs', [])):
                if 'wire' in o and b'SECRET' in unhx(o['wire']): v.append(('violation', f'GET {unhx(r)!r} serves a file outside the directory'))
        return v
    try: exp = expected(case)
    except KeyError: exp = None
    if out.get('startup') == 'refused':
        if mm is not None and mm.get('startup') != 'refused': v.append(('disagree', f'impl refuses the tree at start-up ({out.get("why", "")[:80]}), the model serves it'))
        if exp is not None and mm is not None and mm.get('startup') != 'refused': v.append(('violation', f'a servable tree is refused at start-up: {out.get("why", "")[:100]}'))
        return v
    if mm is not None and mm.get('startup') == 'refused': return [('disagree', 'the model refuses the tree at start-up, impl serves it')]
    for i, (r, o) in enumerate(zip(case['reqs'], out['reqs'])):
        p = unhx(r)
        if 'panic' in o: v.append(('violation', f'GET {p!r}: panic {o["panic"][:100]}')); continue
        if 'refused' in o: continue
        status, hs, body = parse(unhx(o['wire']))
        norm = p[:-1] if p.endswith(b'/') else p
        key = tuple(norm[1:].split(b'/')) if norm else ()
        if exp is not None:
            if key in exp:
                content, mime = exp[key]
                if status != 200 and 'html' in case['omit'] and key and key[-1] == b'index' and key[:-1] in exp and exp[key[:-1]] == exp[key]:
                    v.append(('violation', f'GET {p!r}: status {status}: with html omitted an index.html answers at its directory path only, not at .../index', 'KF-C19-index-stem'))
                elif status != 200: v.append(('violation', f'GET {p!r}: status {status}, the file exists'))
                elif body != content: v.append(('violation', f'GET {p!r}: body differs from the file'))
                elif hs.get(b'Content-Length') != str(len(content)).encode() and hs.get(b'Transfer-Encoding') != b'chunked':
                    # what a client receives is what the message's framing delimits, not what happens to follow on the connection
                    v.append(('violation', f'GET {p!r}: Content-Length {hs.get(b"Content-Length")!r} but the file has {len(content)} bytes (a client reads {hs.get(b"Content-Length", b"?").decode()} of them)'))
                elif not hs.get(b'Content-Type', b'').decode().startswith(mime): v.append(('violation', f'GET {p!r}: Content-Type {hs.get(b"Content-Type")!r}, extension says {mime}'))
            elif status != 404: v.append(('violation', f'GET {p!r}: status {status} with {len(body)} body bytes, but no file is at this path'))
        if mm is not None:
            x = mm['reqs'][i]
            ct = hs.get(b'Content-Type')
            if x['status'] != status or (status == 200 and (unhx(x['body']) != body or (x['ctype'] and unhx(x['ctype']) != ct))):
                v.append(('disagree', f'GET {p!r}: impl {status} {ct} model {x["status"]} {x.get("ctype")}'))
    return v[:6]


def nontrivial(case):
    return any(len(f['path']) > 1 for f in case['tree']) or bool(case['omit']) or any(f['path'][-1] == hx('index.html') for f in case['tree'])


def features(case, out):
    if out.get('startup'): return ['startup_refused']
    f = []
    for o in out.get('reqs', []):
        if 'wire' in o: f.append('status_%d' % parse(unhx(o['wire']))[0])
    return f
