"""C17 — server-sent event streams deliver every message intact and end properly.

impl  : harness C17 (a DataStream handler whose producer follows the scripted schedule; real router, `complete`, `send` through hooks H2)
model : Lean `Ohkami.Sse.drain` (QueueStream poll machine) + `body` (data: framing, chunk framing)
spec  : here — an RFC 9112 de-chunker and the WHATWG event-stream parser, written from the standards
"""
from .common import hx, unhx

ID = 'C17'
GEN_DEPS = ['GenSession']
RULE = ('bursts of up to 1000 messages in one poll (4 % of the cases); every public way to answer with an event stream (DataStream::new over String and over &str, DataStream::from(stream), Response::with_stream(stream)) x producer schedules (0-12 messages over 1-8 polls: bursts before a yield, Pending polls without pushes, completion with a non-empty queue) x messages from a pool of awkward texts '
        '(empty, leading space, LF/CRLF/CR inside and at the end, blank lines, data:/id:/event:/retry: look-alikes, comments, non-ASCII, long) ; non-trivial = at least 2 messages or a message '
        'with a line break or a field look-alike; distinct by canonical JSON')
ASSUMPTIONS = ['one poll of the producer = one step of the schedule (the producer yields to the executor exactly once between steps)',
               'the schedule ends with a completing step; a producer that never completes is not in the quantifier']
POOL = ['a', 'hello world', '', ' lead', '  two', 'x\ny', 'x\r\ny', 'x\ry', 'end\n', 'end\r', 'end\r\n', '\n', '\r', '\r\n', '\n\n', 'data: inj', 'id: 7', ':c', 'event: e\ny', 'ü日本', 'a\n\nb', 'retry: 1',
        'data:x', 'a\r\rb', 'a\n\rb', 'x' * 300, 'y' * 5000, ':', 'data', '0', '﻿', 'a: b: c'] + \
       ['z' * (n - 8) for n in (15, 16, 17, 255, 256, 257, 511, 512, 4095, 4096, 0xff0, 0xfff, 0xff00, 0xffff, 0x10000)]          # every digit pattern of the chunk-size line (one line: 'data: ' + text + LF LF)


def sched_gen(rng):
    steps = []
    for _ in range(rng.choice([1, 1, 2, 3, 5, 8])):
        steps.append({'pushes': [hx(rng.choice(POOL)) for _ in range(rng.choice([0, 0, 1, 1, 2, 4]))], 'ready': False})
    if rng.random() < 0.04:          # a long burst before a yield or before completion (hundreds of messages in one poll)
        steps[rng.randrange(len(steps))]['pushes'] = [hx(rng.choice(['x', '', 'tick %d' % i, 'a\nb'])) for i in range(rng.choice([127, 128, 129, 300, 1000]))]
    steps[-1]['ready'] = True
    return steps


def corpus():
    one = lambda m: {'case': {'sched': [{'pushes': [hx(m)], 'ready': True}]}}
    return [one(m) for m in POOL] + [
        {'case': {'sched': [{'pushes': [], 'ready': True}]}},
        {'case': {'sched': [{'pushes': [hx('a'), hx('b'), hx('c')], 'ready': True}]}},                       # completion with a non-empty queue
        {'case': {'sched': [{'pushes': [], 'ready': False}, {'pushes': [], 'ready': False}, {'pushes': [hx('late')], 'ready': True}]}},
        {'case': {'sched': [{'pushes': [hx('x\ry')], 'ready': True}]}},                                       # was: text after a lone CR parsed as a field
        {'case': {'timed': True}},                                                                              # was: a stream that outlives the Keep-Alive timeout is cut, no terminating chunk
    ]


def generate(rng, tier):
    n = 2000 if tier == 'quick' else 20000
    # every public way to answer with an event stream: DataStream::new (String and &'static str), DataStream::from(stream), Response::with_stream(stream)
    return [{'case': {'sched': sched_gen(rng), 'entry': rng.choice(['new', 'new', 'from', 'with_stream', 'str'])}} for _ in range(n)]


def dechunk(b):
    out, i = b'', 0
    while True:
        j = b.index(b'\r\n', i)
        size = b[i:j]
        if not size or any(c not in b'0123456789abcdefABCDEF' for c in size): raise ValueError('chunk size ' + repr(size))
        n = int(size, 16); i = j + 2
        if n == 0:
            if b[i:i + 2] != b'\r\n' or i + 2 != len(b): raise ValueError('bytes after the last chunk: ' + repr(b[i:i + 20]))
            return out
        out += b[i:i + n]
        if len(b) < i + n + 2 or b[i + n:i + n + 2] != b'\r\n': raise ValueError('chunk not followed by CRLF')
        i += n + 2


def parse_sse(text):            # WHATWG HTML 9.2.6: lines end with CRLF, LF or CR
    lines, cur, i = [], '', 0
    while i < len(text):
        c = text[i]
        if c == '\r':
            lines.append(cur); cur = ''
            if i + 1 < len(text) and text[i + 1] == '\n': i += 1
        elif c == '\n': lines.append(cur); cur = ''
        else: cur += c
        i += 1
    events, data, other, have = [], [], [], False
    for l in lines:
        if l == '':
            if have: events.append('\n'.join(data))
            data, have = [], False
        elif l.startswith(':'): pass
        else:
            f, _, v = l.partition(':')
            if v.startswith(' '): v = v[1:]
            if f == 'data': data.append(v); have = True
            else: other.append(f)
    return events, other, cur


def norm(m): return m.replace('\r\n', '\n').replace('\r', '\n')


def spec_check(case, out):
    if 'panic' in out: return 'panic: ' + out['panic'][:120]
    if case.get('timed'):
        # "at any pace", in real time: the real session loop over loopback TCP with OHKAMI_KEEPALIVE_TIMEOUT=2 and 1.5 s between the three messages
        st = (out.get('timed') or {}).get('stream')
        if st is None: return f'the timed scenario did not run: {str(out)[:120]}'
        return spec_check({'sched': [{'pushes': [hx('a'), hx('b'), hx('c')], 'ready': True}]}, {'wire': st['all']})
    if 'wire' not in out: return f'the response was never finished (the stream stalls): {str(out)[:80]}'
    wire = unhx(out['wire'])
    head, sep, body = wire.partition(b'\r\n\r\n')
    if not sep: return 'no header block'
    hl = head.lower()
    if b'transfer-encoding: chunked' not in hl: return 'no Transfer-Encoding: chunked'
    if b'content-length' in hl: return 'Content-Length on a chunked response'
    if b'content-type: text/event-stream' not in hl: return 'Content-Type is not text/event-stream'
    try: content = dechunk(body)
    except ValueError as e: return f'body is not valid chunked coding ending in the zero chunk: {e}'
    try: text = content.decode('utf-8')
    except UnicodeDecodeError: return 'event stream is not UTF-8'
    if text.startswith('﻿') and False: pass
    events, other, tail = parse_sse(text)
    msgs = [unhx(p).decode() for s in case['sched'] for p in s['pushes']]
    if other: return f'message content produced other fields: {other[:3]}'
    if tail: return f'unterminated line at the end of the stream: {tail!r}'
    want = [norm(m) for m in msgs]
    if events != want: return f'client decodes {events[:6]!r}, the handler sent {want[:6]!r}'
    return None


def judge(case, out, m):
    v = []
    bad = spec_check(case, out)
    if bad: v.append(('violation', bad))
    if m is not None and 'wire' in out and not case.get('timed'):
        body = unhx(out['wire']).partition(b'\r\n\r\n')[2].hex()
        if m.get('model', {}).get('body') != body: v.append(('disagree', f'body: impl {body[:160]} model {str(m.get("model", {}).get("body"))[:160]}'))
    return v


def nontrivial(case):
    if case.get('timed'): return True
    msgs = [unhx(p) for s in case['sched'] for p in s['pushes']]
    return len(msgs) >= 2 or any(b'\n' in x or b'\r' in x or b':' in x for x in msgs)


def features(case, out):
    if case.get('timed'): return ['timed']
    n = sum(len(s['pushes']) for s in case['sched'])
    return ['msgs_%s' % ('0' if n == 0 else '1' if n == 1 else '2-4' if n <= 4 else '5+'), 'polls_%d' % len(case['sched']),
            'nonempty_queue_at_completion' if len(case['sched'][-1]['pushes']) > 1 else 'other']
