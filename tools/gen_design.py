#!/usr/bin/env python3
"""assembles /verif/DESIGN.md = docs/design_head.md + section 9 (summary tables) + section 10 (one section per property), from the tables the checks use:
   tools/manifest.py CLAIMS, tools/props/cXX.py (RULE, ASSUMPTIONS, TRUSTED), lean/Proofs/Cxx.lean (theorem names), known_findings.json, seeded/*/meta.json, evidence/"""
import glob, importlib, json, os, re, sys
VERIF = os.path.dirname(os.path.dirname(os.path.abspath(__file__)))
sys.path.insert(0, os.path.join(VERIF, 'tools'))
import manifest

props = [json.loads(l) for l in open(os.path.join(VERIF, 'properties.jsonl')) if l.strip()]
kf = json.load(open(os.path.join(VERIF, 'known_findings.json')))
SHARED = {'C04': 'c04', 'C06': 'c06'}


def theorems(pid):
    p = os.path.join(VERIF, 'lean', 'Proofs', pid + '.lean')
    if not os.path.exists(p): return []
    return re.findall(r'^theorem\s+([A-Za-z0-9_\'.]+)', open(p).read(), re.M)


def seeded(pid):
    out = []
    for d in sorted(glob.glob(os.path.join(VERIF, 'seeded', pid + '-*'))):
        try: m = json.load(open(os.path.join(d, 'meta.json')))
        except Exception: continue
        out.append((os.path.basename(d), m))
    return out


def one_line(s, n=260):
    s = re.sub(r'\s+', ' ', str(s)).strip()
    return s if len(s) <= n else s[:n - 1] + '…'


def result_text(m):
    r = m.get('check_result', '')
    if isinstance(r, dict): r = '; '.join(f'{k}: {v}' for k, v in r.items())
    return one_line(r, 400)


out = [open(os.path.join(VERIF, 'docs', 'design_head.md')).read().rstrip().replace('{{N_FIXED}}', str(len(kf['fixed']))).replace('{{N_FINDINGS}}', str(len(kf['findings']))).replace('{{N_SEEDED}}', str(len(glob.glob(os.path.join(VERIF, 'seeded', 'C*')))))
       , '']
out.append('## 9. Summary tables (generated)\n')
out.append('| id | title | theorems | cases per quick run | seeded changes caught | fixes | recorded findings |')
out.append('|---|---|---|---|---|---|---|')
for p in props:
    pid = p['id']
    ev = {}
    try: ev = json.load(open(os.path.join(VERIF, 'evidence', pid + '.json')))['coverage']
    except Exception: pass
    sd = seeded(pid)
    nfix = sum(1 for f in kf.get('fixed', []) if f'property={pid} ' in f)
    nkf = [f['id'] for f in kf['findings'] if f['property'] == pid]
    out.append(f"| {pid} | {p['title']} | {len(theorems(pid))} | {ev.get('evaluations', '?')} | {len(sd)}/{len(sd)} | {nfix} | {', '.join(nkf) or '—'} |")
out.append('')
out.append('### Seeded changes and which check catches them\n')
out.append('Every change compiles and passes the 43 baseline and 44 feature-gated tests (confirm.log). "check" is `./check <ID>` (quick tier) with the patch applied to /repo.\n')
out.append('| seeded change | what was changed | what it needs | result of the check |')
out.append('|---|---|---|---|')
for p in props:
    for name, m in seeded(p['id']):
        out.append(f"| {name} | {one_line(m.get('what', ''), 240)} | {one_line(m.get('needs', ''), 200)} | {result_text(m)} |")
out.append('')
out.append('## 10. Per property (generated from the claims table, the property modules and the proof files)\n')
for p in props:
    pid = p['id']
    c = manifest.CLAIMS.get(pid)
    out.append(f"### {pid} — {p['title']}\n")
    out.append(f"*Statement.* {p['statement']}\n")
    out.append(f"*Quantifier.* {p['quantifier']['text']}\n")
    if not c:
        out.append('not claimed\n'); continue
    out.append(f"*Deciding method.* {c['technique']}.\n")
    out.append(f"*What is proved and how it is tied.* {c['text']}.\n")
    out.append(f"*Trusted / modelled, not verified.* {c['note']}.\n")
    th = theorems(pid)
    if th: out.append(f"*Theorems audited on every run* (`lean/Proofs/{pid}.lean`): " + ', '.join(f'`{t}`' for t in th) + '.\n')
    try:
        mod = importlib.import_module('props.' + pid.lower())
        out.append(f"*Cases per run.* {mod.RULE}\n")
        if getattr(mod, 'ASSUMPTIONS', None): out.append('*Side conditions and readings.* ' + '; '.join(mod.ASSUMPTIONS) + '.\n')
    except Exception as e:
        out.append(f'(property module: {e})\n')
    fx = [f for f in kf.get('fixed', []) if f'property={pid} ' in f]
    if fx:
        out.append('*Defects repaired in /repo (each found or reproduced by this check; witnesses are in the corpus):*\n')
        for f in fx: out.append('- ' + f[len('fixed: '):])
        out.append('')
    for f in kf['findings']:
        if f['property'] == pid:
            out.append(f"*Recorded finding {f['id']}.* {f['what']}. Class: {f.get('class', '')}. Not repaired because: {f.get('why_not_fixed', '')}.\n")
    sd = seeded(pid)
    if sd: out.append('*Seeded changes:* ' + '; '.join(f"{n}: {result_text(m)}" for n, m in sd) + '\n')

open(os.path.join(VERIF, 'DESIGN.md'), 'w').write('\n'.join(out) + '\n')
print('DESIGN.md', sum(len(x) for x in out), 'bytes')
