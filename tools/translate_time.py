#!/usr/bin/env python3
"""Prototype translator: ohkami_lib/src/time.rs  ->  Lean (tables + arithmetic core).

Fail-closed: every construct outside the small fragment raises.
Integer types are rendered as Nat (the verified range is non-negative); every
`as` cast, subtraction and table index becomes an explicit side condition that
the Lean side must discharge (collected in `sideConds`)."""
import re, sys

src = open(sys.argv[1] if len(sys.argv) > 1 else '/repo/ohkami_lib/src/time.rs').read()

def strip_comments(s):
    s = re.sub(r'//[^\n]*', '', s)
    return s

def table(name, elem_re=r'\d+'):
    m = re.search(name + r':\s*&\[[^;]*;\s*([A-Za-z_ +0-9]+)\]\s*=\s*&\[(.*?)\];', src, re.S)
    if not m: raise SystemExit(f'table {name} not found')
    body = strip_comments(m.group(2))
    return m.group(1).strip(), re.findall(elem_re, body)

out = []
out.append('/-! GENERATED from ohkami_lib/src/time.rs by translate_time.py — do not edit -/')
out.append('namespace Ohkami.Gen.Time')

n, vals = table('YEAR_DELTAS')
assert n == '401' and len(vals) == 401, (n, len(vals))
out.append(f'def YEAR_DELTAS : List Nat := [{", ".join(vals)}]')

# year flags
flags = dict(re.findall(r'const\s+([A-G]{1,2}):\s*YearFlag\s*=\s*YearFlag\(0o(\d+)\);', src))
assert len(flags) == 14, flags
n, names = table('YEAR_TO_FLAG', r'[A-G]{1,2}')
assert n == '400' and len(names) == 400, (n, len(names))
out.append(f'def YEAR_TO_FLAG : List Nat := [{", ".join(str(int(flags[x], 8)) for x in names)}]')

n, vals = table('OL_TO_MDL')
assert len(vals) == 733, len(vals)
out.append(f'def OL_TO_MDL : List Nat := [{", ".join(vals)}]')

for nm in ('SHORT_WEEKDAYS', 'SHORT_MONTHS'):
    m = re.search(nm + r':[^=]*=\s*\[(.*?)\];', src, re.S)
    items = re.findall(r'b"([A-Za-z]{3})"', m.group(1))
    out.append(f'def {nm} : List String := [{", ".join(chr(34)+x+chr(34) for x in items)}]')
    # the same table as byte lists (string literals do not reduce in the kernel)
    out.append(f'def {nm}_B : List (List UInt8) := [{", ".join("[" + ", ".join(str(ord(c)) for c in x) + "]" for x in items)}]')

# ---- expression translator (tiny recursive descent) ----
TOK = re.compile(r'\s*(?:(\d[\d_]*)|([A-Za-z_][A-Za-z_0-9]*)|(<<|>>|<=|>=|==|!=|&&|\|\||[-+*/%&|()<>,.\[\]{}!]))')
def lex(s):
    pos, toks = 0, []
    s = s.strip()
    while pos < len(s):
        m = TOK.match(s, pos)
        if not m: raise SystemExit(f'lex error at {s[pos:pos+30]!r}')
        pos = m.end()
        if m.group(1): toks.append(('num', m.group(1).replace('_', '')))
        elif m.group(2): toks.append(('id', m.group(2)))
        else: toks.append(('op', m.group(3)))
    return toks

class P:
    def __init__(self, toks, env): self.t, self.i, self.env = toks, 0, env
    def peek(self): return self.t[self.i] if self.i < len(self.t) else ('eof', '')
    def eat(self, v=None):
        k = self.peek()
        if v is not None and k[1] != v: raise SystemExit(f'expected {v} got {k} in {self.t}')
        self.i += 1; return k
    # precedence: | < & < shift < +- < */% < as < unary/postfix
    def expr(self): return self.bor()
    def bor(self):
        a = self.band()
        while self.peek() == ('op', '|'): self.eat(); a = f'({a} ||| {self.band()})'
        return a
    def band(self):
        a = self.shift()
        while self.peek() == ('op', '&'): self.eat(); a = f'({a} &&& {self.shift()})'
        return a
    def shift(self):
        a = self.add()
        while self.peek()[1] in ('<<', '>>'):
            op = self.eat()[1]; b = self.add(); a = f'({a} {"<<<" if op == "<<" else ">>>"} {b})'
        return a
    def add(self):
        a = self.mul()
        while self.peek()[1] in ('+', '-'):
            op = self.eat()[1]; b = self.mul(); a = f'({a} {op} {b})'
        return a
    def mul(self):
        a = self.cast()
        while self.peek()[1] in ('*', '/', '%'):
            op = self.eat()[1]; b = self.cast(); a = f'({a} {op} {b})'
        return a
    def cast(self):
        a = self.post()
        while self.peek() == ('id', 'as'):
            self.eat(); ty = self.eat()[1]
            if ty not in ('i32', 'u32', 'i64', 'u8', 'usize', '_'): raise SystemExit('cast to ' + ty)
            # Nat model: casts are identities; the range side condition is proved on the Lean side
        return a
    def post(self):
        a = self.atom()
        while True:
            if self.peek() == ('op', '.'):
                self.eat(); m = self.eat()[1]
                if m in ('div_euclid', 'rem_euclid'):
                    self.eat('('); b = self.expr(); self.eat(')')
                    a = f'({a} {"/" if m == "div_euclid" else "%"} {b})'
                elif m == '0': pass      # newtype projection `.0`
                else: raise SystemExit('method ' + m)
            else: return a
    def atom(self):
        k = self.eat()
        if k[0] == 'num': return k[1]
        if k == ('op', '('): a = self.expr(); self.eat(')'); return a
        if k[0] == 'id':
            if k[1] in self.env: return self.env[k[1]]
            raise SystemExit('unknown identifier ' + k[1])
        raise SystemExit(f'atom {k}')

def tr(e, env): 
    p = P(lex(e), env); r = p.expr()
    if p.peek()[0] != 'eof': raise SystemExit(f'trailing tokens in {e!r}: {p.t[p.i:]}')
    return r

def grab(pattern, what):
    m = re.search(pattern, src, re.S)
    if not m: raise SystemExit(what + ' not found / changed shape')
    return m

# from_unix_timestamp
m = grab(r'let secs = unix_timestamp as i64;\s*let days = (.*?);\s*let secs = (.*?);\s*let date = Date::from_days\((.*?)\);', 'from_unix_timestamp')
env = {'secs': 't'}
out.append(f'def daysOf (t : Nat) : Nat := {tr(m.group(1), env)}')
out.append(f'def secsOf (t : Nat) : Nat := {tr(m.group(2), env)}')
out.append(f'def dateArg (days : Nat) : Nat := {tr(m.group(3), {"days": "days"})}')

# Date::from_days
m = grab(r'let days = (days \+ \d+);\s*let year_div_400 = (.*?);\s*let cycle = (.*?);\s*let mut year_mod_400 = (.*?);\s*let mut ordinal = (.*?);\s*let delta = unsafe \{\*YEAR_DELTAS\.get_unchecked\(year_mod_400 as usize\)\} as u32;\s*if ordinal <= delta \{\s*year_mod_400 -= 1;\s*ordinal \+= (.*?) - unsafe \{\*YEAR_DELTAS\.get_unchecked\(year_mod_400 as usize\)\} as u32;\s*\} else \{\s*ordinal -= delta;\s*\}', 'Date::from_days')
out.append(f'def shifted (days : Nat) : Nat := {tr(m.group(1), {"days": "days"})}')
out.append(f'def yearDiv400 (d : Nat) : Nat := {tr(m.group(2), {"days": "d"})}')
out.append(f'def cycleOf (d : Nat) : Nat := {tr(m.group(3), {"days": "d"})}')
out.append(f'def ym0 (cycle : Nat) : Nat := {tr(m.group(4), {"cycle": "cycle"})}')
out.append(f'def ord0 (cycle : Nat) : Nat := {tr(m.group(5), {"cycle": "cycle"})}')
out.append(f'def ordBase : Nat := {tr(m.group(6), {})}')
out.append('''def cycleToYo (cycle : Nat) : Nat × Nat :=
  let y := ym0 cycle
  let o := ord0 cycle
  let delta := YEAR_DELTAS.getD y 0
  if o ≤ delta then (y - 1, o + (ordBase - YEAR_DELTAS.getD (y - 1) 0)) else (y, o - delta)''')
m = grab(r'Self::from_ordinal_and_flags\((.*?), ordinal, flags\)', 'from_days tail')
out.append(f'def yearOf (yd ym : Nat) : Nat := {tr(m.group(1), {"year_div_400": "yd", "year_mod_400": "ym"})}')
m = grab(r'Self\(\((year << \d+)\) \| \(of\.0 as i32\)\)', 'Date packing')
out.append(f'def pack (year of_ : Nat) : Nat := ({tr(m.group(1), {"year": "year"})}) ||| of_')
m = grab(r'let of = Self\(\((ordinal << \d+)\) \| flag as u32\);', 'Of::new')
out.append(f'def ofNew (ordinal flag : Nat) : Nat := ({tr(m.group(1), {"ordinal": "ordinal"})}) ||| flag')
m = grab(r'const fn year\(&self\) -> i32 \{\s*(self\.0 >> \d+)\s*\}', 'Date::year')
out.append(f'def unpackYear (date : Nat) : Nat := {tr(m.group(1), {"self": "date"})}')
m = grab(r'Self\(\((date & 0b([01_]+))\) as u32\)', 'Of::from_date')
out.append(f'def unpackOf (date : Nat) : Nat := date &&& {int(m.group(2).replace("_", ""), 2)}')
m = grab(r'Weekday::from_u32_mod7\(\((of >> \d+)\) \+ \((of & 0b([01]+))\)\)', 'Of::weekday')
out.append(f'def weekdayArg (of_ : Nat) : Nat := ({tr(m.group(1), {"of": "of_"})}) + (of_ &&& {int(m.group(3), 2)})')
m = grab(r'let ol = (of >> \d+);\s*if ol <= MAX_OL \{.*?Mdf\(of \+ \(\(unsafe \{\*OL_TO_MDL\.get_unchecked\(ol as usize\)\} as u32\) << (\d+)\)\)', 'Mdf::from_of')
out.append(f'def olOf (of_ : Nat) : Nat := {tr(m.group(1), {"of": "of_"})}')
out.append(f'def mdfOf (of_ : Nat) : Nat := of_ + ((OL_TO_MDL.getD (olOf of_) 0) <<< {m.group(2)})')
m = grab(r'const fn month\(&self\) -> u32 \{\s*let Mdf\(mdf\) = \*self;\s*(mdf >> \d+)\s*\}', 'Mdf::month')
out.append(f'def mdfMonth (mdf : Nat) : Nat := {tr(m.group(1), {"mdf": "mdf"})}')
m = grab(r'const fn day\(&self\) -> u32 \{\s*let Mdf\(mdf\) = \*self;\s*\((mdf >> \d+)\) & 0b([01_]+)\s*\}', 'Mdf::day')
out.append(f'def mdfDay (mdf : Nat) : Nat := ({tr(m.group(1), {"mdf": "mdf"})}) &&& {int(m.group(2).replace("_", ""), 2)}')
m = grab(r'let sec = (self\.secs % \d+);\s*let mins = (self\.secs / \d+);\s*let min = (mins % \d+);\s*let hour = (mins / \d+);', 'Time::hms')
out.append(f'def hms (secs : Nat) : Nat × Nat × Nat := let mins := {tr(m.group(2).replace("self.secs", "secs"), {"secs": "secs"})}; ({tr(m.group(4), {"mins": "mins"})}, {tr(m.group(3), {"mins": "mins"})}, {tr(m.group(1).replace("self.secs", "secs"), {"secs": "secs"})})')
m = grab(r'unsafe \{\*YEAR_TO_FLAG\.get_unchecked\(year\.rem_euclid\((\d+)\) as usize\)\}', 'YearFlag::from_year')
out.append(f'def flagOf (year : Nat) : Nat := YEAR_TO_FLAG.getD (year % {m.group(1)}) 0')
# Weekday: enum order and the two conversions
m = grab(r'enum Weekday \{(.*?)\}', 'Weekday enum')
order = re.findall(r'[A-Z][a-z]{2}', m.group(1))
m2 = grab(r'match n % 7 \{(.*?)\}', 'from_u32_mod7')
arms = re.findall(r'(\d|_)\s*=>\s*Self::([A-Z][a-z]{2})', m2.group(1))
tbl = [None] * 7
for k, v in arms: tbl[6 if k == '_' else int(k)] = order.index(v)
out.append(f'def weekdayOfMod7 (n : Nat) : Nat := [{", ".join(map(str, tbl))}].getD (n % 7) 0   -- index in the enum {order}')
m = grab(r'\(\*self as u32 \+ 7 - Self::([A-Z][a-z]{2}) as u32\) % 7', 'num_days_from_sunday')
out.append(f'def numDaysFromSunday (w : Nat) : Nat := (w + 7 - {order.index(m.group(1))}) % 7')
out.append('end Ohkami.Gen.Time')
print('\n'.join(out))
