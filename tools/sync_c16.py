#!/usr/bin/env python3
"""copies the sources the C16 executor compiles as library modules into harness_c16/src/gen/ (only when they changed):
   /repo/ohkami_macros/src/{util.rs, openapi.rs, openapi/**}          the derive(Schema) implementation under test
   <cargo registry>/serde_derive-<pinned>/src/internals/**            serde's own attribute interpreter and case rules (the oracle)"""
import glob, os, re, shutil, sys
VERIF = os.path.dirname(os.path.dirname(os.path.abspath(__file__)))
REPO = os.environ.get('VERIF_REPO', '/repo')
DST = os.path.join(VERIF, 'harness_c16', 'src')


def put(src, dst):
    data = open(src, 'rb').read()
    try:
        if open(dst, 'rb').read() == data: return False
    except OSError: pass
    os.makedirs(os.path.dirname(dst), exist_ok=True)
    open(dst, 'wb').write(data)
    return True


def run():
    changed = []
    m = os.path.join(REPO, 'ohkami_macros', 'src')
    files = [('util.rs', 'util.rs'), ('openapi.rs', 'openapi.rs')]
    for root, _, fs in os.walk(os.path.join(m, 'openapi')):
        for f in fs:
            rel = os.path.relpath(os.path.join(root, f), m)
            files.append((rel, rel))
    for s, d in files:
        if put(os.path.join(m, s), os.path.join(DST, d)): changed.append(d)
    lock = open(os.path.join(REPO, 'Cargo.lock')).read()
    ver = re.search(r'name = "serde_derive"\nversion = "([^"]+)"', lock).group(1)
    cands = glob.glob(os.path.expanduser(f'~/.cargo/registry/src/*/serde_derive-{ver}/src/internals'))
    if not cands: raise SystemExit(f'serde_derive-{ver} is not in the cargo registry')
    for f in os.listdir(cands[0]):
        if put(os.path.join(cands[0], f), os.path.join(VERIF, 'harness_c16', 'serde_view', 'src', 'internals', f)): changed.append('serde_internals/' + f)
    # drop files that disappeared from the macro
    keep = {os.path.join(DST, d) for _, d in files}
    for root, _, fs in os.walk(os.path.join(DST, 'openapi')):
        for f in fs:
            if os.path.join(root, f) not in keep: os.remove(os.path.join(root, f)); changed.append('removed ' + f)
    return changed, ver


if __name__ == '__main__':
    print(run())
