#!/usr/bin/env python3
"""./check <id> [--tier quick|thorough] [--replay <path>] [--seed N]

One run =
  1. translate /repo -> lean/OhkamiModel/Gen*.lean (+ harness tables)          (tools/translate.py)
  2. proof obligations: lake build Proofs.<id>; `#print axioms` of every theorem of Proofs/<id>.lean;
     forbidden-construct scan                                                  (obligations / discharged)
  3. build the Lean driver and the Rust harness (the harness from /repo's working tree, feature ohkami_verif)
  4. corpus + generated cases -> harness (impl) and driver (model [+ spec, hyps])
  5. classify every case: agree | known finding | VIOLATION (impl breaks the property) | correspondence broken
  6. evidence/<id>.json, result lines, exit status

Exit 0: property held on everything explored (KNOWN-FINDING lines allowed).  Exit 1 + `VIOLATION property=<id> replay=<path>`
otherwise; when an obligation or the correspondence is broken but no concrete failing input was found the line ends with
`no-failing-input-found` and the replay file names what no longer checks.
"""
import argparse, fcntl, hashlib, importlib, json, os, random, re, subprocess, sys, time

VERIF = os.path.dirname(os.path.dirname(os.path.abspath(__file__)))
sys.path.insert(0, os.path.join(VERIF, 'tools'))
import translate  # noqa: E402

LEAN = os.path.join(VERIF, 'lean')
HARNESS = os.path.join(VERIF, 'harness')
WORK = os.path.join(VERIF, 'work')
DRIVER = os.path.join(LEAN, '.lake', 'build', 'bin', 'driver')
HARNESS_BIN = os.path.join(HARNESS, 'target', 'debug', 'verif_harness')
ALLOWED_AXIOMS = {'propext', 'Classical.choice', 'Quot.sound'}
FORBIDDEN = [r'\bsorry\b', r'(^|\bby|;|<;>|·|=>)\s*admit\s*($|;|<;>)', r'^\s*axiom\s', r'\bnative_decide\b', r'\bbv_decide\b', r'\bimplemented_by\b',
             r'\bunsafe\s', r'^\s*partial\s', r'maxHeartbeats\s+0\b', r'\bunsafeCast\b', r'@\[extern']
TRUSTED_BASE = [
    'Lean 4.33.0 kernel (thorough tier: re-checked by leanchecker)',
    'axioms allowed: propext, Classical.choice, Quot.sound (audited by #print axioms on every run); no sorry/native_decide/bv_decide',
    'tools/translate.py (regenerates Gen*.lean from /repo on every run; fail-closed)',
    'correspondence check: Python generators, Rust harness (executor of the real code), compiled Lean driver (executes the definitions the theorems are about)',
]


def log(*a):
    print(*a, file=sys.stderr, flush=True)


class Lock:
    def __init__(self, name):
        os.makedirs(WORK, exist_ok=True)
        self.path = os.path.join(WORK, f'.{name}.lock')

    def __enter__(self):
        self.f = open(self.path, 'w')
        fcntl.flock(self.f, fcntl.LOCK_EX)

    def __exit__(self, *a):
        fcntl.flock(self.f, fcntl.LOCK_UN)
        self.f.close()


def sh(cmd, cwd=None, timeout=None, env=None, input=None):
    e = dict(os.environ)
    e.update({'CARGO_NET_OFFLINE': 'true'})
    if env:
        e.update(env)
    try:
        p = subprocess.run(cmd, cwd=cwd, capture_output=True, text=True, timeout=timeout, env=e, input=input)
        return p.returncode, p.stdout, p.stderr
    except subprocess.TimeoutExpired as ex:
        return 124, (ex.stdout or b'').decode() if isinstance(ex.stdout, bytes) else (ex.stdout or ''), 'TIMEOUT'


# ----------------------------------------------------------------------------- proofs

def strip_comments(src):
    # block comments (nested) and line comments
    out, i, depth = [], 0, 0
    while i < len(src):
        if src.startswith('/-', i):
            depth += 1; i += 2; continue
        if src.startswith('-/', i) and depth:
            depth -= 1; i += 2; continue
        if depth:
            if src[i] == '\n': out.append('\n')
            i += 1; continue
        if src.startswith('--', i):
            while i < len(src) and src[i] != '\n': i += 1
            continue
        out.append(src[i]); i += 1
    return ''.join(out)


def theorems_of(prop):
    """names of the property theorems = every `theorem` declared in lean/Proofs/<id>.lean"""
    p = os.path.join(LEAN, 'Proofs', prop + '.lean')
    if not os.path.exists(p):
        return [], None
    src = strip_comments(open(p).read())
    out, stack = [], []
    for line in src.splitlines():
        m = re.match(r'^namespace\s+(\S+)', line)
        if m: stack.append(m.group(1)); continue
        m = re.match(r'^end\s+(\S+)', line)
        if m and stack and stack[-1] == m.group(1): stack.pop(); continue
        m = re.match(r'^theorem\s+([^\s:(\[{]+)', line)
        if m: out.append('.'.join(stack + [m.group(1)]))
    return out, p


def transitive_lean_files(root_mod):
    seen, stack = set(), [root_mod]
    files = []
    while stack:
        m = stack.pop()
        if m in seen: continue
        seen.add(m)
        p = os.path.join(LEAN, m.replace('.', '/') + '.lean')
        if not os.path.exists(p): continue
        files.append(p)
        for imp in re.findall(r'^import\s+(\S+)', open(p).read(), re.M):
            if imp.startswith(('OhkamiModel', 'Proofs')): stack.append(imp)
    return files


def forbidden_scan(files):
    hits = []
    for f in files:
        src = strip_comments(open(f).read())
        for ln, line in enumerate(src.split('\n'), 1):
            for pat in FORBIDDEN:
                if re.search(pat, line):
                    hits.append(f'{os.path.relpath(f, LEAN)}:{ln}: {line.strip()[:120]}')
    return hits


def check_proofs(prop, tier, gen_errors):
    """returns dict(ok, obligations, discharged, failures[list of str], axioms{thm: [..]}, checker_cmd)"""
    thms, pfile = theorems_of(prop)
    res = {'ok': False, 'obligations': len(thms), 'discharged': 0, 'failures': [], 'axioms': {}, 'theorems': thms,
           'checker_cmd': f'cd lean && lake build Proofs.{prop} && lake env lean <audit: #print axioms of each theorem of Proofs/{prop}.lean>'}
    if pfile is None:
        res['failures'].append(f'Proofs/{prop}.lean does not exist')
        return res
    for stem, msg in gen_errors:
        res['failures'].append(f'translator: {stem}: {msg}')
    with Lock('lake'):
        rc, out, err = sh(['lake', 'build', f'Proofs.{prop}'], cwd=LEAN, timeout=3000)
    if rc != 0:
        errs = [l for l in (out + err).split('\n') if 'error' in l.lower()][:12]
        res['failures'].append(f'lake build Proofs.{prop} failed: ' + ' | '.join(errs)[:1500])
        res['build_log'] = (out + err)[-6000:]
        return res
    os.makedirs(os.path.join(WORK, prop), exist_ok=True)
    audit = os.path.join(WORK, prop, 'Audit.lean')
    open(audit, 'w').write(f'import Proofs.{prop}\n' + ''.join(f'#print axioms {t}\n' for t in thms))
    rc, out, err = sh(['lake', 'env', 'lean', audit], cwd=LEAN, timeout=600)
    txt = out + err
    for t in thms:
        m = re.search(r"'" + re.escape(t) + r"' (does not depend on any axioms|depends on axioms: \[([^\]]*)\])", txt, re.S)
        if not m:
            res['failures'].append(f'{t}: no axiom report ({txt[:200]!r})')
            continue
        ax = [a.strip() for a in (m.group(2) or '').replace('\n', ' ').split(',') if a.strip()]
        res['axioms'][t] = ax
        bad = [a for a in ax if a not in ALLOWED_AXIOMS]
        if bad:
            res['failures'].append(f'{t}: depends on disallowed axioms {bad}')
        else:
            res['discharged'] += 1
    hits = forbidden_scan(transitive_lean_files(f'Proofs.{prop}'))
    if hits:
        res['failures'].append('forbidden constructs: ' + '; '.join(hits[:8]))
    if tier == 'thorough' and not res['failures']:
        mods = [os.path.relpath(f, LEAN)[:-5].replace('/', '.') for f in transitive_lean_files(f'Proofs.{prop}')]
        t0 = time.time()
        rc, out, err = sh(['lake', 'env', 'leanchecker'] + mods, cwd=LEAN, timeout=3000)
        res['leanchecker'] = {'modules': len(mods), 'rc': rc, 'wall_s': round(time.time() - t0, 1)}
        if rc != 0:
            res['failures'].append('leanchecker rejected: ' + (out + err)[-800:])
    res['ok'] = not res['failures'] and res['discharged'] == res['obligations'] and res['obligations'] > 0
    return res


# ----------------------------------------------------------------------------- builds

def build_driver():
    with Lock('lake'):
        rc, out, err = sh(['lake', 'build', 'driver'], cwd=LEAN, timeout=3000)
    return rc == 0, (out + err)[-3000:]


def build_harness():
    with Lock('cargo'):
        lock_src, lock_dst = '/repo/Cargo.lock', os.path.join(HARNESS, 'Cargo.lock')
        if not os.path.exists(lock_dst):
            open(lock_dst, 'w').write(open(lock_src).read())
        rc, out, err = sh(['cargo', 'build', '--offline'], cwd=HARNESS, timeout=3000)
    return rc == 0, (out + err)[-6000:]


def build_extra(mod):
    """further executors a property module declares: EXTRA_EXECUTORS = {name: {'dir', 'bin', 'sync'(optional callable run before the build)}}"""
    for name, ex in getattr(mod, 'EXTRA_EXECUTORS', {}).items():
        with Lock('cargo'):
            try:
                if ex.get('sync'): ex['sync']()
            except BaseException as e:
                return False, f'{name}: sync failed: {e}'
            lock_dst = os.path.join(ex['dir'], 'Cargo.lock')
            if not os.path.exists(lock_dst): open(lock_dst, 'w').write(open('/repo/Cargo.lock').read())
            rc, out, err = sh(['cargo', 'build', '--offline'], cwd=ex['dir'], timeout=3000)
        if rc != 0: return False, f'{name}: ' + (out + err)[-6000:]
    return True, ''


def impl_cmd(mod, prop, case):
    g = mod.executor_of(case) if hasattr(mod, 'executor_of') else None
    return [HARNESS_BIN, prop] if g is None else [mod.EXTRA_EXECUTORS[g]['bin']]


# ----------------------------------------------------------------------------- executors

def run_exec(cmd, cases, per_case_timeout=10.0, label=''):
    """feed cases (one JSON line each) to an executor; an executor that dies or hangs is restarted after the case
    it died on, and that case gets the outcome {"abort": ...} / {"hang": true}.  returns {id: answer-object}"""
    answers = {}
    todo = list(cases)
    guard = hangs = 0
    while todo:
        guard += 1
        inp = ''.join(json.dumps({'id': c['id'], 'case': c['case']}) + '\n' for c in todo)
        # an executor is given up only when it makes NO progress: no new answer line for `stall` seconds (a slow but advancing executor on a big input is
        # never cut: a total-time budget once cut the Lean driver in the middle of a thorough run and the case it was at was reported as a disagreement)
        stall = max(60.0, per_case_timeout * 6)
        # stdout goes to a file and stderr nowhere: an executor spinning in a loop that prints must not fill this process's memory
        import tempfile
        with tempfile.TemporaryFile(dir=WORK) as so, tempfile.TemporaryFile(dir=WORK) as si:
            si.write(inp.encode()); si.seek(0)
            p = subprocess.Popen(cmd, stdin=si, stdout=so, stderr=subprocess.DEVNULL)
            last_size, last_change, timed_out = -1, time.time(), False
            while True:
                try:
                    p.wait(timeout=0.5)
                    break
                except subprocess.TimeoutExpired:
                    pass
                size = os.fstat(so.fileno()).st_size
                if size != last_size: last_size, last_change = size, time.time()
                elif time.time() - last_change > stall or size > (1 << 31):          # no progress, or an executor that floods its output
                    timed_out = True
                    p.kill(); p.wait()
                    break
            rc = 124 if timed_out else p.returncode
            so.seek(0)
            got = 0
            for raw in so:          # line by line: the answers of a thorough run are gigabytes (an earlier `read(1 << 30)` cut them and the case at the cut looked unanswered)
                l = raw.decode('utf-8', 'replace')      # an executor may print a non-UTF-8 string it was handed
                if not l.strip(): continue
                try:
                    o = json.loads(l)
                except Exception:
                    break
                if o.get('id') != todo[got]['id']:
                    break
                answers[o['id']] = o
                got += 1
                if got == len(todo): break
        hangs += timed_out
        if got == len(todo):
            break
        # the executor stopped at todo[got]
        bad = todo[got]
        answers[bad['id']] = {'id': bad['id'], 'out': {'hang': True} if timed_out else {'abort': f'executor exit {rc}'},
                              'model': {'error': 'driver died'}, 'error': 'executor died'}
        log(f'[{label}] executor stopped at case {bad["id"]} (rc={rc}, timeout={timed_out}); restarting after it')
        todo = todo[got + 1:]
        if guard > 200:
            for c in todo:
                answers[c['id']] = {'id': c['id'], 'out': {'abort': 'too many executor deaths'}, 'error': 'too many executor deaths'}
            break
        if hangs >= 5:          # every hang costs a whole time budget: five are enough to report, the rest of the cases is not run
            log(f'[{label}] the executor hung on {hangs} cases; the remaining {len(todo)} cases are not run')
            for c in todo: answers[c['id']] = {'id': c['id'], 'out': None}
            break
    return answers


def case_hash(case):
    return hashlib.sha1(json.dumps(case, sort_keys=True).encode()).hexdigest()


# ----------------------------------------------------------------------------- main

def load_known_findings():
    p = os.path.join(VERIF, 'known_findings.json')
    try:
        return json.load(open(p))
    except OSError:
        return {'findings': [], 'fixed': []}


def main():
    ap = argparse.ArgumentParser()
    ap.add_argument('prop')
    ap.add_argument('--tier', default=os.environ.get('VERIF_TIER', 'quick'), choices=['quick', 'thorough'])
    ap.add_argument('--replay')
    ap.add_argument('--seed', type=int, default=int(os.environ.get('VERIF_SEED', '1') or 1))
    args = ap.parse_args()
    prop, tier, seed = args.prop, args.tier, args.seed
    t0 = time.time()
    mod = importlib.import_module('props.' + prop.lower())
    os.makedirs(os.path.join(WORK, prop), exist_ok=True)
    os.makedirs(os.path.join(VERIF, 'evidence'), exist_ok=True)
    os.makedirs(os.path.join(VERIF, 'replays'), exist_ok=True)
    rng = random.Random(seed)

    # 1. translate
    with Lock('lake'):
        changed, gen_errors = translate.run()
    if changed: log('translate: regenerated', changed)
    relevant_gen_errors = [(s, m) for s, m in gen_errors if s in getattr(mod, 'GEN_DEPS', [s])]

    # 2. proofs
    proofs = check_proofs(prop, tier, relevant_gen_errors)
    log(f'proofs: {proofs["discharged"]}/{proofs["obligations"]} discharged; failures: {proofs["failures"]}')

    # 3. builds
    drv_ok, drv_log = build_driver()
    har_ok, har_log = build_harness()
    if har_ok: har_ok, har_log = build_extra(mod)
    broken = []          # things that make the check unable to run at all
    if not har_ok:
        broken.append('harness does not build against /repo: ' + har_log[-1500:])
    if not drv_ok:
        log('driver does not build:', drv_log[-800:])

    # 4. cases
    if args.replay:
        cases = []
        for l in open(args.replay):
            l = l.strip()
            if not l: continue
            o = json.loads(l)
            if 'case' in o: cases.append({'id': o.get('id', f'{prop}-replay-{len(cases)}'), 'stream': 'replay', 'case': o['case']})
    else:
        cases = []
        for i, c in enumerate(mod.corpus()):
            cases.append({'id': f'{prop}-c{i:04d}', 'stream': c.get('stream', 'corpus'), 'case': c['case'], 'expect': c.get('expect')})
        cdir = os.path.join(VERIF, 'corpus', prop)
        if os.path.isdir(cdir):
            for fn in sorted(os.listdir(cdir)):
                for l in open(os.path.join(cdir, fn)):
                    l = l.strip()
                    if l:
                        o = json.loads(l)
                        cases.append({'id': f'{prop}-f{len(cases):04d}', 'stream': 'corpus', 'case': o['case']})
        for i, c in enumerate(mod.generate(rng, tier)):
            cases.append({'id': f'{prop}-{i:06d}', 'stream': c.get('stream', 'generated'), 'case': c['case']})
    log(f'cases: {len(cases)}')

    impl, model = {}, {}
    if har_ok:
        groups = {}
        for c in cases: groups.setdefault(tuple(impl_cmd(mod, prop, c['case'])), []).append(c)
        for cmd, cs in groups.items():
            impl.update(run_exec(list(cmd), cs, label='impl', per_case_timeout=getattr(mod, 'CASE_TIMEOUT', 10.0)))
    if drv_ok and getattr(mod, 'USES_DRIVER', True):
        model = run_exec([DRIVER, prop], cases, label='model')

    # 5. classify
    kf = load_known_findings()
    listed = {f['id']: f for f in kf.get('findings', []) if f.get('property') == prop}
    violations, disagreements, known_hits, unmodelled = [], [], {}, 0
    nontrivial = set()
    stats = {}
    for c in cases:
        o = impl.get(c['id'], {}).get('out')
        m = model.get(c['id'])
        if m is not None and ('error' in m and 'model' not in m):
            if str(m.get('error', '')).startswith('unmodelled'):
                unmodelled += 1
                m = None
            else:
                m = {'model': {'driver_error': m.get('error')}}
        if o is None:
            continue
        if isinstance(o, dict) and ('hang' in o or 'abort' in o) and set(o) <= {'hang', 'abort'}:
            # the executor spun or died on this very case: that is a failure of the implementation whatever the property says about the value
            verdicts = [('violation', ('the implementation did not come back on this case (hang)' if 'hang' in o else f'the implementation aborted the process on this case ({o["abort"]})'))]
        else:
            verdicts = mod.judge(c['case'], o, m)      # list of (kind, reason[, finding_id])
        for v in verdicts:
            kind, reason = v[0], v[1]
            fid = v[2] if len(v) > 2 else None
            if kind == 'violation':
                if fid and fid in listed:
                    known_hits.setdefault(fid, []).append(c['id'])
                else:
                    violations.append((c, reason, o, m))
            elif kind == 'disagree':
                disagreements.append((c, reason, o, m))
        if mod.nontrivial(c['case']):
            nontrivial.add(case_hash(c['case']))
        for k in mod.features(c['case'], o) if hasattr(mod, 'features') else []:
            stats[k] = stats.get(k, 0) + 1

    # shrink the first violation
    replay_path, tail = None, ''
    status = 0
    if violations:
        c, reason, o, m = violations[0]
        small = c['case']
        if hasattr(mod, 'shrink') and har_ok:
            def still_fails(cand):
                a = run_exec(impl_cmd(mod, prop, cand), [{'id': 's', 'case': cand}], label='shrink')
                mm = run_exec([DRIVER, prop], [{'id': 's', 'case': cand}], label='shrink') if drv_ok and getattr(mod, 'USES_DRIVER', True) else {}
                oo = a.get('s', {}).get('out')
                if oo is None: return False
                return any(v[0] == 'violation' and not (len(v) > 2 and v[2] in listed) for v in mod.judge(cand, oo, mm.get('s')))
            try:
                small = mod.shrink(small, still_fails)
            except Exception as ex:   # shrinking is best effort
                log('shrink failed:', ex)
        replay_path = os.path.join(VERIF, 'replays', f'{prop}-{case_hash(small)[:12]}.jsonl')
        with open(replay_path, 'w') as f:
            f.write(json.dumps({'id': c['id'], 'property': prop, 'why': reason, 'case': small, 'impl': o, 'model': m}) + '\n')
        status = 1
    elif broken or not proofs['ok'] or disagreements or (not drv_ok and getattr(mod, 'USES_DRIVER', True)):
        what = {'property': prop, 'no_failing_input_found': True, 'broken_obligations': proofs['failures'],
                'harness_or_driver': broken + ([] if drv_ok else ['driver does not build: ' + drv_log[-1200:]]),
                'correspondence_disagreements': [{'id': c['id'], 'why': r, 'case': c['case'], 'impl': o, 'model': m} for c, r, o, m in disagreements[:5]],
                'searched': {'cases': len(cases), 'seed': seed, 'tier': tier}}
        replay_path = os.path.join(VERIF, 'replays', f'{prop}-broken-{int(time.time())}.json')
        json.dump(what, open(replay_path, 'w'), indent=1)
        tail = ' no-failing-input-found'
        status = 1
    if len(cases) and unmodelled > 0.01 * len(cases) and status == 0:
        log(f'BROKEN CHECK: {unmodelled} of {len(cases)} cases are outside the model\'s domain')
        replay_path = os.path.join(VERIF, 'replays', f'{prop}-broken-{int(time.time())}.json')
        json.dump({'property': prop, 'unmodelled': unmodelled, 'cases': len(cases)}, open(replay_path, 'w'))
        tail = ' no-failing-input-found'
        status = 1

    # 6. evidence
    samples = [c['case'] for c in cases[:1]] + [c['case'] for c in cases[len(cases) // 2: len(cases) // 2 + 2]]
    cov = {
        'obligations': proofs['obligations'], 'discharged': proofs['discharged'],
        'checker_cmd': proofs['checker_cmd'], 'trusted_base': TRUSTED_BASE + getattr(mod, 'TRUSTED', []),
        'theorems': proofs['theorems'], 'axioms': proofs['axioms'], 'proof_failures': proofs['failures'],
        'evaluations': len(cases), 'distinct_nontrivial': len(nontrivial), 'rule': mod.RULE,
        'samples': samples[:3], 'disagreements_checked': len(disagreements),
        'traces_validated_against_impl': len([c for c in cases if c['id'] in impl and c['id'] in model]),
        'unmodelled': unmodelled, 'distribution': dict(sorted(stats.items())),
        'known_findings_reproduced': {k: len(v) for k, v in known_hits.items()},
        'streams': {s: sum(1 for c in cases if c['stream'] == s) for s in sorted({c['stream'] for c in cases})},
    }
    if 'leanchecker' in proofs: cov['leanchecker'] = proofs['leanchecker']
    ev = {'property_id': prop, 'tier': tier, 'seed': seed, 'level': 'proof', 'coverage': cov,
          'assumptions': getattr(mod, 'ASSUMPTIONS', []), 'wall_s': round(time.time() - t0, 2), 'violations': len(violations)}
    json.dump(ev, open(os.path.join(VERIF, 'evidence', prop + '.json'), 'w'), indent=1)

    print(f'{prop} tier={tier} seed={seed} proofs={proofs["discharged"]}/{proofs["obligations"]} cases={len(cases)} '
          f'nontrivial={len(nontrivial)} disagreements={len(disagreements)} violations={len(violations)} wall={ev["wall_s"]}s')
    for fid, ids in known_hits.items():
        print(f'KNOWN-FINDING: property={prop} {listed[fid]["what"]} [{fid}; reproduced on {len(ids)} case(s)]')
    for c, r, o, m in disagreements[:3]:
        print(f'DISAGREE {c["id"]}: {r}')
    for c, r, o, m in violations[:3]:
        print(f'FAILING {c["id"]}: {r}')
    if status:
        print(f'VIOLATION property={prop} replay={replay_path}{tail}')
    sys.exit(status)


if __name__ == '__main__':
    main()
