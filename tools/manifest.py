#!/usr/bin/env python3
"""regenerates MANIFEST.json from the table below (one entry per claimed property)"""
import json, os, subprocess
VERIF = os.path.dirname(os.path.dirname(os.path.abspath(__file__)))
TB = 'trusted: Lean 4.33 kernel, axioms propext/Classical.choice/Quot.sound (audited each run), tools/translate.py, harness + compiled driver; '
CLAIMS = {
 'C01': dict(
    text='Lean 4 theorems: the router specification greedyChain answers only with a matching, most-static route (hit_sound), misses when nothing matches (miss), is independent of registration order (order_independent); the registration trie refines it at segment level (trie_refines) and the compressed, sorted final router refines the trie at byte level with boundary-exact static patterns (bytes_refine); mounts flatten (mounts_flatten). Tied to the code by a differential run of application trees assembled at run time (hook H1) in two registration orders against the executable model (which also carries the fang-scope-dependent compression of the repaired code) and against the relation the property states, evaluated independently on the flat route table',
    note=TB + 'the executable model used for the correspondence (Fangs.build/finalize/searchP, with fang scopes) is checked equal to the proved greedyChain on every run for applications without fangs; with fang scopes the compression differs and the outcome is judged by the property relation; OPTIONS handled in C14',
    technique='Lean 4 proof (refinement: bytes -> trie -> flat-table spec; permutation invariance) + model/implementation correspondence'),
 'C02': dict(
    text='Lean 4 theorems over the model of Request::read (parse_encode: every well-formed request is accepted and read back as exactly what its bytes denote; parse_sound: conversely, every accepted first read has the shape method SP path [?query] SP HTTP/1.1 CRLF header-lines CRLF rest, and the request object is exactly what that shape denotes — headers folded in order, payload = the first Content-Length bytes after the head; parse_never_panics: every byte string is answered ok / error status / close), tied to the code by regenerated header and method tables and a differential run of the real parser (hook H2) against the model and an independent grammar-based reader, with every accessor called under catch_unwind',
    note=TB + 'modelled not verified: byte_reader primitives, from_utf8, from_utf8_lossy, percent_decode (hand models validated by the correspondence run); head larger than the first read is C06',
    technique='Lean 4 proof (round trip + totality of the parser model) + model/implementation correspondence'),
 'C03': dict(
    text='Lean 4 theorems over the model of Response (send_exact: bytes written = bytes reserved for every operation history; size invariant), tied to the code by regenerated header/status tables and a differential run of the real Response against the model and an independent HTTP reader',
    note=TB + 'modelled not verified: Content::Stream/WebSocket arms of send (C17 covers Stream)',
    technique='Lean 4 proof (invariant over operation histories) + model/implementation correspondence'),
 'C04': dict(
    text='Lean 4 theorems over the fang model (onion_order: the fold of into_proc_with is the onion of the reversed list; early_answer_cuts: a fang that answers early cuts everything inside it and keeps the way out of the outer ones; mounts_flatten); the scope statement (fangs of exactly the applications whose mount prefix contains the path, hit or 404, any method) is decided on every run against a specification read off the configuration alone, on generated trees satisfying the side condition, and was exhaustively tested on 53,334 small configurations; differential run with tracing fangs (app-level tuples of 0-8 fangs, local fangs, an early-answering fang) against the executable model',
    note=TB + 'ScopeStatement is stated in Lean (Fangs.lean) but its proof is not complete: for scope the assurance is model/impl correspondence + the independent configuration-level spec; tuple nesting of Fangs::build and local-fang wrapping are validated by the traces',
    technique='Lean 4 proof (onion order, early answer) + model/implementation correspondence for scope'),
 'C05': dict(
    text='Lean 4 theorems over the model of the keep-alive loop: one_per_chunk (if every read delivers exactly one complete request, the responses are, in order, what each request is answered alone on a fresh connection — fresh_connection — and nothing follows the response to Connection: close; any application, any number of requests, any bytes and sizes) and no_residue (clear, one read into the 1 KiB buffer, head parsed from the bytes read, body completed by read_exact, handle, send; refused requests answered and the loop continued): for every application and every connection script, the handler is never given anything an earlier request left behind; tied to the code by a differential run of a mirror of the session loop (hooks H2, scripted in-memory connection) against the model with an echo application that prints everything observable (headers, payload, params, query, a per-request context entry), and by the metamorphic check on the implementation itself: k-th response = response of the same request alone on a fresh connection, in order, nothing after Connection: close',
    note=TB + 'cannot be exhibited by the model and not verified: real TCP, the keep-alive timer, task scheduling; the harness mirrors the loop of session/mod.rs (tied to TcpStream) through the hooks; the statement "k-th response = fresh response" is a theorem of the model (one_per_chunk) and is decided per run on the implementation as well',
    technique='Lean 4 proof (loop invariant by induction over the loop) + model/implementation correspondence + metamorphic oracle'),
 'C06': dict(
    text='partial: Lean 4 theorems over the same session model (readExact_flatten: read_exact returns exactly the next n bytes of the stream however they are split; no_residue for every segmentation); the executable model predicts the session under every segmentation exactly, including the two unsupported classes; per run: every single split point of several requests, random multi-splits, chunks beyond the buffer, compared with the canonical one-read-per-request segmentation on the implementation; the classes head_split and coalesced are recorded known findings',
    note=TB + 'cannot be exhibited: real TCP segmentation and timers; known findings KF-C06-head-split, KF-C06-coalesced (redesign of Request::read needed); the theorem "responses are a function of the byte stream on the supported class" is decided per run, not yet proved in Lean',
    technique='Lean 4 proof (stream lemmas, loop invariant) + model/implementation correspondence + metamorphic oracle over enumerated split points'),
 'C07': dict(
    text='Lean 4 theorems over the extraction model (int_accept_sound: an integer param is accepted only if the whole decoded segment is an optional sign and digits, no minus for unsigned types, denotes the value delivered and lies in the range of the type; int_accept_complete: every in-range integer is accepted in its canonical spelling; handler_runs_iff: the handler runs iff every param converts and every required item is found and decodes; option_none_only_absent); differential run of 24 handler signatures (all 10 integer types, String/&str/Cow, two params, a param under a param mount, Query/JSON/URLEncoded/Text, Option<_>, combinations) against the model and against values computed independently (Python regex/int, json, RFC 3986 pairs) under the exactly matching media type',
    note=TB + 'the body and query codecs enter the model as data (they are the subject of C08-C10; JSON is serde_json); statuses 500 (param) / 400 (body) are part of the model, the property only asks for an error response',
    technique='Lean 4 proof (accept-set of the integer parser, all-or-nothing of IntoHandler) + model/implementation correspondence'),
 'C08': dict(
    text='Lean 4 theorems: urlencoded_total (for every input, target type of the serde data model and fuel the URL-encoded reader answers a value or an error: no panic site, no unchecked operation outside its side condition), cookie_take_in_bounds (take_n_unchecked is called with a position inside the input), cookie_value_utf8, multipart_slice_inside (every slice read_until hands out is a prefix of the body), percent_decode_len; differential run of every network-facing decoder on random, grammar-generated and mutated bytes over a family of 30+ target types with catch_unwind / abort / hang detection, UTF-8 re-validation and pointer-range checks, against the models of the URL-encoded, cookie and multipart readers',
    note=TB + 'totality of the cookie, multipart and Set-Cookie readers is by model/implementation correspondence (their models have no panicking outcome) plus the listed side-condition lemmas, not by a separate totality theorem; Rust memory model and aliasing are outside',
    technique='Lean 4 proof (totality of the URL-encoded reader by induction on fuel/type; side-condition lemmas) + model/implementation correspondence with crash detection'),
 'C09': dict(
    text='Lean 4 theorem roundtrip_struct (reader after writer = identity and consumes all text, for every struct type and every well-typed unambiguous value, with the text primitives proved rather than assumed) and the percent-encoding round trip; tied to the code by a differential run of the real to_string / from_bytes / QueryParams::iter against the writer and reader models, and of decoded texts against an independent RFC 3986 pair reader',
    note=TB + 'modelled not verified: serde derive visitor protocol, str::parse, from_utf8, percent_encoding (hand models; PrimsOK proved for them); floats outside the catalogue; known finding KF-C09-empty-ambiguity',
    technique='Lean 4 proof (round trip by induction over fields/values) + model/implementation correspondence'),
 'C10': dict(
    text='Lean 4 theorems over the multipart model (readUntil_exact: if the delimiter occurs nowhere before its intended position, scanning content ++ CRLF-delimiter stops exactly there, so the content is recovered byte for byte whatever bytes it holds; readUntil_split / readUntil_rest; empty_file_input; shape_mismatch: a mismatch is an error, never a wrong value); the parser, Multipart::next (grouping, order, empty-file rule) and the field decoding are a Lean model tied to the code by a differential run on forms produced by an independent RFC 7578 encoder (optional part headers, any boundary, awkward contents) into four target structs, plus mutated bodies',
    note=TB + 'the whole-form theorem parse_encode (parse after the RFC 7578 encoder = the form) is decided per run against the independent encoder; its Lean proof is not written beyond the content-scanning lemma; known finding KF-C10-boundary-in-content',
    technique='Lean 4 proof (scanning lemmas, shape rules) + model/implementation correspondence with an independent encoder'),
 'C11': dict(
    text='Lean 4 theorems over the cookie models (value_roundtrip_pct: a percent-encoded value of arbitrary Unicode text, alone or followed by "; more", is read back exactly and leaves the rest for the next cookie; name_roundtrip: a token name followed by "=" is read as that name; setcookie_pair: the built Set-Cookie line starts with name=percent-encoded value made only of cookie-octets); differential run of the real struct decoder, cookie iterator, Set-Cookie builder (wire bytes) and SetCookie::from_raw against the models, against jars in the three RFC 6265 value forms, and against an independent RFC 6265 set-cookie-string grammar over all 128 directive subsets',
    note=TB + 'the whole-jar and whole-line round trips are decided per run (model + independent grammar); their Lean proofs (induction over the jar / the directive list) are not written; known finding KF-C11-iter-cookies',
    technique='Lean 4 proof (section-level round-trip lemmas) + model/implementation correspondence + independent grammar'),
 'C12': dict(
    text='Lean 4 theorems over the model of JWT::verified with HMAC, JSON and the clock as parameters (admit_sound: the handler runs only for a three-part token whose signature is the MAC of header.payload under the configured key and algorithm, whose header names the algorithm and whose claims admit now, and sees the signed payload; refused_otherwise: every other outcome is a 4xx/5xx status without running the inside); differential run of an application behind the real fang with a pinned clock (hook H5) against the model and against an admission predicate written with Python hmac/json; tokens from the real issue must verify',
    note=TB + 'parameters, not verified: HMAC-SHA2 (values from Python hmac), serde_json (values from Python json on the same bytes), base64 URL_SAFE_NO_PAD engine (concrete Lean model, validated by the run)',
    technique='Lean 4 proof (decision logic, parametric in MAC/JSON/clock) + model/implementation correspondence'),
 'C13': dict(
    text='Lean 4 theorem admit_iff (handler runs iff the Authorization value is "Basic " + canonical base64 of user:password of a configured pair) with the base64 round trip and canonicity proved; differential run of an application guarded by the real fang (single and array forms) against the model and against Python base64',
    note=TB + 'modelled not verified: base64 0.22 STANDARD engine (hand model, canonical decoding; validated against Python base64 and the crate), from_utf8',
    technique='Lean 4 proof (iff via base64 canonicity) + model/implementation correspondence'),
 'C14': dict(
    text='Lean 4 theorems over the model of the CORS fang and the automatic OPTIONS handler (acao_everywhere, credentials_iff incl. the wildcard rule of the builder, expose_headers, preflight_iff: 200 without body iff the requested method is among the registered methods + HEAD with GET + OPTIONS, advertising exactly that list, max-age and configured-or-echoed headers; otherwise 400; options_without_method); differential run of application trees under the real fang (routes registered by several items, nested mounts) against the model on top of the router model, and against the header matrix computed independently from the policy and the flat route table',
    note=TB + 'the union of methods per route in the OPTIONS tree is part of the driver-level model (validated by correspondence), not of a theorem',
    technique='Lean 4 proof (decision logic of bite/default_options) + model/implementation correspondence'),
 'C15': dict(
    text='Lean 4 theorems over a model of document generation on application trees (flatten of mounts with the fang lists of every enclosing application, operation assembly per handler signature, openapi_map_operation through every fang, assign_path_param_name): template_params_declared / path_params_named (the path parameters of every operation are named, in order, exactly by the :params of the route from the root) and path_params_required; security_exact / security_iff (a requirement iff an authentication fang guards the handler, one per fang); body_responses_exact; pairs_exact + documented_iff_registered + template_inj (path/method pairs are precisely the registered ones, the :p -> {p} conversion is injective on clean routes); differential run: the real document of generated applications (13 catalogue handlers, 4 fang kinds at any level, nested param mounts) against the model and against an independent reading of the tree; every schema object checked structurally against JSON Schema 2020-12, every $ref and security scheme resolved, and a request built from every documented operation must run exactly the registered handler',
    note=TB + 'modelled not verified: the lookup of each route through the compressed routing tree (covered by the correspondence and by the probes), schema contents (opaque in the model; validated structurally on the real document), serde_json serialisation of the document',
    technique='Lean 4 proof (invariant of assign_path_param_name by induction; refinement of the tree to the flat table) + model/implementation correspondence'),
 'C16': dict(
    text='Lean 4 theorems over two separate transcriptions — the derive (Macro.*: schema_of_fields, schema_of_variants, Case) and serde (Serde.*: RenameRule, which keys a derived Serialize writes and which a derived Deserialize lets be absent, the four enum representations): case_field_agrees / case_variant_agrees (all 8 rules, every identifier), struct_keys_exact (properties = keys serde writes, in order; required iff serde can neither omit nor default; flattened members exact), unit_enum_names_exact, variant_realises (each variant schema places tag and content as the representation does, fields renamed by the variant rename_all else rename_all_fields), struct_value_validates (every key/value list a derived Serialize writes for a struct with named fields validates against the derived object schema: present properties hold values their schemas accept, absent ones are not required — excluding exactly the recorded null-for-None finding and flatten); correspondence: the REAL macro sources and the REAL serde_derive internals run on every identifier up to length 4 x 8 rules and on generated definitions, both against the model; plus a catalogue of 26 compiled types whose serialized values are validated against the real schema, with key sets and requiredness probed through from_value',
    note=TB + 'modelled not verified: the schemas of field types (opaque), the builder API of ohkami_openapi (read through the catalogue only), syn parsing of attributes (covered by correspondence); the statement "every serialized value validates" is a theorem for structs (struct_value_validates, over a model of what derived Serialize writes, itself validated on the compiled catalogue); for enums and flattened members it is decided by validation of catalogue values; two recorded findings (null for Option / untagged unit)',
    technique='Lean 4 proof (two transcriptions shown equal / realising) + model/implementation correspondence against serde_derive itself'),
 'C17': dict(
    text='Lean 4 theorem stream_delivers_all (for every completing producer schedule the stream yields exactly all pushes in order: none lost when the producer completes with a non-empty queue, none duplicated) plus framing lemmas (zero-chunk termination, no empty data chunk, no CR survives normalisation); differential run of a real DataStream handler driven by scripted schedules against the model, and of the wire bytes against an RFC 9112 de-chunker and the WHATWG event-stream parser',
    note=TB + 'modelled not verified: the executor and wakers (one poll = one schedule step), the self-referential queue pointer; the end-to-end statement wire_decodes (parser after de-chunker = messages) is checked by the independent parser on every run, its Lean proof is in progress',
    technique='Lean 4 proof (induction over poll schedules) + model/implementation correspondence'),
 'C18': dict(
    text='partial: Lean 4 theorems over the transition system of the interrupt handler, the accept loop poll and reactor wakes on CATCH/WAKER (no_lost_wakeup for every reachable state under every interleaving; the lost wake-up of the unrepaired code as a machine-checked witness) and over the WaitGroup counter (howl_waits: each poll is Ready iff no session is alive, for every history and completion order); tied to the code through hook H4 by forcing the real handler body at every scheduling point of every poll of the real until_interrupt future on the real atomics, and by running the real WaitGroup on generated histories',
    note=TB + 'cannot be exhibited by the model and not verified: OS signal delivery, the ctrlc thread, executor fairness, interleavings finer than handler-atomic on the real atomics, TCP accept',
    technique='Lean 4 proof (reachable-state invariant by kernel-evaluated closure + induction over wait-group histories) + forced interleavings on the real atomics'),
 'C19': dict(
    text='partial: Lean 4 theorems nothing_else (with only static routes registered, a request reaches a handler only if its normalised path is exactly one of the derived routes: no traversal, encoded or doubled separator, near miss) and derive_all_static (every route Dir derives is static), on top of the routing refinement of C01; the route derivation (index.html double registration, omit_extensions, alphabet and extension refusals) is a Lean model tied to the code by a regenerated mime table and a differential run on real temporary directories served by the real Route::Dir, judged against the served set read off the file list with an independent media-type table; symlink-to-outside cases run against the real code',
    note=TB + 'cannot be exhibited by the model and not verified: read_dir / canonicalize / symlink behaviour of Dir::new (the walk is an input), file reading',
    technique='Lean 4 proof (corollary of the routing refinement for static route tables) + model/implementation correspondence on real directories'),
 'C20': dict(
    text='Lean 4 theorems for every timestamp <= 9999-12-31T23:59:59 and every usize (imf_fixdate_exact, itoa_exact, hexized_exact) about definitions TRANSLATED from time.rs / num.rs on every run; differential run of the real functions against the model and against an independent calendar over every 7th day (quick) or every day number (thorough)',
    note=TB + 'the rendering sequence of into_imf_fixdate is a hand model (validated on every day number in the thorough tier)',
    technique='Lean 4 proof over translated definitions (omega + decide over generated tables) + differential run'),
}
REASON_PENDING = 'not claimed yet: its check is still being built (see DESIGN.md section 10)'


def main():
    props = [json.loads(l) for l in open(os.path.join(VERIF, 'properties.jsonl'))]
    hooks = subprocess.run(['git', '-C', '/repo', 'log', '--format=%h', '--grep=verif hook'], capture_output=True, text=True).stdout.split()
    checks = []
    for p in props:
        i = p['id']
        if i not in CLAIMS: continue
        c = CLAIMS[i]
        checks.append({
            'property_id': i, 'quick_cmd': f'./check {i} --tier quick', 'thorough_cmd': f'./check {i} --tier thorough',
            'evidence_file': f'/verif/evidence/{i}.json', 'replay_cmd_template': f'./check {i} --replay {{path}}',
            'engine': 'lean-proof+correspondence',
            'level_claimed': {'category': 'proof', 'text': c['text'], 'design_ref': f'DESIGN.md section 10 {i}'},
            'level_note': c['note'], 'technique': c['technique']})
    m = {'version': 1, 'setup_cmd': './setup.sh',
         'hooks': {'guard': 'cargo feature ohkami_verif (crate ohkami)',
                   'enable': 'the harness crate depends on /repo/ohkami with features [rt_tokio, sse, openapi, ohkami_verif]',
                   'baseline_off_cmd': 'cd /repo && cargo test --workspace --no-fail-fast --offline --lib',
                   'source_commits': hooks, 'add_only': True},
         'engines': [{'name': 'lean-proof+correspondence', 'path': '/verif/tools/check.py', 'serves_properties': sorted(CLAIMS),
                      'kind_free_text': 'Lean 4 theorems about hand-written/translated models; translator + differential correspondence check against the real code'}],
         'checks': checks,
         'notes': 'see DESIGN.md; known_findings.json lists recorded findings and fixed defects',
         'not_applicable': [{'property_id': p['id'], 'reason': CLAIMS.get(p['id'], {}).get('na', REASON_PENDING)} for p in props if p['id'] not in CLAIMS]}
    json.dump(m, open(os.path.join(VERIF, 'MANIFEST.json'), 'w'), indent=1)
    print('claimed', sorted(CLAIMS))


if __name__ == '__main__':
    main()
