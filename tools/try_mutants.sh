#!/bin/sh
# try_mutants.sh <prop> <out dir> : for each patch*.diff in <out dir>, apply to /repo, run ./check <prop>, undo; print the last lines
P="$1"; D="$2"
for f in "$D"/patch*.diff; do
  echo "=== $f"
  git -C /repo apply "$f" || { echo "does not apply"; continue; }
  /verif/check "$P" 2>&1 | tail -4
  git -C /repo checkout -- .
done
git -C /repo status --short | head -3
