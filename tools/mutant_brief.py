#!/usr/bin/env python3
"""mutant_brief.py <out dir> <ID> [<ID>...] : writes <out>/<ID>.task.md for a sub-agent: the text of the property, the places earlier
seeded changes already touched (locations only, nothing about the checks), and the common instructions. Nothing from /verif's machinery."""
import json, sys, os, glob
out = sys.argv[1]; ids = sys.argv[2:]
props = {json.loads(l)['id']: json.loads(l) for l in open('/verif/properties.jsonl')}
COMMON = """# Task: a realistic change to ohkami that breaks ONE stated property, silently

You work ONLY inside your own scratch git worktree of the ohkami repository: `{wt}` (a detached worktree of the pinned commit; cargo works
offline only: always pass `--offline`; use `CARGO_TARGET_DIR={wt}/target`). Never touch /repo or /verif, never read /verif.

## The property

**{id} - {title}**

{statement}

Quantifier: {quant}

Anchors in the code: {anchors}

## What to deliver (write everything into `{out}/`, create the directory)

ONE change (a unified diff `patch1.diff`, made with `git diff` in your worktree, that applies with `git apply` to the pinned commit) such that

1. the workspace still compiles, and BOTH suites still pass unedited with it:
   `cargo test --workspace --no-fail-fast --offline --lib` (43 tests) and
   `cargo test -p ohkami --features rt_tokio,DEBUG,sse,openapi --lib --offline` (44 tests; one of them binds a fixed port, run suites one at a time);
2. the property above is now FALSE for the real code: there is a concrete input / configuration / sequence / schedule on which it fails;
3. it looks like something a maintainer could really commit (a refactor, an optimisation, a clean-up, a dedupe, a 'fix' of something else),
   not sabotage: no dead branches keyed to magic values;
4. it needs something SPECIFIC to manifest - an unusual input, a multi-step sequence, a particular configuration shape, two sites that each
   look fine alone, a boundary value - not something that ordinary use or a single obvious request would expose at once;
5. a demonstration `demo1.rs`: a Rust integration test (or small program; say how to run it in meta.json) that FAILS with the change and
   PASSES without it. Run it both ways yourself.

Places that earlier attempts already changed (choose a different place or a different mechanism; do not repeat these):
{tried}

Also write `{out}/meta.json`: a JSON list with one object: {{"patch": "patch1.diff", "what": "<files/functions changed and why it looks
innocent>", "needs": "<exactly what is needed for it to manifest, with a concrete example input and the clean vs. patched behaviour>",
"how_run": "<the commands you ran and their results: both suites with the patch, the demo with and without>"}}.

And `{out}/noticed.md`: anything you noticed IN PASSING about the UNCHANGED code that already seems to violate this property (a concrete
input and what happens) - only if you actually saw it happen or are sure from reading; say which. Write "nothing" otherwise.

When done, restore your worktree to the clean state (`git checkout -- . && git clean -fdq -e target`), and answer with a five-line summary.
"""
for i in ids:
    p = props[i]
    tried = []
    for d in sorted(glob.glob(f'/verif/seeded/{i}-*')):
        m = json.load(open(os.path.join(d, 'meta.json')))
        w = m.get('what', '')
        tried.append('- ' + w[:260].replace('\n', ' '))
    txt = COMMON.format(wt=f'/tmp/wt/{i}', id=i, title=p['title'], statement=p['statement'], quant=p['quantifier']['text'],
                        anchors=json.dumps(p.get('anchors')), out=f'/tmp/wt/{i}.out', tried='\n'.join(tried) or '- (none)')
    open(os.path.join(out, f'{i}.task.md'), 'w').write(txt)
    print(os.path.join(out, f'{i}.task.md'))
