#!/bin/sh
# run_all.sh [tier] : every claimed check once (seed 1); prints one line per property and the VIOLATION lines
T="${1:-quick}"
cd "$(dirname "$0")/.."
for p in C01 C02 C03 C04 C05 C06 C07 C08 C09 C10 C11 C12 C13 C14 C15 C16 C17 C18 C19 C20; do
  ./check $p --tier $T 2>&1 | grep -E "^C[0-9]+ tier|VIOLATION" | cut -c1-220
done
