#!/bin/sh
# confirm_mutant.sh <seeded dir> [patch file name] : in a scratch worktree of /repo, apply the patch and run the 43-test baseline
# and the 44 feature-gated unit tests (both must still pass); writes <seeded dir>/confirm.log ; removes the worktree afterwards.
set -u
D="$1"; P="${2:-patch.diff}"
W=/tmp/confirm_$$
git -C /repo worktree add -q --detach "$W" HEAD || exit 2
( cd "$W" && git apply "$OLDPWD/$D/$P" ) || { echo "patch does not apply" > "$D/confirm.log"; git -C /repo worktree remove --force "$W"; exit 2; }
run_suites() {
  ( cd "$W" && CARGO_TARGET_DIR=/tmp/confirm_target cargo test --workspace --no-fail-fast --offline --lib 2>&1 | grep -E "^test result|FAILED|error(\[|:)" )
  ( cd "$W" && CARGO_TARGET_DIR=/tmp/confirm_target cargo test -p ohkami --features rt_tokio,DEBUG,sse,openapi --lib --offline 2>&1 | grep -E "^test result|FAILED|error(\[|:)" )
}
{
  echo "== patch $P applied on $(git -C /repo rev-parse --short HEAD)"
  OUT="$(run_suites)"
  # one test binds a fixed TCP port and another straddles a second boundary: when other suites run at the same time either may fail spuriously; run once more
  if echo "$OUT" | grep -q FAILED; then echo "(first run had a failure, running again)"; sleep 3; OUT="$(run_suites)"; fi
  echo "$OUT"
} > "$D/confirm.log" 2>&1
git -C /repo worktree remove --force "$W"
cat "$D/confirm.log"
