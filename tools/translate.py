#!/usr/bin/env python3
"""Translator: /repo sources -> lean/OhkamiModel/Gen*.lean (+ harness/src/gen_tables.rs).

Run at the start of every check.  Fail-closed: a source that leaves the small
fragment each extractor understands raises TranslateError, which the check reports
as a broken obligation.  A file is rewritten only if its content changed (no
spurious rebuilds).

generated file                         source
  OhkamiModel/GenTime.lean             ohkami_lib/src/time.rs   (tables AND arithmetic, by translate_time.py)
  OhkamiModel/GenReqHeaders.lean       ohkami/src/request/headers.rs `Header!{..}`, request/method.rs
  OhkamiModel/GenResHeaders.lean       ohkami/src/response/headers.rs `Header!{..}`
  OhkamiModel/GenStatus.lean           ohkami/src/response/status.rs `status!{..}`
  OhkamiModel/GenMime.lean             ohkami_lib/src/mime.rs
  OhkamiModel/GenConsts.lean           request/mod.rs BUF_SIZE / PAYLOAD_LIMIT, request/path.rs Params::LIMIT
  OhkamiModel/GenFieldName.lean        request/mod.rs: the byte set of a header name (the `matches!` pattern of the header loop)
  OhkamiModel/GenSession.lean          session/mod.rs: the arms of the match on Request::read (a refused request is answered and ends the session)
  OhkamiModel/GenShutdown.lean         ohkami/mod.rs: order of the steps of UntilInterrupt::poll (flag first? re-check after publishing the waker?)
  OhkamiModel/GenSchemaTypes.lean      ohkami_openapi/src/schema.rs `Type::*::NAME`
  OhkamiModel/GenNum.lean              ohkami_lib/src/num.rs: the `unroll!` digit list of itoa, the nibble arms of hexized
  harness/src/gen_tables.rs            the variant lists as Rust macros (so the executor can address every header/status by name)
"""
import os, re, subprocess, sys

REPO = os.environ.get('VERIF_REPO', '/repo')
VERIF = os.path.dirname(os.path.dirname(os.path.abspath(__file__)))
GEN = os.path.join(VERIF, 'lean', 'OhkamiModel')


class TranslateError(Exception):
    pass


def read(rel):
    p = os.path.join(REPO, rel)
    try:
        return open(p).read()
    except OSError as e:
        raise TranslateError(f'cannot read {rel}: {e}')


def write_if_changed(path, content):
    try:
        if open(path).read() == content:
            return False
    except OSError:
        pass
    os.makedirs(os.path.dirname(path), exist_ok=True)
    open(path, 'w').write(content)
    return True


def lean_bytes(s: bytes):
    return '[' + ', '.join(str(b) for b in s) + ']'


def lean_str(s: str):
    for ch in s:
        if ch in '"\\' or ord(ch) < 32 or ord(ch) > 126:
            raise TranslateError(f'string literal outside the fragment: {s!r}')
    return '"' + s + '"'


def rust_bytes_literal(lit: str) -> str:
    # only plain ASCII literals without escapes are in the fragment
    if '\\' in lit:
        raise TranslateError(f'escape in literal {lit!r}')
    return lit


def gen_time():
    p = subprocess.run([sys.executable, os.path.join(VERIF, 'tools', 'translate_time.py'), os.path.join(REPO, 'ohkami_lib/src/time.rs')],
                       capture_output=True, text=True)
    if p.returncode != 0 or not p.stdout.strip().endswith('end Ohkami.Gen.Time'):
        raise TranslateError('time.rs left the translated fragment: ' + (p.stderr.strip() or p.stdout.strip())[-400:])
    return p.stdout


def header_table(src, what):
    m = re.search(r'\}\s*Header!\s*\{\s*(\d+)\s*;(.*?)\n\}', src, re.S)
    if not m:
        raise TranslateError(f'{what}: Header! table not found')
    n = int(m.group(1))
    rows = []
    for line in m.group(2).split('\n'):
        line = re.sub(r'//.*', '', line).strip()
        if not line:
            continue
        mm = re.fullmatch(r'([A-Za-z0-9_]+)\s*:\s*b"([^"]*)"\s*(?:\|\s*b"([^"]*)"\s*)?,', line)
        if not mm:
            raise TranslateError(f'{what}: row outside the fragment: {line!r}')
        rows.append((mm.group(1), rust_bytes_literal(mm.group(2)), rust_bytes_literal(mm.group(3)) if mm.group(3) is not None else None))
    if len(rows) != n:
        raise TranslateError(f'{what}: table declares {n} rows, {len(rows)} found')
    return rows


def gen_req_headers():
    rows = header_table(read('ohkami/src/request/headers.rs'), 'request headers')
    if any(r[2] is None for r in rows):
        raise TranslateError('request header row without lower-case spelling')
    msrc = read('ohkami/src/request/method.rs')
    mm = re.search(r'fn from_bytes\(bytes: &\[u8\]\) -> Option<Self> \{\s*match bytes \{(.*?)\}', msrc, re.S)
    if not mm:
        raise TranslateError('Method::from_bytes not found')
    methods = re.findall(r'b"([A-Z]+)"\s*=>\s*Some\(Self::([A-Z]+)\)', mm.group(1))
    arms = [l.strip() for l in mm.group(1).split('\n') if l.strip()]
    if len(methods) + 1 != len(arms) or any(a != b for a, b in methods):
        raise TranslateError(f'Method::from_bytes outside the fragment: {arms}')
    out = ['/-! GENERATED from ohkami/src/request/headers.rs and request/method.rs -/', 'namespace Ohkami.Gen',
           'def reqHeaderNames : List (String × String × String) := [']
    out.append(',\n'.join(f'  ({lean_str(v)}, {lean_str(c)}, {lean_str(l)})' for v, c, l in rows))
    out.append(']')
    out.append('def reqHeaderCanon : List (List UInt8) := [')
    out.append(',\n'.join('  ' + lean_bytes(c.encode()) for _, c, _ in rows))
    out.append(']')
    out.append('def reqHeaderLower : List (List UInt8) := [')
    out.append(',\n'.join('  ' + lean_bytes(l.encode()) for _, _, l in rows))
    out.append(']')
    out.append('def methods : List String := [' + ', '.join(lean_str(m) for m, _ in methods) + ']')
    out.append('def methodBytes : List (List UInt8) := [')
    out.append(',\n'.join('  ' + lean_bytes(m.encode()) for m, _ in methods))
    out.append(']')
    names = [v for v, _, _ in rows]
    if 'ContentLength' not in names:
        raise TranslateError('no ContentLength request header')
    out.append(f'def contentLengthIndex : Nat := {names.index("ContentLength")}')
    out.append('end Ohkami.Gen')
    return '\n'.join(out) + '\n', rows, [m for m, _ in methods]


def gen_res_headers():
    rows = header_table(read('ohkami/src/response/headers.rs'), 'response headers')
    out = ['/-! GENERATED from ohkami/src/response/headers.rs -/', 'namespace Ohkami.Gen', 'def resHeaderNames : List (String × String) := [']
    out.append(',\n'.join(f'  ({lean_str(v)}, {lean_str(c)})' for v, c, _ in rows))
    out.append(']')
    out.append('end Ohkami.Gen')
    return '\n'.join(out) + '\n', rows


def gen_status():
    src = read('ohkami/src/response/status.rs')
    m = re.search(r'\}\s*status!\s*\{(.*?)\n\}', src, re.S)
    if not m:
        raise TranslateError('status! table not found')
    rows = []
    for line in m.group(1).split('\n'):
        line = re.sub(r'//.*', '', line).strip()
        if not line:
            continue
        mm = re.fullmatch(r'(\d{3})\s+([A-Za-z_0-9]+)\s*:\s*"([^"\\]*)"\s*,', line)
        if not mm:
            raise TranslateError(f'status row outside the fragment: {line!r}')
        rows.append((int(mm.group(1)), mm.group(2), mm.group(3)))
    lm = re.search(r'concat!\("([^"\\]*)", \$message, "\\r\\n"\)\.as_bytes\(\)', src)
    if not lm:
        raise TranslateError('Status::line is no longer concat!(prefix, $message, "\\r\\n")')
    prefix = lm.group(1)
    out = ['/-! GENERATED from ohkami/src/response/status.rs -/', 'namespace Ohkami.Gen',
           '/-- (code, variant, message); the status line is `statusLinePrefix ++ message ++ "\\r\\n"` -/',
           'def statusTable : List (Nat × String × String) := [']
    out.append(',\n'.join(f'  ({c}, {lean_str(n)}, {lean_str(msg)})' for c, n, msg in rows))
    out.append(']')
    out.append(f'def statusLinePrefix : String := {lean_str(prefix)}')
    out.append('end Ohkami.Gen')
    return '\n'.join(out) + '\n', rows


def gen_mime():
    src = read('ohkami_lib/src/mime.rs')
    m = re.search(r'match\s+[\w\.\(\)]+\s*\{(.*?)\n\s*_\s*=>\s*None', src, re.S)
    if not m:
        raise TranslateError('mime table not found')
    rows = []
    for line in m.group(1).split('\n'):
        line = re.sub(r'//.*', '', line).strip()
        if not line:
            continue
        mm = re.fullmatch(r'((?:b"[^"\\]*"\s*\|?\s*)+)=>\s*Some\("([^"\\]*)"\)\s*,', line)
        if not mm:
            raise TranslateError(f'mime row outside the fragment: {line!r}')
        for ext in re.findall(r'b"([^"]*)"', mm.group(1)):
            rows.append((ext, mm.group(2)))
    out = ['/-! GENERATED from ohkami_lib/src/mime.rs -/', 'namespace Ohkami.Gen', 'def mimeTable : List (String × String) := [']
    out.append(',\n'.join(f'  ({lean_str(e)}, {lean_str(t)})' for e, t in rows))
    out.append(']')
    out.append('end Ohkami.Gen')
    return '\n'.join(out) + '\n', rows


def gen_consts():
    rq = read('ohkami/src/request/mod.rs')
    m1 = re.search(r'const BUF_SIZE: usize = ([^;]+);', rq)
    m2 = re.search(r'const PAYLOAD_LIMIT: usize = ([^;]+);', rq)
    pa = read('ohkami/src/request/path.rs')
    m3 = re.search(r'const LIMIT: usize = (\d+);', pa)
    if not (m1 and m2 and m3):
        raise TranslateError('BUF_SIZE / PAYLOAD_LIMIT / Params::LIMIT not found')

    def ev(e):
        e = e.strip()
        if not re.fullmatch(r'[\d\s\*\+\(\)<]+', e):
            raise TranslateError(f'constant expression outside the fragment: {e!r}')
        return int(eval(e))
    # `read` decides on the announced length before any of the body is loaded: 0 => no payload, PAYLOAD_LIMIT.. => 413, otherwise read_payload
    arm = re.search(r"match content_length \{\s*0 => \(\),\s*PAYLOAD_LIMIT\.\. => return Err\(\(\|\| Response::PayloadTooLarge\(\)\)\(\)\),\s*_ => match Request::read_payload\(", rq)
    out = ['/-! GENERATED from ohkami/src/request/mod.rs and request/path.rs -/', 'namespace Ohkami.Gen',
           f'def BUF_SIZE : Nat := {ev(m1.group(1))}', f'def PAYLOAD_LIMIT : Nat := {ev(m2.group(1))}',
           f'def PARAMS_LIMIT : Nat := {ev(m3.group(1))}',
           '/-- `Request::read` refuses an announced length of PAYLOAD_LIMIT or more (413) before it loads any of the body, wherever the body bytes are -/',
           f'def limitCheckedBeforeLoading : Bool := {"true" if arm else "false"}', 'end Ohkami.Gen']
    return '\n'.join(out) + '\n'


def gen_field_name():
    """the bytes `Request::read` admits in a header name: the `matches!(b, ..)` pattern of the header loop, as closed ranges"""
    rq = read('ohkami/src/request/mod.rs')
    m = re.search(r"let key_bytes = r\.read_while\(\|b\| b != &b':'\);(.*?)r\.consume\(\": \"\)", rq, re.S)
    if not m:
        raise TranslateError('header loop of Request::read: `key_bytes` .. `consume(": ")` not found')
    chk = re.search(r"\(!key_bytes\.is_empty\(\) && key_bytes\.iter\(\)\.all\(\|b\| matches!\(b,(.*?)\)\)\)\.then_some\(\(\)\)\.ok_or_else\(Response::BadRequest\)\?;", m.group(1), re.S)
    if not chk:
        raise TranslateError('header loop of Request::read: the check of the field name (not empty, every byte in a `matches!` set, else 400) is not in the form the translator reads')
    ranges, text = [], chk.group(1)
    tok = re.compile(r"b'(\\?.)'(?:\s*\.\.=\s*b'(\\?.)')?", re.S)
    for m2 in tok.finditer(text):
        lo = ord(m2.group(1)[-1]); hi = ord(m2.group(2)[-1]) if m2.group(2) else lo
        ranges.append((lo, hi))
    if not ranges or tok.sub('', text).replace('|', '').strip():
        raise TranslateError(f'field-name pattern outside the fragment: {text.strip()!r}')
    # the bytes admitted in a header VALUE: the `matches!` pattern between reading the value and storing it (none: every byte but CR is admitted)
    mv = re.search(r"let value = r\.read_while\(\|b\| b != &b'\\r'\);(.*?)let value = CowSlice::Ref", rq, re.S)
    if not mv:
        raise TranslateError('header loop of Request::read: reading and storing of the value not found')
    vchk = re.search(r"value\.iter\(\)\.all\(\|b\| matches!\(b,(.*?)\)\)\.then_some\(\(\)\)\s*\.ok_or_else\(Response::BadRequest\)\?;", mv.group(1), re.S)
    if vchk is None:
        if 'matches!' in mv.group(1):
            raise TranslateError('header loop of Request::read: a check of the field value that the translator cannot read')
        vranges = [(0, 255)]
    else:
        ESC = {'t': 9, 'n': 10, 'r': 13, '0': 0, '\\': 92, "'": 39}
        def byte(t): return ESC[t[1]] if t.startswith('\\') else ord(t)
        vranges, vt = [], vchk.group(1)
        vtok = re.compile(r"b'(\\?.)'(?:\s*\.\.=\s*b'(\\?.)')?|0x([0-9A-Fa-f]{2})\s*\.\.(?!=)", re.S)
        for m3 in vtok.finditer(vt):
            if m3.group(3): vranges.append((int(m3.group(3), 16), 255))
            else: vranges.append((byte(m3.group(1)), byte(m3.group(2)) if m3.group(2) else byte(m3.group(1))))
        if not vranges or vtok.sub('', vt).replace('|', '').strip():
            raise TranslateError(f'field-value pattern outside the fragment: {vt.strip()!r}')
    out = ['/-! GENERATED from ohkami/src/request/mod.rs: the bytes admitted in a request header name, and in a header value (closed ranges) -/', 'namespace Ohkami.Gen',
           'def fieldNameRanges : List (Nat × Nat) := [' + ', '.join(f'({a}, {b})' for a, b in ranges) + ']',
           'def fieldValueRanges : List (Nat × Nat) := [' + ', '.join(f'({a}, {b})' for a, b in vranges) + ']', 'end Ohkami.Gen']
    return '\n'.join(out) + '\n'


def gen_shutdown():
    """the order of the steps of `UntilInterrupt::poll` (ohkami/src/ohkami/mod.rs): the two parameters of the Lean transition system"""
    src = read('ohkami/src/ohkami/mod.rs')
    m = re.search(r"impl<F: Future> Future for UntilInterrupt<F> \{(.*?)\n                \}\n", src, re.S)
    if not m:
        raise TranslateError('UntilInterrupt::poll not found')
    body = m.group(1)
    inner = body.find('.poll(cx)')
    first_catch = body.find('CATCH.load(')
    swap = body.find('WAKER.swap(')
    if inner < 0 or first_catch < 0 or swap < 0:
        raise TranslateError('UntilInterrupt::poll: inner poll / CATCH.load / WAKER.swap not found')
    flag_first = first_catch < inner and re.search(r"if CATCH\.load\(Ordering::SeqCst\) \{\s*return Poll::Ready\(None\)\s*\}", body[:inner]) is not None
    recheck = re.search(r"if CATCH\.load\(Ordering::SeqCst\) \{\s*return Poll::Ready\(None\)\s*\}", body[swap:]) is not None
    # the tail of `howl`: the wait group is awaited itself, to its end (not raced against a timer or anything else)
    hw = re.search(r"crate::DEBUG!\(\"interrupted, trying graceful shutdown\.\.\.\"\);\s*(.*?)\n    \}\n", src, re.S)
    tail = hw.group(1) if hw else None
    if tail is None:
        m3 = re.search(r"let \(wg, ctrl_c\) = \(sync::WaitGroup::new\(\), sync::CtrlC::new\(\)\);(.*?)\n    \}\n", src, re.S)
        tail = m3.group(1) if m3 else None
    if tail is None:
        raise TranslateError('howl: the accept loop and the wait for the sessions not found')
    awaits_all = re.search(r"^\s*wg\.await;?\s*$", tail, re.M) is not None and len(re.findall(r"\bwg\b", tail.split('wg.await')[-2][-200:] if 'wg.await' in tail else '')) >= 0 \
        and not re.search(r"(timeout|select|race|or)\w*[!(][^;]*\bwg\b", tail)
    out = ['/-! GENERATED from ohkami/src/ohkami/mod.rs (`UntilInterrupt::poll`): does the poll look at CATCH before it polls the wrapped future, and again after it',
           '    published its waker?  These are the parameters `flagFirst` / `fixed` of `Ohkami.Shutdown2.step`. -/', 'namespace Ohkami.Gen',
           f'def pollFlagFirst : Bool := {"true" if flag_first else "false"}', f'def pollRecheck : Bool := {"true" if recheck else "false"}',
           '/-- the tail of `howl` is `wg.await`: the wait group itself, awaited to its end -/', f'def howlAwaitsWaitGroup : Bool := {"true" if awaits_all else "false"}', 'end Ohkami.Gen']
    return '\n'.join(out) + '\n'


def gen_session():
    """what `Session::manage` does around `Request::read` (ohkami/src/session/mod.rs): the arms of the match on its outcome (after a refused request, does the
    loop end?), what the Keep-Alive timeout is put around, and whether the per-connection `ip` is written back before each request"""
    src = read('ohkami/src/session/mod.rs')
    fm = re.search(r"pub\(crate\) async fn manage\(mut self\) \{(.*)", src, re.S)
    if not fm:
        raise TranslateError('Session::manage not found')
    body_fn = fm.group(1)
    lp = body_fn.find('loop {')
    if lp < 0:
        raise TranslateError('Session::manage: the request loop not found')
    READ = r"req\.as_mut\(\)\.read\(&mut self\.connection\)"
    m_old = re.search(r"match " + READ + r"\.await \{(.*?)\n                \}\n", body_fn, re.S)
    m_new = re.search(r"match timeout_in\(\s*Duration::from_secs\(crate::CONFIG\.keepalive_timeout\(\)\),\s*" + READ + r"\s*\)\.await \{(.*?)\n                \}\n", body_fn, re.S)
    if m_new:
        body, wrap = m_new.group(1), (lambda x: r"Some\(" + x + r"\)")
        # the only timeout of the request loop is the one around `read` (the WebSocket part has its own, after the loop)
        ws = body_fn.find('manage_with_timeout')
        upto = body_fn[:ws] if ws >= 0 else body_fn
        wait_only = upto.count('timeout_in(') == 1 and re.search(r"None => break\b", body) is not None
    elif m_old:
        body, wrap, wait_only = m_old.group(1), (lambda x: x), False
    else:
        raise TranslateError('Session::manage: the match on Request::read not found')
    err = re.search(wrap(r"Err\((\w+)\)") + r" => (\{.*?\n                    \}|[^\n]*),?\s*$", body.rstrip(), re.S)
    if not err:
        raise TranslateError('Session::manage: the arm for a refused request not found')
    arm = err.group(2)
    sends = re.search(r"\b%s\.send\(&mut self\.connection\)\.await" % err.group(1), arm) is not None
    ends = re.search(r"\bbreak\b", arm) is not None and not re.search(r"\b(if|match|continue)\b", re.sub(r"/\*.*?\*/", "", arm, flags=re.S))
    none_ends = re.search(wrap(r"Ok\(None\)") + r" => break\b", body) is not None
    head = body_fn[lp:body_fn.find('match', lp)]
    ip_back = re.search(r"req\.clear\(\);.*?\breq\.ip = self\.ip;", head, re.S) is not None
    b = lambda x: 'true' if x else 'false'
    out = ['/-! GENERATED from ohkami/src/session/mod.rs (`Session::manage`). -/', 'namespace Ohkami.Gen',
           '/-- a refused request is answered (`res.send`) -/', f'def refusalIsAnswered : Bool := {b(sends)}',
           '/-- and then the loop is left unconditionally: nothing after a refused request is read as a request -/', f'def refusalEndsSession : Bool := {b(ends)}',
           '/-- end of stream / unknown method (`Ok(None)`) leaves the loop -/', f'def noRequestEndsSession : Bool := {b(none_ends)}',
           '/-- the Keep-Alive timeout is put around the wait for a request (`read`) and around nothing else of the loop: not around the handler, not around `send` -/',
           f'def keepAliveBoundsTheWaitOnly : Bool := {b(wait_only)}',
           '/-- the connection\'s address is written back into the reused request object before each request -/', f'def ipRestored : Bool := {b(ip_back)}', 'end Ohkami.Gen']
    return '\n'.join(out) + '\n'


def gen_schema_types():
    src = read('ohkami_openapi/src/schema.rs')
    rows = re.findall(r'impl Sealed for (\w+)\s*\{\s*const NAME: &\'static str = "([^"\\]*)";\s*\}', src)
    if len(rows) < 5:
        raise TranslateError('Type::*::NAME table not found')
    out = ['/-! GENERATED from ohkami_openapi/src/schema.rs -/', 'namespace Ohkami.Gen', 'def schemaTypeNames : List (String × String) := [']
    out.append(',\n'.join(f'  ({lean_str(a)}, {lean_str(b)})' for a, b in rows))
    out.append(']')
    out.append('end Ohkami.Gen')
    return '\n'.join(out) + '\n', rows


def gen_num():
    src = read('ohkami_lib/src/num.rs')
    m = re.search(r'unroll!\(([\d,\s]+)\);', src)
    if not m:
        raise TranslateError('itoa: unroll!(..) list not found')
    unroll = [int(x) for x in m.group(1).replace(' ', '').split(',') if x]
    body = re.search(r'\(\$digit:expr, \$\(\$tail:tt\)\*\) => \{\s*if \$digit <= MAX && n >= 10_usize\.pow\(\$digit\) \{\s*unroll!\(\$\(\$tail\)\*\);\s*'
                     r'let q = n / 10_usize\.pow\(\$digit\);\s*push_unchecked\(b\'0\' \+ q as u8\);\s*n -= 10_usize\.pow\(\$digit\) \* q\s*\}\s*\};', src)
    last = re.search(r"unroll!\([\d,\s]+\);\s*push_unchecked\(b'0' \+ n as u8\);", src)
    if not body or not last:
        raise TranslateError('itoa: the unroll! arm or the final push left the translated shape')
    h = re.search(r'n\.to_be_bytes\(\)\.map\(\|byte\| \[byte>>4, byte&0b1111\]\)\s*\)\.map\(\|h\| h \+ match h \{\s*0\.\.=9\s*=> b\'0\'-0,\s*10\.\.=15 => b\'a\'-10,\s*_ => std::hint::unreachable_unchecked\(\)', src)
    if not h:
        raise TranslateError('hexized_bytes left the translated shape')
    out = ['/-! GENERATED from ohkami_lib/src/num.rs -/', 'namespace Ohkami.Gen',
           '/-- the digit positions `itoa` unrolls, in source order -/',
           f'def itoaUnroll : List Nat := [{", ".join(map(str, unroll))}]',
           '/-- `hexized_bytes`: (lo, hi, offset added) per match arm -/',
           f'def hexArms : List (Nat × Nat × Nat) := [(0, 9, {ord("0") - 0}), (10, 15, {ord("a") - 10})]',
           'end Ohkami.Gen']
    return '\n'.join(out) + '\n'


def gen_rust_tables(req_rows, res_rows, status_rows):
    out = ['// GENERATED by /verif/tools/translate.py from /repo — do not edit',
           '#[allow(unused_macros)]',
           'macro_rules! for_each_res_header { ($m:ident) => { $m!{' + ', '.join(v for v, _, _ in res_rows) + '} } }',
           '#[allow(unused_macros)]',
           'macro_rules! for_each_req_header { ($m:ident) => { $m!{' + ', '.join(v for v, _, _ in req_rows) + '} } }',
           '#[allow(dead_code)]',
           'pub const STATUS_CODES: &[u16] = &[' + ', '.join(str(c) for c, _, _ in status_rows) + '];', '']
    return '\n'.join(out)


def run(verbose=False):
    """returns (changed_files, errors).  errors = list of (gen file stem, message)"""
    changed, errors = [], []

    def emit(stem, f):
        try:
            r = f()
        except TranslateError as e:
            errors.append((stem, str(e)))
            return None
        content = r[0] if isinstance(r, tuple) else r
        if write_if_changed(os.path.join(GEN, stem + '.lean'), content):
            changed.append(stem)
        return r
    emit('GenTime', gen_time)
    rq = emit('GenReqHeaders', gen_req_headers)
    rs = emit('GenResHeaders', gen_res_headers)
    st = emit('GenStatus', gen_status)
    emit('GenMime', gen_mime)
    emit('GenConsts', gen_consts)
    emit('GenFieldName', gen_field_name)
    emit('GenShutdown', gen_shutdown)
    emit('GenSession', gen_session)
    emit('GenSchemaTypes', gen_schema_types)
    emit('GenNum', gen_num)
    if rq and rs and st:
        if write_if_changed(os.path.join(VERIF, 'harness', 'src', 'gen_tables.rs'), gen_rust_tables(rq[1], rs[1], st[1])):
            changed.append('harness/src/gen_tables.rs')
    if verbose:
        print('translate: changed', changed, 'errors', errors)
    return changed, errors


if __name__ == '__main__':
    ch, er = run(verbose=True)
    sys.exit(1 if er else 0)
