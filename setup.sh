#!/bin/sh
# MANIFEST.setup_cmd — offline: regenerate the translated tables, build every Lean module (models, proofs, driver)
# and the Rust harness against /repo's working tree.
set -e
cd "$(dirname "$0")"
export CARGO_NET_OFFLINE=true
python3 tools/translate.py
( cd lean && lake build OhkamiModel Proofs driver )
[ -f harness/Cargo.lock ] || cp /repo/Cargo.lock harness/Cargo.lock
( cd harness && cargo build --offline )
python3 tools/sync_c16.py >/dev/null
[ -f harness_c16/Cargo.lock ] || cp /repo/Cargo.lock harness_c16/Cargo.lock
( cd harness_c16 && cargo build --offline )
echo "setup done"
