//! serde's own reading of a type definition: names written / read, skip flags, defaults — through serde_derive's `internals`
#![allow(dead_code, unused_imports, mismatched_lifetime_syntaxes, clippy::all)]
mod internals;
#[path = "internals/case.rs"] mod serde_case;
use serde_json::{json, Value};

pub fn rename(rule: &str, ident: &str, field: bool) -> Option<String> {
    let r = serde_case::RenameRule::from_str(rule).ok()?;
    Some(if field { r.apply_to_field(ident) } else { r.apply_to_variant(ident) })
}

pub fn view(src: &str) -> Value {
    use internals::{ast::{Container, Data, Style}, attr, Ctxt, Derive};
    let input: syn::DeriveInput = match syn::parse_str(src) { Ok(i) => i, Err(e) => return json!({"error": format!("parse: {e}")}) };
    let view = |derive: Derive| -> Value {
        let cx = Ctxt::new();
        let cont = Container::from_ast(&cx, &input, derive, &syn::parse_quote!(_serde));
        let errs = cx.check().err().map(|e| e.to_string());
        let Some(cont) = cont else { return json!({"error": errs}) };
        if let Some(e) = errs { return json!({"error": e}) }
        let field = |f: &internals::ast::Field| { let tys = quote::ToTokens::to_token_stream(f.ty).to_string(); let is_opt = tys.starts_with("Option <") || tys.contains(":: Option <"); json!({
            "ser": f.attrs.name().serialize_name().value.clone(), "de": f.attrs.name().deserialize_name().value.clone(),
            "skip_ser": f.attrs.skip_serializing(), "skip_de": f.attrs.skip_deserializing(), "default": !f.attrs.default().is_none(),
            "skip_if": f.attrs.skip_serializing_if().is_some(), "flatten": f.attrs.flatten(), "option": is_opt}) };
        let style = |s: &Style| match s { Style::Struct => "struct", Style::Tuple => "tuple", Style::Newtype => "newtype", Style::Unit => "unit" };
        let data = match &cont.data {
            Data::Struct(s, fields) => json!({"struct": style(s), "fields": fields.iter().map(field).collect::<Vec<_>>()}),
            Data::Enum(vs) => json!({"enum": vs.iter().map(|v| json!({"ser": v.attrs.name().serialize_name().value.clone(), "de": v.attrs.name().deserialize_name().value.clone(),
                "skip_ser": v.attrs.skip_serializing(), "skip_de": v.attrs.skip_deserializing(), "style": style(&v.style), "fields": v.fields.iter().map(field).collect::<Vec<_>>()})).collect::<Vec<_>>()}),
        };
        let tag = match cont.attrs.tag() { attr::TagType::External => json!("external"), attr::TagType::Internal { tag } => json!({"internal": tag}),
            attr::TagType::Adjacent { tag, content } => json!({"adjacent": [tag, content]}), attr::TagType::None => json!("untagged") };
        json!({"data": data, "tag": tag, "container_default": !cont.attrs.default().is_none(), "transparent": cont.attrs.transparent()})
    };
    json!({"ser": view(Derive::Serialize), "de": view(Derive::Deserialize)})
}
