//! reads the builder expression that derive(Schema) generated back into a plain shape (JSON), by walking its syntax tree:
//!   {"obj": [ {"name","required","schema"} | {"flatten": schema} ... ]}   object() with .property / .optional and the flatten loop
//!   {"enum": [names]}  string().enumerates([...])        {"oneOf": [...]}        {"array": schema}        {"str": true}
//!   {"ty": "<type text>"}   <T as Schema>::schema() taken inline       {"const": "text"}   a string literal used as a schema
//!   {"with": "path"}   schema_with function          {"component": name, "schema": ...}        {"via": "<type text>"}  from / into / try_from
//! anything it does not recognise becomes {"unknown": "<token text>"} (the orchestrator counts these as unread, never as agreement)
use quote::ToTokens;
use serde_json::{json, Value};
use syn::{Expr, Stmt};

fn text<T: ToTokens>(t: &T) -> String { t.to_token_stream().to_string() }
fn last_seg(p: &syn::Path) -> String { p.segments.last().map(|s| s.ident.to_string()).unwrap_or_default() }
fn lit_str(e: &Expr) -> Option<String> { if let Expr::Lit(l) = e { if let syn::Lit::Str(s) = &l.lit { return Some(s.value()) } } None }

pub fn of_impl(tokens: proc_macro2::TokenStream) -> Value {
    let item: syn::ItemImpl = match syn::parse2(tokens) { Ok(i) => i, Err(e) => return json!({"unknown": format!("not an impl: {e}")}) };
    for it in &item.items {
        if let syn::ImplItem::Fn(f) = it {
            if f.sig.ident == "schema" {
                if let Some(Stmt::Expr(e, None)) = f.block.stmts.last() { if f.block.stmts.len() == 1 { return of_expr(e) } }
                return json!({"unknown": text(&f.block)});
            }
        }
    }
    json!({"unknown": "no fn schema"})
}

fn add(mut base: Value, entry: Value) -> Value {
    if base.get("obj").is_none() { return json!({"extend": base, "entry": entry}) }       // Schema::<object>::from(RawSchema::from(X)).property(..)
    match base.get_mut("obj").and_then(|o| o.as_array_mut()) { Some(a) => { a.push(entry); base } None => json!({"unknown": format!("property on a non-object {base}")}) }
}

pub fn of_expr(e: &Expr) -> Value {
    if let Some(t) = qself_ty(e) { return json!({"ty": t}) }
    match e {
        Expr::Paren(p) => of_expr(&p.expr),
        Expr::Group(g) => of_expr(&g.expr),
        Expr::Lit(_) => match lit_str(e) { Some(s) => json!({"const": s}), None => json!({"unknown": text(e)}) },
        Expr::Block(b) => of_block(&b.block),
        Expr::Call(c) => {
            let Expr::Path(f) = &*c.func else { return json!({"unknown": text(e)}) };
            let name = last_seg(&f.path);
            let args: Vec<&Expr> = c.args.iter().collect();
            let ohkami = f.path.segments.first().map(|s| s.ident == "ohkami").unwrap_or(false);
            match (ohkami, name.as_str(), args.len()) {
                (true, "object", 0) => json!({"obj": []}),
                (true, "string", 0) => json!({"str": true}),
                (true, "array", 1) => json!({"array": of_expr(args[0])}),
                (true, "oneOf", 1) | (true, "anyOf", 1) => match args[0] { Expr::Tuple(t) => json!({name.as_str(): t.elems.iter().map(of_expr).collect::<Vec<_>>()}), o => json!({name.as_str(): [of_expr(o)]}) },
                (true, "component", 2) => json!({"component": lit_str(args[0]), "schema": of_expr(args[1])}),
                (true, "from", 1) => of_expr(args[0]),                                      // Schema::<Type::any>::from(<T as Schema>::schema().into().into_inline().unwrap())
                (false, _, 0) => json!({"with": text(&f.path).replace(' ', "")}),
                _ => json!({"unknown": text(e)}),
            }
        }
        Expr::MethodCall(m) => {
            let args: Vec<&Expr> = m.args.iter().collect();
            match (m.method.to_string().as_str(), args.len()) {
                ("into", 0) | ("into_inline", 0) | ("unwrap", 0) => of_expr(&m.receiver),
                ("description", 1) => of_expr(&m.receiver),
                ("property", 2) | ("optional", 2) => match lit_str(args[0]) {
                    Some(n) => add(of_expr(&m.receiver), json!({"name": n, "required": m.method == "property", "schema": of_expr(args[1])})),
                    None => json!({"unknown": text(e)}) },
                ("enumerates", 1) => match (of_expr(&m.receiver), args[0]) {
                    (r, Expr::Array(a)) if r == json!({"str": true}) => { let names: Option<Vec<String>> = a.elems.iter().map(lit_str).collect(); match names { Some(n) => json!({"enum": n}), None => json!({"unknown": text(e)}) } }
                    _ => json!({"unknown": text(e)}) },
                _ => json!({"unknown": text(e)}),
            }
        }
        Expr::Path(_) => json!({"unknown": text(e)}),
        _ => json!({"unknown": text(e)}),
    }
}

/// `<T as ::ohkami::openapi::Schema>::schema()` is an Expr::Call whose function is a qualified path
fn qself_ty(e: &Expr) -> Option<String> {
    if let Expr::Call(c) = e { if let Expr::Path(p) = &*c.func { if let Some(q) = &p.qself { if last_seg(&p.path) == "schema" && c.args.is_empty() { return Some(text(&*q.ty).replace(' ', "")) } } } }
    None
}

fn of_block(b: &syn::Block) -> Value {
    // { let mut schema = object(); (schema = schema.property(..); | for .. in X.into_properties() {..})* schema }
    let mut cur: Option<Value> = None;
    let n = b.stmts.len();
    for (i, s) in b.stmts.iter().enumerate() {
        match s {
            Stmt::Local(l) if i == 0 => { let Some(init) = &l.init else { return json!({"unknown": text(b)}) }; cur = Some(of_expr(&init.expr)); }
            Stmt::Expr(Expr::Assign(a), Some(_)) => {
                // schema = schema.property("n", X)  — the receiver `schema` stands for the object built so far
                let Expr::MethodCall(m) = &*a.right else { return json!({"unknown": text(b)}) };
                let args: Vec<&Expr> = m.args.iter().collect();
                let (Some(name), true) = (args.first().and_then(|x| lit_str(x)), args.len() == 2 && (m.method == "property" || m.method == "optional")) else { return json!({"unknown": text(b)}) };
                cur = cur.map(|c| add(c, json!({"name": name, "required": m.method == "property", "schema": of_expr(args[1])})));
            }
            Stmt::Expr(Expr::ForLoop(f), _) => {
                let Expr::MethodCall(m) = &*f.expr else { return json!({"unknown": text(b)}) };
                if m.method != "into_properties" { return json!({"unknown": text(b)}) }
                // the loop body is `if required {property} else {optional}` — or, for a flattened Option, `optional` alone
                let all_optional = !matches!(f.body.stmts.first(), Some(Stmt::Expr(Expr::If(_), _)));
                let mut inner = of_expr(&m.receiver);
                if all_optional { if let Some(o) = inner.as_object_mut() { o.insert("optional".into(), json!(true)); } }
                cur = cur.map(|c| add(c, json!({"flatten": inner})));
            }
            Stmt::Expr(Expr::Path(_), None) if i == n - 1 => {}
            _ => return json!({"unknown": text(b)}),
        }
    }
    cur.unwrap_or(json!({"unknown": text(b)}))
}

