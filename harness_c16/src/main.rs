//! C16 executor (see Cargo.toml).  One JSON case per line:
//!   {"kind": "case", "rule": "snake_case", "ident": "FooBar", "field": bool}  -> the macro's conversion and serde's conversion
//!   {"kind": "derive", "src": "<a struct or enum item with #[serde(..)] attributes>"} -> what derive(Schema) generates (token text, or its
//!         error / panic) and serde's own reading of the same item (names written / read, skip flags, defaults, per field and variant)
#![allow(dead_code, unused_imports, mismatched_lifetime_syntaxes, non_snake_case, unexpected_cfgs, clippy::all)]
mod util;
mod openapi;
mod shape;
#[path = "openapi/attributes/serde/case.rs"] mod macro_case;

use serde_json::{json, Value};
use std::io::BufRead;
use std::panic::{catch_unwind, AssertUnwindSafe};

fn pm(e: Box<dyn std::any::Any + Send>) -> String { e.downcast_ref::<String>().cloned().or_else(|| e.downcast_ref::<&str>().map(|s| s.to_string())).unwrap_or_else(|| "?".into()) }

fn case(c: &Value) -> Value {
    let (rule, ident, field) = (c["rule"].as_str().unwrap(), c["ident"].as_str().unwrap().to_string(), c["field"].as_bool().unwrap());
    let oc = macro_case::Case::from_str(rule);
    let (id1, id2) = (ident.clone(), ident.clone());
    let got = match oc { None => json!("unknown-rule"), Some(oc) => match catch_unwind(AssertUnwindSafe(move || if field { oc.apply_to_field(&id1) } else { oc.apply_to_variant(&id1) })) { Ok(s) => json!(s), Err(_) => json!({"panic": true}) } };
    let want = match catch_unwind(AssertUnwindSafe(move || serde_view::rename(rule, &id2, field))) { Ok(Some(s)) => json!(s), Ok(None) => json!("unknown-rule"), Err(_) => json!({"panic": true}) };
    json!({"macro": got, "serde": want})
}

fn serde_view(src: &str) -> Value { serde_view::view(src) }

fn derive(c: &Value) -> Value {
    let src = c["src"].as_str().unwrap().to_string();
    let s2 = src.clone();
    let generated = match catch_unwind(AssertUnwindSafe(move || {
        let ts: proc_macro2::TokenStream = match s2.parse() { Ok(t) => t, Err(e) => return json!({"error": format!("lex: {e}")}) };
        match openapi::derive_schema(ts) { Ok(t) => json!({"tokens": t.to_string(), "shape": shape::of_impl(t)}), Err(e) => json!({"error": e.to_string()}) }
    })) { Ok(v) => v, Err(e) => json!({"panic": pm(e)}) };
    let serde = match catch_unwind(AssertUnwindSafe(|| serde_view(&src))) { Ok(v) => v, Err(e) => json!({"panic": pm(e)}) };
    json!({"macro": generated, "serde": serde})
}

fn main() {
    std::panic::set_hook(Box::new(|_| {}));
    let out = std::io::stdout();
    let mut out = std::io::BufWriter::new(out.lock());
    use std::io::Write;
    for line in std::io::stdin().lock().lines() {
        let line = line.unwrap();
        if line.trim().is_empty() { continue }
        let v: Value = serde_json::from_str(&line).unwrap();
        let c = &v["case"];
        let o = match c["kind"].as_str().unwrap() { "case" => case(c), "derive" => derive(c), k => json!({"error": format!("kind {k}")}) };
        writeln!(out, "{}", json!({"id": v["id"], "out": o})).unwrap();
        out.flush().unwrap();      // one answer per line, flushed: a case that kills the process must be the first unanswered one
    }
}
