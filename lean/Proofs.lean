import Proofs.C03
