import Proofs.C02
import Proofs.C03
import Proofs.C09
import Proofs.C12
import Proofs.C13
import Proofs.C17
import Proofs.C18
import Proofs.C20
