import Proofs.C03
import Proofs.C20
