import OhkamiModel.M.SessionProofs
/-! # C06 — property theorems about reads and segmentation in the session-loop model -/
namespace C06
open Ohkami Ohkami.Session

/-- `read_exact` returns exactly the next `n` bytes of the stream, however they are split into chunks, and leaves exactly the rest -/
theorem readExact_flatten : ∀ (cs : List Bytes) (n : Nat) (b : Bytes) (r : List Bytes), readExact n cs = some (b, r) →
    b = cs.flatten.take n ∧ r.flatten = cs.flatten.drop n := by
  intro cs
  induction cs with
  | nil =>
    intro n b r h
    cases n with
    | zero => simp [readExact] at h; obtain ⟨rfl, rfl⟩ := h; simp
    | succ n => simp [readExact] at h
  | cons c rest ih =>
    intro n b r h
    cases n with
    | zero => simp [readExact] at h; obtain ⟨rfl, rfl⟩ := h; simp
    | succ n =>
      rw [readExact] at h
      split at h
      · rename_i hge
        simp only [Option.some.injEq, Prod.mk.injEq] at h
        obtain ⟨rfl, rfl⟩ := h
        constructor
        · simp only [List.flatten_cons]; rw [List.take_append_of_le_length (by omega)]
        · split
          · rename_i heq; simp only [List.flatten_cons]; rw [List.drop_append_of_le_length (by omega), ← heq]; simp
          · simp only [List.flatten_cons]; rw [List.drop_append_of_le_length (by omega)]
      · rename_i hlt
        cases hre : readExact (n + 1 - c.length) rest with
        | none => simp [hre] at h
        | some br =>
          obtain ⟨b', r'⟩ := br
          simp only [hre, Option.map_some, Option.some.injEq, Prod.mk.injEq] at h
          obtain ⟨rfl, rfl⟩ := h
          obtain ⟨h1, h2⟩ := ih _ _ _ hre
          have hlen : c.length < n + 1 := by omega
          constructor
          · simp only [List.flatten_cons]; rw [List.take_append]; simp [List.take_of_length_le (Nat.le_of_lt hlen), h1]
          · simp only [List.flatten_cons]; rw [List.drop_append]; simp [List.drop_of_length_le (Nat.le_of_lt hlen), h2]

/-- the residue theorem holds for every segmentation as well -/
theorem no_residue (app : App) (fuel : Nat) (conn : Conn) :
    run app fuel ⟨none, 0⟩ conn = run (forget app) fuel ⟨none, 0⟩ conn :=
  residue_irrelevant app fuel ⟨none, 0⟩ conn (Or.inl rfl)

end C06
