import OhkamiModel.M.SessionProofs
import OhkamiModel.M.SessionSeg
import OhkamiModel.GenConsts
import OhkamiModel.GenSession
/-! # C06 — property theorems about reads and segmentation in the session-loop model -/
namespace C06
open Ohkami Ohkami.Session

/-- `read_exact` returns exactly the next `n` bytes of the stream, however they are split into chunks, and leaves exactly the rest -/
theorem readExact_flatten : ∀ (cs : List Bytes) (n : Nat) (b : Bytes) (r : List Bytes), readExact n cs = some (b, r) →
    b = cs.flatten.take n ∧ r.flatten = cs.flatten.drop n := by
  intro cs
  induction cs with
  | nil =>
    intro n b r h
    cases n with
    | zero => simp [readExact] at h; obtain ⟨rfl, rfl⟩ := h; simp
    | succ n => simp [readExact] at h
  | cons c rest ih =>
    intro n b r h
    cases n with
    | zero => simp [readExact] at h; obtain ⟨rfl, rfl⟩ := h; simp
    | succ n =>
      rw [readExact] at h
      split at h
      · rename_i hge
        simp only [Option.some.injEq, Prod.mk.injEq] at h
        obtain ⟨rfl, rfl⟩ := h
        constructor
        · simp only [List.flatten_cons]; rw [List.take_append_of_le_length (by omega)]
        · split
          · rename_i heq; simp only [List.flatten_cons]; rw [List.drop_append_of_le_length (by omega), ← heq]; simp
          · simp only [List.flatten_cons]; rw [List.drop_append_of_le_length (by omega)]
      · rename_i hlt
        cases hre : readExact (n + 1 - c.length) rest with
        | none => simp [hre] at h
        | some br =>
          obtain ⟨b', r'⟩ := br
          simp only [hre, Option.map_some, Option.some.injEq, Prod.mk.injEq] at h
          obtain ⟨rfl, rfl⟩ := h
          obtain ⟨h1, h2⟩ := ih _ _ _ hre
          have hlen : c.length < n + 1 := by omega
          constructor
          · simp only [List.flatten_cons]; rw [List.take_append]; simp [List.take_of_length_le (Nat.le_of_lt hlen), h1]
          · simp only [List.flatten_cons]; rw [List.drop_append]; simp [List.drop_of_length_le (Nat.le_of_lt hlen), h2]

/-- the residue theorem holds for every segmentation as well -/
theorem no_residue (app : App) (fuel : Nat) (conn : Conn) :
    run app fuel ⟨none, 0⟩ conn = run (forget app) fuel ⟨none, 0⟩ conn :=
  residue_irrelevant app fuel ⟨none, 0⟩ conn (Or.inl rfl)

/-- **The parsed request does not depend on where the first read ends**, as long as the head is complete in it: whatever part of the body
arrives with the head (`x`) and whatever arrives later (`y`), the request object is the same. -/
theorem parse_split (f x y : Bytes) (p : Http.Parsed) (h : Http.parse f (x ++ y) = .ok p) : Http.parse (f ++ x) y = .ok p :=
  Http.parse_split f x y p h

/-- **Responses are a function of the byte stream** on the class of segmentations the code supports: every request starts a read, its head
lies within that read (at most the buffer), and its body is cut into reads in any way — any amount of it arriving with the head, the rest in
any non-empty pieces (`SegExact`).  The responses written are then `expected` of the requests' bytes alone (`Seg.bytes`): request by request
what the same bytes get as a single read on a fresh connection (C05.one_per_chunk / fresh_connection).  No segmentation appears on the
right-hand side; for every application, any number of requests, any bytes. -/
theorem segmentation_independent (app : App) (segs : List Seg) (hex : ∀ s ∈ segs, SegExact s) (fuel : Nat) (hf : segs.length < fuel) (eof : Bool) :
    (run app fuel ⟨none, 0⟩ ⟨chunksOf segs, eof⟩).1 = expected app (segs.map Seg.bytes) :=
  segmentation_independent' app segs hex fuel hf eof

/-! non-vacuity: a request whose body arrives partly with the head and then in two pieces meets `SegExact` -/
private def postHead : Bytes := [80,79,83,84,32,47,97,32,72,84,84,80,47,49,46,49,13,10,67,111,110,116,101,110,116,45,76,101,110,103,116,104,58,32,51,13,10,13,10]

private theorem post_parse : Http.parse (postHead ++ [97]) [98, 99] = Http.Outcome.ok (⟨"POST", [47, 97], none, [(Gen.contentLengthIndex, [51])], [], some [97, 98, 99]⟩ : Http.Parsed) := by rfl
example : SegExact (postHead ++ [97], [[98], [99]]) := by
  unfold SegExact
  refine ⟨by decide, by decide, by decide, ?_⟩
  have : ([[98], [99]] : List Bytes).flatten = [98, 99] := by decide
  simp only [this, post_parse]; decide

/-- the announced length is judged (413) before any of the body is loaded, wherever its bytes are — the order the session model's `finish` assumes, read off
`Request::read` by the translator on every run: a limit applied only when the body still has to be fetched would make the answer depend on the segmentation -/
theorem source_limits_before_loading : Ohkami.Gen.limitCheckedBeforeLoading = true := by decide

/-- **No byte of a refused request is attributed to another request.**  When the read that starts a request is refused (400, 413, ...), the
response is written and the session ends: whatever follows on the connection — the rest of that request's body, in any pieces, or anything
else — is never read as a request and nothing more is written, for every application and every continuation `junk`.  (Where a refused
request ends is not known to the parser; before fix of `Session::manage` the loop went on and took those bytes for the next request, so the
responses depended on how much of the body had come with the head.) -/
theorem refused_ends_session (app : App) (fuel : Nat) (res : Residue) (f : Bytes) (junk : List Bytes) (eof : Bool) (st : Nat)
    (hne : f ≠ []) (hlen : f.length ≤ BUF) (hp : Http.parse f [] = .reject st) :
    run app (fuel + 1) res ⟨f :: junk, eof⟩ = ([app.reject st], .connClose) := by
  have hrs := readSome_cons f junk hne
  unfold BUF at hrs hlen
  simp only [hlen, if_true, List.take_of_length_le hlen] at hrs
  have hp' := (parse_more f [] junk.flatten).2 st hp
  simp only [List.nil_append] at hp'
  simp only [run, hrs, hp']

/-- the loop the theorems are about is the loop of the source: the arms of the match on `Request::read` in `Session::manage`, read off by the translator on
every run — a refused request is answered, then the loop is left unconditionally; so is it when no request came -/
theorem source_ends_session_after_refusal :
    Ohkami.Gen.refusalIsAnswered = true ∧ Ohkami.Gen.refusalEndsSession = true ∧ Ohkami.Gen.noRequestEndsSession = true := by decide

end C06
