import OhkamiModel.TimeRender
import OhkamiModel.M.Num
/-! # C20 — property theorems.  `fields` is built from definitions TRANSLATED from ohkami_lib/src/time.rs on every run
(GenTime.lean), `itoaGen` / `hexizedGen` run on the digit list and match arms read from ohkami_lib/src/num.rs (GenNum.lean). -/
namespace C20
open Ohkami.Time Ohkami.Num

/-- For every timestamp up to 9999-12-31T23:59:59 `imf_fixdate` writes the 29-byte RFC 9110 IMF-fixdate whose day name,
day, month, year and time of day are those of that instant in the proleptic Gregorian calendar (valid date, right day
number since the civil epoch, weekday = (days + 4) mod 7), and no unchecked access goes out of range. -/
theorem imf_fixdate_exact (t : Nat) (ht : t ≤ 253402300799) :
    let F := fields t
    render F = .ok (imfSpec F)
    ∧ ValidDate F.year (F.monthIdx + 1) F.day
    ∧ dayNumber F.year (F.monthIdx + 1) F.day = t / 86400 + (719163 + 365 + 1)
    ∧ F.wday = (t / 86400 + 4) % 7
    ∧ F.hour = t % 86400 / 3600 ∧ F.min = t % 3600 / 60 ∧ F.sec = t % 60 :=
  Ohkami.Time.imf_fixdate_exact t ht

/-- `itoa` (with the unroll list of the current source) writes the canonical decimal digits of every `usize`, each a single digit -/
theorem itoa_exact (n : Nat) (hn : n < 2 ^ 64) : itoaGen n = digitsBE n ∧ ∀ q ∈ itoaGen n, q < 10 := by
  rw [itoaGen_eq]; exact Ohkami.Num.itoa_exact n hn

/-- `hexized` (with the match arms of the current source) never reaches its unreachable arm and writes the 16-digit
lowercase hexadecimal of every `usize` -/
theorem hexized_exact (n : Nat) : hexizedGen n = some (hexSpec n) := by
  rw [hexizedGen_eq, Ohkami.Num.hexized_exact]

/-- the canonical decimal used as specification is positional notation: its value is `n` and it has no leading zero -/
theorem digitsBE_value (n : Nat) : (digitsBE n).foldl (fun a d => 10 * a + d) 0 = n ∧ (n ≥ 10 → (digitsBE n).head? ≠ some 0) := by
  constructor
  · induction n using Nat.strongRecOn with
    | _ n ih =>
      rw [digitsBE]
      by_cases h : n < 10
      · simp [h]
      · simp only [h, dite_false, List.foldl_append, List.foldl_cons, List.foldl_nil]
        rw [ih (n / 10) (by omega)]; omega
  · induction n using Nat.strongRecOn with
    | _ n ih =>
      intro hn
      rw [digitsBE]
      have h : ¬ n < 10 := by omega
      simp only [h, dite_false]
      by_cases h2 : n / 10 < 10
      · rw [digitsBE]; simp [h2]; omega
      · have := ih (n / 10) (by omega) (by omega)
        cases hd : digitsBE (n / 10) with
        | nil => rw [digitsBE] at hd; split at hd <;> simp at hd
        | cons a l => rw [hd] at this; simpa using this

end C20
