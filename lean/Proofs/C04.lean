import OhkamiModel.P.FangsProofs
import OhkamiModel.P.FangsBuild
import OhkamiModel.P.FangsScopeSearch
/-! # C04 — property theorems about the fang model -/
namespace C04
open Ohkami Ohkami.Fangs

/-- **Onion order**: the processing chain built by `into_proc_with` from a fang list (innermost first, as stored) runs the
fangs outermost first on the way in, the handler, and the same fangs in reverse on the way out -/
theorem onion_order (passes : Nat → Bool) (l : List Nat) (h : Option Nat) :
    intoProc passes l h = onion passes l.reverse h :=
  intoProc_onion passes l h

/-- **An early answer cuts the inside**: when a fang does not pass, nothing inside it (inner fangs, local fangs, handler) runs,
and the fangs outside it still see the way out -/
theorem early_answer_cuts (passes : Nat → Bool) (outer inner : List Nat) (f : Nat) (h : Option Nat) (hf : passes f = false)
    (hout : ∀ g ∈ outer, passes g = true) :
    onion passes (outer ++ f :: inner) h = outer.map .enter ++ [.enter f] ++ outer.reverse.map .leave :=
  early_answer passes outer inner f h hf hout

/-- the trie the fangs are applied to has exactly the flattened routes, for any nesting of mounts (shared with C01) -/
theorem mounts_flatten (cfg : App) (t : BN) (h : build cfg = some t) :
    (routesOfBN t).Perm (flatRoutes cfg) ∧ TreeOK t :=
  routes_build cfg t h

/-- **The registration trie carries exactly the scope chain**: for every application tree under the property's side condition
(`sideCond`: each mount prefix is used by one application and nobody else registers under it) whose applications have distinct
ids, walking the trie that `into_router` builds along any path ends at a node whose fang list is — innermost first — the list of
the applications (with fangs) whose composed mount prefix contains the path -/
theorem scope_trie (cfg : App) (t : BN) (hsc : sideCond cfg = true) (hids : (idsOf cfg).Nodup) (hb : build cfg = some t)
    (ss : List Bytes) : scopeBN t ss = (scopeChain cfg ss).reverse :=
  (scope_build cfg t hsc hids hb).2.2.2.2 ss

/-- **Scope** (the second half of the property, at full strength): for every such tree and every path, the node of the finalized
router (children inherit the fangs of their parents, single-child static chains are compressed within a scope only, statics are
searched before the param) whose `proc` (hit) or `catch` (404) answers the request carries the fangs of exactly the applications
whose mount prefix contains the path, outermost first — for a hit and for a miss alike, in the tree of every method -/
theorem scope (cfg : App) (t : BN) (ss : List Bytes) (fuel : Nat) (hsc : sideCond cfg = true)
    (hids : (idsOf cfg).Nodup) (hb : build cfg = some t) (hf : ss.length + 2 ≤ fuel) :
    (search fuel (finalize true fuel t false) ss).1.reverse = scopeChain cfg ss :=
  scope_statement cfg t ss fuel hsc hids hb hf

/-- the statement as it was written down before the proof existed (`Fangs.lean`) -/
theorem scope_as_stated : ScopeStatement :=
  fun cfg t ss fuel hsc hids hb hf => scope_statement cfg t ss fuel hsc hids hb hf

/-- **The trace of a request**: entering the fangs of the enclosing applications outermost first, then the handler (or the 404),
then leaving them in reverse — and an early answer cuts it as `early_answer_cuts` says -/
theorem scope_trace (passes : Nat → Bool) (cfg : App) (t : BN) (ss : List Bytes) (fuel : Nat) (hsc : sideCond cfg = true)
    (hids : (idsOf cfg).Nodup) (hb : build cfg = some t) (hf : ss.length + 2 ≤ fuel) :
    traceOf passes (search fuel (finalize true fuel t false) ss) =
      onion passes (scopeChain cfg ss) (search fuel (finalize true fuel t false) ss).2 := by
  simp only [traceOf, scope_statement cfg t ss fuel hsc hids hb hf]

/-- the hypotheses are satisfiable by a non-trivial tree: an application with a fang and a route, mounting under `/api/:v` an
application with a fang that mounts a third one under `/admin`; the path `/api/7/admin/x` (a 404 inside the innermost mount) lies
in all three scopes, `/api` in the outermost only -/
def exampleApp : App :=
  .mk 0 true [([.static [104]], 1)]
    [([.static [97, 112, 105], .param],
      .mk 1 true [([.static [117]], 2)] [([.static [97, 100]], .mk 2 true [([], 3)] [])])]

example : sideCond exampleApp = true ∧ (idsOf exampleApp).Nodup ∧ (build exampleApp).isSome ∧
    scopeChain exampleApp [[97, 112, 105], [55], [97, 100], [120]] = [0, 1, 2] ∧
    scopeChain exampleApp [[97, 112, 105]] = [0] := by decide

end C04
