import OhkamiModel.P.FangsProofs
import OhkamiModel.P.FangsBuild
/-! # C04 — property theorems about the fang model -/
namespace C04
open Ohkami Ohkami.Fangs

/-- **Onion order**: the processing chain built by `into_proc_with` from a fang list (innermost first, as stored) runs the
fangs outermost first on the way in, the handler, and the same fangs in reverse on the way out -/
theorem onion_order (passes : Nat → Bool) (l : List Nat) (h : Option Nat) :
    intoProc passes l h = onion passes l.reverse h :=
  intoProc_onion passes l h

/-- **An early answer cuts the inside**: when a fang does not pass, nothing inside it (inner fangs, local fangs, handler) runs,
and the fangs outside it still see the way out -/
theorem early_answer_cuts (passes : Nat → Bool) (outer inner : List Nat) (f : Nat) (h : Option Nat) (hf : passes f = false)
    (hout : ∀ g ∈ outer, passes g = true) :
    onion passes (outer ++ f :: inner) h = outer.map .enter ++ [.enter f] ++ outer.reverse.map .leave :=
  early_answer passes outer inner f h hf hout

/-- the trie the fangs are applied to has exactly the flattened routes, for any nesting of mounts (shared with C01) -/
theorem mounts_flatten (cfg : App) (t : BN) (h : build cfg = some t) :
    (routesOfBN t).Perm (flatRoutes cfg) ∧ TreeOK t :=
  routes_build cfg t h

end C04
