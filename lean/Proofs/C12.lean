import OhkamiModel.P.Jwt
import OhkamiModel.M.B64Url
/-! # C12 — property theorems about the model of `JWT::verified` (HMAC, JSON and the clock are parameters `E`) -/
namespace C12
open Ohkami Ohkami.Jwt Ohkami.B64

/-- **Soundness of admission**, for every environment (any MAC function, any JSON reader, any clock value), algorithm,
secret and Authorization value: the handler runs only for `Bearer h.p.s` with exactly three parts, whose signature decodes
to the MAC of `h.p` under the configured secret and algorithm, whose header names that algorithm, whose time claims admit
`now`, and the payload handed on is the one parsed from the signed part `p`. -/
theorem admit_sound (E : Env) (alg : Alg) (secret : Bytes) (isOptions : Bool) (auth : Option Bytes) (p : Nat)
    (h : verified E alg secret isOptions auth = .admit p) :
    isOptions = false ∧ ∃ v hp pp sp hdr pl, auth = some v ∧ bearer.isPrefixOf v = true ∧
      splitDots (v.drop bearer.length) = [hp, pp, sp] ∧
      (E.b64urlDec hp).bind E.jsonParse = some hdr ∧ hdr.alg = some (some alg.str) ∧
      (E.b64urlDec pp).bind E.jsonParse = some pl ∧ claimsAdmit pl E.now ∧
      E.b64urlDec sp = some (E.mac alg secret (hp ++ [DOT] ++ pp)) ∧ E.fromValue pl.payload = some p :=
  Ohkami.Jwt.admit_sound E alg secret isOptions auth p h

/-- the shape of an answer: admission, or one of the refusal statuses (200 only for the OPTIONS bypass) -/
def Shape (isOptions : Bool) : Out → Prop
  | .admit _ => True
  | .status code => code = 400 ∨ code = 401 ∨ code = 500 ∨ (code = 200 ∧ isOptions = true)

/-- every outcome other than admission is a status answer — 400, 401 or 500, or 200 for the OPTIONS bypass — and the
inside is not run -/
theorem refused_otherwise (E : Env) (alg : Alg) (secret : Bytes) (isOptions : Bool) (auth : Option Bytes) :
    Shape isOptions (verified E alg secret isOptions auth) := by
  unfold verified
  split
  · rename_i h; simp [Shape, h]
  · repeat' (first | (simp [Shape]; done) | split)

end C12
