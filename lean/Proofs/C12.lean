import OhkamiModel.P.Jwt
import OhkamiModel.M.B64Url
/-! # C12 — property theorems about the model of `JWT::verified` (HMAC, JSON and the clock are parameters `E`) -/
namespace C12
open Ohkami Ohkami.Jwt Ohkami.B64

/-- **Soundness of admission**, for every environment (any MAC function, any JSON reader, any clock value), algorithm,
secret and Authorization value: the handler runs only for `Bearer h.p.s` with exactly three parts, whose signature decodes
to the MAC of `h.p` under the configured secret and algorithm, whose header names that algorithm, whose time claims admit
`now`, and the payload handed on is the one parsed from the signed part `p`. -/
theorem admit_sound (E : Env) (alg : Alg) (secret : Bytes) (isOptions : Bool) (auth : Option Bytes) (p : Nat)
    (h : verified E alg secret isOptions auth = .admit p) :
    isOptions = false ∧ ∃ v hp pp sp hdr pl, auth = some v ∧ bearer.isPrefixOf v = true ∧
      splitDots (v.drop bearer.length) = [hp, pp, sp] ∧
      (E.b64urlDec hp).bind E.jsonParse = some hdr ∧ hdr.alg = some (some alg.str) ∧
      (E.b64urlDec pp).bind E.jsonParse = some pl ∧ claimsAdmit pl E.now ∧
      E.b64urlDec sp = some (E.mac alg secret (hp ++ [DOT] ++ pp)) ∧ E.fromValue pl.payload = some p :=
  Ohkami.Jwt.admit_sound E alg secret isOptions auth p h

/-- the shape of an answer: admission, or one of the refusal statuses (200 only for the OPTIONS bypass) -/
def Shape (isOptions : Bool) : Out → Prop
  | .admit _ => True
  | .status code => code = 400 ∨ code = 401 ∨ code = 500 ∨ (code = 200 ∧ isOptions = true)

/-- every outcome other than admission is a status answer — 400, 401 or 500, or 200 for the OPTIONS bypass — and the
inside is not run -/
theorem refused_otherwise (E : Env) (alg : Alg) (secret : Bytes) (isOptions : Bool) (auth : Option Bytes) :
    Shape isOptions (verified E alg secret isOptions auth) := by
  unfold verified
  split
  · rename_i h; simp [Shape, h]
  · repeat' (first | (simp [Shape]; done) | split)

end C12

namespace Ohkami.Jwt
open Ohkami Ohkami.B64

/-- **Completeness of admission**: every `Bearer h.p.s` with exactly three parts whose header (with `typ` / `cty` absent or "JWT") names the
configured algorithm, whose claims admit `now`, and whose signature decodes to the MAC of `h.p` under the configured secret is admitted,
and the handler sees the payload parsed from `p`. -/
theorem admit_complete (E : Env) (alg : Alg) (secret v hp pp sp : Bytes) (hdr pl : Json) (p : Nat)
    (hv : bearer.isPrefixOf v = true) (hs : splitDots (v.drop bearer.length) = [hp, pp, sp])
    (hh : (E.b64urlDec hp).bind E.jsonParse = some hdr) (htyp : tagOk hdr.typ = true) (hcty : tagOk hdr.cty = true)
    (halg : hdr.alg = some (some alg.str))
    (hpl : (E.b64urlDec pp).bind E.jsonParse = some pl) (hc : claimsAdmit pl E.now)
    (hsig : E.b64urlDec sp = some (E.mac alg secret (hp ++ [DOT] ++ pp))) (hfv : E.fromValue pl.payload = some p) :
    verified E alg secret false (some v) = .admit p := by
  obtain ⟨h1, h2, h3⟩ := hc
  unfold verified
  simp [hv, hs, hh, htyp, hcty, halg, hpl, h1, h2, h3, hsig, hfv]

/-- **Issued tokens verify.**  Let `issue` build `b64(header) . b64(payload) . b64(mac)` for any header and payload texts; if the
environment's decoder inverts its encoder on those three parts, the header text parses to a header naming the algorithm and the payload
text parses to claims that admit `now`, the token is admitted with its payload — for every MAC function, secret and algorithm. -/
theorem issue_verifies (E : Env) (alg : Alg) (secret : Bytes) (enc : Bytes → Bytes) (headerText payloadText : Bytes) (hdr pl : Json) (p : Nat)
    (hdec : ∀ x, E.b64urlDec (enc x) = some x)
    (hnodot : ∀ x, DOT ∉ enc x)
    (hh : E.jsonParse headerText = some hdr) (htyp : tagOk hdr.typ = true) (hcty : tagOk hdr.cty = true) (halg : hdr.alg = some (some alg.str))
    (hpl : E.jsonParse payloadText = some pl) (hc : claimsAdmit pl E.now) (hfv : E.fromValue pl.payload = some p) :
    verified E alg secret false
      (some (bearer ++ (enc headerText ++ [DOT] ++ enc payloadText ++ [DOT] ++ enc (E.mac alg secret (enc headerText ++ [DOT] ++ enc payloadText))))) = .admit p := by
  have splitNoDot : ∀ (a : Bytes), DOT ∉ a → splitDots a = [a] := by
    intro a
    induction a with
    | nil => intro _; rfl
    | cons b t ih =>
      intro h
      have hb : b ≠ DOT := fun e => h (by simp [e])
      simp [splitDots, ih (fun hm => h (List.mem_cons_of_mem _ hm)), hb]
  have splitNe : ∀ (a : Bytes), splitDots a ≠ [] := by
    intro a
    cases a with
    | nil => simp [splitDots]
    | cons b t =>
      simp only [splitDots]
      cases splitDots t with
      | nil => simp
      | cons l ls => by_cases hb : b = DOT <;> simp [hb]
  have splitApp : ∀ (a rest : Bytes), DOT ∉ a → splitDots (a ++ DOT :: rest) = a :: splitDots rest := by
    intro a
    induction a with
    | nil =>
      intro rest _
      simp only [List.nil_append, splitDots]
      cases hs : splitDots rest with
      | nil => exact absurd hs (splitNe rest)
      | cons l ls => simp
    | cons b t ih =>
      intro rest h
      have hb : b ≠ DOT := fun e => h (by simp [e])
      simp [splitDots, ih rest (fun hm => h (List.mem_cons_of_mem _ hm)), hb]
  apply admit_complete E alg secret _ (enc headerText) (enc payloadText) (enc (E.mac alg secret (enc headerText ++ [DOT] ++ enc payloadText))) hdr pl p
  · simp [bearer, List.isPrefixOf]
  · have : (bearer ++ (enc headerText ++ [DOT] ++ enc payloadText ++ [DOT] ++ enc (E.mac alg secret (enc headerText ++ [DOT] ++ enc payloadText)))).drop bearer.length
        = enc headerText ++ DOT :: (enc payloadText ++ DOT :: enc (E.mac alg secret (enc headerText ++ [DOT] ++ enc payloadText))) := by
      simp [bearer]
    rw [this, splitApp _ _ (hnodot _), splitApp _ _ (hnodot _), splitNoDot _ (hnodot _)]
  · simp [hdec, hh]
  · exact htyp
  · exact hcty
  · exact halg
  · simp [hdec, hpl]
  · exact hc
  · simp [hdec]
  · exact hfv

end Ohkami.Jwt
