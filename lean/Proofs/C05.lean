import OhkamiModel.M.SessionProofs
/-! # C05 — property theorems about the session-loop model -/
namespace C05
open Ohkami Ohkami.Session

/-- **Nothing from earlier requests is observable.** For every application, every connection script (any chunks, any
bytes, any length) and a fresh request object: the responses and the end of the session are the same whether the
handler is given the state the previous request left behind or the state of a freshly initialised request — `clear`
resets every observable field before each read, because a request that left anything behind started with a method
letter, never with NUL. -/
theorem no_residue (app : App) (fuel : Nat) (conn : Conn) :
    run app fuel ⟨none, 0⟩ conn = run (forget app) fuel ⟨none, 0⟩ conn :=
  residue_irrelevant app fuel ⟨none, 0⟩ conn (Or.inl rfl)

/-- an accepted request's first read starts with a method letter (the fact `clear` relies on) -/
theorem accepted_starts_with_letter (first more : Bytes) (p : Http.Parsed) (h : Http.parse first more = .ok p) : first.headD 0 ≠ 0 :=
  parse_ok_head first more p h

end C05
