import OhkamiModel.M.SessionProofs
import OhkamiModel.M.SessionOne
import OhkamiModel.GenSession
/-! # C05 — property theorems about the session-loop model -/
namespace C05
open Ohkami Ohkami.Session

/-- **Nothing from earlier requests is observable.** For every application, every connection script (any chunks, any
bytes, any length) and a fresh request object: the responses and the end of the session are the same whether the
handler is given the state the previous request left behind or the state of a freshly initialised request — `clear`
resets every observable field before each read, because a request that left anything behind started with a method
letter, never with NUL. -/
theorem no_residue (app : App) (fuel : Nat) (conn : Conn) :
    run app fuel ⟨none, 0⟩ conn = run (forget app) fuel ⟨none, 0⟩ conn :=
  residue_irrelevant app fuel ⟨none, 0⟩ conn (Or.inl rfl)

/-- an accepted request's first read starts with a method letter (the fact `clear` relies on) -/
theorem accepted_starts_with_letter (first more : Bytes) (p : Http.Parsed) (h : Http.parse first more = .ok p) : first.headD 0 ≠ 0 :=
  parse_ok_head first more p h

/-- **The k-th request receives the response it would receive alone, in order, and `Connection: close` ends the session.**
If every chunk holds exactly one complete request (`Exact`: parsed on its own it is accepted or refused; an accepted one ends exactly
where the chunk ends — its head within the first 1 KiB read, the rest of its body after it; a refused one fits the buffer), then the
responses written on the connection are `expected`: request by request what `answer` gives — the response of the same request on a fresh
connection (`alone`) — and nothing after the response to a request that asked `Connection: close`.  For every application (which may even
inspect the reused request object: it finds nothing), any number of requests, any bytes including NUL, any sizes. -/
theorem one_per_chunk (app : App) (cs : List Bytes) (hex : ∀ c ∈ cs, Exact c) (fuel : Nat) (hf : cs.length < fuel) (eof : Bool) :
    (run app fuel ⟨none, 0⟩ ⟨cs, eof⟩).1 = expected app cs :=
  one_per_chunk' app cs hex fuel hf eof

/-- what a request gets alone on a fresh connection is its `answer` -/
theorem fresh_connection (app : App) (c : Bytes) (hex : Exact c) :
    (run app 2 ⟨none, 0⟩ ⟨[c], true⟩).1 = (match answer app c with | some (out, _) => [out] | none => []) :=
  alone app c hex

/-! non-vacuity: a chunk that meets `Exact` -/
private def getRoot : Bytes := [71,69,84,32,47,32,72,84,84,80,47,49,46,49,13,10,13,10]
private theorem getRoot_parse : Http.parse getRoot [] = Http.Outcome.ok (⟨"GET", [], none, [], [], none⟩ : Http.Parsed) := by rfl
example : Exact getRoot := by
  unfold Exact
  refine ⟨by decide, ?_⟩
  have h1 : getRoot.take BUF = getRoot := by decide
  have h2 : getRoot.drop BUF = [] := by decide
  rw [h1, h2, getRoot_parse]; rfl

/-- the loop the theorems are about is the loop of the source (the arms of the match on `Request::read` in `Session::manage`, regenerated on every run) -/
theorem source_ends_session_after_refusal :
    Ohkami.Gen.refusalIsAnswered = true ∧ Ohkami.Gen.refusalEndsSession = true ∧ Ohkami.Gen.noRequestEndsSession = true := by decide

/-- what the model has no clock or mutable `ip` field to exhibit is read off the source: the Keep-Alive timeout is put around the wait for a request and
around nothing else (a request that comes in time is answered however old the session is and however long its handler takes), and the connection's
address is written back into the reused request object before each request (what a fang wrote into the public field `ip` is not the next request's).
Both are also exercised in real time by the correspondence run (scenario `timed` of the C05 executor, `OHKAMI_KEEPALIVE_TIMEOUT=2`). -/
theorem source_session_is_per_request : Ohkami.Gen.keepAliveBoundsTheWaitOnly = true ∧ Ohkami.Gen.ipRestored = true := by decide

end C05
