import OhkamiModel.M.Dir
import OhkamiModel.M.DirComplete
import OhkamiModel.P.ChainProofs
import OhkamiModel.P.StaticTable
/-! # C19 — property theorems.  A mounted directory registers static routes only, so "nothing else is served" is the
routing specification (C01) specialised to static route tables. -/
namespace C19
open Ohkami

/-- a route without params matches exactly its own segment list and captures nothing -/
theorem matches_static_exact : ∀ (r : Route) (segs ps : List Bytes), AllStatic r → Matches r segs ps → segs = staticBytes r ∧ ps = [] := by
  intro r segs ps hs hm
  induction hm with
  | nil => exact ⟨rfl, rfl⟩
  | static s _ _ ih =>
    obtain ⟨h1, h2⟩ := ih (fun x hx => hs x (by simp [hx]))
    exact ⟨by simp [staticBytes, h1], h2⟩
  | param s _ _ _ =>
    obtain ⟨b, hb⟩ := hs .param (by simp)
    cases hb

/-- **Nothing else is served**: with only static routes registered (what `Dir` registers), a request reaches a handler only
if its normalised path is, segment for segment and byte for byte, exactly one of the derived routes — no `..`, no
percent-encoded or doubled separator, no near-miss name, no file outside the list can be reached. -/
theorem nothing_else (fuel : Nat) (rs : List (Route × Nat)) (segs : List Bytes) (h : Nat) (ps : List Bytes)
    (hwf : WFRoutes rs) (hall : ∀ rh ∈ rs, AllStatic rh.1) (hg : greedyChain fuel rs segs = some (h, ps)) :
    ∃ r, (r, h) ∈ rs ∧ segs = staticBytes r ∧ ps = [] := by
  obtain ⟨r, hm, hM, _⟩ := chain_hit_sound fuel rs segs h ps hwf hg
  obtain ⟨h1, h2⟩ := matches_static_exact r segs ps (hall _ hm) hM
  exact ⟨r, hm, h1, h2⟩

/-- every route `Dir` derives is static -/
theorem derive_all_static (mount omits : List Bytes) : ∀ (files : List Dir.FileEntry) (i : Nat) (routes : List (Route × Nat)),
    Dir.derive mount omits files i = .ok routes → ∀ rh ∈ routes, AllStatic rh.1 := by
  intro files
  induction files with
  | nil => intro i routes h; simp [Dir.derive] at h; subst h; simp
  | cons f rest ih =>
    intro i routes h
    simp only [Dir.derive] at h
    split at h
    · cases h
    · split at h
      · cases h
      · split at h
        · cases h
        · rename_i more hmore
          cases h
          intro rh hrh
          rcases List.mem_append.mp hrh with h1 | h2
          · obtain ⟨p, _, rfl⟩ := List.mem_map.mp h1
            intro s hs
            obtain ⟨b, _, rfl⟩ := List.mem_map.mp hs
            exact ⟨b, rfl⟩
          · exact ih (i + 1) more hmore rh h2

theorem nodup_routes_unique : ∀ (rs : List (Route × Nat)) (r : Route) (a b : Nat), NodupRoutes rs → (r, a) ∈ rs → (r, b) ∈ rs → a = b := by
  intro rs
  induction rs with
  | nil => intro r a b _ h; cases h
  | cons x rs ih =>
    intro r a b hn ha hb
    simp only [NodupRoutes, List.map_cons, List.nodup_cons] at hn
    obtain ⟨hx, hn'⟩ := hn
    have notin : ∀ c, (r, c) ∈ rs → x.1 = r → False := fun c hc e => hx (e ▸ List.mem_map.mpr ⟨(r, c), hc, rfl⟩)
    rcases List.mem_cons.mp ha with rfl | ha' <;> rcases List.mem_cons.mp hb with hb' | hb'
    · cases hb'; rfl
    · exact (notin b hb' rfl).elim
    · subst hb'; exact (notin a ha' rfl).elim
    · exact ih r a b hn' ha' hb'

/-- **Every file is served, at each of its paths**: when the start-up succeeds (`derive` accepts the file list and no two files claim one
route), then for every regular file of the list and each path the property assigns to it — the mount route followed by its relative
path, for `index.html` also its directory path, configured extensions cut off (`fileRoutes`) — the routing specification answers
exactly that path with that very file (index `k`: its bytes, the media type of its extension), capturing nothing. -/
theorem every_file_served (mount omits : List Bytes) (files : List Dir.FileEntry) (routes : List (Route × Nat))
    (hd : Dir.derive mount omits files 0 = .ok routes) (hmount : ∀ s ∈ mount, s ≠ []) (hnd : NodupRoutes routes)
    (k : Nat) (f : Dir.FileEntry) (hk : files[k]? = some f) :
    ∃ paths mime, Dir.fileRoutes omits f = .ok (paths, mime) ∧
      ∀ p ∈ paths, greedyChain ((mount ++ p).length + 1) routes (mount ++ p) = some (k, []) := by
  obtain ⟨paths, mime, h1, h2⟩ := Dir.derive_complete mount omits files 0 routes hd k f hk
  refine ⟨paths, mime, h1, ?_⟩
  intro p hp
  have hm := h2 p hp
  have hall := derive_all_static mount omits files 0 routes hd
  have hwf := Dir.derive_wf mount omits hmount files 0 routes hd
  obtain ⟨h', hg, hm'⟩ := static_complete ((mount ++ p).length + 1) routes _ _ hm hall hwf (by simp)
  rw [staticBytes_map] at hg
  have : h' = 0 + k := nodup_routes_unique routes _ _ _ hnd hm' hm
  rw [hg, this]; simp

/-- the premises are met: two files, one of them an index.html, under the mount `/pub` -/
example : ∃ routes, Dir.derive [[112, 117, 98]] [] [⟨[[97, 46, 116, 120, 116]], [104, 105]⟩, ⟨[[100], [105, 110, 100, 101, 120, 46, 104, 116, 109, 108]], [60, 112, 62]⟩] 0 = .ok routes
    ∧ routes.length = 3 := by
  refine ⟨_, rfl, rfl⟩

end C19
