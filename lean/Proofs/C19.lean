import OhkamiModel.M.Dir
import OhkamiModel.P.ChainProofs
/-! # C19 — property theorems.  A mounted directory registers static routes only, so "nothing else is served" is the
routing specification (C01) specialised to static route tables. -/
namespace C19
open Ohkami

def AllStatic (r : Route) : Prop := ∀ s ∈ r, ∃ b, s = Seg.static b

def staticBytes : Route → List Bytes
  | [] => []
  | .static b :: r => b :: staticBytes r
  | .param :: r => staticBytes r

/-- a route without params matches exactly its own segment list and captures nothing -/
theorem matches_static_exact : ∀ (r : Route) (segs ps : List Bytes), AllStatic r → Matches r segs ps → segs = staticBytes r ∧ ps = [] := by
  intro r segs ps hs hm
  induction hm with
  | nil => exact ⟨rfl, rfl⟩
  | static s _ _ ih =>
    obtain ⟨h1, h2⟩ := ih (fun x hx => hs x (by simp [hx]))
    exact ⟨by simp [staticBytes, h1], h2⟩
  | param s _ _ _ =>
    obtain ⟨b, hb⟩ := hs .param (by simp)
    cases hb

/-- **Nothing else is served**: with only static routes registered (what `Dir` registers), a request reaches a handler only
if its normalised path is, segment for segment and byte for byte, exactly one of the derived routes — no `..`, no
percent-encoded or doubled separator, no near-miss name, no file outside the list can be reached. -/
theorem nothing_else (fuel : Nat) (rs : List (Route × Nat)) (segs : List Bytes) (h : Nat) (ps : List Bytes)
    (hwf : WFRoutes rs) (hall : ∀ rh ∈ rs, AllStatic rh.1) (hg : greedyChain fuel rs segs = some (h, ps)) :
    ∃ r, (r, h) ∈ rs ∧ segs = staticBytes r ∧ ps = [] := by
  obtain ⟨r, hm, hM, _⟩ := chain_hit_sound fuel rs segs h ps hwf hg
  obtain ⟨h1, h2⟩ := matches_static_exact r segs ps (hall _ hm) hM
  exact ⟨r, hm, h1, h2⟩

/-- every route `Dir` derives is static -/
theorem derive_all_static (mount omits : List Bytes) : ∀ (files : List Dir.FileEntry) (i : Nat) (routes : List (Route × Nat)),
    Dir.derive mount omits files i = .ok routes → ∀ rh ∈ routes, AllStatic rh.1 := by
  intro files
  induction files with
  | nil => intro i routes h; simp [Dir.derive] at h; subst h; simp
  | cons f rest ih =>
    intro i routes h
    simp only [Dir.derive] at h
    split at h
    · cases h
    · split at h
      · cases h
      · split at h
        · cases h
        · rename_i more hmore
          cases h
          intro rh hrh
          rcases List.mem_append.mp hrh with h1 | h2
          · obtain ⟨p, _, rfl⟩ := List.mem_map.mp h1
            intro s hs
            obtain ⟨b, _, rfl⟩ := List.mem_map.mp hs
            exact ⟨b, rfl⟩
          · exact ih (i + 1) more hmore rh h2

end C19
