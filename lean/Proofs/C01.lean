import OhkamiModel.P.TopLevel
import OhkamiModel.P.FangsBuild
import OhkamiModel.P.FangsNodup
import OhkamiModel.P.FangsBuildND
import OhkamiModel.P.FangsHit
import OhkamiModel.P.SearchP
/-! # C01 — property theorems.
Spec level: `greedyChain` on the flat route table (statics first, look-ahead over forced static chains).
Refinement: trie look-up = spec (segment level), byte-level search of the finalized router = trie look-up,
and the trie built by registration + mounts + fang application has exactly the flattened routes. -/
namespace C01
open Ohkami Ohkami.Fangs

/-- an application with a fang and a route, mounting under `/api/:v` an application with a fang that mounts a third one under `/ad` -/
def exApp : App :=
  .mk 0 true [([.static [104]], 1)]
    [([.static [97, 112, 105], .param],
      .mk 1 true [([.static [117]], 2)] [([.static [97, 100]], .mk 2 true [([], 3)] [])])]

/-- **A hit is right**: whenever the router's specification answers with a handler, that handler's route matches the path
segment by segment (static = identical bytes, param = non-empty segment, the captured params are those segments) and is
most-static among all matching routes. -/
theorem hit_sound (fuel : Nat) (rs : List (Route × Nat)) (segs : List Bytes) (h : Nat) (ps : List Bytes)
    (hwf : WFRoutes rs) (hg : greedyChain fuel rs segs = some (h, ps)) :
    ∃ r, (r, h) ∈ rs ∧ Matches r segs ps ∧
      ∀ r' h' ps', (r', h') ∈ rs → Matches r' segs ps' → MoreStatic r r' :=
  chain_hit_sound fuel rs segs h ps hwf hg

/-- **No match, no handler**: if no registered route matches, the literal statics-first walk finds nothing (404) -/
theorem miss (segs : List Bytes) (rs : List (Route × Nat))
    (hno : ∀ r h ps, (r, h) ∈ rs → ¬ Matches r segs ps) : greedy rs segs = none :=
  greedy_miss' segs rs hno

/-- **Registration order does not matter**: the outcome is a function of the route set -/
theorem order_independent (fuel : Nat) (rs rs' : List (Route × Nat)) (segs : List Bytes)
    (hp : rs.Perm rs') (hn : NodupRoutes rs) : greedyChain fuel rs segs = greedyChain fuel rs' segs :=
  chain_perm fuel rs rs' segs hp hn

/-- **Segment-level refinement**: the look-up that compression + statics-first descent compute on the registration trie is
the specification on the trie's route table -/
theorem trie_refines (fuel : Nat) (n : BNode) (segs : List Bytes) (hi : TInv n) :
    lookupC fuel n segs = greedyChain fuel (routesOf n) segs :=
  lookupC_eq_greedyChain fuel n segs hi

/-- **Byte-level refinement**: the search of the finalized (compressed, statics-first sorted) router on the bytes
`/s1/s2/…` is the segment-level look-up — patterns are matched up to segment boundaries only -/
theorem bytes_refine (fuel : Nat) (p : Seg) (h : Option Nat) (ks : List BNode) (segs : List Bytes)
    (hi : TInv (.mk p h ks)) (hns : NSK ks) (hss : ∀ x ∈ segs, NoSlash x) (hf : segs.length < fuel) :
    searchTop fuel (finalize (.mk p h ks)) (joinSegs segs) = lookupC fuel (.mk p h ks) segs :=
  searchTop_eq_lookupC fuel p h ks segs hi hns hss hf

/-- **Mounts flatten**: for every application tree (any nesting of mounts, fangs anywhere) that builds, the trie has
exactly the routes of the flattened configuration (mount prefix prepended to each route of the mounted application) -/
theorem mounts_flatten (cfg : App) (t : BN) (h : build cfg = some t) :
    (routesOfBN t).Perm (flatRoutes cfg) ∧ TreeOK t :=
  routes_build cfg t h

/-- **No twin siblings**: in the trie of every application tree that builds (any nesting of mounts, routes of the parent under a
mount prefix included, any registration order) the children of a node have pairwise distinct patterns — at most one param child,
no two static children with the same bytes — so no registered route sits behind a sibling that the search never enters.
(This failed before fix 8878fb7: `merge_here` pushed the mounted application's children beside the parent's.) -/
theorem siblings_distinct (cfg : App) (t : BN) (h : build cfg = some t) : ND t :=
  nd_build cfg t h

/-- **A hit is a registered, matching route — with fang scopes too.**  For every application tree (fangs at any level; the finalized router
inherits fang lists, compresses single-child static chains within a scope only and searches statics first — the very functions the
correspondence run executes), whatever the fuel: if the search answers with a handler, that handler is registered, in the flattened
configuration, on a route whose segments match the path one by one (`segUnder`: a static segment the identical bytes, a param any non-empty
segment) with nothing left over. -/
theorem hit_sound_scoped (cfg : App) (t : BN) (segs : List Bytes) (F G : Nat) (f : List Nat) (h : Nat) (hb : build cfg = some t)
    (hs : search G (finalize true F t false) segs = (f, some h)) :
    ∃ r, (r, h) ∈ flatRoutes cfg ∧ segUnder r segs = some [] :=
  search_hit_sound cfg t segs F G f h hb hs

/-- **No matching route, no handler — with fang scopes too**: the 404 half of the property for the router as it is built -/
theorem miss_scoped (cfg : App) (t : BN) (segs : List Bytes) (F G : Nat) (hb : build cfg = some t)
    (hno : ∀ r h, (r, h) ∈ flatRoutes cfg → segUnder r segs ≠ some []) :
    (search G (finalize true F t false) segs).2 = none :=
  search_miss cfg t segs F G hb hno

/-- **The loop-shaped search is the proved search**: `searchP`, the formulation of the executable model that follows `Node::search_target` step by
step and collects the path params, answers — on the finalized router of every application tree, for every path, with fuel for one step per segment —
with the same fang list and the same handler as `search`, the function `hit_sound_scoped`, `miss_scoped` and `C04.scope` are about -/
theorem loop_search_is_search (cfg : App) (t : BN) (segs caps : List Bytes) (F G : Nat) (hb : build cfg = some t) (hG : segs.length + 1 ≤ G) :
    ((searchP G (finalize true F t false) segs caps).1, (searchP G (finalize true F t false) segs caps).2.1) = search G (finalize true F t false) segs :=
  searchP_is_search cfg t segs caps F G hb hG

/-- the two statements are about something: in the example application of C04 (three nested applications with fangs) `/api/7/u` is a hit of
handler 2 under two mounts, `/api/7/x` a miss -/
example : ((build C01.exApp).map fun t => ((search 9 (finalize true 9 t false) [[97, 112, 105], [55], [117]]).2,
    (search 9 (finalize true 9 t false) [[97, 112, 105], [55], [120]]).2)) = some (some 2, none) := by decide

/-! ### what is NOT a theorem: "a path that a registered route matches is answered by a handler"

The statement's first sentence presupposes it; the search does not go back, so it is false of the model and of the code alike (known finding
KF-C01-dead-end).  The witness, decided on the very functions the correspondence run executes: with `/abc/def` (1) and `/:p/xyz` (2) the path
`/abc/xyz` reaches handler 2 — the single-child chain `/abc/def` is one compressed pattern that fails as a whole —, with `/abc/ghi` (3) registered as
well it reaches nothing, although route `/:p/xyz` still matches it segment by segment.  `hit_sound_scoped` and `miss_scoped` are the part that holds:
a handler that runs is a matching route's, and nothing runs when no route matches. -/
def deadEndApp (withSibling : Bool) : App :=
  .mk 0 false ([([.static [97, 98, 99], .static [100, 101, 102]], 1), ([.param, .static [120, 121, 122]], 2)] ++
    (if withSibling then [([.static [97, 98, 99], .static [103, 104, 105]], 3)] else [])) []

theorem dead_end_witness :
    ((build (deadEndApp false)).map fun t => (search 9 (finalize true 9 t false) [[97, 98, 99], [120, 121, 122]]).2) = some (some 2) ∧
    ((build (deadEndApp true)).map fun t => (search 9 (finalize true 9 t false) [[97, 98, 99], [120, 121, 122]]).2) = some none := by decide

end C01
