import OhkamiModel.P.TopLevel
import OhkamiModel.P.FangsBuild
import OhkamiModel.P.FangsNodup
import OhkamiModel.P.FangsBuildND
/-! # C01 — property theorems.
Spec level: `greedyChain` on the flat route table (statics first, look-ahead over forced static chains).
Refinement: trie look-up = spec (segment level), byte-level search of the finalized router = trie look-up,
and the trie built by registration + mounts + fang application has exactly the flattened routes. -/
namespace C01
open Ohkami Ohkami.Fangs

/-- **A hit is right**: whenever the router's specification answers with a handler, that handler's route matches the path
segment by segment (static = identical bytes, param = non-empty segment, the captured params are those segments) and is
most-static among all matching routes. -/
theorem hit_sound (fuel : Nat) (rs : List (Route × Nat)) (segs : List Bytes) (h : Nat) (ps : List Bytes)
    (hwf : WFRoutes rs) (hg : greedyChain fuel rs segs = some (h, ps)) :
    ∃ r, (r, h) ∈ rs ∧ Matches r segs ps ∧
      ∀ r' h' ps', (r', h') ∈ rs → Matches r' segs ps' → MoreStatic r r' :=
  chain_hit_sound fuel rs segs h ps hwf hg

/-- **No match, no handler**: if no registered route matches, the literal statics-first walk finds nothing (404) -/
theorem miss (segs : List Bytes) (rs : List (Route × Nat))
    (hno : ∀ r h ps, (r, h) ∈ rs → ¬ Matches r segs ps) : greedy rs segs = none :=
  greedy_miss' segs rs hno

/-- **Registration order does not matter**: the outcome is a function of the route set -/
theorem order_independent (fuel : Nat) (rs rs' : List (Route × Nat)) (segs : List Bytes)
    (hp : rs.Perm rs') (hn : NodupRoutes rs) : greedyChain fuel rs segs = greedyChain fuel rs' segs :=
  chain_perm fuel rs rs' segs hp hn

/-- **Segment-level refinement**: the look-up that compression + statics-first descent compute on the registration trie is
the specification on the trie's route table -/
theorem trie_refines (fuel : Nat) (n : BNode) (segs : List Bytes) (hi : TInv n) :
    lookupC fuel n segs = greedyChain fuel (routesOf n) segs :=
  lookupC_eq_greedyChain fuel n segs hi

/-- **Byte-level refinement**: the search of the finalized (compressed, statics-first sorted) router on the bytes
`/s1/s2/…` is the segment-level look-up — patterns are matched up to segment boundaries only -/
theorem bytes_refine (fuel : Nat) (p : Seg) (h : Option Nat) (ks : List BNode) (segs : List Bytes)
    (hi : TInv (.mk p h ks)) (hns : NSK ks) (hss : ∀ x ∈ segs, NoSlash x) (hf : segs.length < fuel) :
    searchTop fuel (finalize (.mk p h ks)) (joinSegs segs) = lookupC fuel (.mk p h ks) segs :=
  searchTop_eq_lookupC fuel p h ks segs hi hns hss hf

/-- **Mounts flatten**: for every application tree (any nesting of mounts, fangs anywhere) that builds, the trie has
exactly the routes of the flattened configuration (mount prefix prepended to each route of the mounted application) -/
theorem mounts_flatten (cfg : App) (t : BN) (h : build cfg = some t) :
    (routesOfBN t).Perm (flatRoutes cfg) ∧ TreeOK t :=
  routes_build cfg t h

/-- **No twin siblings**: in the trie of every application tree that builds (any nesting of mounts, routes of the parent under a
mount prefix included, any registration order) the children of a node have pairwise distinct patterns — at most one param child,
no two static children with the same bytes — so no registered route sits behind a sibling that the search never enters.
(This failed before fix 8878fb7: `merge_here` pushed the mounted application's children beside the parent's.) -/
theorem siblings_distinct (cfg : App) (t : BN) (h : build cfg = some t) : ND t :=
  nd_build cfg t h

end C01
