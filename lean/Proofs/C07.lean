import OhkamiModel.M.Extract
/-! # C07 — property theorems about the extraction model -/
namespace C07
open Ohkami Ohkami.Extract Ohkami.Serde.Concrete

/-- **An integer is accepted only as a whole, in-range numeral**: if `str::parse` (the model of it) accepts a text for a
type of the given signedness and width, the text is an optional sign followed by at least one digit and nothing else
(no `-` for unsigned types), the value is the number it denotes, and it lies in the type's range. -/
theorem int_accept_sound (signed : Bool) (bits : Nat) (s : Bytes) (z : Int) (h : parseInt signed bits s = some z) :
    (if signed then -(2 ^ (bits - 1) : Int) ≤ z ∧ z ≤ (2 ^ (bits - 1) : Int) - 1 else 0 ≤ z ∧ z ≤ (2 ^ bits : Int) - 1) ∧
    (splitSign s).2 ≠ [] ∧ (splitSign s).2.all (fun b => 48 ≤ b && b ≤ 57) = true ∧ (s.head? = some 45 → signed = true) ∧
    z = (if (splitSign s).1 then -(val (splitSign s).2 : Int) else (val (splitSign s).2 : Int)) := by
  unfold parseInt at h
  simp only at h
  by_cases hsign : (s.head? == some 45 && !signed) = true
  · simp [hsign] at h
  · simp only [hsign, Bool.false_eq_true, if_false] at h
    by_cases hds : ((splitSign s).2.isEmpty || !(splitSign s).2.all fun b => 48 ≤ b && b ≤ 57) = true
    · simp [hds] at h
    · simp only [hds, Bool.false_eq_true, if_false] at h
      have hne : (splitSign s).2 ≠ [] := by intro e; simp [e] at hds
      have hall : (splitSign s).2.all (fun b => 48 ≤ b && b ≤ 57) = true := by
        cases hh : (splitSign s).2.all (fun b => 48 ≤ b && b ≤ 57) with
        | true => rfl
        | false => simp [hh] at hds
      have h45 : s.head? = some 45 → signed = true := by
        intro e
        cases signed with
        | true => rfl
        | false => simp [e] at hsign
      generalize hz : (if (splitSign s).1 = true then -((List.foldl (fun n b => 10 * n + (b.toNat - 48)) 0 (splitSign s).2 : Nat) : Int)
          else ((List.foldl (fun n b => 10 * n + (b.toNat - 48)) 0 (splitSign s).2 : Nat) : Int)) = zz at h
      have hval : zz = (if (splitSign s).1 then -(val (splitSign s).2 : Int) else (val (splitSign s).2 : Int)) := by
        rw [← hz]; rfl
      cases signed with
      | true =>
        simp only [if_true] at h ⊢
        by_cases hr : (-(2 ^ (bits - 1) : Int) ≤ zz ∧ zz ≤ (2 ^ (bits - 1) : Int) - 1)
        · rw [if_pos hr] at h
          have : zz = z := by simpa using h
          subst this
          exact ⟨hr, hne, hall, fun _ => trivial, hval⟩
        · rw [if_neg hr] at h; cases h
      | false =>
        simp only [Bool.false_eq_true, if_false] at h ⊢
        by_cases hr : ((0 : Int) ≤ zz ∧ zz ≤ (2 ^ bits : Int) - 1)
        · rw [if_pos hr] at h
          have : zz = z := by simpa using h
          subst this
          exact ⟨hr, hne, hall, fun e => by simpa using h45 e, hval⟩
        · rw [if_neg hr] at h; cases h

/-- **Every in-range integer is accepted in its canonical spelling** (the number printer's output), with that value -/
theorem int_accept_complete_unsigned (bits : Nat) (z : Int) (h0 : 0 ≤ z) (h1 : z < 2 ^ bits) :
    parseInt false bits (Ohkami.Serde.showInt z) = some z := parse_show_U bits z h0 h1

theorem int_accept_complete_signed (bits : Nat) (z : Int) (h0 : -(2 ^ (bits - 1) : Int) ≤ z) (h1 : z < 2 ^ (bits - 1)) :
    parseInt true bits (Ohkami.Serde.showInt z) = some z := parse_show_S bits z h0 h1

/-- **The handler runs iff every declared item is produced**: it runs exactly when every path param converts and every
required item is found and decodes; an optional item is `None` only when the request does not carry it. -/
theorem handler_runs_iff (ptys : List PTy) (captures : List Bytes) (items : List Item) (hlen : ptys.length ≤ captures.length) :
    (∃ ps vs, handle ptys captures items = .ran ps vs) ↔
      ((ptys.zip captures).all (fun (t, c) => (fromParam t c).isSome) = true ∧
       items.all (fun it => it.found != .err && (it.optional || it.found != .absent)) = true) := by
  have hz : ((ptys.zip captures).map fun (t, c) => fromParam t c).length = ptys.length := by simp; omega
  have hitems : ∀ its : List Item, (∃ vs, its.mapM itemValue = .ok vs) ↔
      its.all (fun it => it.found != .err && (it.optional || it.found != .absent)) = true := by
    intro its
    induction its with
    | nil => simp [List.mapM_nil, pure, Except.pure]
    | cons it rest ih =>
      simp only [List.mapM_cons, List.all_cons, Bool.and_eq_true]
      constructor
      · rintro ⟨vs, hv⟩
        cases hi : itemValue it with
        | error c => simp [hi, bind, Except.bind] at hv
        | ok v =>
          cases hr : rest.mapM itemValue with
          | error c => simp [hi, hr, bind, Except.bind] at hv
          | ok vs' =>
            refine ⟨?_, ih.mp ⟨vs', hr⟩⟩
            unfold itemValue at hi
            cases hf : it.found <;> cases ho : it.optional <;> simp_all
      · rintro ⟨h1, h2⟩
        obtain ⟨vs', hr⟩ := ih.mpr h2
        have : ∃ v, itemValue it = .ok v := by
          unfold itemValue
          cases hf : it.found <;> cases ho : it.optional <;> simp_all
        obtain ⟨v, hv⟩ := this
        exact ⟨v :: vs', by simp [hv, hr, bind, Except.bind, pure, Except.pure]⟩
  unfold handle
  simp only [hz, Nat.lt_irrefl, if_false]
  constructor
  · rintro ⟨ps, vs, h⟩
    split at h
    · cases h
    · rename_i hany
      split at h
      · cases h
      · rename_i vs' hv
        refine ⟨?_, (hitems items).mp ⟨vs', hv⟩⟩
        simp only [List.any_eq_true, not_exists, not_and, Bool.not_eq_true] at hany
        rw [List.all_eq_true]
        intro x hx
        have := hany (fromParam x.1 x.2) (List.mem_map.mpr ⟨x, hx, rfl⟩)
        cases hfp : fromParam x.1 x.2 <;> simp_all
  · rintro ⟨h1, h2⟩
    obtain ⟨vs, hv⟩ := (hitems items).mpr h2
    have hany : (((ptys.zip captures).map fun (t, c) => fromParam t c).any (·.isNone)) = false := by
      rw [List.any_eq_false]
      intro o ho
      obtain ⟨x, hx, rfl⟩ := List.mem_map.mp ho
      rw [List.all_eq_true] at h1
      have := h1 x hx
      cases hfp : fromParam x.1 x.2 <;> simp_all
    simp only [hany, Bool.false_eq_true, if_false, hv]
    exact ⟨_, _, rfl⟩

/-- an optional item is `None` only when absent; a present item that does not decode is an error even for `Option<_>` -/
theorem option_none_only_absent (it : Item) (h : itemValue it = .ok none) : it.found = .absent ∧ it.optional = true := by
  unfold itemValue at h
  cases hf : it.found <;> cases ho : it.optional <;> simp_all

end C07
