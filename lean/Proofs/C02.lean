import OhkamiModel.HttpProofs
import OhkamiModel.HttpSound
import OhkamiModel.M.HttpObs
import OhkamiModel.GenConsts
/-! # C02 — property theorems about the model of `Request::read` (OhkamiModel/Http.lean) -/
namespace C02
open Ohkami Ohkami.Http Ohkami.P

/-- **Faithfulness.** Every well-formed request (`WF`: a known method, an origin-form UTF-8 target, header lines
`name ": " value CRLF` with UTF-8 names/values free of `:` resp. CR, a body announced by Content-Length iff non-empty)
whose bytes are the first read is accepted, and what is handed on is exactly what the bytes denote (`view`): method,
normalised path, raw query, standard headers grouped case-insensitively with repeated values joined by ", " in order,
custom headers likewise, payload. -/
theorem parse_encode (r : Req) (mname : String) (h : WF r mname) (more : Bytes) :
    parse (encode r) more = .ok (view r mname) :=
  Ohkami.Http.parse_encode r mname h more

def Outcome.isPanic {α} : Outcome α → Bool
  | .panic _ => true
  | _ => false

theorem headers_never_panics : ∀ (fuel : Nat) (bs : Bytes) (std : List (Nat × Bytes)) (cus : List (Bytes × Bytes)),
    Outcome.isPanic (headers fuel bs std cus) = false := by
  intro fuel
  induction fuel with
  | zero => intros; rfl
  | succ n ih =>
    intro bs std cus
    rw [headers]
    repeat (first | rfl | exact ih _ _ _ | split)

theorem finish_never_panics (method : String) (np : Bytes) (q : Option Bytes) (r6 more : Bytes) :
    Outcome.isPanic (finish method np q r6 more) = false := by
  unfold finish
  have h := headers_never_panics (r6.length + 1) r6 [] []
  split
  · rfl
  · rfl
  · rename_i s hs; rw [hs] at h; exact h
  · repeat (first | rfl | split | dsimp only)

/-- **Totality.** Whatever bytes arrive as the first read (and whatever the stream still holds), the parser answers
`ok`, an error status, or by closing — it has no panicking outcome. -/
theorem parse_never_panics (first more : Bytes) : Outcome.isPanic (parse first more) = false := by
  unfold parse
  repeat (first | rfl | exact finish_never_panics _ _ _ _ _ | split | dsimp only)

theorem finish_method (method : String) (np : Bytes) (q : Option Bytes) (r6 more : Bytes) (p : Parsed)
    (hf : finish method np q r6 more = .ok p) : p.method = method := by
  unfold finish at hf
  split at hf
  · cases hf
  · cases hf
  · cases hf
  · repeat (first | (cases hf; rfl) | cases hf | split at hf | dsimp only at hf)

/-- **Soundness.**  Whatever first read the parser accepts has the shape of a request —
`method SP path [? query] SP HTTP/1.1 CRLF (name ": " value CRLF)* CRLF remaining` with a known method, an origin-form UTF-8 path —
and the request object is exactly what that shape denotes: the method, the path (one trailing `/` stripped), the query, the header
lines folded in order into the two maps, and as payload the first Content-Length bytes of what follows the head. -/
theorem parse_sound (first more : Bytes) (p : Parsed) (h : parse first more = .ok p) :
    ∃ (m path : Bytes) (query : Option Bytes) (hs : List (Bytes × Bytes)) (remaining : Bytes),
      first = m ++ SP :: (path ++ queryBytes query ++ SP :: (HTTP11 ++ (encodeHeaders hs ++ [CR, LF] ++ remaining))) ∧
      methodOf m = some p.method ∧ (∀ b ∈ m, b ≠ SP) ∧
      path.head? = some SLASH ∧ (∀ b ∈ path, b ≠ SP ∧ b ≠ QM) ∧ validUtf8 path = true ∧
      p.path = (if path.getLast? == some SLASH then path.dropLast else path) ∧
      p.query = query ∧ (∀ q, query = some q → ∀ b ∈ q, b ≠ SP) ∧
      (∀ kv ∈ hs, LineOK kv) ∧ (p.std, p.custom) = foldHeaders hs ∧ PayloadOK p.std remaining more p.payload :=
  Http.parse_sound' first more p h

/-- **The byte set of a header name in the source is the `tchar` of RFC 9110 5.6.2** (`"!" / "#" / "$" / "%" / "&" / "'" / "*" / "+" / "-" / "." /
"^" / "_" / "`" / "|" / "~" / DIGIT / ALPHA`): the model's `isTchar` is evaluated from the table the translator regenerates from
`Request::read` on every run, so a change of that set in the code changes this statement -/
theorem tchar_is_rfc9110 : ∀ n : Fin 256, Ohkami.Http.isTchar (UInt8.ofNat n.val) =
    (([33, 35, 36, 37, 38, 39, 42, 43, 45, 46, 94, 95, 96, 124, 126] : List Nat).contains n.val      -- ! # $ % & ' * + - . ^ _ ` | ~
      || (48 ≤ n.val && n.val ≤ 57) || (65 ≤ n.val && n.val ≤ 90) || (97 ≤ n.val && n.val ≤ 122)) := by                 -- DIGIT / ALPHA
  decide +kernel

/-- **The announced length is judged before anything is loaded** (`0 => no payload`, `PAYLOAD_LIMIT.. => 413`, otherwise the body is read): the order of
`finish` in the model is the order of `Request::read` in the source, as the translator reads it on every run — so whether a length is refused does not depend on
where the body bytes happen to be (the first read or later ones) -/
theorem source_limits_before_loading : Ohkami.Gen.limitCheckedBeforeLoading = true := by decide

end C02
