import OhkamiModel.HttpProofs
import OhkamiModel.HttpSound
import OhkamiModel.HeaderJoin
import OhkamiModel.M.HttpObs
import OhkamiModel.GenConsts
/-! # C02 — property theorems about the model of `Request::read` (OhkamiModel/Http.lean) -/
namespace C02
open Ohkami Ohkami.Http Ohkami.P

/-- **Faithfulness.** Every well-formed request (`WF`: a known method, an origin-form UTF-8 target, header lines
`name ": " value CRLF` with UTF-8 names/values free of `:` resp. CR, a body announced by Content-Length iff non-empty)
whose bytes are the first read is accepted, and what is handed on is exactly what the bytes denote (`view`): method,
normalised path, raw query, standard headers grouped case-insensitively with repeated values joined by ", " in order,
custom headers likewise, payload. -/
theorem parse_encode (r : Req) (mname : String) (h : WF r mname) (more : Bytes) :
    parse (encode r) more = .ok (view r mname) :=
  Ohkami.Http.parse_encode r mname h more

def Outcome.isPanic {α} : Outcome α → Bool
  | .panic _ => true
  | _ => false

theorem headers_never_panics : ∀ (fuel : Nat) (bs : Bytes) (std : List (Nat × Bytes)) (cus : List (Bytes × Bytes)),
    Outcome.isPanic (headers fuel bs std cus) = false := by
  intro fuel
  induction fuel with
  | zero => intros; rfl
  | succ n ih =>
    intro bs std cus
    rw [headers]
    repeat (first | rfl | exact ih _ _ _ | split)

theorem finish_never_panics (method : String) (np : Bytes) (q : Option Bytes) (r6 more : Bytes) :
    Outcome.isPanic (finish method np q r6 more) = false := by
  unfold finish
  have h := headers_never_panics (r6.length + 1) r6 [] []
  split
  · rfl
  · rfl
  · rename_i s hs; rw [hs] at h; exact h
  · repeat (first | rfl | split | dsimp only)

/-- **Totality.** Whatever bytes arrive as the first read (and whatever the stream still holds), the parser answers
`ok`, an error status, or by closing — it has no panicking outcome. -/
theorem parse_never_panics (first more : Bytes) : Outcome.isPanic (parse first more) = false := by
  unfold parse
  repeat (first | rfl | exact finish_never_panics _ _ _ _ _ | split | dsimp only)

theorem finish_method (method : String) (np : Bytes) (q : Option Bytes) (r6 more : Bytes) (p : Parsed)
    (hf : finish method np q r6 more = .ok p) : p.method = method := by
  unfold finish at hf
  split at hf
  · cases hf
  · cases hf
  · cases hf
  · repeat (first | (cases hf; rfl) | cases hf | split at hf | dsimp only at hf)

/-- **Soundness.**  Whatever first read the parser accepts has the shape of a request —
`method SP path [? query] SP HTTP/1.1 CRLF (name ": " value CRLF)* CRLF remaining` with a known method, an origin-form UTF-8 path —
and the request object is exactly what that shape denotes: the method, the path (one trailing `/` stripped), the query, the header
lines folded in order into the two maps, and as payload the first Content-Length bytes of what follows the head. -/
theorem parse_sound (first more : Bytes) (p : Parsed) (h : parse first more = .ok p) :
    ∃ (m path : Bytes) (query : Option Bytes) (hs : List (Bytes × Bytes)) (remaining : Bytes),
      first = m ++ SP :: (path ++ queryBytes query ++ SP :: (HTTP11 ++ (encodeHeaders hs ++ [CR, LF] ++ remaining))) ∧
      methodOf m = some p.method ∧ (∀ b ∈ m, b ≠ SP) ∧
      path.head? = some SLASH ∧ (∀ b ∈ path, b ≠ SP ∧ b ≠ QM) ∧ validUtf8 path = true ∧
      p.path = (if path.getLast? == some SLASH then path.dropLast else path) ∧
      p.query = query ∧ (∀ q, query = some q → ∀ b ∈ q, b ≠ SP) ∧
      (∀ kv ∈ hs, LineOK kv) ∧ (p.std, p.custom) = foldHeaders hs ∧ PayloadOK p.std remaining more p.payload :=
  Http.parse_sound' first more p h

/-- **The byte set of a header name in the source is the `tchar` of RFC 9110 5.6.2** (`"!" / "#" / "$" / "%" / "&" / "'" / "*" / "+" / "-" / "." /
"^" / "_" / "`" / "|" / "~" / DIGIT / ALPHA`): the model's `isTchar` is evaluated from the table the translator regenerates from
`Request::read` on every run, so a change of that set in the code changes this statement -/
theorem tchar_is_rfc9110 : ∀ n : Fin 256, Ohkami.Http.isTchar (UInt8.ofNat n.val) =
    (([33, 35, 36, 37, 38, 39, 42, 43, 45, 46, 94, 95, 96, 124, 126] : List Nat).contains n.val      -- ! # $ % & ' * + - . ^ _ ` | ~
      || (48 ≤ n.val && n.val ≤ 57) || (65 ≤ n.val && n.val ≤ 90) || (97 ≤ n.val && n.val ≤ 122)) := by                 -- DIGIT / ALPHA
  decide +kernel

/-- **The byte set of a header value in the source is that of RFC 9110 5.5** (`field-vchar = VCHAR / obs-text`, with SP and HTAB inside): no NUL, no bare LF,
no other control byte, no DEL — a request holding one in a header value is refused (400).  Evaluated from the table the translator regenerates from
`Request::read` on every run (a source without the check yields the full range and this statement fails). -/
theorem vchar_is_rfc9110 : ∀ n : Fin 256, Ohkami.Http.isVbyte (UInt8.ofNat n.val) =
    (n.val == 9 || (32 ≤ n.val && n.val ≤ 126) || 128 ≤ n.val) := by
  decide +kernel

/-- a value with a control byte is never handed on: whatever the request, an accepted one has only such bytes in its header values -/
theorem accepted_values_clean (first more : Bytes) (p : Parsed) (h : parse first more = .ok p) :
    ∃ hs : List (Bytes × Bytes), (p.std, p.custom) = foldHeaders hs ∧ ∀ kv ∈ hs, isValue kv.2 = true := by
  obtain ⟨_, _, _, hs, _, _, _, _, _, _, _, _, _, _, hl, hfold, _⟩ := parse_sound first more p h
  exact ⟨hs, hfold, fun kv hkv => (hl kv hkv).2.2.2.2.2.2⟩

/-- **The announced length is judged before anything is loaded** (`0 => no payload`, `PAYLOAD_LIMIT.. => 413`, otherwise the body is read): the order of
`finish` in the model is the order of `Request::read` in the source, as the translator reads it on every run — so whether a length is refused does not depend on
where the body bytes happen to be (the first read or later ones) -/
theorem source_limits_before_loading : Ohkami.Gen.limitCheckedBeforeLoading = true := by decide

/-- **Repeated headers are joined in order; names compare in any letter case** (names outside the table).  With `hs` the header lines of
the wire (`parse_sound` gives them), what `Headers::get(n)` hands a handler is `v1`, `", " v2`, … over exactly the lines whose name equals `n`
up to letter case, in wire order — and nothing when there is no such line. -/
theorem get_custom_joined (hs : List (Bytes × Bytes)) (p : Parsed) (hp : (p.std, p.custom) = foldHeaders hs)
    (n : Bytes) (hn : stdIndex n = none) : getHeader p n = joinOnto none (valuesOf hs n) := by
  have h2 : p.custom = (foldHeaders hs).2 := congrArg Prod.snd hp
  have hl := look_fold hs n hn ([], [])
  have hno : Gen.reqHeaderLower.findIdx? (fun t => t == n.map lower) = none := by
    simpa [stdIndex, List.idxOf?] using hn
  unfold getHeader
  rw [h2]
  unfold foldHeaders
  simp only [look, List.find?_nil, Option.map_none] at hl
  cases hf : List.find? (fun x => sameName x.1 n) (List.foldl stepH ([], []) hs).2 with
  | some nv => rw [hf] at hl; simpa using hl
  | none => rw [hf] at hl; simp only [hno]; simpa using hl

/-- the same for the names of the table: the `i`-th typed accessor sees the join of the lines spelt as that name in any letter case -/
theorem get_std_joined (hs : List (Bytes × Bytes)) (p : Parsed) (hp : (p.std, p.custom) = foldHeaders hs) (i : Nat) :
    getStd p i = joinOnto none (stdValuesOf hs i) := by
  have h1 : p.std = (foldHeaders hs).1 := congrArg Prod.fst hp
  have hl := lookStd_fold hs i ([], [])
  unfold getStd
  rw [h1]
  simpa [lookStd, foldHeaders] using hl

/-- the statement at the level of the wire: an accepted request's accessors see the joins of its own header lines -/
theorem accepted_headers_joined (first more : Bytes) (p : Parsed) (h : parse first more = .ok p) :
    ∃ hs : List (Bytes × Bytes), (∃ pre rest, first = pre ++ (encodeHeaders hs ++ [CR, LF] ++ rest)) ∧
      (∀ n, stdIndex n = none → getHeader p n = joinOnto none (valuesOf hs n)) ∧
      (∀ i, getStd p i = joinOnto none (stdValuesOf hs i)) := by
  obtain ⟨m, path, query, hs, remaining, hfirst, _, _, _, _, _, _, _, _, _, hfold, _⟩ := parse_sound first more p h
  refine ⟨hs, ⟨m ++ SP :: (path ++ queryBytes query ++ SP :: HTTP11), remaining, ?_⟩,
    fun n hn => get_custom_joined hs p hfold n hn, fun i => get_std_joined hs p hfold i⟩
  rw [hfirst]; simp

-- not vacuous: `x-foo: 1`, `Other: z`, `X-Foo: 2` read as `X-FOO`
example : joinOnto none (valuesOf [([120, 45, 102, 111, 111], [49]), ([79, 116, 104, 101, 114], [122]), ([88, 45, 70, 111, 111], [50])] [88, 45, 70, 79, 79])
    = some [49, 44, 32, 50] := by decide

end C02
