import OhkamiModel.P.SerdeTotal
import OhkamiModel.M.Cookie
import OhkamiModel.M.Multipart
/-! # C08 — property theorems: the decoders facing untrusted bytes are total, their unchecked operations are within
bounds, the strings they yield are UTF-8, the slices they yield lie inside the input. -/
namespace C08
open Ohkami

/-- **URL-encoded reader**: for every input, target type (any nesting of the serde data model) and fuel, the reader answers a
value or an error — it reaches neither a panic site (`unwrap`, indexing, overflow) nor an unchecked operation outside its side condition -/
theorem urlencoded_total (P : Serde.Prims) (fuel : Nat) (ty : Serde.Ty) (input : Bytes) :
    Serde.NoCrash (Serde.decode P false fuel ty ⟨input, .key⟩) :=
  Serde.from_bytes_total P fuel ty input

/-- **Cookie reader, `take_n_unchecked(n)`**: the index it is called with is a position inside the input -/
theorem cookie_take_in_bounds (p : UInt8 → Bool) : ∀ (bs : Bytes) (n : Nat), Cookie.position p bs = some n → n < bs.length := by
  intro bs
  induction bs with
  | nil => intro n h; simp [Cookie.position] at h
  | cons b t ih =>
    intro n h
    simp only [Cookie.position] at h
    split at h
    · simp at h; subst h; simp
    · cases hp : Cookie.position p t with
      | none => simp [hp] at h
      | some m => simp [hp] at h; subst h; have := ih m hp; simp; omega

/-- **Cookie reader**: every value it yields is valid UTF-8 (the percent-decoded bytes are checked, not assumed) -/
theorem cookie_value_utf8 (raw v : Bytes) (b : Bool) (h : Cookie.validValue raw = some (v, b)) : Http.validUtf8 v = true := by
  unfold Cookie.validValue at h
  dsimp only at h
  split at h
  · cases h
  · split at h
    · rename_i hv; simp at h; obtain ⟨rfl, _⟩ := h; exact hv
    · cases h

/-- **Multipart reader**: what `read_until` hands out is a prefix of what it was given (so every part content, name and file
name is a slice of the request body), and the two-byte CRLF split is taken only when at least two bytes are there -/
theorem multipart_slice_inside (pat bs : Bytes) : (Multipart.readUntil pat bs).1 <+: bs := by
  induction bs with
  | nil => simp [Multipart.readUntil]
  | cons b t ih =>
    simp only [Multipart.readUntil]
    split
    · simp
    · obtain ⟨r, hr⟩ := ih
      exact ⟨r, by simp [hr]⟩

/-- **Percent-decoding** never produces more bytes than it reads -/
theorem percent_decode_len : ∀ (n : Nat) (bs : Bytes), bs.length ≤ n → (Percent.decode bs).length ≤ bs.length := by
  intro n
  induction n with
  | zero => intro bs h; have : bs = [] := List.eq_nil_of_length_eq_zero (by omega); subst this; simp [Percent.decode]
  | succ n ih =>
    intro bs h
    match bs with
    | [] => simp [Percent.decode]
    | [b] => simp [Percent.decode]
    | [b, c] => simp [Percent.decode]
    | b :: x :: y :: rest =>
      rw [Percent.decode]
      have h1 := ih rest (by simp at h; omega)
      have h2 := ih (x :: y :: rest) (by simp at h ⊢; omega)
      split
      · split
        · simp; omega
        · simp at h2 ⊢; omega
      · simp at h2 ⊢; omega

end C08
