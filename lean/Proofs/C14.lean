import OhkamiModel.M.Cors
/-! # C14 — property theorems about the CORS model -/
namespace C14
open Ohkami Ohkami.Cors

/-- every response that passes the fang (success, error, 404, preflight) carries the configured origin -/
theorem acao_everywhere (p : Policy) (isOptions : Bool) (acrh : Option Bytes) (r : Inner) :
    (bite p isOptions acrh r).acao = some p.origin := by
  unfold bite
  repeat' (first | rfl | split | dsimp only)

/-- `Access-Control-Allow-Credentials: true` iff credentials were enabled on a non-wildcard origin; nothing else ever appears there -/
theorem credentials_iff (origin : Bytes) (want : Bool) (ah eh : Option Bytes) (ma : Option Nat) (isOptions : Bool) (acrh : Option Bytes) (r : Inner) :
    (bite (mkPolicy origin want ah eh ma) isOptions acrh r).acac =
      if want = true ∧ origin ≠ STAR then some (ascii "true") else none := by
  have hb : ∀ (p : Policy), (bite p isOptions acrh r).acac = if p.credentials then some (ascii "true") else none := by
    intro p; unfold bite; repeat' (first | rfl | split | dsimp only)
  rw [hb]
  simp only [mkPolicy, Bool.and_eq_true, bne_iff_ne, ne_eq]

/-- the configured exposed headers are on every response -/
theorem expose_headers (p : Policy) (isOptions : Bool) (acrh : Option Bytes) (r : Inner) :
    (bite p isOptions acrh r).aceh = p.exposeHeaders := by
  unfold bite
  repeat' (first | rfl | split | dsimp only)

/-- **Preflight**: for a route with registered methods `ms`, a preflight asking for method `m` succeeds (200, no body) iff
`m` is among the registered methods plus HEAD (with GET) plus OPTIONS; otherwise it is answered 400; in both cases it
advertises exactly that list; max-age and the configured-or-echoed request headers are as the policy says. -/
theorem preflight_iff (p : Policy) (ms : List Bytes) (m : Bytes) (acrh : Option Bytes) :
    let o := bite p true acrh (defaultOptions ms (some m))
    (o.status = 200 ↔ (available ms).contains m = true) ∧ ((available ms).contains m = false → o.status = 400) ∧
    o.hasBody = false ∧ o.acam = some (intercalate SEP (available ms)) ∧ o.acma = p.maxAge.map dec ∧
    o.acah = (p.allowHeaders <|> acrh) := by
  intro o
  by_cases h : (available ms).contains m = true
  · have ho : o = bite p true acrh ⟨501, some (intercalate SEP (available ms)), none, false⟩ := by
      simp only [o, defaultOptions, h, if_true]
    rw [ho]
    unfold bite
    have hm : m ∈ available ms := by simpa using h
    cases hah : (p.allowHeaders <|> acrh) <;> simp [hm, hah]
  · have h' : (available ms).contains m = false := by simpa using h
    have ho : o = bite p true acrh ⟨400, some (intercalate SEP (available ms)), none, false⟩ := by
      simp only [o, defaultOptions, h', Bool.false_eq_true, if_false]
    rw [ho]
    unfold bite
    have hm : m ∉ available ms := by simpa using h'
    cases hah : (p.allowHeaders <|> acrh) <;> simp [hm, hah]

/-- an OPTIONS request that is not a preflight (no Access-Control-Request-Method) fails with 404 -/
theorem options_without_method (p : Policy) (ms : List Bytes) (acrh : Option Bytes) :
    (bite p true acrh (defaultOptions ms none)).status = 404 := by
  unfold bite defaultOptions
  cases hah : (p.allowHeaders <|> acrh) <;> simp [hah]

end C14
