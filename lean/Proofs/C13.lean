import OhkamiModel.P.BasicAuthProofs
import OhkamiModel.Http
/-! # C13 — property theorems about the model of `BasicAuth::fore` (single and array form share it) -/
namespace C13
open Ohkami Ohkami.B64 Ohkami.BasicAuth

/-- **The iff.** For configured pairs whose user-ids contain no `:` (RFC 7617) and are text: the handler runs iff the
Authorization value is `Basic ` followed by the (canonical, padded) base64 of `user:password` of one configured pair. -/
theorem admit_iff (pairs : List Pair)
    (hu : ∀ pr ∈ pairs, colon ∉ pr.user) (hv : ∀ pr ∈ pairs, Http.validUtf8 (pr.user ++ [colon] ++ pr.pass) = true)
    (auth : Option Bytes) :
    fore Http.validUtf8 pairs auth = .admit ↔
      ∃ pr ∈ pairs, auth = some (basicPrefix ++ encode (pr.user ++ [colon] ++ pr.pass)) :=
  admit_iff' Http.validUtf8 pairs hu hv auth

/-- base64 (standard alphabet, padded) round trip and canonicity: no second spelling of a credential is accepted -/
theorem b64_roundtrip (bs : Bytes) : decode (encode bs) = some bs := decode_encode' bs
theorem b64_canonical (s bs : Bytes) (h : decode s = some bs) : s = encode bs := encode_decode' s bs h

/-- every refusal is the 401 outcome; the repaired code has no panicking path -/
theorem refusal_shape (pairs : List Pair) (auth : Option Bytes) :
    fore Http.validUtf8 pairs auth = .admit ∨ fore Http.validUtf8 pairs auth = .unauthorized := by
  unfold fore
  repeat (first | exact Or.inl rfl | exact Or.inr rfl | split)

end C13
