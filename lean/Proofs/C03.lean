import OhkamiModel.M.ResponseProofs
/-! # C03 — property theorems (statements only; the proofs are in OhkamiModel/M/ResponseProofs.lean) -/
namespace C03
open Ohkami Ohkami.Response

/-- For every configuration of header names / status lines, every status, date value and finite sequence of
public operations: the bytes `send` writes are exactly as many as the capacity it reserved. -/
theorem send_exact (c : Cfg) (ok : c.OK) (status : Nat) (date : Bytes) (ops : List ROp)
    (hk : ∀ op ∈ ops, op.keyOk c.n) :
    (render c (build c status date ops)).length = declared c (build c status date ops) :=
  Response.send_exact c ok status date ops hk

/-- no unchecked push overruns the buffer -/
theorem send_no_overrun (c : Cfg) (ok : c.OK) (status : Nat) (date : Bytes) (ops : List ROp)
    (hk : ∀ op ∈ ops, op.keyOk c.n) : noOverrun c (build c status date ops) :=
  Response.send_no_overrun c ok status date ops hk

/-- header-level core: the size accounting invariant holds after every operation history -/
theorem size_exact (nameLen : Nat → Nat) (n : Nat) (ops : List HOp) (hk : ∀ op ∈ ops, op.keyOk n) :
    (ops.foldl (Headers.apply nameLen) (Headers.empty n)).Inv nameLen n :=
  size_exact' nameLen n ops hk

end C03
