import OhkamiModel.M.ResponseProofs
import OhkamiModel.M.ResponseWire
import OhkamiModel.M.Framing
import OhkamiModel.M.ResponseNames
/-! # C03 — property theorems (statements only; the proofs are in OhkamiModel/M/ResponseProofs.lean) -/
namespace C03
open Ohkami Ohkami.Response

/-- For every configuration of header names / status lines, every status, date value and finite sequence of
public operations: the bytes `send` writes are exactly as many as the capacity it reserved. -/
theorem send_exact (c : Cfg) (ok : c.OK) (status : Nat) (date : Bytes) (ops : List ROp)
    (hk : ∀ op ∈ ops, op.keyOk c.n) :
    (render c (build c status date ops)).length = declared c (build c status date ops) :=
  Response.send_exact c ok status date ops hk

/-- no unchecked push overruns the buffer -/
theorem send_no_overrun (c : Cfg) (ok : c.OK) (status : Nat) (date : Bytes) (ops : List ROp)
    (hk : ∀ op ∈ ops, op.keyOk c.n) : noOverrun c (build c status date ops) :=
  Response.send_no_overrun c ok status date ops hk

/-- header-level core: the size accounting invariant holds after every operation history -/
theorem size_exact (nameLen : Nat → Nat) (n : Nat) (ops : List HOp) (hk : ∀ op ∈ ops, op.keyOk n) :
    (ops.foldl (Headers.apply nameLen) (Headers.empty n)).Inv nameLen n :=
  size_exact' nameLen n ops hk

/-- **Latest value, nothing removed or stale.**  After any operation the standard-header store reads as the abstract map
(header -> value) updated by that operation: insert sets, remove erases, append joins with ", " — for every history. -/
theorem latest_value (nameLen : Nat → Nat) (n : Nat) (h : Headers) (hi : h.Inv nameLen n) (op : HOp) (hk : op.keyOk n) (k' : Nat) :
    (h.apply nameLen op).std.get k' = absStd h.std.get op k' :=
  std_refines nameLen n h hi op hk k'

/-- **Every live header exactly once**: a line is written for (k, v) iff the store reads v under k, and no header name gets two lines. -/
theorem live_exact (m : IndexMap) (n : Nat) (hw : m.WF n) :
    (∀ k v, (k, v) ∈ m.live ↔ m.get k = some v) ∧ (m.live.map (·.1)).Nodup :=
  ⟨fun k v => live_iff_get m n hw k v, live_keys_nodup m⟩

/-- **Framing.**  Whatever sequence of public operations built the response (Content-Length itself left to the body setters): a 204 goes
out with no body and no Content-Length; any other response with a body declares exactly the number of body bytes; one without a body
declares `Content-Length: 0` unless its status (1xx, 304) forbids a body anyway. -/
theorem framing (c : Cfg) (ok : c.OK) (status : Nat) (date : Bytes) (ops : List ROp)
    (hk : ∀ op ∈ ops, op.keyOk c.n) (hl : ∀ op ∈ ops, op.leavesCL c) :
    let r := build c status date ops
    r.status = status ∧
    (status = 204 → r.body = none ∧ r.headers.std.get c.kCL = none) ∧
    (status ≠ 204 → ∀ b, r.body = some b → r.headers.std.get c.kCL = some (dec b.length)) ∧
    (status ≠ 204 → r.body = none → mayHaveNoLength status = false → r.headers.std.get c.kCL = some zero) :=
  Response.framing c ok status date ops hk hl

/-! ### framing for every content kind (payload, none, event stream), GET and HEAD: the automaton `Ohkami.Framing` over the body operations of the public API -/

/-- **Never both**: whatever the sequence of body operations (`set_text` / `set_html` / `set_json` / `set_payload`, `drop_content`, `set_stream`), the status
and the method, the completed response does not carry `Content-Length` beside `Transfer-Encoding: chunked` (RFC 9112 6.2) -/
theorem never_both (status : Nat) (ops : List Ohkami.Framing.Op) (head : Bool) :
    ¬ ((Ohkami.Framing.build status ops head).cl.isSome = true ∧ (Ohkami.Framing.build status ops head).te = true) :=
  Ohkami.Framing.never_both status ops head

/-- **204**: no content, no `Content-Length`, no `Transfer-Encoding`, for every history, GET and HEAD -/
theorem no_content_204 (ops : List Ohkami.Framing.Op) (head : Bool) :
    (Ohkami.Framing.build 204 ops head).content = .none ∧ (Ohkami.Framing.build 204 ops head).cl = none ∧ (Ohkami.Framing.build 204 ops head).te = false :=
  Ohkami.Framing.no_content_204 ops head

/-- **The content that is sent is the content that is announced**: an event stream goes out chunked without a declared length, a payload under its own
length and not chunked — also when one replaced the other any number of times -/
theorem content_announced (status : Nat) (ops : List Ohkami.Framing.Op) (h204 : status ≠ 204) :
    ((Ohkami.Framing.build status ops false).content = .stream → (Ohkami.Framing.build status ops false).te = true ∧ (Ohkami.Framing.build status ops false).cl = none) ∧
    (∀ n, (Ohkami.Framing.build status ops false).content = .payload n → (Ohkami.Framing.build status ops false).cl = some n ∧ (Ohkami.Framing.build status ops false).te = false) :=
  Ohkami.Framing.content_announced status ops h204

/-- **The client can determine the end of the message**: a declared length or the chunked coding, unless the status never has content (1xx, 204, 304) -/
theorem end_determinable (status : Nat) (ops : List Ohkami.Framing.Op) :
    (Ohkami.Framing.build status ops false).cl.isSome = true ∨ (Ohkami.Framing.build status ops false).te = true ∨ status = 204 ∨ Ohkami.Framing.noLengthStatus status = true :=
  Ohkami.Framing.end_determinable status ops

/-- a history in which a stream is replaced, dropped and set again (the histories repaired by 425e3ae and 75d3d56) -/
example : Ohkami.Framing.build 200 [.stream, .payload 5, .drop, .stream, .stream] false = ⟨200, .stream, none, true⟩ ∧
    Ohkami.Framing.build 200 [.stream, .payload 5] true = ⟨200, .none, some 5, false⟩ := by decide

/-! ### one header per field name, whatever its letter case and whichever way the API was given it -/

/-- **No field name gets two lines, in whatever spelling it was given.**  For every history of public operations (typed setters, `.x(name, ..)` with
names in any letter case — names of the standard table among them —, cookies, payloads, `drop_content`), every status: among the lines written for
names outside the table no two names are equal ignoring case (`linesFor .. n ≤ 1` for every `n`), and none of them is a name of the table
(`strays = 0`): those are written from the table, where `live_exact` gives one line per name. -/
theorem names_apart (c : Cfg) (status : Nat) (date : Bytes) (ops : List ROp) (hv : ∀ op ∈ ops, op.viaApi) :
    (∀ n, linesFor (build c status date ops).headers.custom n ≤ 1) ∧ strays c (build c status date ops).headers.custom = 0 :=
  Response.names_apart c status date ops hv

/-- a registered name given to `.x` in any spelling is the header of its typed setter -/
theorem x_reaches_the_table (c : Cfg) (h : Headers) (n v : Bytes) (k : Nat) (hk : stdIdx c n = some k) :
    resolveX c h (.set n v) = .insert k v ∧ resolveX c h (.remove n) = .remove k ∧ resolveX c h (.append n v) = .append k v := by
  simp [resolveX, hk]

-- not vacuous: `x-a`, `X-A`, `X-a` are one line; `server` through `.x` is the table's `Server`
example : let c : Cfg := ⟨[[83, 101, 114, 118, 101, 114], [68], [76], [84]], 2, 3, 1, fun _ => []⟩
    let r := build c 200 [49] [.x (.set [120, 45, 97] [49]), .x (.set [88, 45, 65] [50]), .x (.append [88, 45, 97] [51]), .x (.set [115, 101, 114, 118, 101, 114] [52])]
    r.headers.custom = [([120, 45, 97], [50, 44, 32, 51])] ∧ r.headers.std.get 0 = some [52] := by decide

end C03
