import OhkamiModel.M.ShutdownProofs
/-! # C18 — property theorems about the shutdown protocol model -/
namespace C18
open Ohkami.Shutdown2

/-- **The interrupt is never lost.** In every state reachable under any interleaving of the handler's three steps
(set flag, take waker, wake), the accept loop's steps (load flag, publish waker, re-check flag, return) and reactor wakes
(connections arriving, spurious wakes), at first and later polls: if the handler has run to completion and nothing that
is guaranteed to happen can happen any more, the loop has returned `None` (it is not left waiting for a wake nobody
will send). -/
theorem no_lost_wakeup (s : St) (h : Reachable true s) : lost true s = false :=
  Ohkami.Shutdown2.no_lost_wakeup s h

/-- the window existed in the code as it was (without the re-check): a reachable state lost the interrupt -/
theorem lost_wakeup_in_old_code : (reach false 16 [init]).any (lost false) = true :=
  Ohkami.Shutdown2.lost_wakeup_in_old_code

/-- **`howl` returns exactly when all in-flight sessions have finished.** For every valid history of sessions starting
(`add`), finishing in any order (`done`) and polls of the wait group: each poll is Ready iff no session is alive at
that moment. -/
theorem howl_waits (ops : List WOp) (hv : wvalid 0 ops) (hb : ops.length < 2 ^ 64) : wrun 0 ops = livePolls 0 ops :=
  wrun_exact ops 0 hv (by omega)

end C18
