import OhkamiModel.M.ShutdownProofs
import OhkamiModel.M.WaitGroup
import OhkamiModel.GenShutdown
/-! # C18 — property theorems about the shutdown protocol model -/
namespace C18
open Ohkami.Shutdown2

/-- **The interrupt is never lost.** In every state reachable under any interleaving of the handler's three steps
(set flag, take waker, wake), the accept loop's steps (look at the flag, poll accept, load flag, publish waker, re-check flag, return),
connections arriving and spurious wakes, at first and later polls: if the handler has run to completion and nothing that
is guaranteed to happen can happen any more, the loop has returned `None` (it is not left waiting for a wake nobody
will send). -/
theorem no_lost_wakeup (s : St) (h : Reachable true true s) : lost true true s = false :=
  Ohkami.Shutdown2.no_lost_wakeup s h

/-- the window existed in the code as it was (without the re-check): a reachable state lost the interrupt -/
theorem lost_wakeup_in_old_code : (reach false true 24 [init]).any (lost false true) = true :=
  Ohkami.Shutdown2.lost_wakeup_in_old_code

/-- **The code is the repaired transition system**: the two parameters of `step` for which the theorems below are proved are what the translator
reads off `UntilInterrupt::poll` on every run — the poll looks at CATCH before it polls `accept()`, and again after it published its waker -/
theorem source_is_the_proved_system : Ohkami.Gen.pollRecheck = true ∧ Ohkami.Gen.pollFlagFirst = true := by decide

/-- ... and `howl` ends by awaiting the wait group itself, to its end (`wg.await`, not raced against a timer): what `howl_waits` and the `wg_*` theorems are about -/
theorem source_awaits_every_session : Ohkami.Gen.howlAwaitsWaitGroup = true := by decide

/-- **The server stops accepting, also under load.** In every reachable state in which the handler has run to completion, the accept loop
returns `None` within three of its own steps, whatever connections arrive meanwhile (every pattern of arrivals before each step): no
connection that is waiting, and no stream of connections, keeps it accepting. -/
theorem stops_accepting_under_load (s : St) (h : Reachable true true s) (hd : s.hpc = .hDone) (p : List Bool) (hp : p.length = 3) :
    (runLoad true true s p).ppc = .returnedNone :=
  returns_under_load s h hd p (mem_patterns 3 p hp)

/-- in the code as it was (the flag looked at only after `accept()` returned `Pending`) a connection ready at every poll kept the loop
accepting for ever after the interrupt had been delivered completely (repaired by 1c39839) -/
theorem kept_accepting_in_old_code :
    let s := ((step true false init .handler).bind fun s => (step true false s .handler).bind fun s => step true false s .handler).getD init
    s.hpc = .hDone ∧ (runLoad true false s (List.replicate 64 true)).ppc ≠ .returnedNone :=
  keeps_accepting_in_old_code

/-- **`howl` returns exactly when all in-flight sessions have finished.** For every valid history of sessions starting
(`add`), finishing in any order (`done`) and polls of the wait group: each poll is Ready iff no session is alive at
that moment. -/
theorem howl_waits (ops : List WOp) (hv : wvalid 0 ops) (hb : ops.length < 2 ^ 64) : wrun 0 ops = livePolls 0 ops :=
  wrun_exact ops 0 hv (by omega)

/-- **Awaiting the wait group never returns early**: in every state reachable from any number of sessions in flight, under any
interleaving of sessions ending with the steps of `WaitGroup::poll` (load the counter; wake the own task; return `Pending`), the
awaiting task has returned only if no session is in flight -/
theorem wg_never_early (n : Nat) (s : Ohkami.WG.St) (h : Ohkami.WG.Reachable n s) (hr : s.pc = .ready) : s.count = 0 :=
  (Ohkami.WG.inv_reachable n s h).2 hr

/-- **and the awaiting task is never parked**: whenever it is between two polls, a wake is pending (the poll woke itself before returning
`Pending`), so the end of a session can never be missed — also when the last session ends between the load and the wake -/
theorem wg_never_asleep (n : Nat) (s : Ohkami.WG.St) (h : Ohkami.WG.Reachable n s) (hi : s.pc = .idle) : s.wake = true :=
  (Ohkami.WG.inv_reachable n s h).1 hi

/-- **so `howl` returns**: once the last session has ended, the awaiting task returns within three of its own steps, wherever it was -/
theorem wg_progress (s : Ohkami.WG.St) (hc : s.count = 0) :
    (Ohkami.WG.pollerStep (Ohkami.WG.pollerStep (Ohkami.WG.pollerStep s))).pc = .ready :=
  Ohkami.WG.progress s hc

/-- the premises are met by a state in which the last of three sessions ended between the load and the wake -/
example : ∃ s, Ohkami.WG.Reachable 1 s ∧ s.pc = .loaded ∧ s.count = 0 := by
  refine ⟨⟨0, .loaded, false⟩, ?_, rfl, rfl⟩
  exact .step ⟨1, .loaded, false⟩ _ .done (.step (Ohkami.WG.init 1) _ .load .init (by decide)) (by decide)

end C18
