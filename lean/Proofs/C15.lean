import OhkamiModel.M.OpenApi
import OhkamiModel.P.FangsLookup
/-! # C15 — the generated OpenAPI document describes exactly the application

Statements over ALL application trees (any nesting of mounts, any number of routes, methods, fangs of the four kinds at any level,
any handler signature).  The model is tied to the code by the correspondence check (real `__openapi_document_bytes__` of
generated applications against `document`). -/

namespace Ohkami.OpenApi.C15
open Ohkami.OpenApi

/-! ### path parameters: every `{p}` of the template is declared, required, in order -/

def pathNames (ps : List Param) : List Str := (ps.filter (·.kind = .path)).map (·.name)

/-- on the list of path-parameter names, `assign_path_param_name` fills the first empty name or appends -/
def fill : List Str → Str → List Str
  | [], n => [n]
  | x :: xs, n => if x = [] then n :: xs else x :: fill xs n

theorem pathNames_append (a b : List Param) : pathNames (a ++ b) = pathNames a ++ pathNames b := by
  simp [pathNames]

theorem assignIn_none (ps : List Param) (n : Str) (h : assignIn ps n = none) : ∀ x ∈ pathNames ps, x ≠ [] := by
  induction ps with
  | nil => simp [pathNames]
  | cons p ps ih =>
    unfold assignIn at h
    split at h
    · cases h
    · rename_i hp
      have hrest : assignIn ps n = none := by
        cases hh : assignIn ps n with
        | none => rfl
        | some v => simp [hh] at h
      intro x hx
      by_cases hk : p.kind = .path
      · simp only [pathNames, List.filter, hk, decide_true, List.map_cons, List.mem_cons] at hx
        rcases hx with rfl | hx
        · intro hn; exact hp ⟨hk, hn⟩
        · exact ih hrest x hx
      · have : pathNames (p :: ps) = pathNames ps := by simp [pathNames, List.filter, hk]
        rw [this] at hx
        exact ih hrest x hx

theorem fill_no_empty (l : List Str) (n : Str) (h : ∀ x ∈ l, x ≠ []) : fill l n = l ++ [n] := by
  induction l with
  | nil => rfl
  | cons x xs ih =>
    have hx : x ≠ [] := h x (List.mem_cons_self ..)
    simp [fill, hx, ih (fun y hy => h y (List.mem_cons_of_mem _ hy))]

theorem assignIn_some (ps ps' : List Param) (n : Str) (h : assignIn ps n = some ps') : pathNames ps' = fill (pathNames ps) n := by
  induction ps generalizing ps' with
  | nil => simp [assignIn] at h
  | cons p ps ih =>
    unfold assignIn at h
    split at h
    · rename_i hp
      cases h
      simp [pathNames, List.filter, hp.1, hp.2, fill]
    · rename_i hp
      cases hh : assignIn ps n with
      | none => simp [hh] at h
      | some v =>
        simp only [hh, Option.map_some, Option.some.injEq] at h
        subst h
        by_cases hk : p.kind = .path
        · have hn : p.name ≠ [] := fun hn => hp ⟨hk, hn⟩
          simp [pathNames, List.filter, hk, fill, hn] at *
          exact ih v hh
        · have e1 : pathNames (p :: v) = pathNames v := by simp [pathNames, List.filter, hk]
          have e2 : pathNames (p :: ps) = pathNames ps := by simp [pathNames, List.filter, hk]
          rw [e1, e2]; exact ih v hh

/-- `assign_path_param_name` acts on the names of the path parameters as `fill` -/
theorem assign_pathNames (ps : List Param) (n : Str) : pathNames (assign ps n) = fill (pathNames ps) n := by
  unfold assign
  cases h : assignIn ps n with
  | some v => exact assignIn_some ps v n h
  | none =>
    simp only
    rw [pathNames_append, fill_no_empty _ _ (assignIn_none ps n h)]
    simp [pathNames]

theorem fill_done (done : List Str) (k : Nat) (n : Str) (hd : ∀ x ∈ done, x ≠ []) :
    fill (done ++ List.replicate k []) n = done ++ [n] ++ List.replicate (k - 1) [] := by
  induction done with
  | nil =>
    cases k with
    | zero => simp [fill]
    | succ k => simp [fill, List.replicate_succ]
  | cons x xs ih =>
    have hx : x ≠ [] := hd x (List.mem_cons_self ..)
    simp [fill, hx, ih (fun y hy => hd y (List.mem_cons_of_mem _ hy))]

theorem fillAll (names done : List Str) (k : Nat) (hn : ∀ x ∈ names, x ≠ []) (hd : ∀ x ∈ done, x ≠ []) :
    names.foldl fill (done ++ List.replicate k []) = done ++ names ++ List.replicate (k - names.length) [] := by
  induction names generalizing done k with
  | nil => simp
  | cons n ns ih =>
    simp only [List.foldl_cons]
    rw [fill_done done k n hd]
    have hd' : ∀ x ∈ done ++ [n], x ≠ [] := by
      intro x hx
      rcases List.mem_append.mp hx with h | h
      · exact hd x h
      · simp at h; subst h; exact hn _ (List.mem_cons_self ..)
    rw [ih (done ++ [n]) (k - 1) (fun y hy => hn y (List.mem_cons_of_mem _ hy)) hd']
    simp [Nat.sub_sub, Nat.add_comm]

theorem assignAll_pathNames (ps : List Param) (names : List Str) : pathNames (assignAll ps names) = names.foldl fill (pathNames ps) := by
  induction names generalizing ps with
  | nil => rfl
  | cons n ns ih => simp [assignAll, List.foldl_cons, assign_pathNames] at *; rw [ih]; simp [assign_pathNames]

theorem mapThrough_parameters (chain : List Fang) (op : Operation) : (mapThrough chain op).parameters = op.parameters := by
  induction chain generalizing op with
  | nil => rfl
  | cons f fs ih => simp only [mapThrough, List.foldl_cons] at *; rw [ih]; cases f <;> rfl

theorem sig_pathNames (s : Sig) (hq : ∀ p ∈ s.query, p.kind = .query) : pathNames s.operation.parameters = List.replicate s.pathTys.length [] := by
  have hq' : pathNames s.query = [] := by
    unfold pathNames
    have : s.query.filter (fun p => decide (p.kind = .path)) = [] := by
      apply List.filter_eq_nil_iff.mpr
      intro p hp; simp [hq p hp]
    simp [this]
  simp only [Sig.operation, pathNames_append, hq', List.append_nil]
  induction s.pathTys with
  | nil => rfl
  | cons t ts ih => simp [pathNames, List.filter, List.replicate_succ] at *; exact ih

/-- **Path parameters.**  For every registered handler, the path parameters of the documented operation are named — in order —
exactly by the `:params` of the route from the root (mount prefixes included), followed by one unnamed leftover per parameter the
handler takes beyond what the route captures (none once `finalize`'s assertion `n_params ≤ route.n_params` holds). -/
theorem path_params_named (f : Flat) (hq : ∀ p ∈ f.sig.query, p.kind = .query) (hn : ∀ x ∈ paramNames f.route, x ≠ []) :
    pathNames f.operation.parameters = paramNames f.route ++ List.replicate (f.sig.pathTys.length - (paramNames f.route).length) [] := by
  simp only [Flat.operation]
  rw [assignAll_pathNames, mapThrough_parameters, sig_pathNames _ hq]
  have := fillAll (paramNames f.route) [] f.sig.pathTys.length hn (by simp)
  simpa using this

/-- the corollary the property states: under the router's own assertion, every `{p}` of the template is a declared path parameter,
they come in template order, and there is nothing else among the path parameters -/
theorem template_params_declared (f : Flat) (hq : ∀ p ∈ f.sig.query, p.kind = .query) (hn : ∀ x ∈ paramNames f.route, x ≠ [])
    (hfit : f.sig.pathTys.length ≤ (paramNames f.route).length) : pathNames f.operation.parameters = paramNames f.route := by
  rw [path_params_named f hq hn, Nat.sub_eq_zero_of_le hfit]; simp

theorem assignIn_required (ps ps' : List Param) (n : Str) (h : assignIn ps n = some ps') (hr : ∀ p ∈ ps, p.kind = .path → p.required = true) :
    ∀ p ∈ ps', p.kind = .path → p.required = true := by
  induction ps generalizing ps' with
  | nil => simp [assignIn] at h
  | cons q qs ih =>
    unfold assignIn at h
    split at h
    · cases h
      intro p hp hk
      rcases List.mem_cons.mp hp with rfl | hp
      · exact hr q (List.mem_cons_self ..) (by simpa using hk)
      · exact hr p (List.mem_cons_of_mem _ hp) hk
    · cases hh : assignIn qs n with
      | none => simp [hh] at h
      | some v =>
        simp only [hh, Option.map_some, Option.some.injEq] at h
        subst h
        intro p hp hk
        rcases List.mem_cons.mp hp with rfl | hp
        · exact hr _ (List.mem_cons_self ..) hk
        · exact ih v hh (fun p hp => hr p (List.mem_cons_of_mem _ hp)) p hp hk

theorem assign_required (ps : List Param) (n : Str) (hr : ∀ p ∈ ps, p.kind = .path → p.required = true) :
    ∀ p ∈ assign ps n, p.kind = .path → p.required = true := by
  unfold assign
  cases h : assignIn ps n with
  | some v => exact assignIn_required ps v n h hr
  | none =>
    intro p hp hk
    rcases List.mem_append.mp hp with hp | hp
    · exact hr p hp hk
    · simp at hp; subst hp; rfl

/-- every path parameter of every documented operation is `required: true` -/
theorem path_params_required (f : Flat) (hq : ∀ p ∈ f.sig.query, p.kind = .query) : ∀ p ∈ f.operation.parameters, p.kind = .path → p.required = true := by
  simp only [Flat.operation]
  rw [mapThrough_parameters]
  have base : ∀ p ∈ f.sig.operation.parameters, p.kind = .path → p.required = true := by
    intro p hp hk
    simp only [Sig.operation, List.mem_append, List.mem_map] at hp
    rcases hp with ⟨t, _, rfl⟩ | hp
    · rfl
    · have := hq p hp; rw [this] at hk; cases hk
  generalize f.sig.operation.parameters = ps at base
  induction paramNames f.route generalizing ps with
  | nil => exact base
  | cons n ns ih => exact ih (assign ps n) (assign_required ps n base)

/-! ### security: a requirement iff an authentication fang guards the handler -/

theorem mapThrough_security (chain : List Fang) (op : Operation) : (mapThrough chain op).security = op.security ++ chain.filterMap Fang.scheme := by
  induction chain generalizing op with
  | nil => simp [mapThrough]
  | cons f fs ih =>
    simp only [mapThrough, List.foldl_cons] at *
    rw [ih]
    cases f <;> simp [Fang.mapOperation, Fang.scheme, List.filterMap_cons, List.append_assoc]

/-- the security requirements of a documented operation are exactly the schemes of the authentication fangs around the handler
(its own local fangs, its application's, and every enclosing application's), innermost first -/
theorem security_exact (f : Flat) : f.operation.security = f.chain.filterMap Fang.scheme := by
  simp [Flat.operation, mapThrough_security, Sig.operation]

theorem security_iff (f : Flat) : f.operation.security ≠ [] ↔ ∃ g ∈ f.chain, g.isAuth = true := by
  rw [security_exact]
  constructor
  · intro h
    cases hh : f.chain.filterMap Fang.scheme with
    | nil => exact absurd hh h
    | cons s _ =>
      have : s ∈ f.chain.filterMap Fang.scheme := by rw [hh]; exact List.mem_cons_self ..
      obtain ⟨g, hg, hs⟩ := List.mem_filterMap.mp this
      exact ⟨g, hg, by cases g <;> simp_all [Fang.scheme, Fang.isAuth]⟩
  · rintro ⟨g, hg, ha⟩ h
    have hnil : ∀ a ∈ f.chain, Fang.scheme a = none := by simpa [List.filterMap_eq_nil_iff] using h
    have := hnil g hg
    cases g <;> simp [Fang.scheme, Fang.isAuth] at this ha

theorem mapThrough_tags (chain : List Fang) (op : Operation) :
    (mapThrough chain op).tags = op.tags ++ chain.filterMap (fun | .tag t => some t | _ => none) := by
  induction chain generalizing op with
  | nil => simp [mapThrough]
  | cons f fs ih =>
    simp only [mapThrough, List.foldl_cons] at *
    rw [ih]
    cases f <;> simp [Fang.mapOperation, List.filterMap_cons, List.append_assoc]

/-- body, responses and query parameters are the signature's, whatever surrounds the handler -/
theorem body_responses_exact (f : Flat) : f.operation.body = f.sig.body ∧ f.operation.responses = f.sig.responses := by
  have h : ∀ (chain : List Fang) (op : Operation), (mapThrough chain op).body = op.body ∧ (mapThrough chain op).responses = op.responses := by
    intro chain
    induction chain with
    | nil => intro op; exact ⟨rfl, rfl⟩
    | cons g gs ih => intro op; simp only [mapThrough, List.foldl_cons] at *; rw [(ih _).1, (ih _).2]; cases g <;> exact ⟨rfl, rfl⟩
  simpa [Flat.operation, Sig.operation] using h f.chain f.sig.operation

/-! ### the path/method pairs are precisely the registered ones, `:p` written `{p}` -/

/-- one document entry per registered (route, method), in registration order, at the template of the route -/
theorem pairs_exact (a : App) : (document a).map (fun e => (e.path, e.method)) = (flatten a [] []).map (fun f => (template f.route, f.method)) := by
  simp [document]

theorem seg_template_no_slash (s : Seg) (h : s.clean) : '/' ∉ s.template := by
  cases s with
  | lit t => exact h.1
  | param n => simp only [Seg.template, List.mem_append, List.mem_cons, List.not_mem_nil]; intro hh; rcases hh with (hh | hh) | hh <;> simp_all [Seg.clean]

theorem seg_template_inj (s t : Seg) (hs : s.clean) (ht : t.clean) (h : s.template = t.template) : s = t := by
  cases s with
  | lit a =>
    cases t with
    | lit b => simp [Seg.template] at h; rw [h]
    | param n =>
      simp only [Seg.template] at h
      have : a.head? = some '{' := by rw [h]; rfl
      exact absurd this hs.2.1
  | param m =>
    cases t with
    | lit b =>
      simp only [Seg.template] at h
      have : b.head? = some '{' := by rw [← h]; rfl
      exact absurd this ht.2.1
    | param n =>
      simp only [Seg.template, List.cons_append, List.nil_append, List.cons.injEq, true_and] at h
      have := List.append_inj_left' h rfl
      rw [this]

def render (route : List Seg) : Str := (route.map fun s => '/' :: s.template).flatten

/-- a `/`-free prefix in front of "nothing or a `/`" is determined -/
theorem prefix_unique (a b x y : Str) (ha : '/' ∉ a) (hb : '/' ∉ b) (hx : x = [] ∨ x.head? = some '/') (hy : y = [] ∨ y.head? = some '/')
    (h : a ++ x = b ++ y) : a = b ∧ x = y := by
  induction a generalizing b with
  | nil =>
    cases b with
    | nil => exact ⟨rfl, by simpa using h⟩
    | cons c cs =>
      simp only [List.nil_append] at h
      rcases hx with rfl | hx
      · simp at h
      · rw [h] at hx; simp at hx; subst hx; simp at hb
  | cons c cs ih =>
    cases b with
    | nil =>
      simp only [List.nil_append] at h
      rcases hy with rfl | hy
      · simp at h
      · rw [← h] at hy; simp at hy; subst hy; simp at ha
    | cons d ds =>
      simp only [List.cons_append, List.cons.injEq] at h
      have := ih ds (fun hh => ha (List.mem_cons_of_mem _ hh)) (fun hh => hb (List.mem_cons_of_mem _ hh)) h.2
      exact ⟨by rw [h.1, this.1], this.2⟩

theorem render_head (r : List Seg) : render r = [] ∨ (render r).head? = some '/' := by
  cases r with
  | nil => left; rfl
  | cons s rest => right; simp [render]

theorem render_inj (r1 r2 : List Seg) (h1 : ∀ s ∈ r1, s.clean) (h2 : ∀ s ∈ r2, s.clean) (h : render r1 = render r2) : r1 = r2 := by
  induction r1 generalizing r2 with
  | nil =>
    cases r2 with
    | nil => rfl
    | cons s rest => simp [render] at h
  | cons s rest ih =>
    cases r2 with
    | nil => simp [render] at h
    | cons t rest2 =>
      have e1 : render (s :: rest) = '/' :: (s.template ++ render rest) := by simp [render]
      have e2 : render (t :: rest2) = '/' :: (t.template ++ render rest2) := by simp [render]
      rw [e1, e2] at h
      simp only [List.cons.injEq, true_and] at h
      have hs := h1 s (List.mem_cons_self ..)
      have ht := h2 t (List.mem_cons_self ..)
      obtain ⟨ha, hb⟩ := prefix_unique _ _ _ _ (seg_template_no_slash s hs) (seg_template_no_slash t ht) (render_head rest) (render_head rest2) h
      rw [seg_template_inj s t hs ht ha, ih rest2 (fun x hx => h1 x (List.mem_cons_of_mem _ hx)) (fun x hx => h2 x (List.mem_cons_of_mem _ hx)) hb]

/-- **Templates are faithful**: two routes with the same path template are the same route — so the path/method pairs of the
document are in one-to-one correspondence with the registered route/method pairs. -/
theorem seg_template_ne_nil (s : Seg) (h : s.clean) : s.template ≠ [] := by
  cases s with
  | lit t => exact h.2.2
  | param n => simp [Seg.template]

theorem template_cons (s : Seg) (rest : List Seg) : template (s :: rest) = '/' :: (s.template ++ render rest) := by
  simp [template, render]

theorem template_inj (r1 r2 : List Seg) (h1 : ∀ s ∈ r1, s.clean) (h2 : ∀ s ∈ r2, s.clean) (h : template r1 = template r2) : r1 = r2 := by
  cases r1 with
  | nil =>
    cases r2 with
    | nil => rfl
    | cons t rest2 =>
      rw [template_cons] at h
      simp only [template, List.cons.injEq, true_and] at h
      have := (List.append_eq_nil_iff.mp h.symm).1
      exact absurd this (seg_template_ne_nil t (h2 t (List.mem_cons_self ..)))
  | cons s rest =>
    cases r2 with
    | nil =>
      rw [template_cons] at h
      simp only [template, List.cons.injEq, true_and] at h
      have := (List.append_eq_nil_iff.mp h).1
      exact absurd this (seg_template_ne_nil s (h1 s (List.mem_cons_self ..)))
    | cons t rest2 =>
      apply render_inj _ _ h1 h2
      rw [template_cons, template_cons] at h
      simpa [render] using h

/-! ### every reachable handler is documented, every documented operation belongs to a handler -/

theorem documented_iff_registered (a : App) (p : Str) (m : Method) :
    (∃ e ∈ document a, e.path = p ∧ e.method = m) ↔ ∃ f ∈ flatten a [] [], template f.route = p ∧ f.method = m := by
  constructor
  · rintro ⟨e, he, hp, hm⟩
    obtain ⟨f, hf, rfl⟩ := List.mem_map.mp he
    exact ⟨f, hf, hp, hm⟩
  · rintro ⟨f, hf, hp, hm⟩
    exact ⟨_, List.mem_map.mpr ⟨f, hf, rfl⟩, hp, hm⟩

/-! ### the per-route look-up of `gen_openapi_doc` -/

/-- **Every registered (route, method) pair is found**: `gen_openapi_doc` looks each route up by searching the finalized router of the method with
the route's own literal (`router.search_target(route)`), and takes the operation of the node it lands on.  On the router model shared with C01 / C04
(`build`, `finalize` with fang scopes and compression, statics-first `search`): for every application tree whose static segments do not begin with `:`
(such a segment is a param by `RouteSegment` parsing), every route of the flattened configuration, spelled with its params as `:name`, is answered by
its own handler — no registered pair is skipped or documented with another route's operation. -/
theorem route_literal_found (cfg : Ohkami.Fangs.App) (t : Ohkami.Fangs.BN) (r : Ohkami.Route) (h : Nat) (lit : List (List UInt8)) (F G : Nat)
    (hc : Ohkami.Fangs.CfgOK cfg) (hb : Ohkami.Fangs.build cfg = some t) (hr : (r, h) ∈ Ohkami.Fangs.flatRoutes cfg)
    (hl : Ohkami.Fangs.LitOf r lit) (hF : r.length ≤ F) (hG : r.length < G) :
    (Ohkami.Fangs.search G (Ohkami.Fangs.finalize true F t false) lit).2 = some h :=
  Ohkami.Fangs.literal_found cfg t r h lit F G hc hb hr hl hF hG

/-! ### non-vacuity -/
private def sig1 : Sig := { pathTys := [['i']], query := [⟨.query, ['q'], ['s'], true⟩], body := some ['j'], responses := [200] }
private def app1 : App := .mk [.tag ['t']] [⟨[.lit ['u'], .param ['i', 'd']], [(.GET, sig1)], [.jwt]⟩]
  [([.lit ['a'], .param ['v']], .mk [.basic] [⟨[.lit ['x'], .param ['k']], [(.POST, sig1)], []⟩] [])]

example : (document app1).map (fun e => (String.ofList e.path, pathNames e.operation.parameters, e.operation.security.length, e.operation.tags.length)) =
    [("/u/{id}", [['i', 'd']], 1, 1), ("/a/{v}/x/{k}", [['v'], ['k']], 1, 1)] := by decide

end Ohkami.OpenApi.C15
