import OhkamiModel.P.SseProofs
import OhkamiModel.GenSession
/-! # C17 — property theorems about the model of `QueueStream` and the event-stream framing -/
namespace C17
open Ohkami Ohkami.Sse

/-- **None lost, duplicated or reordered.** For every producer schedule that completes (any pattern of Pending polls,
bursts of pushes before a yield, completion with a non-empty queue), the items the stream yields are exactly all the
pushes, in order. -/
theorem stream_delivers_all (sched : List PStep) (h : EndsReady sched) :
    drain (sched.length + (allPushes sched).length + 1) ⟨[], false⟩ sched = allPushes sched :=
  stream_delivers_all' sched h

/-- the body always ends with the terminating zero chunk -/
theorem body_terminated (items : List Bytes) : ∃ pre, body items = pre ++ [48, CR, LF, CR, LF] := ⟨_, rfl⟩

/-- an encoded message is never empty (so no data chunk can be mistaken for the terminating zero chunk) -/
theorem message_nonempty (chunk : Bytes) : 0 < (message chunk).length := by
  unfold message; simp

/-- after normalisation no CR is left in a message: every line break the client will see was put there by the encoder -/
theorem normalize_no_cr : ∀ (n : Nat) (bs : Bytes), bs.length ≤ n → CR ∉ normalizeNewlines bs := by
  intro n
  induction n with
  | zero => intro bs h; cases bs <;> simp_all [normalizeNewlines]
  | succ n ih =>
    intro bs h
    match bs with
    | [] => simp [normalizeNewlines]
    | [b] =>
      simp only [normalizeNewlines]
      split
      · simp [CR, LF]
      · rename_i hb; simp only [List.mem_singleton]; exact fun e => hb e.symm
    | b :: c :: r =>
      simp only [normalizeNewlines]
      have h1 : CR ∉ normalizeNewlines r := ih r (by simp at h; omega)
      have h2 : CR ∉ normalizeNewlines (c :: r) := ih (c :: r) (by simp at h ⊢; omega)
      have hne : CR ≠ LF := by decide
      split
      · split
        · simp only [List.mem_cons, not_or]; exact ⟨hne, h1⟩
        · simp only [List.mem_cons, not_or]; exact ⟨hne, h2⟩
      · rename_i hb
        intro hm
        rcases List.mem_cons.mp hm with e | hm'
        · exact hb e.symm
        · exact h2 hm'

/-- **At any pace**: the schedules of the model have no clock; that no timer of the session loop cuts a response that is being streamed is read off the
source on every run — the Keep-Alive timeout is put around the wait for a request and around nothing else, not around `send` — and exercised in real
time by the correspondence run (a stream with pauses longer than `OHKAMI_KEEPALIVE_TIMEOUT=2` over loopback TCP must end with its terminating chunk) -/
theorem source_no_timer_cuts_a_stream : Ohkami.Gen.keepAliveBoundsTheWaitOnly = true := by decide

end C17

namespace Ohkami.Sse

/-! ### a client: the event-stream interpretation (WHATWG HTML 9.2.6) restricted to what the server emits -/

/-- one line: up to the first LF and the rest after it; `none` if the stream ends before a line end -/
def takeLine : Bytes → Option (Bytes × Bytes)
  | [] => none
  | b :: t => if b = LF then some ([], t) else (takeLine t).map fun lr => (b :: lr.1, lr.2)

def dataColon : Bytes := [100, 97, 116, 97, 58]   -- "data:"

/-- the value of a `data` field line (`data:` then at most one space removed); `none` for any other line -/
def dataValue (line : Bytes) : Option Bytes :=
  if dataColon.isPrefixOf line then
    let v := line.drop 5
    some (if v.head? = some 32 then v.drop 1 else v)
  else none

/-- lines are processed in order: a data line appends its value and LF to the buffer; an empty line dispatches the buffer without its
last LF (nothing, if no data line came); anything else is ignored; an unterminated last line is dropped -/
def sseParse : Nat → Bytes → Bytes → List Bytes
  | 0, _, _ => []
  | fuel + 1, stream, buf =>
    match takeLine stream with
    | none => []
    | some (line, rest) =>
      if line = [] then (if buf = [] then sseParse fuel rest [] else buf.dropLast :: sseParse fuel rest [])
      else match dataValue line with
        | some v => sseParse fuel rest (buf ++ v ++ [LF])
        | none => sseParse fuel rest buf

theorem takeLine_line (l rest : Bytes) (h : LF ∉ l) : takeLine (l ++ LF :: rest) = some (l, rest) := by
  induction l with
  | nil => simp [takeLine]
  | cons b t ih =>
    have hb : b ≠ LF := fun e => h (by simp [e])
    have := ih (fun hm => h (List.mem_cons_of_mem _ hm))
    simp [takeLine, hb, this]

theorem dataValue_line (l : Bytes) : dataValue (dataPrefix ++ l) = some l := by
  simp [dataValue, dataPrefix, dataColon, List.isPrefixOf]

theorem splitOn_no_sep (sep : UInt8) : ∀ (bs : Bytes), ∀ l ∈ splitOn sep bs, sep ∉ l := by
  intro bs
  induction bs with
  | nil => intro l hl; simp [splitOn] at hl; subst hl; simp
  | cons b t ih =>
    intro l hl
    simp only [splitOn] at hl
    cases hs : splitOn sep t with
    | nil => simp [hs] at hl; subst hl; simp
    | cons x xs =>
      simp only [hs] at hl ih
      by_cases hb : b = sep
      · simp only [hb, if_true, List.mem_cons] at hl
        rcases hl with rfl | rfl | hl
        · simp
        · exact ih _ (by simp)
        · exact ih _ (by simp [hl])
      · simp only [hb, if_false, List.mem_cons] at hl
        rcases hl with rfl | hl
        · intro hm
          rcases List.mem_cons.mp hm with h | h
          · exact hb h.symm
          · exact ih x (by simp) h
        · exact ih _ (by simp [hl])

theorem splitOn_ne_nil (sep : UInt8) (bs : Bytes) : splitOn sep bs ≠ [] := by
  cases bs with
  | nil => simp [splitOn]
  | cons b t =>
    simp only [splitOn]
    cases splitOn sep t with
    | nil => simp
    | cons x xs => by_cases hb : b = sep <;> simp [hb]

/-- joining the pieces with the separator after each, and dropping the last separator, gives the text back -/
theorem splitOn_join (sep : UInt8) : ∀ (bs : Bytes), (((splitOn sep bs).map (· ++ [sep])).flatten).dropLast = bs := by
  intro bs
  induction bs with
  | nil => simp [splitOn]
  | cons b t ih =>
    simp only [splitOn]
    cases hs : splitOn sep t with
    | nil => exact absurd hs (splitOn_ne_nil sep t)
    | cons x xs =>
      rw [hs] at ih
      by_cases hb : b = sep
      · simp only [hb, if_true, List.map_cons, List.flatten_cons, List.nil_append]
        simp only [List.map_cons, List.flatten_cons] at ih
        have hne : x ++ [sep] ++ (xs.map (· ++ [sep])).flatten ≠ [] := by simp
        rw [show [sep] ++ (x ++ [sep] ++ (xs.map (· ++ [sep])).flatten) = sep :: (x ++ [sep] ++ (xs.map (· ++ [sep])).flatten) from rfl,
          List.dropLast_cons_of_ne_nil hne, ih]
      · simp only [hb, if_false, List.map_cons, List.flatten_cons, List.cons_append]
        simp only [List.map_cons, List.flatten_cons] at ih
        have hne : x ++ [sep] ++ (xs.map (· ++ [sep])).flatten ≠ [] := by simp
        rw [List.dropLast_cons_of_ne_nil (by simpa using hne)]
        simp only [List.append_assoc] at ih ⊢
        rw [ih]

/-- the data lines of one message fill the buffer -/
theorem parse_lines : ∀ (ls : List Bytes) (rest buf : Bytes) (fuel : Nat), (∀ l ∈ ls, LF ∉ l) →
    sseParse (fuel + ls.length) ((ls.map fun l => dataPrefix ++ l ++ [LF]).flatten ++ rest) buf =
      sseParse fuel rest (buf ++ (ls.map (· ++ [LF])).flatten) := by
  intro ls
  induction ls with
  | nil => intro rest buf fuel _; simp
  | cons l ls ih =>
    intro rest buf fuel h
    have hl : LF ∉ dataPrefix ++ l := by
      intro hm
      rcases List.mem_append.mp hm with h1 | h1
      · simp [dataPrefix, LF] at h1
      · exact h l (List.mem_cons_self ..) h1
    have e : ((l :: ls).map fun l => dataPrefix ++ l ++ [LF]).flatten ++ rest
        = (dataPrefix ++ l) ++ LF :: ((ls.map fun l => dataPrefix ++ l ++ [LF]).flatten ++ rest) := by simp
    rw [e, show fuel + (l :: ls).length = (fuel + ls.length) + 1 by simp; omega, sseParse, takeLine_line _ _ hl]
    have hne : dataPrefix ++ l ≠ [] := by simp [dataPrefix]
    simp only [hne, if_false, dataValue_line]
    rw [ih rest _ fuel (fun x hx => h x (List.mem_cons_of_mem _ hx))]
    simp

/-- **One message decodes to its text** (line breaks normalised to LF), and the parser goes on with an empty buffer -/
theorem parse_message (chunk rest : Bytes) (fuel : Nat) :
    sseParse (fuel + (splitOn LF (normalizeNewlines chunk)).length + 1) (message chunk ++ rest) [] =
      normalizeNewlines chunk :: sseParse fuel rest [] := by
  unfold message
  have hls := splitOn_no_sep LF (normalizeNewlines chunk)
  have e : ((splitOn LF (normalizeNewlines chunk)).map fun line => dataPrefix ++ line ++ [LF]).flatten ++ [LF] ++ rest
      = ((splitOn LF (normalizeNewlines chunk)).map fun line => dataPrefix ++ line ++ [LF]).flatten ++ (LF :: rest) := by simp
  rw [e, show fuel + (splitOn LF (normalizeNewlines chunk)).length + 1 = (fuel + 1) + (splitOn LF (normalizeNewlines chunk)).length by omega,
    parse_lines _ _ _ _ hls, sseParse]
  have htl : takeLine (LF :: rest) = some ([], rest) := by simp [takeLine]
  simp only [htl, if_true, List.nil_append]
  have hne : ((splitOn LF (normalizeNewlines chunk)).map (· ++ [LF])).flatten ≠ [] := by
    cases hs : splitOn LF (normalizeNewlines chunk) with
    | nil => exact absurd hs (splitOn_ne_nil _ _)
    | cons x xs => simp
  simp only [hne, if_false, splitOn_join]

def linesOf (items : List Bytes) : Nat := (items.map fun c => (splitOn LF (normalizeNewlines c)).length + 1).sum

/-- **The event stream decodes to exactly the messages**, in order: none lost, duplicated, merged or split — whatever the texts hold
(empty strings, CR / LF / CRLF, `data:` or `event:` look-alikes, leading spaces, any bytes) -/
theorem stream_decodes : ∀ (items : List Bytes) (fuel : Nat),
    sseParse (fuel + linesOf items) ((items.map message).flatten) [] = items.map normalizeNewlines ++ sseParse fuel [] [] := by
  intro items
  induction items with
  | nil => intro fuel; simp [linesOf]
  | cons c cs ih =>
    intro fuel
    have e : ((c :: cs).map message).flatten = message c ++ (cs.map message).flatten := by simp
    have hl : fuel + linesOf (c :: cs) = (fuel + linesOf cs) + (splitOn LF (normalizeNewlines c)).length + 1 := by
      simp [linesOf]; omega
    rw [e, hl, parse_message, ih]
    simp

theorem sseParse_end (fuel : Nat) : sseParse fuel [] [] = [] := by
  cases fuel <;> simp [sseParse, takeLine]


/-! ### a client: the chunked transfer coding (RFC 9112 7.1) -/

def hexVal (b : UInt8) : Option Nat :=
  if 48 ≤ b ∧ b ≤ 57 then some (b.toNat - 48) else if 97 ≤ b ∧ b ≤ 102 then some (b.toNat - 87) else none

/-- `1*HEXDIG` (lowercase), most significant digit first -/
def parseHex (ds : Bytes) : Option Nat :=
  if ds = [] then none else ds.foldl (fun acc d => acc.bind fun a => (hexVal d).map (a * 16 + ·)) (some 0)

/-- the bytes before the first CRLF and the bytes after it -/
def takeCRLF : Bytes → Option (Bytes × Bytes)
  | [] => none
  | [_] => none
  | b :: c :: t => if b = CR ∧ c = LF then some ([], t) else (takeCRLF (c :: t)).map fun lr => (b :: lr.1, lr.2)

/-- `chunked-body = *chunk last-chunk CRLF` without extensions or trailers: the concatenated chunk data -/
def dechunk : Nat → Bytes → Option Bytes
  | 0, _ => none
  | fuel + 1, bs =>
    match takeCRLF bs with
    | none => none
    | some (sz, rest) =>
      match parseHex sz with
      | none => none
      | some 0 => if rest = [CR, LF] then some [] else none
      | some n =>
        if n + 2 ≤ rest.length ∧ (rest.drop n).take 2 = [CR, LF] then (dechunk fuel (rest.drop (n + 2))).map (rest.take n ++ ·) else none

theorem hexVal_digit : ∀ d : Fin 16, hexVal (hexDigit d.val) = some d.val := by decide

theorem hexDigit_ne_cr : ∀ d : Fin 16, hexDigit d.val ≠ CR := by decide

theorem hexNoLeading_ne_nil (f n : Nat) : hexNoLeading (f + 1) n ≠ [] := by
  simp only [hexNoLeading]; split <;> simp

theorem hexNoLeading_no_cr : ∀ (f n : Nat), CR ∉ hexNoLeading f n := by
  intro f
  induction f with
  | zero => intro n; simp [hexNoLeading]
  | succ f ih =>
    intro n
    simp only [hexNoLeading]
    split
    · rename_i h; have := hexDigit_ne_cr ⟨n, h⟩; simpa using this.symm
    · have h16 : n % 16 < 16 := Nat.mod_lt _ (by decide)
      have := hexDigit_ne_cr ⟨n % 16, h16⟩
      simp only [List.mem_append, List.mem_singleton, not_or]
      exact ⟨ih _, by simpa using this.symm⟩

theorem foldHex (f : Nat) : ∀ n, n < 16 ^ f → (hexNoLeading f n).foldl (fun acc d => acc.bind fun a => (hexVal d).map (a * 16 + ·)) (some 0) = some n ∨ f = 0 := by
  induction f with
  | zero => intro n _; right; rfl
  | succ f ih =>
    intro n hn
    left
    simp only [hexNoLeading]
    by_cases h : n < 16
    · simp only [h, if_true, List.foldl_cons, List.foldl_nil, Option.bind_some]
      have := hexVal_digit ⟨n, h⟩
      simp only at this
      simp [this]
    · simp only [h, if_false, List.foldl_append, List.foldl_cons, List.foldl_nil]
      have hq : n / 16 < 16 ^ f := by
        rw [Nat.pow_succ] at hn
        exact Nat.div_lt_of_lt_mul (by omega)
      rcases ih (n / 16) hq with hh | hz
      · rw [hh]
        have h16 : n % 16 < 16 := Nat.mod_lt _ (by decide)
        have := hexVal_digit ⟨n % 16, h16⟩
        simp only at this
        simp only [Option.bind_some, this, Option.map_some, Option.some.injEq]
        omega
      · subst hz; simp at hq; omega

theorem parseHex_hex (n : Nat) (h : n < 16 ^ 16) : parseHex (hexNoLeading 16 n) = some n := by
  unfold parseHex
  have hne := hexNoLeading_ne_nil 15 n
  simp only [hne, if_false]
  rcases foldHex 16 n h with hh | hz
  · exact hh
  · cases hz

theorem takeCRLF_line : ∀ (l rest : Bytes), CR ∉ l → takeCRLF (l ++ CR :: LF :: rest) = some (l, rest) := by
  intro l
  induction l with
  | nil => intro rest _; simp [takeCRLF]
  | cons b t ih =>
    intro rest h
    have hb : b ≠ CR := fun e => h (by simp [e])
    have := ih rest (fun hm => h (List.mem_cons_of_mem _ hm))
    cases t with
    | nil => simp [takeCRLF, hb] at this ⊢
    | cons c t' => simp only [List.cons_append] at this ⊢; simp [takeCRLF, hb, this]

/-- **De-chunking the body gives the concatenated event stream**, and the body ends with the last-chunk: a client knows where the
response ends -/
theorem dechunk_body : ∀ (items : List Bytes), (∀ c ∈ items, (message c).length < 16 ^ 16) →
    dechunk (items.length + 1) (body items) = some ((items.map message).flatten) := by
  intro items
  induction items with
  | nil =>
    intro _
    have : takeCRLF (body []) = some ([48], [CR, LF]) := by decide
    have hp : parseHex [48] = some 0 := by decide
    simp [dechunk, this, hp]
  | cons c cs ih =>
    intro h
    have hc := h c (List.mem_cons_self ..)
    have hpos := C17.message_nonempty c
    have e : body (c :: cs) = hexNoLeading 16 (message c).length ++ CR :: LF :: (message c ++ CR :: LF :: body cs) := by
      simp [body, chunkOf]
    rw [e, show (c :: cs).length + 1 = (cs.length + 1) + 1 from rfl, dechunk, takeCRLF_line _ _ (hexNoLeading_no_cr _ _)]
    simp only [parseHex_hex _ hc]
    obtain ⟨k, hk⟩ : ∃ k, (message c).length = k + 1 := ⟨(message c).length - 1, by omega⟩
    rw [hk]
    simp only
    have h1 : k + 1 + 2 ≤ (message c ++ CR :: LF :: body cs).length := by simp only [List.length_append, List.length_cons]; omega
    have h2 : ((message c ++ CR :: LF :: body cs).drop (k + 1)).take 2 = [CR, LF] := by
      rw [← hk, List.drop_left']; rfl; rfl
    have h3 : (message c ++ CR :: LF :: body cs).drop (k + 1 + 2) = body cs := by
      rw [← hk, show (message c).length + 2 = (message c).length + 2 from rfl, ← List.drop_drop, List.drop_left' rfl]; rfl
    have h4 : (message c ++ CR :: LF :: body cs).take (k + 1) = message c := by rw [← hk, List.take_left' rfl]
    simp only [h1, h2, and_self, if_true, h3, h4, ih (fun x hx => h x (List.mem_cons_of_mem _ hx))]
    simp

/-- **What the client receives decodes to exactly what the handler sent.**  The bytes after the response head are a valid chunked body ending
with the last-chunk; de-chunked they are a valid event stream; interpreted as the event-stream format prescribes they are exactly the
messages, in order, each with its line breaks normalised to LF — for every list of messages whatever they contain (message sizes below
2^64, the range of the size rendering). -/
theorem wire_decodes (items : List Bytes) (h : ∀ c ∈ items, (message c).length < 16 ^ 16) :
    ∃ stream, dechunk (items.length + 1) (body items) = some stream ∧ sseParse (1 + linesOf items) stream [] = items.map normalizeNewlines := by
  refine ⟨_, dechunk_body items h, ?_⟩
  rw [stream_decodes items 1, sseParse_end]; simp

-- non-vacuity: three messages, one empty, one with CRLF and a look-alike field name
example : (dechunk 4 (body [[], [97, 13, 10, 98], [100, 97, 116, 97, 58, 120]])).map (sseParse 8 · []) =
    some [[], [97, 10, 98], [100, 97, 116, 97, 58, 120]] := by decide

end Ohkami.Sse
