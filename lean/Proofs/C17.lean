import OhkamiModel.P.SseProofs
/-! # C17 — property theorems about the model of `QueueStream` and the event-stream framing -/
namespace C17
open Ohkami Ohkami.Sse

/-- **None lost, duplicated or reordered.** For every producer schedule that completes (any pattern of Pending polls,
bursts of pushes before a yield, completion with a non-empty queue), the items the stream yields are exactly all the
pushes, in order. -/
theorem stream_delivers_all (sched : List PStep) (h : EndsReady sched) :
    drain (sched.length + (allPushes sched).length + 1) ⟨[], false⟩ sched = allPushes sched :=
  stream_delivers_all' sched h

/-- the body always ends with the terminating zero chunk -/
theorem body_terminated (items : List Bytes) : ∃ pre, body items = pre ++ [48, CR, LF, CR, LF] := ⟨_, rfl⟩

/-- an encoded message is never empty (so no data chunk can be mistaken for the terminating zero chunk) -/
theorem message_nonempty (chunk : Bytes) : 0 < (message chunk).length := by
  unfold message; simp

/-- after normalisation no CR is left in a message: every line break the client will see was put there by the encoder -/
theorem normalize_no_cr : ∀ (n : Nat) (bs : Bytes), bs.length ≤ n → CR ∉ normalizeNewlines bs := by
  intro n
  induction n with
  | zero => intro bs h; cases bs <;> simp_all [normalizeNewlines]
  | succ n ih =>
    intro bs h
    match bs with
    | [] => simp [normalizeNewlines]
    | [b] =>
      simp only [normalizeNewlines]
      split
      · simp [CR, LF]
      · rename_i hb; simp only [List.mem_singleton]; exact fun e => hb e.symm
    | b :: c :: r =>
      simp only [normalizeNewlines]
      have h1 : CR ∉ normalizeNewlines r := ih r (by simp at h; omega)
      have h2 : CR ∉ normalizeNewlines (c :: r) := ih (c :: r) (by simp at h ⊢; omega)
      have hne : CR ≠ LF := by decide
      split
      · split
        · simp only [List.mem_cons, not_or]; exact ⟨hne, h1⟩
        · simp only [List.mem_cons, not_or]; exact ⟨hne, h2⟩
      · rename_i hb
        intro hm
        rcases List.mem_cons.mp hm with e | hm'
        · exact hb e.symm
        · exact h2 hm'

end C17
