import OhkamiModel.P.SerdeFinal
/-! # C09 — property theorems about the URL-encoded writer (`encode`) and reader (`decode`) models -/
namespace C09
open Ohkami Ohkami.Serde Ohkami.Serde.Concrete

/-- **Round trip.** For every struct type with distinct non-empty field names and every value of it that is well-typed and
unambiguous (no `Some("")`, no `[""]`, no empty map key — the format's own ambiguities), the reader applied to the text
the writer produced returns exactly that value and consumes all of the text.  The text functions (`str::parse`,
`from_utf8`, percent-decoding) are the driver's concrete models, not assumptions (`prims_ok`). -/
theorem roundtrip_struct (fields : List (Bytes × Ty × Bool)) (fs : List (Bytes × Value)) (text : Bytes) (fuel : Nat)
    (hw : wellTyped Http.validUtf8 (.struct fields) (.struct fs) = true)
    (hu : unamb true (.struct fs) = true)
    (hnd : (fields.map (·.1)).Nodup) (hne : ∀ n ∈ fields.map (·.1), n ≠ [])
    (he : encode true (.struct fs) = .ok text)
    (hf : szp fs + 2 ≤ fuel) :
    ∃ side, decode prims false fuel (.struct fields) ⟨text, .key⟩ = .ok (.struct fs, ⟨[], side⟩) :=
  roundtrip_struct_concrete fields fs text fuel hw hu hnd hne he hf

/-- percent-decoding undoes percent-encoding for every byte string (strings with arbitrary Unicode and reserved characters) -/
theorem percent_roundtrip (bs : Bytes) : Percent.decode (Percent.encode bs) = bs := Percent.decode_encode bs

/-- the writer's escapes use only alphanumerics and `%XX` -/
theorem percent_alphabet (bs : Bytes) (x : UInt8) (h : x ∈ Percent.encode bs) : Percent.isAlnum x = true ∨ x = Percent.PCT :=
  Percent.encode_alphabet bs x h

end C09
