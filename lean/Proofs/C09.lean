import OhkamiModel.P.SerdeFinal
/-! # C09 — property theorems about the URL-encoded writer (`encode`) and reader (`decode`) models -/
namespace C09
open Ohkami Ohkami.Serde Ohkami.Serde.Concrete

/-- **Round trip.** For every struct type with distinct non-empty field names and every value of it that is well-typed and
unambiguous (no `Some("")`, no `[""]`, no empty map key — the format's own ambiguities), the reader applied to the text
the writer produced returns exactly that value and consumes all of the text.  The text functions (`str::parse`,
`from_utf8`, percent-decoding) are the driver's concrete models, not assumptions (`prims_ok`). -/
theorem roundtrip_struct (fields : List (Bytes × Ty × Bool)) (fs : List (Bytes × Value)) (text : Bytes) (fuel : Nat)
    (hw : wellTyped Http.validUtf8 (.struct fields) (.struct fs) = true)
    (hu : unamb true (.struct fs) = true)
    (hnd : (fields.map (·.1)).Nodup) (hne : ∀ n ∈ fields.map (·.1), n ≠ [])
    (he : encode true (.struct fs) = .ok text)
    (hf : szp fs + 2 ≤ fuel) :
    ∃ side, decode prims false fuel (.struct fields) ⟨text, .key⟩ = .ok (.struct fs, ⟨[], side⟩) :=
  roundtrip_struct_concrete fields fs text fuel hw hu hnd hne he hf

/-- percent-decoding undoes percent-encoding for every byte string (strings with arbitrary Unicode and reserved characters) -/
theorem percent_roundtrip (bs : Bytes) : Percent.decode (Percent.encode bs) = bs := Percent.decode_encode bs

/-- the writer's escapes use only alphanumerics and `%XX` -/
theorem percent_alphabet (bs : Bytes) (x : UInt8) (h : x ∈ Percent.encode bs) : Percent.isAlnum x = true ∨ x = Percent.PCT :=
  Percent.encode_alphabet bs x h

/-- **Numbers are read per the percent-encoding rules too**: whatever way a client spells a number — any of its digits or its sign written as `%XX` —
the reader reads the number its percent-decoding denotes: if the section (free of `&` and `=`, followed by `&` or the end) decodes to the canonical
decimal of an in-range `z`, the unsigned / signed reader answers `z`.  (Before fix 2c45ee6 numbers and booleans were read from the raw text and
`id=%37` was refused.) -/
theorem escaped_number_decodes (sec rest : Bytes) (fuel bits : Nat) (z : Int) (hc : Clean sec) (hs : Stop rest)
    (hd : Percent.decode sec = showInt z) :
    (0 ≤ z → z < 2 ^ bits → decode prims false (fuel + 1) (.uint bits) ⟨sec ++ rest, .value⟩ = .ok (.int z, ⟨rest, .value⟩)) ∧
    (-(2 ^ (bits - 1) : Int) ≤ z → z < 2 ^ (bits - 1) → decode prims false (fuel + 1) (.sint bits) ⟨sec ++ rest, .value⟩ = .ok (.int z, ⟨rest, .value⟩)) := by
  have hpd : prims.percentDecode sec = showInt z := hd
  refine ⟨fun h0 h1 => ?_, fun h0 h1 => ?_⟩
  · simp only [decode, sectionOr_value _ _ rest hc hs, ok_bind, hpd, prims_ok.intUtf8, if_true, prims_ok.intU _ z h0 h1, pure_eq]
  · simp only [decode, sectionOr_value _ _ rest hc hs, ok_bind, hpd, prims_ok.intUtf8, if_true, prims_ok.intS _ z h0 h1, pure_eq]

/-- the hypothesis is met by a spelling with escapes: `%2D1%32` denotes -12 -/
example : Percent.decode [37, 50, 68, 49, 37, 51, 50] = [45, 49, 50] ∧ showInt (Int.negSucc 11) = [45, 49, 50] := by
  refine ⟨by simp [Percent.decode, Percent.unhex, Percent.PCT], by decide⟩

end C09
