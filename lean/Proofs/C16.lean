import OhkamiModel.M.Derive
/-! # C16 — derive(Schema) describes the JSON shape serde reads and writes

Statements over ALL type definitions of the modelled grammar (any number of fields / variants, any identifiers, any of the
eight rules, any combination of the attributes).  `Macro.*` transcribes the repository's derive, `Serde.*` serde_derive's
rules and serde's data model; the correspondence check ties each to its code (the real macro sources and the real
serde_derive `internals`, both run on the same generated definitions). -/

namespace Ohkami.Derive.C16
open Ohkami.Derive

/-! ### the two re-implementations of the case rules are the same functions -/

theorem pascal_eq (s : Str) (b : Bool) : Macro.pascalLoop s b = Serde.pascal s b := by
  induction s generalizing b with
  | nil => rfl
  | cons c cs ih => simp [Macro.pascalLoop, Serde.pascal, ih]

theorem snake_eq (s : Str) (i : Nat) : Macro.snakeLoop s (decide (i > 0)) = Serde.snake s i := by
  induction s generalizing i with
  | nil => rfl
  | cons c cs ih =>
    have h := ih (i + 1)
    simp only [Nat.zero_lt_succ, gt_iff_lt, decide_true] at h
    simp [Macro.snakeLoop, Serde.snake, h]

/-- every `rename_all` rule renames every field identifier as serde does (including where both panic) -/
theorem case_field_agrees (r : Rule) (s : Str) : Macro.applyField r s = Serde.applyField r s := by
  cases r <;> simp [Macro.applyField, Serde.applyField, pascal_eq]

/-- every `rename_all` rule renames every variant identifier as serde does -/
theorem case_variant_agrees (r : Rule) (s : Str) : Macro.applyVariant r s = Serde.applyVariant r s := by
  have h := snake_eq s 0
  simp only [gt_iff_lt, Nat.lt_irrefl, decide_false] at h
  cases r <;> simp [Macro.applyVariant, Serde.applyVariant, h]

/-- whenever the macro produces a name it is the name serde writes (the macro applies the rule before looking at `rename`,
so it can panic where serde does not: `rename_all = "camelCase"` on a field called `__` that also has a `rename`) -/
theorem field_name_sound (ra : Option Rule) (ident : Str) (rn : Option Str) (n : Str)
    (h : Macro.name Macro.applyField ra ident rn = some n) : Serde.name Serde.applyField ra ident rn = some n := by
  cases ra <;> cases rn <;> simp_all [Macro.name, Serde.name, case_field_agrees]

theorem variant_name_sound (ra : Option Rule) (ident : Str) (rn : Option Str) (n : Str)
    (h : Macro.name Macro.applyVariant ra ident rn = some n) : Serde.name Serde.applyVariant ra ident rn = some n := by
  cases ra <;> cases rn <;> simp_all [Macro.name, Serde.name, case_variant_agrees]

/-- and the macro produces a name whenever the rule itself does not panic -/
theorem field_name_complete (ra : Option Rule) (ident : Str) (rn : Option Str)
    (h : ∀ r, ra = some r → (Serde.applyField r (unraw ident)).isSome) :
    Macro.name Macro.applyField ra ident rn = Serde.name Serde.applyField ra ident rn := by
  cases ra with
  | none => cases rn <;> simp [Macro.name, Serde.name]
  | some r =>
    have := h r rfl
    cases rn <;> simp_all [Macro.name, Serde.name, case_field_agrees, Option.isSome_iff_exists]

/-! ### a struct's properties are the keys serde writes; required iff serde can neither omit nor default -/

/-- the properties accumulated so far, read back as (key, required) -/
def readProps (ps : List (Str × Bool × Sch)) : List (Str × Bool) := ps.map fun p => (p.1, p.2.1)

theorem optional_iff_lenient (cd : Bool) (f : Field) : Macro.isOptional cd f = Serde.lenient cd f := by
  cases cd <;> cases h1 : f.option <;> cases h2 : f.dflt <;> cases h3 : f.skipDe <;> cases h4 : f.skipIf <;>
    simp [Macro.isOptional, Serde.lenient, h1, h2, h3, h4]

theorem allM_cons {α β} (f : α → Option β) (a : α) (as : List α) (b : β) (bs : List β)
    (ha : f a = some b) (hs : Macro.allM f as = some bs) : Macro.allM f (a :: as) = some (b :: bs) := by
  simp [Macro.allM, ha, hs]

theorem namedLoop_keys (ra : Option Rule) (cd : Bool) (fs : List Field) (ps : List (Str × Bool × Sch)) (fl : List (Bool × Sch))
    (props : List (Str × Bool × Sch)) (flat : List (Bool × Sch))
    (hw : ∀ f ∈ fs, ¬ (f.flatten = true ∧ f.withFn = true))
    (h : Macro.namedLoop ra cd fs ps fl = some (.obj props flat)) :
    ∃ ks, Serde.keys ra cd fs = some ks ∧ readProps props = readProps ps.reverse ++ ks
      ∧ flat = fl.reverse ++ ((fs.filter fun f => Serde.written f && f.flatten).map fun f => (f.option, Sch.ty f.inner)) := by
  induction fs generalizing ps fl with
  | nil =>
    simp only [Macro.namedLoop, Option.some.injEq, Sch.obj.injEq] at h
    exact ⟨[], by simp [Serde.keys, Macro.allM], by simp [h.1], by simp [h.2]⟩
  | cons f fs ih =>
    have hw' : ∀ g ∈ fs, ¬ (g.flatten = true ∧ g.withFn = true) := fun g hg => hw g (List.mem_cons_of_mem _ hg)
    have hf := hw f (List.mem_cons_self ..)
    unfold Macro.namedLoop at h
    by_cases hs : (f.skip || f.skipSer) = true
    · simp only [hs, if_true] at h
      obtain ⟨ks, hk, hp, hfl⟩ := ih ps fl hw' h
      have hwr : Serde.written f = false := by simp [Serde.written, hs]
      refine ⟨ks, ?_, hp, ?_⟩
      · simpa [Serde.keys, List.filter, hwr] using hk
      · simpa [List.filter, hwr] using hfl
    · have hs' : (f.skip || f.skipSer) = false := by simpa using hs
      have hwr : Serde.written f = true := by simp [Serde.written, hs']
      simp only [hs', Bool.false_eq_true, if_false] at h
      cases hn : Macro.name Macro.applyField ra f.ident f.rename with
      | none => simp [hn] at h
      | some n =>
        have hsn := field_name_sound ra f.ident f.rename n hn
        simp only [hn] at h
        by_cases hwf : f.withFn = true
        · have hfl0 : f.flatten = false := by
            cases hff : f.flatten with
            | false => rfl
            | true => exact absurd ⟨hff, hwf⟩ hf
          simp only [hwf, if_true] at h
          obtain ⟨ks, hk, hp, hfl⟩ := ih _ fl hw' h
          refine ⟨(n, !Serde.lenient cd f) :: ks, ?_, ?_, ?_⟩
          · simp only [Serde.keys] at hk ⊢
            simp only [List.filter, hwr, hfl0, Bool.not_false, Bool.and_self]
            exact allM_cons _ _ _ _ _ (by simp [hsn]) hk
          · rw [hp]; simp [readProps, optional_iff_lenient]
          · simpa [List.filter, hwr, hfl0] using hfl
        · have hwf' : f.withFn = false := by simpa using hwf
          simp only [hwf', Bool.false_eq_true, if_false] at h
          by_cases hff : f.flatten = true
          · simp only [hff, if_true] at h
            obtain ⟨ks, hk, hp, hfl⟩ := ih ps _ hw' h
            refine ⟨ks, ?_, hp, ?_⟩
            · simpa [Serde.keys, List.filter, hwr, hff] using hk
            · simp [hfl, List.filter, hwr, hff]
          · have hff' : f.flatten = false := by simpa using hff
            simp only [hff', Bool.false_eq_true, if_false] at h
            obtain ⟨ks, hk, hp, hfl⟩ := ih _ fl hw' h
            refine ⟨(n, !Serde.lenient cd f) :: ks, ?_, ?_, ?_⟩
            · simp only [Serde.keys] at hk ⊢
              simp only [List.filter, hwr, hff', Bool.not_false, Bool.and_self]
              exact allM_cons _ _ _ _ _ (by simp [hsn]) hk
            · rw [hp]; simp [readProps, optional_iff_lenient]
            · simpa [List.filter, hwr, hff'] using hfl

/-- **struct.**  Whatever schema the derive builds for named fields, its properties are — in order — exactly the keys serde
writes (name by name, after `rename_all` / `rename` / `r#`), each required iff serde can neither leave it out nor default it,
and the flattened members are exactly the written `flatten` fields. -/
theorem struct_keys_exact (ra : Option Rule) (cd : Bool) (fs : List Field) (s : Sch)
    (hw : ∀ f ∈ fs, ¬ (f.flatten = true ∧ f.withFn = true))
    (h : Macro.schemaOfFields ra cd (.named fs) = some s) :
    ∃ props flat, s = .obj props flat ∧ Serde.keys ra cd fs = some (readProps props)
      ∧ flat = (fs.filter fun f => Serde.written f && f.flatten).map fun f => (f.option, Sch.ty f.inner) := by
  simp only [Macro.schemaOfFields] at h
  have shape : ∀ (fs : List Field) ps fl s, Macro.namedLoop ra cd fs ps fl = some s → ∃ p f, s = .obj p f := by
    intro fs
    induction fs with
    | nil => intro ps fl s h; simp only [Macro.namedLoop, Option.some.injEq] at h; exact ⟨_, _, h.symm⟩
    | cons f fs ih =>
      intro ps fl s h
      unfold Macro.namedLoop at h
      repeat' (first | exact ih _ _ _ h | contradiction | split at h)
  obtain ⟨props, flat, rfl⟩ := shape fs [] [] s h
  obtain ⟨ks, hk, hp, hfl⟩ := namedLoop_keys ra cd fs [] [] props flat hw h
  exact ⟨props, flat, rfl, by rw [hp]; simpa [readProps] using hk, by simpa using hfl⟩

/-! ### enums -/

theorem allM_sound {α β} (f g : α → Option β) (l : List α) (out : List β)
    (hfg : ∀ a b, f a = some b → g a = some b) (h : Macro.allM f l = some out) : Macro.allM g l = some out := by
  induction l generalizing out with
  | nil => simpa [Macro.allM] using h
  | cons a as ih =>
    simp only [Macro.allM] at h ⊢
    cases ha : f a with
    | none => simp [ha] at h
    | some b =>
      simp only [ha] at h
      cases hs : Macro.allM f as with
      | none => simp [hs] at h
      | some bs =>
        simp only [hs, Option.map_some, Option.some.injEq] at h
        simp [hfg a b ha, ih bs hs, h]

/-- **all-unit enum.**  The enumerated strings are exactly the variant names serde writes, skipped variants left out. -/
theorem unit_enum_names_exact (e : EnumDef) (s : Sch) (hu : e.variants.all (·.fields.isUnit) = true) (ht : e.tag = none) (hun : e.untagged = false)
    (h : Macro.schemaOfVariants e = some s) : ∃ names, s = .enm names ∧ Serde.unitNames e = some names := by
  unfold Macro.schemaOfVariants at h
  rw [if_pos (by simp [hu, ht, hun])] at h
  cases hn : Macro.allM (fun v => Macro.name Macro.applyVariant e.renameAll v.ident v.rename) (e.variants.filter fun v => !(v.skip || v.skipSer)) with
  | none => rw [hn] at h; simp at h
  | some names =>
    rw [hn] at h
    simp only [Option.map_some, Option.some.injEq] at h
    refine ⟨names, h.symm, ?_⟩
    exact allM_sound _ _ _ _ (fun v b hb => variant_name_sound _ _ _ _ hb) hn

/-- a variant schema realises a wire representation: the tag sits where serde writes it, as the one-value string enumeration -/
def Realises (content : Sch) : Sch → Serde.Wire → Prop
  | s, .bare tag => s = .enm [tag]
  | s, .keyed tag => s = .obj [(tag, true, content)] []
  | s, .inline t tag => (∃ ps fl, content = .obj ps fl ∧ s = .obj (ps ++ [(t, true, .enm [tag])]) fl) ∨
                        ((∀ ps fl, content ≠ .obj ps fl) ∧ s = .extend content t (.enm [tag]))
  | s, .tagOnly t tag => s = .obj [(t, true, .enm [tag])] []
  | s, .adjacent t tag c => s = .obj [(t, true, .enm [tag]), (c, true, content)] []
  | s, .content => s = content

/-- **data-carrying enum, per variant.**  Whatever the derive builds for a variant is: the schema of its fields (under the
variant's `rename_all`, else the enum's `rename_all_fields` — serde's rule) placed exactly as serde's representation for the
enum's tagging mode places the content, with the variant name serde writes. -/
theorem variant_realises (e : EnumDef) (v : Variant) (s : Sch) (h : Macro.variantSch e v = some s) :
    ∃ content w, Macro.schemaOfFields (Serde.variantFieldRule e v) false v.fields = some content
      ∧ Serde.wire e v = some w ∧ Realises content s w := by
  unfold Macro.variantSch at h
  cases hn : Macro.name Macro.applyVariant e.renameAll v.ident v.rename with
  | none => simp [hn] at h
  | some tag =>
    have hsn := variant_name_sound _ _ _ _ hn
    simp only [hn] at h
    have hr : Macro.ruleOfFields e v = Serde.variantFieldRule e v := rfl
    rw [hr] at h
    cases hc : Macro.schemaOfFields (Serde.variantFieldRule e v) false v.fields with
    | none => simp [hc] at h
    | some content =>
      simp only [hc] at h
      refine ⟨content, ?_⟩
      by_cases hu : e.untagged = true
      · simp only [hu, if_true, Option.some.injEq] at h
        exact ⟨.content, rfl, by simp [Serde.wire, hsn, hu], h.symm⟩
      · have hu' : e.untagged = false := by simpa using hu
        simp only [hu', Bool.false_eq_true, if_false] at h
        cases ht : e.tag with
        | none =>
          simp only [ht, Option.some.injEq] at h
          by_cases hun : v.fields.isUnit = true
          · simp only [hun, if_true] at h
            exact ⟨.bare tag, rfl, by simp [Serde.wire, hsn, hu', ht, hun], by simp [Realises, ← h, Macro.tagSch]⟩
          · have hun' : v.fields.isUnit = false := by simpa using hun
            simp only [hun', Bool.false_eq_true, if_false] at h
            exact ⟨.keyed tag, rfl, by simp [Serde.wire, hsn, hu', ht, hun'], by simp [Realises, ← h]⟩
        | some t =>
          cases hcn : e.content with
          | none =>
            simp only [ht, hcn, Option.some.injEq] at h
            refine ⟨.inline t tag, rfl, by simp [Serde.wire, hsn, hu', ht, hcn], ?_⟩
            cases content with
            | obj ps fl => left; exact ⟨ps, fl, rfl, by simp [← h, Macro.addTag, Macro.tagSch]⟩
            | _ => right; exact ⟨(by intro ps fl hh; cases hh), (by simp [← h, Macro.addTag, Macro.tagSch])⟩
          | some c =>
            simp only [ht, hcn, Option.some.injEq] at h
            by_cases hun : v.fields.isUnit = true
            · simp only [hun, if_true] at h
              exact ⟨.tagOnly t tag, rfl, by simp [Serde.wire, hsn, hu', ht, hcn, hun], by simp [Realises, ← h, Macro.tagSch]⟩
            · have hun' : v.fields.isUnit = false := by simpa using hun
              simp only [hun', Bool.false_eq_true, if_false] at h
              exact ⟨.adjacent t tag c, rfl, by simp [Serde.wire, hsn, hu', ht, hcn, hun'], by simp [Realises, ← h, Macro.tagSch]⟩

/-! ### values: every struct value serde serializes validates against the derived schema -/

theorem lookup_none_of_not_mem (k : Str) (kvs : List (Str × J)) (h : k ∉ kvs.map (·.1)) : lookup k kvs = none := by
  induction kvs with
  | nil => rfl
  | cons p rest ih =>
    simp only [List.map_cons, List.mem_cons, not_or] at h
    simp [lookup, Ne.symm h.1, ih h.2]

/-- every key written is the serialize name of a written field -/
theorem ser_keys_sub (ra : Option Rule) (cd : Bool) (fvs : List (Field × FieldVal)) (kvs : List (Str × J)) (ks : List (Str × Bool))
    (hnf : ∀ p ∈ fvs, p.1.flatten = false)
    (hs : Serde.ser ra fvs = some kvs) (hk : Serde.keys ra cd (fvs.map (·.1)) = some ks) : ∀ k ∈ kvs.map (·.1), k ∈ ks.map (·.1) := by
  induction fvs generalizing kvs ks with
  | nil => simp [Serde.ser] at hs; subst hs; simp
  | cons p rest ih =>
    obtain ⟨f, v⟩ := p
    have hnf' : ∀ p ∈ rest, p.1.flatten = false := fun p hp => hnf p (List.mem_cons_of_mem _ hp)
    have hff : f.flatten = false := hnf (f, v) (List.mem_cons_self ..)
    unfold Serde.ser at hs
    by_cases hw : Serde.written f = true
    · simp only [hw, Bool.not_true, Bool.false_eq_true, if_false] at hs
      simp only [Serde.keys, List.map_cons, List.filter, hw, hff, Bool.not_false, Bool.and_self] at hk
      cases hn : Serde.name Serde.applyField ra f.ident f.rename with
      | none => simp [hn] at hs
      | some n =>
        cases hr : Serde.ser ra rest with
        | none => simp [hn, hr] at hs
        | some kvs' =>
          simp only [Macro.allM, hn, Option.map_some] at hk
          cases hk' : Macro.allM (fun f => (Serde.name Serde.applyField ra f.ident f.rename).map fun n => (n, !Serde.lenient cd f))
              ((rest.map (·.1)).filter fun f => Serde.written f && !f.flatten) with
          | none => simp [hk'] at hk
          | some ks' =>
            simp only [hk', Option.map_some, Option.some.injEq] at hk
            subst hk
            have ih' := ih kvs' ks' hnf' hr (by simpa [Serde.keys] using hk')
            simp only [hn, hr] at hs
            intro k hkm
            cases v with
            | omitted => simp only [Option.some.injEq] at hs; subst hs; exact List.mem_cons_of_mem _ (ih' k hkm)
            | null =>
              simp only [Option.some.injEq] at hs; subst hs
              simp only [List.map_cons, List.mem_cons] at hkm ⊢
              rcases hkm with rfl | hkm
              · left; rfl
              · right; exact ih' k hkm
            | val j =>
              simp only [Option.some.injEq] at hs; subst hs
              simp only [List.map_cons, List.mem_cons] at hkm ⊢
              rcases hkm with rfl | hkm
              · left; rfl
              · right; exact ih' k hkm
    · have hw' : Serde.written f = false := by simpa using hw
      simp only [hw', Bool.not_false, if_true] at hs
      have : Serde.keys ra cd ((f :: rest.map (·.1))) = Serde.keys ra cd (rest.map (·.1)) := by simp [Serde.keys, List.filter, hw']
      rw [List.map_cons, this] at hk
      exact ih kvs ks hnf' hs hk

/-- **the value of every written field sits under its serialize name**, and nothing sits under the name of an omitted one -/
theorem ser_lookup (ra : Option Rule) (cd : Bool) (fvs : List (Field × FieldVal)) (kvs : List (Str × J)) (ks : List (Str × Bool))
    (hnf : ∀ p ∈ fvs, p.1.flatten = false)
    (hs : Serde.ser ra fvs = some kvs) (hk : Serde.keys ra cd (fvs.map (·.1)) = some ks) (hd : (ks.map (·.1)).Nodup) :
    ∀ p ∈ fvs, Serde.written p.1 = true → ∀ n, Serde.name Serde.applyField ra p.1.ident p.1.rename = some n → lookup n kvs = expect p.2 := by
  induction fvs generalizing kvs ks with
  | nil => intro p hp; cases hp
  | cons q rest ih =>
    obtain ⟨f, v⟩ := q
    have hnf' : ∀ p ∈ rest, p.1.flatten = false := fun p hp => hnf p (List.mem_cons_of_mem _ hp)
    have hff : f.flatten = false := hnf (f, v) (List.mem_cons_self ..)
    unfold Serde.ser at hs
    by_cases hw : Serde.written f = true
    · simp only [hw, Bool.not_true, Bool.false_eq_true, if_false] at hs
      simp only [Serde.keys, List.map_cons, List.filter, hw, hff, Bool.not_false, Bool.and_self] at hk
      cases hn : Serde.name Serde.applyField ra f.ident f.rename with
      | none => simp [hn] at hs
      | some n0 =>
        cases hr : Serde.ser ra rest with
        | none => simp [hn, hr] at hs
        | some kvs' =>
          simp only [Macro.allM, hn, Option.map_some] at hk
          cases hk' : Macro.allM (fun f => (Serde.name Serde.applyField ra f.ident f.rename).map fun n => (n, !Serde.lenient cd f))
              ((rest.map (·.1)).filter fun f => Serde.written f && !f.flatten) with
          | none => simp [hk'] at hk
          | some ks' =>
            simp only [hk', Option.map_some, Option.some.injEq] at hk
            subst hk
            have hkeys' : Serde.keys ra cd (rest.map (·.1)) = some ks' := by simpa [Serde.keys] using hk'
            simp only [List.map_cons, List.nodup_cons] at hd
            have hsub := ser_keys_sub ra cd rest kvs' ks' hnf' hr hkeys'
            have hn0 : n0 ∉ kvs'.map (·.1) := fun hm => hd.1 (hsub n0 hm)
            have ih' := ih kvs' ks' hnf' hr hkeys' hd.2
            simp only [hn, hr] at hs
            intro p hp hpw n hpn
            rcases List.mem_cons.mp hp with rfl | hp
            · -- the head field itself
              simp only [hn, Option.some.injEq] at hpn; subst hpn
              cases v with
              | omitted => simp only [Option.some.injEq] at hs; subst hs; simpa [expect] using lookup_none_of_not_mem _ _ hn0
              | null => simp only [Option.some.injEq] at hs; subst hs; simp [lookup, expect]
              | val j => simp only [Option.some.injEq] at hs; subst hs; simp [lookup, expect]
            · -- a later field: its name differs from the head's
              have hne : n0 ≠ n := by
                intro he; subst he
                have : n0 ∈ ks'.map (·.1) := by
                  have hmem : p.1 ∈ (rest.map (·.1)).filter fun f => Serde.written f && !f.flatten := by
                    simp only [List.mem_filter, List.mem_map]
                    exact ⟨⟨p, hp, rfl⟩, by simp [hpw, hnf' p hp]⟩
                  -- every element of the filtered list contributes its name to ks'
                  have key : ∀ (l : List Field) (out : List (Str × Bool)),
                      Macro.allM (fun f => (Serde.name Serde.applyField ra f.ident f.rename).map fun n => (n, !Serde.lenient cd f)) l = some out →
                      ∀ g ∈ l, ∀ m, Serde.name Serde.applyField ra g.ident g.rename = some m → m ∈ out.map (·.1) := by
                    intro l
                    induction l with
                    | nil => intro out _ g hg; cases hg
                    | cons a as iha =>
                      intro out ho g hg m hm
                      simp only [Macro.allM] at ho
                      cases ha : Serde.name Serde.applyField ra a.ident a.rename with
                      | none => simp [ha] at ho
                      | some na =>
                        simp only [ha, Option.map_some] at ho
                        cases hrest : Macro.allM (fun f => (Serde.name Serde.applyField ra f.ident f.rename).map fun n => (n, !Serde.lenient cd f)) as with
                        | none => simp [hrest] at ho
                        | some o' =>
                          simp only [hrest, Option.map_some, Option.some.injEq] at ho
                          subst ho
                          rcases List.mem_cons.mp hg with rfl | hg
                          · simp only [ha, Option.some.injEq] at hm; subst hm; simp
                          · simp only [List.map_cons, List.mem_cons]; right; exact iha o' hrest g hg m hm
                  exact key _ _ hk' p.1 hmem n0 hpn
                exact hd.1 this
              have := ih' p hp hpw n hpn
              cases v with
              | omitted => simp only [Option.some.injEq] at hs; subst hs; exact this
              | null => simp only [Option.some.injEq] at hs; subst hs; simp [lookup, hne, this]
              | val j => simp only [Option.some.injEq] at hs; subst hs; simp [lookup, hne, this]
    · have hw' : Serde.written f = false := by simpa using hw
      simp only [hw', Bool.not_false, if_true] at hs
      have : Serde.keys ra cd ((f :: rest.map (·.1))) = Serde.keys ra cd (rest.map (·.1)) := by simp [Serde.keys, List.filter, hw']
      rw [List.map_cons, this] at hk
      intro p hp hpw n hpn
      rcases List.mem_cons.mp hp with rfl | hp
      · simp [hw'] at hpw
      · exact ih kvs ks hnf' hs hk hd p hp hpw n hpn


theorem allM_mem {α β} (f : α → Option β) (l : List α) (out : List β) (h : Macro.allM f l = some out) : ∀ b ∈ out, ∃ a ∈ l, f a = some b := by
  induction l generalizing out with
  | nil => simp [Macro.allM] at h; subst h; intro b hb; cases hb
  | cons a as ih =>
    simp only [Macro.allM] at h
    cases ha : f a with
    | none => simp [ha] at h
    | some b0 =>
      simp only [ha] at h
      cases hr : Macro.allM f as with
      | none => simp [hr] at h
      | some o' =>
        simp only [hr, Option.map_some, Option.some.injEq] at h
        subst h
        intro b hb
        rcases List.mem_cons.mp hb with rfl | hb
        · exact ⟨a, List.mem_cons_self .., ha⟩
        · obtain ⟨a', ha', hfa⟩ := ih o' hr b hb
          exact ⟨a', List.mem_cons_of_mem _ ha', hfa⟩

/-- **Every struct value serde serializes validates against the derived schema** (named fields, no flatten; excluded: an `Option`
that is `None` and written as `null` — the recorded finding KF-C16-option-null).  Whatever object schema the derive builds, and whatever
key/value pairs the derived `Serialize` writes for field values that fit their own types' schemas: every property that is present
holds a value its schema accepts, and every property that is absent is not required. -/
theorem struct_value_validates (leafOK : Field → J → Bool) (ra : Option Rule) (cd : Bool) (fvs : List (Field × FieldVal)) (s : Sch) (kvs : List (Str × J))
    (hnf : ∀ p ∈ fvs, p.1.flatten = false)
    (hm : Macro.schemaOfFields ra cd (.named (fvs.map (·.1))) = some s)
    (hs : Serde.ser ra fvs = some kvs)
    (hadm : ∀ p ∈ fvs, Serde.written p.1 = true → Serde.admissible leafOK p.1 p.2 = true)
    (hd : ∀ ks, Serde.keys ra cd (fvs.map (·.1)) = some ks → (ks.map (·.1)).Nodup) :
    ∃ props, s = .obj props [] ∧ validatesObj (propOK leafOK ra fvs) (readProps props) kvs = true := by
  have hw : ∀ f ∈ fvs.map (·.1), ¬ (f.flatten = true ∧ f.withFn = true) := by
    intro f hf
    obtain ⟨p, hp, rfl⟩ := List.mem_map.mp hf
    simp [hnf p hp]
  obtain ⟨props, flat, rfl, hk, hfl⟩ := struct_keys_exact ra cd (fvs.map (·.1)) s hw hm
  have hflat : flat = [] := by
    rw [hfl]
    have : (fvs.map (·.1)).filter (fun f => Serde.written f && f.flatten) = [] := by
      apply List.filter_eq_nil_iff.mpr
      intro f hf
      obtain ⟨p, hp, rfl⟩ := List.mem_map.mp hf
      simp [hnf p hp]
    simp [this]
  subst hflat
  refine ⟨props, rfl, ?_⟩
  have hnd := hd _ hk
  have hl := ser_lookup ra cd fvs kvs (readProps props) hnf hs hk hnd
  simp only [validatesObj, List.all_eq_true]
  intro pr hpr
  -- the property comes from a written field
  simp only [Serde.keys] at hk
  obtain ⟨f, hf, hfe⟩ := allM_mem _ _ _ hk pr hpr
  simp only [List.mem_filter, List.mem_map] at hf
  obtain ⟨⟨p, hp, rfl⟩, hwf⟩ := hf
  have hwr : Serde.written p.1 = true := by
    cases hh : Serde.written p.1 <;> simp [hh] at hwf ⊢
  cases hn : Serde.name Serde.applyField ra p.1.ident p.1.rename with
  | none => simp [hn] at hfe
  | some n =>
    simp only [hn, Option.map_some, Option.some.injEq] at hfe
    subst hfe
    have hlk := hl p hp hwr n hn
    have hav := hadm p hp hwr
    simp only [hlk]
    cases hv : p.2 with
    | omitted =>
      simp only [hv, Serde.admissible] at hav
      simp [expect, Serde.lenient, hav]
    | null => simp [hv, Serde.admissible] at hav
    | val j =>
      simp only [hv, Serde.admissible] at hav
      simp only [expect, propOK, List.any_eq_true]
      exact ⟨p, hp, by simp [hwr, hn, hav]⟩

/-! ### values of enums -/

theorem validates_tag (leaf : Sch → JV → Bool) (f : Nat) (tag : Str) : validates leaf (f + 1) (.enm [tag]) (.str tag) = true := by
  simp [validates]

/-- **a variant's value validates against that variant's schema**, in every representation: externally tagged (bare name / single key),
internally tagged (the content's own properties plus the tag), adjacently tagged (tag alone / tag and content), untagged.  `hin`: an
internally tagged variant has struct-like content whose fields are not called like the tag; `hadj`: tag and content keys differ (serde
refuses the other cases at compile time) -/
theorem variant_value_validates (leaf : Sch → JV → Bool) (f : Nat) (content s : Sch) (w : Serde.Wire) (cj : JV)
    (hr : Realises content s w)
    (hc : validates leaf (f + 2) content cj = true)
    (hin : ∀ t tag, w = .inline t tag → ∃ ps kvs, content = .obj ps [] ∧ cj = .obj kvs ∧ (∀ p ∈ ps, p.1 ≠ t))
    (hadj : ∀ t tag c, w = .adjacent t tag c → t ≠ c) :
    validates leaf (f + 2 + w.depth) s (Serde.serVariant w cj) = true := by
  cases w with
  | bare tag => simp only [Realises] at hr; subst hr; simp [Serde.serVariant, validates, Serde.Wire.depth]
  | keyed tag =>
    simp only [Realises] at hr; subst hr
    simp [Serde.serVariant, validates, lookupV, hc, Serde.Wire.depth]
  | tagOnly t tag =>
    simp only [Realises] at hr; subst hr
    simp [Serde.serVariant, validates, lookupV, Serde.Wire.depth]
  | adjacent t tag c =>
    simp only [Realises] at hr; subst hr
    have htc := hadj t tag c rfl
    simp [Serde.serVariant, validates, lookupV, htc, Ne.symm htc, hc, Serde.Wire.depth]
  | content => simp only [Realises] at hr; subst hr; simpa [Serde.serVariant, Serde.Wire.depth] using hc
  | inline t tag =>
    obtain ⟨ps, kvs, hcont, hcj, hne⟩ := hin t tag rfl
    subst hcont hcj
    simp only [Realises] at hr
    rcases hr with ⟨ps', fl', he, hs⟩ | ⟨hno, _⟩
    · cases he; subst hs
      simp only [Serde.serVariant, Serde.Wire.depth, Nat.add_zero, validates, List.isEmpty_nil, Bool.true_and, List.all_append, List.all_cons,
        List.all_nil, Bool.and_true, Bool.and_eq_true]
      constructor
      · simp only [validates, List.isEmpty_nil, Bool.true_and] at hc
        rw [List.all_eq_true] at hc ⊢
        intro p hp
        have := hc p hp
        have hpt : ¬ t = p.1 := fun e => hne p hp e.symm
        simpa [lookupV, hpt] using this
      · simp [lookupV, validates]
    · exact absurd rfl (hno ps [])

/-- **a variant's value does not validate against ANOTHER externally tagged variant's schema** when the names differ: the alternatives of
the `oneOf` are disjoint -/
theorem external_disjoint (leaf : Sch → JV → Bool) (f : Nat) (c1 c2 s2 : Sch) (w1 w2 : Serde.Wire) (cj : JV) (t1 t2 : Str)
    (h1 : w1 = .bare t1 ∨ w1 = .keyed t1) (h2 : w2 = .bare t2 ∨ w2 = .keyed t2) (hne : t1 ≠ t2) (hr2 : Realises c2 s2 w2) :
    validates leaf (f + 1) s2 (Serde.serVariant w1 cj) = false := by
  rcases h1 with rfl | rfl <;> rcases h2 with rfl | rfl <;> simp only [Realises] at hr2 <;> subst hr2 <;>
    simp [Serde.serVariant, validates, lookupV, hne, Ne.symm hne]


theorem ext_own (leaf : Sch → JV → Bool) (f : Nat) (v : ExtVariant) (cj : JV) (hc : v.unit = false → validates leaf (f + 2) v.content cj = true) :
    validates leaf (f + 3) v.schema (v.value cj) = true := by
  unfold ExtVariant.schema ExtVariant.value
  cases hu : v.unit with
  | true => simp [validates]
  | false => simp [validates, lookupV, hc hu]

theorem ext_other (leaf : Sch → JV → Bool) (f : Nat) (v u : ExtVariant) (cj : JV) (hne : v.tag ≠ u.tag) :
    validates leaf (f + 1) u.schema (v.value cj) = false := by
  unfold ExtVariant.schema ExtVariant.value
  cases v.unit <;> cases u.unit <;> simp [validates, lookupV, hne, Ne.symm hne]

/-- **Every value of an externally tagged enum validates against the derived `oneOf`**: it fits its own variant's alternative and no
other — for any number of variants with distinct serialized names, unit and data-carrying mixed -/
theorem external_enum_validates (leaf : Sch → JV → Bool) (f : Nat) : ∀ (vs : List ExtVariant), (vs.map (·.tag)).Nodup →
    ∀ v ∈ vs, ∀ cj, (v.unit = false → validates leaf (f + 2) v.content cj = true) →
    validates leaf (f + 4) (.oneOf (vs.map (·.schema))) (v.value cj) = true := by
  intro vs hnd v hv cj hc
  have key : ∀ (l : List ExtVariant), (l.map (·.tag)).Nodup → (v ∈ l → ((l.map (·.schema)).filter fun s => validates leaf (f + 3) s (v.value cj)).length = 1) ∧
      (v.tag ∉ l.map (·.tag) → ((l.map (·.schema)).filter fun s => validates leaf (f + 3) s (v.value cj)).length = 0) := by
    intro l
    induction l with
    | nil => intro _; exact ⟨fun h => (by cases h), fun _ => rfl⟩
    | cons u us ih =>
      intro hnd'
      simp only [List.map_cons, List.nodup_cons] at hnd'
      obtain ⟨ih1, ih0⟩ := ih hnd'.2
      constructor
      · intro hmem
        rcases List.mem_cons.mp hmem with rfl | hmem
        · have h0 := ih0 hnd'.1
          simp only [List.map_cons, List.filter, ext_own leaf f v cj hc]
          simp only [List.length_cons, h0]
        · have hne : v.tag ≠ u.tag := fun e => hnd'.1 (by rw [← e]; exact List.mem_map.mpr ⟨v, hmem, rfl⟩)
          simp only [List.map_cons, List.filter, ext_other leaf (f + 2) v u cj hne]
          exact ih1 hmem
      · intro hnot
        simp only [List.map_cons, List.mem_cons, not_or] at hnot
        simp only [List.map_cons, List.filter, ext_other leaf (f + 2) v u cj hnot.1]
        exact ih0 hnot.2
  have := (key vs hnd).1 hv
  simp only [validates, this]
  rfl


/-- the alternatives of `external_enum_validates` are the shapes the derive builds (`variant_realises`) for the externally tagged
representations -/
theorem ext_schema_realises (v : ExtVariant) : Realises v.content v.schema (if v.unit then .bare v.tag else .keyed v.tag) := by
  unfold ExtVariant.schema
  cases v.unit <;> simp [Realises]

/-! ### non-vacuity: concrete definitions that meet the hypotheses -/

private def f1 : Field := { ident := ['u','s','e','r','_','n','a','m','e'], ty := "String", inner := "String" }
private def f2 : Field := { ident := ['r','#','t','y','p','e'], option := true, ty := "Option<u8>", inner := "u8" }
private def f3 : Field := { ident := ['x'], rename := some ['X','-','1'], dflt := true, ty := "u8", inner := "u8" }
private def f4 : Field := { ident := ['h','i','d'], skip := true, ty := "u8", inner := "u8" }

example : Macro.schemaOfFields (some .kebab) false (.named [f1, f2, f3, f4]) =
    some (.obj [(['u','s','e','r','-','n','a','m','e'], true, .ty "String"), (['t','y','p','e'], false, .ty "u8"), (['X','-','1'], false, .ty "u8")] []) := by rfl
example : Serde.keys (some .kebab) false [f1, f2, f3, f4] = some [(['u','s','e','r','-','n','a','m','e'], true), (['t','y','p','e'], false), (['X','-','1'], false)] := by decide
example : Macro.applyVariant .snake ['H','T','T','P','S','e','r','v','e','r'] = some ['h','_','t','_','t','_','p','_','s','e','r','v','e','r'] := by decide
example : Macro.applyField .camel ['_','_'] = none ∧ Serde.applyField .camel ['_','_'] = none := by decide
private def f2s : Field := { ident := ['n','i','c','k'], option := true, skipIf := true, ty := "Option<u8>", inner := "u8" }
private def fvs1 : List (Field × FieldVal) := [(f1, .val (.leaf 0)), (f2s, .omitted), (f3, .val (.leaf 1)), (f4, .val .null)]
-- the hypotheses of struct_value_validates are met by a four-field struct with an omitted Option and a skipped field, and its conclusion computes to true
example : Serde.ser (some .kebab) fvs1 = some [(['u','s','e','r','-','n','a','m','e'], .leaf 0), (['X','-','1'], .leaf 1)] := by rfl
example : (∀ p ∈ fvs1, Serde.written p.1 = true → Serde.admissible (fun _ _ => true) p.1 p.2 = true) := by
  intro p hp; simp [fvs1] at hp; rcases hp with rfl | rfl | rfl | rfl <;> simp [Serde.admissible, Serde.written, f1, f2s, f3, f4]
example : validatesObj (propOK (fun _ _ => true) (some .kebab) fvs1)
    [(['u','s','e','r','-','n','a','m','e'], true), (['n','i','c','k'], false), (['X','-','1'], false)]
    [(['u','s','e','r','-','n','a','m','e'], .leaf 0), (['X','-','1'], .leaf 1)] = true := by decide

end Ohkami.Derive.C16
