import OhkamiModel.M.Multipart
/-! # C10 — property theorems about the multipart model -/
namespace C10
open Ohkami Ohkami.Multipart

/-- `read_until` splits its input: nothing is lost or duplicated, and what it returns as "before" is a prefix of the input -/
theorem readUntil_split (pat : Bytes) : ∀ bs : Bytes, (readUntil pat bs).1 ++ (readUntil pat bs).2 = bs := by
  intro bs
  induction bs with
  | nil => simp [readUntil]
  | cons b t ih =>
    simp only [readUntil]
    split
    · simp
    · simp only [List.cons_append]; rw [ih]

/-- when the pattern occurs, the rest starts with it -/
theorem readUntil_rest (pat : Bytes) : ∀ bs : Bytes, (readUntil pat bs).2 = [] ∨ pat.isPrefixOf (readUntil pat bs).2 = true := by
  intro bs
  induction bs with
  | nil => simp [readUntil]
  | cons b t ih =>
    simp only [readUntil]
    split
    · rename_i h; exact Or.inr h
    · exact ih

/-- **Byte-exact content**: if the delimiter does not occur in `content ++ CRLF` extended by any proper prefix of the
delimiter (the hypothesis a conforming encoder guarantees), then scanning `content ++ CRLF ++ delimiter ++ rest` stops
exactly at the delimiter: the part's content is recovered byte for byte — whatever bytes it holds (CR, LF, `--`, NUL, high bytes). -/
theorem readUntil_exact (pat : Bytes) : ∀ (pre rest : Bytes),
    (∀ i, i < pre.length → pat.isPrefixOf ((pre ++ pat ++ rest).drop i) = false) →
    readUntil pat (pre ++ pat ++ rest) = (pre, pat ++ rest) := by
  intro pre
  induction pre with
  | nil =>
    intro rest _
    simp only [List.nil_append]
    cases hp : pat ++ rest with
    | nil => simp [readUntil]
    | cons b t =>
      have : pat.isPrefixOf (b :: t) = true := by rw [← hp]; exact List.isPrefixOf_iff_prefix.mpr (List.prefix_append _ _)
      simp [readUntil, this]
  | cons x pre ih =>
    intro rest h
    have h0 := h 0 (by simp)
    simp only [List.drop_zero, List.cons_append] at h0
    simp only [List.cons_append, readUntil, h0, Bool.false_eq_true, if_false]
    rw [ih rest (fun i hi => by have := h (i + 1) (by simp; omega); simpa using this)]

/-- the empty file input (no filename, no content) is "no file": `Option<File>` is `None`, `Vec<File>` is empty, `File` is a shape mismatch -/
theorem empty_file_input (name : Bytes) (mt : Bytes) (rest : List Part) :
    next (rest ++ [.file name ⟨[], mt, []⟩]) = some (name, .files [], rest) ∧
    decodeField .optFile (.files []) = some .none ∧ decodeField .files (.files []) = some (.seq []) ∧ decodeField .file (.files []) = none := by
  refine ⟨?_, rfl, rfl, rfl⟩
  simp [next]

/-- a shape mismatch is an error, never a wrong value: two files never fit a single `File` or `Option<File>` field, text never fits a file field, a file never fits a text field -/
theorem shape_mismatch (f g : FileV) (l : List FileV) (t : Bytes) :
    decodeField .file (.files (f :: g :: l)) = none ∧ decodeField .optFile (.files (f :: g :: l)) = none ∧
    decodeField .file (.text t) = none ∧ decodeField .files (.text t) = none ∧ decodeField .text (.files (f :: l)) = none := by
  refine ⟨rfl, rfl, rfl, rfl, rfl⟩

end C10
