import OhkamiModel.M.Multipart
/-! # C10 — property theorems about the multipart model -/
namespace C10
open Ohkami Ohkami.Multipart

/-- `read_until` splits its input: nothing is lost or duplicated, and what it returns as "before" is a prefix of the input -/
theorem readUntil_split (pat : Bytes) : ∀ bs : Bytes, (readUntil pat bs).1 ++ (readUntil pat bs).2 = bs := by
  intro bs
  induction bs with
  | nil => simp [readUntil]
  | cons b t ih =>
    simp only [readUntil]
    split
    · simp
    · simp only [List.cons_append]; rw [ih]

/-- when the pattern occurs, the rest starts with it -/
theorem readUntil_rest (pat : Bytes) : ∀ bs : Bytes, (readUntil pat bs).2 = [] ∨ pat.isPrefixOf (readUntil pat bs).2 = true := by
  intro bs
  induction bs with
  | nil => simp [readUntil]
  | cons b t ih =>
    simp only [readUntil]
    split
    · rename_i h; exact Or.inr h
    · exact ih

/-- **Byte-exact content**: if the delimiter does not occur in `content ++ CRLF` extended by any proper prefix of the
delimiter (the hypothesis a conforming encoder guarantees), then scanning `content ++ CRLF ++ delimiter ++ rest` stops
exactly at the delimiter: the part's content is recovered byte for byte — whatever bytes it holds (CR, LF, `--`, NUL, high bytes). -/
theorem readUntil_exact (pat : Bytes) : ∀ (pre rest : Bytes),
    (∀ i, i < pre.length → pat.isPrefixOf ((pre ++ pat ++ rest).drop i) = false) →
    readUntil pat (pre ++ pat ++ rest) = (pre, pat ++ rest) := by
  intro pre
  induction pre with
  | nil =>
    intro rest _
    simp only [List.nil_append]
    cases hp : pat ++ rest with
    | nil => simp [readUntil]
    | cons b t =>
      have : pat.isPrefixOf (b :: t) = true := by rw [← hp]; exact List.isPrefixOf_iff_prefix.mpr (List.prefix_append _ _)
      simp [readUntil, this]
  | cons x pre ih =>
    intro rest h
    have h0 := h 0 (by simp)
    simp only [List.drop_zero, List.cons_append] at h0
    simp only [List.cons_append, readUntil, h0, Bool.false_eq_true, if_false]
    rw [ih rest (fun i hi => by have := h (i + 1) (by simp; omega); simpa using this)]

/-- no other file part of that name (in `rest`) -/
def NoFileNamed (name : Bytes) (rest : List Part) : Prop := ∀ p ∈ rest, sameFile name p = false

@[simp] theorem sameFile_file (name : Bytes) (f : FileV) : sameFile name (.file name f) = true := by simp [sameFile]
@[simp] theorem sameFile_text (name m t : Bytes) : sameFile name (.text m t) = false := rfl

theorem filter_none {name : Bytes} {rest : List Part} (h : NoFileNamed name rest) :
    rest.reverse.filter (sameFile name) = [] ∧ rest.reverse.filter (fun p => !sameFile name p) = rest.reverse := by
  constructor
  · rw [List.filter_eq_nil_iff]; intro p hp; simp [h p (List.mem_reverse.mp hp)]
  · rw [List.filter_eq_self]; intro p hp; simp [h p (List.mem_reverse.mp hp)]

/-- the unselected file input (no filename, no content) is "no file": alone under its name it yields no file — `Option<File>` is `None`, `Vec<File>` is empty,
`File` is a shape mismatch -/
theorem empty_file_input (name mt m t : Bytes) (rest : List Part) (hr : NoFileNamed name rest) :
    next (rest ++ [.text m t, .file name ⟨[], mt, []⟩]) = some (name, .files [], rest ++ [.text m t]) ∧ next [.file name ⟨[], mt, []⟩] = some (name, .files [], []) ∧
    decodeField .optFile (.files []) = some .none ∧ decodeField .files (.files []) = some (.seq []) ∧ decodeField .file (.files []) = none := by
  obtain ⟨h1, h2⟩ := filter_none hr
  refine ⟨?_, ?_, rfl, rfl, rfl⟩
  · simp [next, unselected, List.filter_cons, h1, h2, fileOf]
  · simp [next, unselected, fileOf]

/-- ... and among the files of its name it is no file either, wherever it stands (two inputs of one name of which one was left empty, in either order;
before fix fix 6d7aeee `[unselected, file]` yielded a phantom empty file and `[file, unselected]` made the whole form an error) -/
theorem unselected_among_files (name mt m t : Bytes) (f : FileV) (hf : unselected f = false) (rest : List Part) (hr : NoFileNamed name rest) :
    next (rest ++ [.text m t, .file name ⟨[], mt, []⟩, .file name f]) = some (name, .files [f], rest ++ [.text m t]) ∧
    next (rest ++ [.text m t, .file name f, .file name ⟨[], mt, []⟩]) = some (name, .files [f], rest ++ [.text m t]) ∧
    decodeField .files (.files [f]) = some (.seq [f]) ∧ decodeField .optFile (.files [f]) = some (.some (.file f)) := by
  obtain ⟨h1, h2⟩ := filter_none hr
  have hf' : (!f.filename.isEmpty || !f.content.isEmpty) = true := by
    simp only [unselected] at hf
    cases h1 : f.filename.isEmpty <;> cases h2 : f.content.isEmpty <;> simp_all
  refine ⟨?_, ?_, rfl, rfl⟩
  · simp [next, unselected, List.filter_cons, hf', h1, h2, fileOf]
  · simp [next, unselected, List.filter_cons, hf', h1, h2, fileOf]

/-- **Several files under one name, adjacent or not, in submission order**: two files of one name with another field between them are one group, and
`Vec<File>` receives them in the order they were submitted (before the fix the group ended at the first part of another name and the second file of the
name made the form an error, "duplicate field") -/
theorem files_need_not_be_adjacent (name m t : Bytes) (f g : FileV) (hf : unselected f = false) (hg : unselected g = false) (rest : List Part)
    (hr : NoFileNamed name rest) :
    next (rest ++ [.file name f, .text m t, .file name g]) = some (name, .files [g, f], rest ++ [.text m t]) ∧
    decodeField .files (.files [g, f]) = some (.seq [f, g]) := by
  obtain ⟨h1, h2⟩ := filter_none hr
  have hf' : (!f.filename.isEmpty || !f.content.isEmpty) = true := by
    simp only [unselected] at hf
    cases h1 : f.filename.isEmpty <;> cases h2 : f.content.isEmpty <;> simp_all
  have hg' : (!g.filename.isEmpty || !g.content.isEmpty) = true := by
    simp only [unselected] at hg
    cases h1 : g.filename.isEmpty <;> cases h2 : g.content.isEmpty <;> simp_all
  refine ⟨?_, rfl⟩
  simp [next, unselected, List.filter_cons, hf', hg', h1, h2, fileOf]

/-- a shape mismatch is an error, never a wrong value: two files never fit a single `File` or `Option<File>` field, text never fits a file field, a file never fits a text field -/
theorem shape_mismatch (f g : FileV) (l : List FileV) (t : Bytes) :
    decodeField .file (.files (f :: g :: l)) = none ∧ decodeField .optFile (.files (f :: g :: l)) = none ∧
    decodeField .file (.text t) = none ∧ decodeField .files (.text t) = none ∧ decodeField .text (.files (f :: l)) = none := by
  refine ⟨rfl, rfl, rfl, rfl, rfl⟩

end C10

/-! ### the whole form: `Multipart::parse` after an RFC 7578 encoder -/
namespace Ohkami.Multipart
open Ohkami

theorem readWhile_stop (p : UInt8 → Bool) : ∀ (a : Bytes) (c : UInt8) (rest : Bytes), (∀ b ∈ a, p b = true) → p c = false →
    readWhile p (a ++ c :: rest) = (a, c :: rest) := by
  intro a
  induction a with
  | nil => intro c rest _ hc; simp [readWhile, hc]
  | cons x a ih =>
    intro c rest h hc
    have hx : p x = true := h x (by simp)
    simp [readWhile, hx, ih c rest (fun b hb => h b (by simp [hb])) hc]

theorem consume_app (tok rest : Bytes) : consume tok (tok ++ rest) = some rest := by simp [consume]

theorem readQuoted_ok (inner rest : Bytes) (h : ∀ b ∈ inner, b ≠ DQ) : readQuoted (DQ :: (inner ++ DQ :: rest)) = some (inner, rest) := by
  have := readWhile_stop (· != DQ) inner DQ rest (by intro b hb; simpa using h b hb) (by simp)
  simp [readQuoted, this]

/-- the header lines an RFC 7578 encoder writes for a part -/
def CD : Bytes := ascii "Content-Disposition: form-data; name="
def FN : Bytes := ascii "; filename="
def CT : Bytes := ascii "Content-Type: "

def headerBlock : Part → Bytes
  | .text n _ => CD ++ DQ :: (n ++ DQ :: CRLF)
  | .file n f => CD ++ DQ :: (n ++ DQ :: (FN ++ DQ :: (f.filename ++ DQ :: (CRLF ++ (CT ++ (f.mimetype ++ CRLF))))))

def content : Part → Bytes
  | .text _ t => t
  | .file _ f => f.content

/-- what a conforming encoder may put into a part (everything else about names, types and contents is free) -/
structure PartOK (delim : Bytes) (p : Part) : Prop where
  name : ∀ b ∈ (match p with | .text n _ => n | .file n _ => n), b ≠ DQ
  name_utf8 : Http.validUtf8 (match p with | .text n _ => n | .file n _ => n) = true
  file : ∀ n f, p = .file n f → (∀ b ∈ f.filename, b ≠ DQ) ∧ Http.validUtf8 f.filename = true ∧ Http.validUtf8 f.mimetype = true ∧
      (f.mimetype == ascii "multipart/mixed") = false ∧ (∀ b ∈ f.mimetype, b ≠ CR) ∧ f.mimetype ≠ []
  text_utf8 : ∀ n t, p = .text n t → Http.validUtf8 t = true

theorem headers_text (n rest : Bytes) (fuel : Nat) (hn : ∀ b ∈ n, b ≠ DQ) (hu : Http.validUtf8 n = true) :
    headers (fuel + 2) {} (CD ++ DQ :: (n ++ DQ :: CRLF) ++ CRLF ++ rest) = some ({ name := n }, rest) := by
  have e : CD ++ DQ :: (n ++ DQ :: CRLF) ++ CRLF ++ rest = ascii "Content-Disposition" ++ 58 :: (ascii " form-data; name=" ++ DQ :: (n ++ DQ :: (CRLF ++ (CRLF ++ rest)))) := by
    have : CD = ascii "Content-Disposition" ++ 58 :: ascii " form-data; name=" := by decide
    rw [this]; simp
  rw [e, headers]
  have h0 : consume CRLF (ascii "Content-Disposition" ++ 58 :: (ascii " form-data; name=" ++ DQ :: (n ++ DQ :: (CRLF ++ (CRLF ++ rest))))) = none := by
    have : ascii "Content-Disposition" = 67 :: (ascii "ontent-Disposition") := by decide
    rw [this]; simp [consume, CRLF, List.isPrefixOf]
  have h1 := readWhile_stop isKebab (ascii "Content-Disposition") 58 (ascii " form-data; name=" ++ DQ :: (n ++ DQ :: (CRLF ++ (CRLF ++ rest)))) (by decide) (by decide)
  simp only [h0, h1]
  have h2 : (ascii "Content-Disposition").isEmpty = false := by decide
  have h3 : eqIgnoreCase (ascii "Content-Disposition") (ascii "Content-Type") = false := by decide
  have h4 : eqIgnoreCase (ascii "Content-Disposition") (ascii "Content-Disposition") = true := by decide
  simp only [h2, Bool.false_eq_true, if_false, h3, h4, if_true]
  have h5 : (58 : UInt8) :: (ascii " form-data; name=" ++ DQ :: (n ++ DQ :: (CRLF ++ (CRLF ++ rest)))) = ascii ": form-data; name=" ++ (DQ :: (n ++ DQ :: (CRLF ++ (CRLF ++ rest)))) := by
    have : ascii ": form-data; name=" = 58 :: ascii " form-data; name=" := by decide
    rw [this]; simp
  rw [h5, consume_app]
  simp only [Option.bind_some, readQuoted_ok n _ hn, hu, Bool.not_true, Bool.false_eq_true, if_false]
  have h6 : consume (ascii "; ") (CRLF ++ (CRLF ++ rest)) = none := by
    have : ascii "; " = [59, 32] := by decide
    rw [this]; simp [consume, CRLF, List.isPrefixOf]
  simp only [h6, consume_app, Option.bind_some]
  rw [headers]
  simp only [consume_app]

theorem readUntil_nocr' : ∀ (a rest : Bytes), (∀ b ∈ a, b ≠ CR) → readUntil CRLF (a ++ (CRLF ++ rest)) = (a, CRLF ++ rest) := by
  intro a
  induction a with
  | nil => intro rest _; simp [readUntil, CRLF, List.isPrefixOf]
  | cons x a ih =>
    intro rest h
    have hx : x ≠ 13 := h x (by simp)
    have := ih rest (fun b hb => h b (by simp [hb]))
    have hp : CRLF.isPrefixOf (x :: (a ++ (CRLF ++ rest))) = false := by simp [CRLF, List.isPrefixOf, Ne.symm hx]
    simp only [List.cons_append, readUntil, hp, Bool.false_eq_true, if_false, this]

theorem readUntil_nocr (a rest : Bytes) (h : ∀ b ∈ a, b ≠ CR) : readUntil CRLF (a ++ CRLF ++ rest) = (a, CRLF ++ rest) := by
  rw [List.append_assoc]; exact readUntil_nocr' a rest h

theorem headers_file (n rest : Bytes) (f : FileV) (fuel : Nat) (hn : ∀ b ∈ n, b ≠ DQ) (hu : Http.validUtf8 n = true)
    (hf : ∀ b ∈ f.filename, b ≠ DQ) (hfu : Http.validUtf8 f.filename = true) (hmu : Http.validUtf8 f.mimetype = true)
    (hmm : (f.mimetype == ascii "multipart/mixed") = false) (hmc : ∀ b ∈ f.mimetype, b ≠ CR) :
    headers (fuel + 3) {} (headerBlock (.file n f) ++ CRLF ++ rest) = some ({ name := n, mimetype := f.mimetype, filename := some f.filename }, rest) := by
  have e : headerBlock (.file n f) ++ CRLF ++ rest = ascii "Content-Disposition" ++ 58 :: (ascii " form-data; name=" ++ DQ :: (n ++ DQ ::
      (ascii "; " ++ (ascii "filename=" ++ DQ :: (f.filename ++ DQ :: (CRLF ++ (ascii "Content-Type" ++ 58 :: (32 :: (f.mimetype ++ CRLF ++ (CRLF ++ rest)))))))))) := by
    have h1 : CD = ascii "Content-Disposition" ++ 58 :: ascii " form-data; name=" := by decide
    have h2 : FN = ascii "; " ++ ascii "filename=" := by decide
    have h3 : CT = ascii "Content-Type" ++ [58, 32] := by decide
    simp only [headerBlock, h1, h2, h3]; simp
  rw [e, headers]
  have h0 : ∀ t, consume CRLF (ascii "Content-Disposition" ++ t) = none := by
    intro t
    have : ascii "Content-Disposition" = 67 :: (ascii "ontent-Disposition") := by decide
    rw [this]; simp [consume, CRLF, List.isPrefixOf]
  have hk1 := readWhile_stop isKebab (ascii "Content-Disposition") 58 (ascii " form-data; name=" ++ DQ :: (n ++ DQ ::
      (ascii "; " ++ (ascii "filename=" ++ DQ :: (f.filename ++ DQ :: (CRLF ++ (ascii "Content-Type" ++ 58 :: (32 :: (f.mimetype ++ CRLF ++ (CRLF ++ rest)))))))))) (by decide) (by decide)
  simp only [h0, hk1]
  have h2 : (ascii "Content-Disposition").isEmpty = false := by decide
  have h3 : eqIgnoreCase (ascii "Content-Disposition") (ascii "Content-Type") = false := by decide
  have h4 : eqIgnoreCase (ascii "Content-Disposition") (ascii "Content-Disposition") = true := by decide
  simp only [h2, Bool.false_eq_true, if_false, h3, h4, if_true]
  have h5 : ∀ t, (58 : UInt8) :: (ascii " form-data; name=" ++ t) = ascii ": form-data; name=" ++ t := by
    intro t
    have : ascii ": form-data; name=" = 58 :: ascii " form-data; name=" := by decide
    rw [this]; simp
  rw [h5, consume_app]
  simp only [Option.bind_some, readQuoted_ok n _ hn, hu, Bool.not_true, Bool.false_eq_true, if_false, consume_app, readQuoted_ok f.filename _ hf, hfu]
  -- second line: Content-Type
  rw [headers]
  have h0' : ∀ t, consume CRLF (ascii "Content-Type" ++ t) = none := by
    intro t
    have : ascii "Content-Type" = 67 :: (ascii "ontent-Type") := by decide
    rw [this]; simp [consume, CRLF, List.isPrefixOf]
  have hk2 := readWhile_stop isKebab (ascii "Content-Type") 58 (32 :: (f.mimetype ++ CRLF ++ (CRLF ++ rest))) (by decide) (by decide)
  simp only [h0', hk2]
  have h2' : (ascii "Content-Type").isEmpty = false := by decide
  have h4' : eqIgnoreCase (ascii "Content-Type") (ascii "Content-Type") = true := by decide
  simp only [h2', Bool.false_eq_true, if_false, h4', if_true]
  have h6 : (58 : UInt8) :: 32 :: (f.mimetype ++ CRLF ++ (CRLF ++ rest)) = ascii ": " ++ (f.mimetype ++ CRLF ++ (CRLF ++ rest)) := by
    have : ascii ": " = [58, 32] := by decide
    rw [this]; simp
  rw [h6, consume_app]
  simp only [Option.bind_some, readUntil_nocr f.mimetype (CRLF ++ rest) hmc, hmu, Bool.not_true, Bool.false_eq_true, if_false, hmm, consume_app]
  rw [headers]
  simp only [consume_app]


/-- the header block of a file part that carries no `Content-Type`: `Content-Disposition: form-data; name=".."; filename=".."` alone -/
def headerBlockNoCT (n fn : Bytes) : Bytes := CD ++ DQ :: (n ++ DQ :: (FN ++ DQ :: (fn ++ DQ :: CRLF)))

theorem headers_file_noct (n fn rest : Bytes) (fuel : Nat) (hn : ∀ b ∈ n, b ≠ DQ) (hu : Http.validUtf8 n = true)
    (hf : ∀ b ∈ fn, b ≠ DQ) (hfu : Http.validUtf8 fn = true) :
    headers (fuel + 2) {} (headerBlockNoCT n fn ++ CRLF ++ rest) = some ({ name := n, mimetype := [], filename := some fn }, rest) := by
  have e : headerBlockNoCT n fn ++ CRLF ++ rest = ascii "Content-Disposition" ++ 58 :: (ascii " form-data; name=" ++ DQ :: (n ++ DQ ::
      (ascii "; " ++ (ascii "filename=" ++ DQ :: (fn ++ DQ :: (CRLF ++ (CRLF ++ rest))))))) := by
    have h1 : CD = ascii "Content-Disposition" ++ 58 :: ascii " form-data; name=" := by decide
    have h2 : FN = ascii "; " ++ ascii "filename=" := by decide
    simp only [headerBlockNoCT, h1, h2]; simp
  rw [e, headers]
  have h0 : ∀ t, consume CRLF (ascii "Content-Disposition" ++ t) = none := by
    intro t
    have : ascii "Content-Disposition" = 67 :: (ascii "ontent-Disposition") := by decide
    rw [this]; simp [consume, CRLF, List.isPrefixOf]
  have hk1 := readWhile_stop isKebab (ascii "Content-Disposition") 58 (ascii " form-data; name=" ++ DQ :: (n ++ DQ ::
      (ascii "; " ++ (ascii "filename=" ++ DQ :: (fn ++ DQ :: (CRLF ++ (CRLF ++ rest))))))) (by decide) (by decide)
  simp only [h0, hk1]
  have h2 : (ascii "Content-Disposition").isEmpty = false := by decide
  have h3 : eqIgnoreCase (ascii "Content-Disposition") (ascii "Content-Type") = false := by decide
  have h4 : eqIgnoreCase (ascii "Content-Disposition") (ascii "Content-Disposition") = true := by decide
  simp only [h2, Bool.false_eq_true, if_false, h3, h4, if_true]
  have h5 : ∀ t, (58 : UInt8) :: (ascii " form-data; name=" ++ t) = ascii ": form-data; name=" ++ t := by
    intro t
    have : ascii ": form-data; name=" = 58 :: ascii " form-data; name=" := by decide
    rw [this]; simp
  rw [h5, consume_app]
  simp only [Option.bind_some, readQuoted_ok n _ hn, hu, Bool.not_true, Bool.false_eq_true, if_false, consume_app, readQuoted_ok fn _ hf, hfu]
  rw [headers]
  simp only [consume_app]


end Ohkami.Multipart

namespace Ohkami.Multipart
open Ohkami

def DASH2 : Bytes := [45, 45]

/-- what follows the delimiter line by line: the parts, each closed by the delimiter, and the final `--` -/
def tail (delim : Bytes) : List Part → Bytes
  | [] => DASH2 ++ CRLF
  | p :: ps => CRLF ++ (headerBlock p ++ CRLF ++ (content p ++ CRLF ++ (delim ++ tail delim ps)))

/-- the body an RFC 7578 encoder writes for a form, with `delim` = `--` + boundary -/
def encode (delim : Bytes) (form : List Part) : Bytes := delim ++ tail delim form

/-- the delimiter — CRLF `--` boundary, RFC 2046 5.1.1 — does not occur in the content (nor straddling its end): the choice a conforming encoder
makes.  `--` boundary in the middle of a line is content like any other -/
def Fits (delim : Bytes) (p : Part) (rest : Bytes) : Prop :=
  ∀ i, i < (content p).length → (CRLF ++ delim).isPrefixOf ((content p ++ (CRLF ++ delim) ++ rest).drop i) = false

def FormOK (delim : Bytes) : List Part → Prop
  | [] => True
  | p :: ps => PartOK delim p ∧ Fits delim p (tail delim ps) ∧ FormOK delim ps

theorem headers_part (delim : Bytes) (p : Part) (hp : PartOK delim p) (rest : Bytes) (fuel : Nat) (hf : 3 ≤ fuel) :
    ∃ acc, headers fuel {} (headerBlock p ++ CRLF ++ rest) = some (acc, rest) ∧ acc.name = (match p with | .text n _ => n | .file n _ => n) ∧
      (match p with | .text _ _ => acc.filename = none | .file _ f => acc.filename = some f.filename ∧ acc.mimetype = f.mimetype) := by
  obtain ⟨k, rfl⟩ : ∃ k, fuel = k + 3 := ⟨fuel - 3, by omega⟩
  cases p with
  | text n t =>
    refine ⟨{ name := n }, ?_, rfl, rfl⟩
    have := headers_text n rest (k + 1) hp.name hp.name_utf8
    simpa [headerBlock] using this
  | file n f =>
    obtain ⟨h1, h2, h3, h4, h5, _⟩ := hp.file n f rfl
    exact ⟨_, headers_file n rest f k hp.name hp.name_utf8 h1 h2 h3 h4 h5, rfl, rfl, rfl⟩

theorem headerBlock_length (p : Part) : 2 ≤ (headerBlock p).length := by
  cases p <;> simp [headerBlock, CD, ascii] <;> omega

theorem parts_tail (delim : Bytes) : ∀ (form : List Part) (acc : List Part) (fuel : Nat), FormOK delim form → form.length < fuel →
    parts fuel delim (tail delim form) acc = some (acc ++ form) := by
  intro form
  induction form with
  | nil =>
    intro acc fuel _ hf
    cases fuel with
    | zero => simp at hf
    | succ f =>
      have : consume CRLF (tail delim []) = none := by simp [tail, consume, CRLF, DASH2, List.isPrefixOf]
      simp [parts, this]
  | cons p ps ih =>
    intro acc fuel hok hf
    obtain ⟨hp, hfit, hrest⟩ := hok
    cases fuel with
    | zero => simp at hf
    | succ f =>
      have e : tail delim (p :: ps) = CRLF ++ (headerBlock p ++ CRLF ++ (content p ++ CRLF ++ (delim ++ tail delim ps))) := rfl
      rw [e, parts, consume_app]
      simp only
      have hlen : 3 ≤ (headerBlock p ++ CRLF ++ (content p ++ CRLF ++ (delim ++ tail delim ps))).length + 1 := by
        have := headerBlock_length p
        simp only [List.length_append]; omega
      obtain ⟨hacc, hh, hname, hkind⟩ := headers_part delim p hp (content p ++ CRLF ++ (delim ++ tail delim ps)) _ hlen
      rw [hh]
      simp only
      have hru : readUntil (CRLF ++ delim) (content p ++ CRLF ++ (delim ++ tail delim ps)) = (content p, (CRLF ++ delim) ++ tail delim ps) := by
        have := C10.readUntil_exact (CRLF ++ delim) (content p) (tail delim ps) hfit
        simpa [List.append_assoc] using this
      rw [hru]
      simp only [consume_app]
      cases p with
      | text n t =>
        simp only at hkind hname
        have hu := hp.text_utf8 n t rfl
        simp only [hkind, content, hu, if_true, hname]
        rw [ih _ f hrest (by simp at hf; omega)]
        simp
      | file n fv =>
        simp only at hkind hname
        have hmt : fv.mimetype.isEmpty = false := by
          have := (hp.file n fv rfl).2.2.2.2.2
          cases h : fv.mimetype with
          | nil => exact absurd h this
          | cons a b => rfl
        simp only [hkind.1, hkind.2, content, hname, hmt, Bool.false_eq_true, if_false]
        rw [ih _ f hrest (by simp at hf; omega)]
        simp

/-- **A file part without `Content-Type` is `text/plain`** (RFC 7578 4.4: the header is optional).  Whatever the name, the file name and the content (with the
delimiter occurring nowhere in it), and wherever the part stands in the form: the part loop delivers the file under the media type `text/plain` and goes on with
the rest of the form. -/
theorem part_without_content_type (delim n fn c : Bytes) (ps acc : List Part) (f : Nat)
    (hn : ∀ b ∈ n, b ≠ DQ) (hu : Http.validUtf8 n = true) (hf : ∀ b ∈ fn, b ≠ DQ) (hfu : Http.validUtf8 fn = true)
    (hfit : ∀ i, i < c.length → (CRLF ++ delim).isPrefixOf ((c ++ (CRLF ++ delim) ++ tail delim ps).drop i) = false) :
    parts (f + 1) delim (CRLF ++ (headerBlockNoCT n fn ++ CRLF ++ (c ++ CRLF ++ (delim ++ tail delim ps)))) acc =
      parts f delim (tail delim ps) (acc ++ [.file n ⟨fn, TEXT_PLAIN, c⟩]) := by
  rw [parts, consume_app]
  simp only
  have hlen : 2 ≤ (headerBlockNoCT n fn ++ CRLF ++ (c ++ CRLF ++ (delim ++ tail delim ps))).length + 1 := by
    simp only [List.length_append]; have : 0 < (headerBlockNoCT n fn).length := by simp [headerBlockNoCT, CD, ascii]
    omega
  obtain ⟨k, hk⟩ : ∃ k, (headerBlockNoCT n fn ++ CRLF ++ (c ++ CRLF ++ (delim ++ tail delim ps))).length + 1 = k + 2 :=
    ⟨(headerBlockNoCT n fn ++ CRLF ++ (c ++ CRLF ++ (delim ++ tail delim ps))).length - 1, by omega⟩
  rw [hk, headers_file_noct n fn (c ++ CRLF ++ (delim ++ tail delim ps)) k hn hu hf hfu]
  simp only
  have hru : readUntil (CRLF ++ delim) (c ++ CRLF ++ (delim ++ tail delim ps)) = (c, (CRLF ++ delim) ++ tail delim ps) := by
    have := C10.readUntil_exact (CRLF ++ delim) c (tail delim ps) hfit
    simpa [List.append_assoc] using this
  rw [hru]
  simp only [consume_app, List.isEmpty_nil, if_true]

/-- **A form survives the trip.**  For every form (any number of text fields and files, any names, filenames, media types, binary
contents) written by a conforming RFC 7578 encoder with a delimiter that occurs in no part, `Multipart::parse` recovers exactly the parts:
the same names and texts and, per file, the same filename, media type and byte-exact content, in submission order. -/
theorem parse_encode (delim : Bytes) (form : List Part) (hd : ∀ b ∈ delim, b ≠ CR) (hok : FormOK delim form) :
    parse (encode delim form) = some form := by
  unfold parse encode
  cases form with
  | nil =>
    have e : delim ++ tail delim [] = (delim ++ DASH2) ++ (CRLF ++ []) := by simp [tail]
    have hd' : ∀ b ∈ delim ++ DASH2, b ≠ CR := by
      intro b hb
      rcases List.mem_append.mp hb with h | h
      · exact hd b h
      · simp [DASH2] at h; subst h; decide
    rw [e, readUntil_nocr' _ _ hd']
    simp [DASH2, CRLF]
  | cons p ps =>
    have e : delim ++ tail delim (p :: ps) = delim ++ (CRLF ++ (headerBlock p ++ CRLF ++ (content p ++ CRLF ++ (delim ++ tail delim ps)))) := rfl
    rw [e, readUntil_nocr' _ _ hd]
    simp only
    have hne : ((CRLF ++ (headerBlock p ++ CRLF ++ (content p ++ CRLF ++ (delim ++ tail delim ps)))).isEmpty ||
        (CRLF ++ (headerBlock p ++ CRLF ++ (content p ++ CRLF ++ (delim ++ tail delim ps))) == CRLF)) = false := by
      have h2 := headerBlock_length p
      have : (CRLF ++ (headerBlock p ++ CRLF ++ (content p ++ CRLF ++ (delim ++ tail delim ps)))).length ≠ CRLF.length := by
        simp only [List.length_append, CRLF, List.length_cons, List.length_nil]; omega
      simp only [Bool.or_eq_false_iff]
      constructor
      · simp [CRLF]
      · apply Bool.eq_false_iff.mpr
        intro h
        exact this (congrArg List.length (eq_of_beq h))
    simp only [hne, Bool.and_false, Bool.false_eq_true, if_false]
    have := parts_tail delim (p :: ps) [] ((delim ++ (CRLF ++ (headerBlock p ++ CRLF ++ (content p ++ CRLF ++ (delim ++ tail delim ps))))).length + 1) hok
      (by
        have : ∀ l : List Part, l.length ≤ (tail delim l).length := by
          intro l
          induction l with
          | nil => simp
          | cons q qs ihq => have hc : CRLF.length = 2 := rfl; simp only [tail, List.length_append, List.length_cons]; omega
        have h := this (p :: ps)
        rw [show tail delim (p :: ps) = CRLF ++ (headerBlock p ++ CRLF ++ (content p ++ CRLF ++ (delim ++ tail delim ps))) from rfl] at h
        simp only [List.length_append] at h ⊢; omega)
    simpa [tail] using this

-- non-vacuity: a text field and a file whose content holds CR LF, dashes and a NUL, under the delimiter `--X`
private def dX : Bytes := [45, 45, 88]
private def form2 : List Part := [.text [97] [104, 105], .file [102] ⟨[120, 46, 98], [97, 47, 98], [13, 10, 45, 45, 0]⟩]
example : FormOK dX form2 := by
  refine ⟨⟨by decide, by decide, ?_, ?_⟩, by unfold Fits; decide, ⟨by decide, by decide, ?_, ?_⟩, by unfold Fits; decide, trivial⟩
  · intro n f h; cases h
  · intro n t h; cases h; decide
  · intro n f h; cases h; decide
  · intro n t h; cases h


end Ohkami.Multipart
