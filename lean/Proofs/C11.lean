import OhkamiModel.M.Cookie
/-! # C11 — property theorems about the cookie models -/
namespace C11
open Ohkami Ohkami.Cookie

theorem u8_cases (P : UInt8 → Prop) (h : ∀ n : Fin 256, P n.val.toUInt8) (b : UInt8) : P b := by
  have := h ⟨b.toNat, b.toNat_lt⟩
  have e : b.toNat.toUInt8 = b := by cases b; simp [Nat.toUInt8, UInt8.toNat]
  simpa [e] using this

theorem position_none_of_all (p : UInt8 → Bool) : ∀ bs : Bytes, (∀ b ∈ bs, p b = false) → position p bs = none := by
  intro bs
  induction bs with
  | nil => intro _; rfl
  | cons b bs ih =>
    intro h
    simp only [position, h b (by simp), Bool.false_eq_true, if_false, ih (fun x hx => h x (by simp [hx])), Option.map_none]

theorem position_append (p : UInt8 → Bool) : ∀ (a : Bytes) (c : UInt8) (rest : Bytes), (∀ b ∈ a, p b = false) → p c = true →
    position p (a ++ c :: rest) = some a.length := by
  intro a
  induction a with
  | nil => intro c rest _ hc; simp [position, hc]
  | cons x a ih =>
    intro c rest h hc
    simp only [List.cons_append, position, h x (by simp), Bool.false_eq_true, if_false,
      ih c rest (fun b hb => h b (by simp [hb])) hc, Option.map_some, List.length_cons]

/-- the percent-encoder's alphabet is harmless for the cookie value syntax: no `;`, no quote, no forbidden byte -/
theorem encoded_value_clean (v : Bytes) : ∀ b ∈ Percent.encode v, badValueByte b = false ∧ b ≠ SEMI ∧ b ≠ DQ := by
  intro b hb
  rcases Percent.encode_alphabet v b hb with h | h
  · have : ∀ x : UInt8, Percent.isAlnum x = true → badValueByte x = false ∧ x ≠ SEMI ∧ x ≠ DQ :=
      u8_cases _ (by decide +kernel)
    exact this b h
  · subst h; decide

theorem stripQuotes_clean (bs : Bytes) (h : ∀ b ∈ bs, b ≠ DQ) : stripQuotes bs = bs := by
  unfold stripQuotes
  split
  · rename_i hc
    simp only [Bool.and_eq_true, beq_iff_eq] at hc
    obtain ⟨⟨_, hh⟩, _⟩ := hc
    cases bs with
    | nil => rfl
    | cons x t => simp at hh; exact absurd hh (h x (by simp))
  · rfl

/-- **A percent-encoded value survives the trip**: for every text value `v` (arbitrary Unicode), a cookie written as
`Percent.encode v` — alone at the end of the header or followed by `; more` — is read back as exactly `v`, and the rest
of the header is left for the next cookie. -/
theorem value_roundtrip_pct (v rest : Bytes) (hv : Http.validUtf8 v = true) (hr : rest = [] ∨ rest.head? = some SEMI) :
    ∃ borrowed, nextValue (Percent.encode v ++ rest) = (some (v, borrowed), rest) := by
  have hclean := encoded_value_clean v
  have hsq : stripQuotes (Percent.encode v) = Percent.encode v := stripQuotes_clean _ (fun b hb => (hclean b hb).2.2)
  have hany : (Percent.encode v).any badValueByte = false := by
    rw [List.any_eq_false]; intro b hb; simp [(hclean b hb).1]
  have hvv : validValue (Percent.encode v) = some (v, v == Percent.encode v) := by
    unfold validValue
    simp only [hsq, hany, Bool.false_eq_true, if_false, Percent.decode_encode, hv, if_true]
  rcases hr with rfl | hh
  · refine ⟨v == Percent.encode v, ?_⟩
    unfold nextValue
    rw [List.append_nil, position_none_of_all _ _ (fun b hb => by simpa using (hclean b hb).2.1)]
    simp only [hvv]
  · cases rest with
    | nil => simp at hh
    | cons c t =>
      simp only [List.head?_cons, Option.some.injEq] at hh
      subst hh
      refine ⟨v == Percent.encode v, ?_⟩
      unfold nextValue
      rw [position_append _ _ SEMI t (fun b hb => by simpa using (hclean b hb).2.1) (by decide)]
      simp only [List.take_left', List.drop_left', hvv]

/-- a token name followed by `=` is read as that name, leaving `=` and the value -/
theorem name_roundtrip (name rest : Bytes) (hne : name ≠ []) (hn : ∀ b ∈ name, badNameByte b = false) :
    nextName (name ++ EQ :: rest) = some (name, EQ :: rest) := by
  have hp : ∀ b ∈ name, (b == EQ || b == SEMI) = false := by
    intro b hb
    have : ∀ x : UInt8, badNameByte x = false → (x == EQ || x == SEMI) = false := u8_cases _ (by decide +kernel)
    exact this b (hn b hb)
  unfold nextName
  rw [position_append _ name EQ rest hp (by decide)]
  cases hl : name.length with
  | zero => exact absurd (List.eq_nil_of_length_eq_zero hl) hne
  | succ n =>
    have hany : (name.any badNameByte) = false := by rw [List.any_eq_false]; intro b hb; simp [hn b hb]
    have hget : (name ++ EQ :: rest)[n + 1]? = some EQ := by rw [← hl]; simp
    have htake : (name ++ EQ :: rest).take (n + 1) = name := by rw [← hl]; simp
    have hdrop : (name ++ EQ :: rest).drop (n + 1) = EQ :: rest := by rw [← hl]; simp
    simp only [htake, hany, Bool.false_eq_true, if_false, hget, beq_self_eq_true, if_true, hdrop]

/-- **The built `Set-Cookie` line starts with the cookie pair** `name=percent-encoded value`, whose value part contains
only RFC 6265 cookie-octets (alphanumerics and `%XX`), whatever the value text -/
theorem setcookie_pair (c : SetCookie.Cookie) :
    ∃ tail, SetCookie.build c = c.name ++ [61] ++ Percent.encode c.value ++ tail ∧
      ∀ b ∈ Percent.encode c.value, badValueByte b = false ∧ b ≠ SEMI ∧ b ≠ DQ := by
  refine ⟨SetCookie.opt SetCookie.sExpires c.expires ++ SetCookie.opt SetCookie.sMaxAge (c.maxAge.map Response.dec)
    ++ SetCookie.opt SetCookie.sDomain c.domain ++ SetCookie.opt SetCookie.sPath c.path
    ++ (if c.secure then SetCookie.sSecure else []) ++ (if c.httpOnly then SetCookie.sHttpOnly else [])
    ++ SetCookie.opt SetCookie.sSameSite (c.sameSite.map SetCookie.SameSite.bytes), ?_, encoded_value_clean c.value⟩
  unfold SetCookie.build
  simp only [List.append_assoc]

/-! ### the whole jar -/
end C11
namespace Ohkami.Cookie
open Ohkami Ohkami.Serde Ohkami.Serde.Concrete C11

/-- the `Cookie` header a client sends for a jar of text cookies: `name=percent-encoded value` joined by `; ` -/
def tailEnc : List (Bytes × Bytes) → Bytes
  | [] => []
  | (n, v) :: rest => [SEMI, SP] ++ (n ++ EQ :: (Percent.encode v ++ tailEnc rest))

def encodeJar : List (Bytes × Bytes) → Bytes
  | [] => []
  | (n, v) :: rest => n ++ EQ :: (Percent.encode v ++ tailEnc rest)

theorem tailEnc_head (jar : List (Bytes × Bytes)) : tailEnc jar = [] ∨ (tailEnc jar).head? = some SEMI := by
  cases jar with
  | nil => left; rfl
  | cons p rest => obtain ⟨n, v⟩ := p; right; rfl

/-- a cookie of the jar as the struct decoder must deliver it -/
def asField (nv : Bytes × Bytes) : Bytes × Value := (nv.1, .str nv.2)

structure JarOK (fields : List (Bytes × Ty × Bool)) (jar : List (Bytes × Bytes)) : Prop where
  names_token : ∀ nv ∈ jar, nv.1 ≠ [] ∧ ∀ b ∈ nv.1, badNameByte b = false
  values_utf8 : ∀ nv ∈ jar, Http.validUtf8 nv.2 = true
  declared : ∀ nv ∈ jar, lookupField fields nv.1 = some .string
  distinct : (jar.map (·.1)).Nodup

/-- one cookie `name=value` in front of the rest of the header is read into the `seen` list -/
theorem pairs_step (fields : List (Bytes × Ty × Bool)) (fuel : Nat) (n v : Bytes) (rest : List (Bytes × Bytes)) (seen : List (Bytes × Value))
    (hn : n ≠ [] ∧ ∀ b ∈ n, badNameByte b = false) (hv : Http.validUtf8 v = true) (hd : lookupField fields n = some .string)
    (hs : seen.find? (·.1 = n) = none) (first : Bool) :
    pairs fields (fuel + 1) first ((if first then [] else [SEMI, SP]) ++ (n ++ EQ :: (Percent.encode v ++ tailEnc rest))) seen =
      pairs fields fuel false (tailEnc rest) (seen ++ [(n, .str v)]) := by
  obtain ⟨b0, n', hn0⟩ : ∃ b0 n', n = b0 :: n' := by
    cases n with
    | nil => exact absurd rfl hn.1
    | cons a t => exact ⟨a, t, rfl⟩
  have hname := name_roundtrip n (Percent.encode v ++ tailEnc rest) hn.1 hn.2
  obtain ⟨bw, hval⟩ := value_roundtrip_pct v (tailEnc rest) hv (tailEnc_head rest)
  have hfv : fieldValue 8 .string (Percent.encode v ++ tailEnc rest) = .ok (.str v, tailEnc rest) := by
    simp only [fieldValue, hval]
  conv => lhs; unfold pairs
  cases first with
  | true =>
    simp only [if_true, List.nil_append]
    have hne : (n ++ EQ :: (Percent.encode v ++ tailEnc rest)).isEmpty = false := by rw [hn0]; rfl
    simp only [hne, Bool.false_eq_true, if_false, hname, bne_self_eq_false, hd, hs, Option.isSome_none, hfv]
  | false =>
    simp only [Bool.false_eq_true, if_false]
    have hne : ([SEMI, SP] ++ (n ++ EQ :: (Percent.encode v ++ tailEnc rest))).isEmpty = false := rfl
    simp only [Bool.false_eq_true, if_false, List.cons_append, List.nil_append, beq_self_eq_true, Bool.and_self, if_true, hname,
      bne_self_eq_false, hd, hs, Option.isSome_none, hfv]
    rfl

theorem find_none_append (seen : List (Bytes × Value)) (n m : Bytes) (v : Value) (h : seen.find? (·.1 = m) = none) (hne : n ≠ m) :
    (seen ++ [(n, v)]).find? (·.1 = m) = none := by
  rw [List.find?_append, h]
  simp [hne]

theorem pairs_tail (fields : List (Bytes × Ty × Bool)) : ∀ (jar : List (Bytes × Bytes)) (seen : List (Bytes × Value)) (fuel : Nat),
    JarOK fields jar → (∀ nv ∈ jar, seen.find? (·.1 = nv.1) = none) → jar.length < fuel →
    pairs fields fuel false (tailEnc jar) seen = .ok (seen ++ jar.map asField) := by
  intro jar
  induction jar with
  | nil =>
    intro seen fuel _ _ hf
    cases fuel with
    | zero => simp at hf
    | succ f => simp [pairs, tailEnc]
  | cons p rest ih =>
    intro seen fuel hok hseen hf
    obtain ⟨n, v⟩ := p
    cases fuel with
    | zero => simp at hf
    | succ f =>
      have hn := hok.names_token (n, v) (List.mem_cons_self ..)
      have hv := hok.values_utf8 (n, v) (List.mem_cons_self ..)
      have hd := hok.declared (n, v) (List.mem_cons_self ..)
      have hs := hseen (n, v) (List.mem_cons_self ..)
      have step := pairs_step fields f n v rest seen hn hv hd hs false
      simp only [Bool.false_eq_true, if_false] at step
      have : tailEnc ((n, v) :: rest) = [SEMI, SP] ++ (n ++ EQ :: (Percent.encode v ++ tailEnc rest)) := rfl
      rw [this, step]
      have hnd := hok.distinct
      simp only [List.map_cons, List.nodup_cons] at hnd
      have hok' : JarOK fields rest := ⟨fun x hx => hok.names_token x (List.mem_cons_of_mem _ hx), fun x hx => hok.values_utf8 x (List.mem_cons_of_mem _ hx),
        fun x hx => hok.declared x (List.mem_cons_of_mem _ hx), hnd.2⟩
      have hseen' : ∀ nv ∈ rest, (seen ++ [(n, Value.str v)]).find? (·.1 = nv.1) = none := by
        intro nv hnv
        apply find_none_append _ _ _ _ (hseen nv (List.mem_cons_of_mem _ hnv))
        intro he
        exact hnd.1 (by rw [he]; exact List.mem_map.mpr ⟨nv, hnv, rfl⟩)
      rw [ih (seen ++ [(n, Value.str v)]) f hok' hseen' (by simp at hf; omega)]
      simp [asField]

/-- **The whole jar survives the trip.**  For every jar of text cookies with distinct token names declared as `String` fields and
arbitrary Unicode values, the header a client sends (`name=percent-encoded value` joined by `; `) is read by the struct decoder's
pair loop into exactly those cookies, in order. -/
theorem jar_roundtrip (fields : List (Bytes × Ty × Bool)) (jar : List (Bytes × Bytes)) (hok : JarOK fields jar) :
    pairs fields ((encodeJar jar).length + 2) true (encodeJar jar) [] = .ok (jar.map asField) := by
  cases jar with
  | nil => simp [pairs, encodeJar]
  | cons p rest =>
    obtain ⟨n, v⟩ := p
    have hn := hok.names_token (n, v) (List.mem_cons_self ..)
    have hv := hok.values_utf8 (n, v) (List.mem_cons_self ..)
    have hd := hok.declared (n, v) (List.mem_cons_self ..)
    have step := pairs_step fields ((n ++ EQ :: (Percent.encode v ++ tailEnc rest)).length + 1) n v rest [] hn hv hd rfl true
    simp only [if_true, List.nil_append] at step
    have : encodeJar ((n, v) :: rest) = n ++ EQ :: (Percent.encode v ++ tailEnc rest) := rfl
    rw [this, show (n ++ EQ :: (Percent.encode v ++ tailEnc rest)).length + 2 = ((n ++ EQ :: (Percent.encode v ++ tailEnc rest)).length + 1) + 1 from rfl, step]
    have hnd := hok.distinct
    simp only [List.map_cons, List.nodup_cons] at hnd
    have hok' : JarOK fields rest := ⟨fun x hx => hok.names_token x (List.mem_cons_of_mem _ hx), fun x hx => hok.values_utf8 x (List.mem_cons_of_mem _ hx),
      fun x hx => hok.declared x (List.mem_cons_of_mem _ hx), hnd.2⟩
    have hseen' : ∀ nv ∈ rest, ([(n, Value.str v)] : List (Bytes × Value)).find? (·.1 = nv.1) = none := by
      intro nv hnv
      have hne : n ≠ nv.1 := fun he => hnd.1 (by rw [he]; exact List.mem_map.mpr ⟨nv, hnv, rfl⟩)
      simp [hne]
    -- the header is at least as long as the number of cookies left
    have hlen : rest.length < (n ++ EQ :: (Percent.encode v ++ tailEnc rest)).length + 1 := by
      have : ∀ (l : List (Bytes × Bytes)), l.length ≤ (tailEnc l).length := by
        intro l
        induction l with
        | nil => simp
        | cons q qs ihq => obtain ⟨a, b⟩ := q; simp only [tailEnc, List.length_append, List.length_cons]; omega
      have := this rest
      simp only [List.length_append, List.length_cons]; omega
    rw [pairs_tail fields rest _ _ hok' hseen' hlen]
    simp [asField]


/-- and `serde_cookie::from_str` delivers those cookies in the declared fields (absent `Option` fields as `None`, absent defaulted ones by
their default, a missing required one as an error) -/
theorem fromStr_jar (fields : List (Bytes × Ty × Bool)) (jar : List (Bytes × Bytes)) (hok : JarOK fields jar) :
    fromStr fields (encodeJar jar) = (match fillMissing fields (jar.map asField) with | some fs => .ok fs | none => .err) := by
  unfold fromStr
  rw [jar_roundtrip fields jar hok]
  cases h : fillMissing fields (jar.map asField) <;> simp [h]

-- non-vacuity: a two-cookie jar over a struct { sid: String, lang: String }
private def flds : List (Bytes × Ty × Bool) := [([115, 105, 100], .string, false), ([108, 97, 110, 103], .string, false)]
private def jar2 : List (Bytes × Bytes) := [([108, 97, 110, 103], [0xE6, 0x97, 0xA5]), ([115, 105, 100], [97, 32, 59])]
example : JarOK flds jar2 := ⟨by intro nv h; simp [jar2] at h; rcases h with rfl | rfl <;> decide, by intro nv h; simp [jar2] at h; rcases h with rfl | rfl <;> decide,
  by intro nv h; simp [jar2] at h; rcases h with rfl | rfl <;> rfl, by decide⟩

/-! ### typed cookies: numbers, booleans and `Option` fields beside text

The statement above takes every cookie as a `String` field.  Here the jar holds values of the field types a cookie struct may declare,
each written by the client in the text form of its type (`Enc`): text percent-encoded, integers in decimal, booleans as `true` / `false`,
an `Option` as the text of what it holds. -/

/-- a value text that needs no quoting or escaping reads back as what it decodes to -/
theorem value_roundtrip_raw (enc v rest : Bytes) (hclean : ∀ b ∈ enc, badValueByte b = false ∧ b ≠ SEMI ∧ b ≠ DQ)
    (hdec : Percent.decode enc = v) (hv : Http.validUtf8 v = true) (hr : rest = [] ∨ rest.head? = some SEMI) :
    ∃ borrowed, nextValue (enc ++ rest) = (some (v, borrowed), rest) := by
  have hsq : stripQuotes enc = enc := stripQuotes_clean _ (fun b hb => (hclean b hb).2.2)
  have hany : enc.any badValueByte = false := by
    rw [List.any_eq_false]; intro b hb; simp [(hclean b hb).1]
  have hvv : validValue enc = some (v, v == enc) := by
    unfold validValue
    simp only [hsq, hany, Bool.false_eq_true, if_false, hdec, hv, if_true]
  rcases hr with rfl | hh
  · refine ⟨v == enc, ?_⟩
    unfold nextValue
    rw [List.append_nil, position_none_of_all _ _ (fun b hb => by simpa using (hclean b hb).2.1)]
    simp only [hvv]
  · cases rest with
    | nil => simp at hh
    | cons c t =>
      simp only [List.head?_cons, Option.some.injEq] at hh
      subst hh
      refine ⟨v == enc, ?_⟩
      unfold nextValue
      rw [position_append _ _ SEMI t (fun b hb => by simpa using (hclean b hb).2.1) (by decide)]
      simp only [List.take_left', List.drop_left', hvv]

theorem digit_clean (b : UInt8) (h : IsDigit b) : badValueByte b = false ∧ b ≠ SEMI ∧ b ≠ DQ := by
  have : ∀ x : UInt8, (48 ≤ x && x ≤ 57) = true → badValueByte x = false ∧ x ≠ SEMI ∧ x ≠ DQ := u8_cases _ (by decide +kernel)
  exact this b h.1

/-- a decimal number is a clean, non-empty value text -/
theorem show_clean (z : Int) : showInt z ≠ [] ∧ ∀ b ∈ showInt z, badValueByte b = false ∧ b ≠ SEMI ∧ b ≠ DQ := by
  cases z with
  | ofNat n =>
    obtain ⟨ds, he, hne, hdig, _⟩ := natDigits_spec (n + 1) n [] (by omega)
    simp only [showInt, he, List.append_nil]
    exact ⟨hne, fun b hb => digit_clean b (hdig b hb)⟩
  | negSucc n =>
    obtain ⟨ds, he, _, hdig, _⟩ := natDigits_spec (n + 2) (n + 1) [] (by omega)
    simp only [showInt, he, List.append_nil]
    refine ⟨by simp, fun b hb => ?_⟩
    rcases List.mem_cons.mp hb with rfl | hb'
    · decide
    · exact digit_clean b (hdig b hb')

/-- the text a client sends for a value of a field type -/
inductive Enc : Ty → Value → Bytes → Prop
  | string (v : Bytes) : Http.validUtf8 v = true → Enc .string (.str v) (Percent.encode v)
  | uint (bits : Nat) (z : Int) : 0 ≤ z → z < 2 ^ bits → Enc (.uint bits) (.int z) (showInt z)
  | sint (bits : Nat) (z : Int) : -(2 ^ (bits - 1) : Int) ≤ z → z < 2 ^ (bits - 1) → Enc (.sint bits) (.int z) (showInt z)
  | btrue : Enc .bool (.bool true) Serde.TRUE
  | bfalse : Enc .bool (.bool false) Serde.FALSE
  | some (t : Ty) (v : Value) (enc : Bytes) : Enc t v enc → enc ≠ [] → Enc (.option t) (.some v) enc

def optDepth : Ty → Nat
  | .option t => optDepth t + 1
  | _ => 0

theorem enc_head_not_semi {ty : Ty} {v : Value} {enc : Bytes} (h : Enc ty v enc) : enc.head? ≠ some SEMI := by
  induction h with
  | string v _ =>
    intro hh
    cases he : Percent.encode v with
    | nil => rw [he] at hh; simp at hh
    | cons b t =>
      rw [he] at hh; simp at hh
      exact (encoded_value_clean v b (by rw [he]; simp)).2.1 hh
  | uint bits z _ _ =>
    intro hh
    cases he : showInt z with
    | nil => rw [he] at hh; simp at hh
    | cons b t => rw [he] at hh; simp at hh; exact ((show_clean z).2 b (by rw [he]; simp)).2.1 hh
  | sint bits z _ _ =>
    intro hh
    cases he : showInt z with
    | nil => rw [he] at hh; simp at hh
    | cons b t => rw [he] at hh; simp at hh; exact ((show_clean z).2 b (by rw [he]; simp)).2.1 hh
  | btrue => decide
  | bfalse => decide
  | some t v enc _ _ ih => exact ih

/-- **One typed value survives the trip**: the text of a value of a field type, alone at the end of the header or followed by `; more`, is
read by the field's decoder as exactly that value, and the rest of the header is left for the next cookie -/
theorem field_roundtrip {ty : Ty} {v : Value} {enc : Bytes} (h : Enc ty v enc) :
    ∀ (fuel : Nat) (rest : Bytes), optDepth ty < fuel → (rest = [] ∨ rest.head? = some SEMI) →
      fieldValue fuel ty (enc ++ rest) = .ok (v, rest) := by
  induction h with
  | string v hv =>
    intro fuel rest hf hr
    obtain ⟨f, rfl⟩ : ∃ f, fuel = f + 1 := ⟨fuel - 1, by omega⟩
    obtain ⟨bw, hval⟩ := value_roundtrip_pct v rest hv hr
    simp only [fieldValue, hval]
  | uint bits z h0 h1 =>
    intro fuel rest hf hr
    obtain ⟨f, rfl⟩ : ∃ f, fuel = f + 1 := ⟨fuel - 1, by omega⟩
    obtain ⟨bw, hval⟩ := value_roundtrip_raw (showInt z) (showInt z) rest (show_clean z).2 (show_noPct z) (show_utf8 z) hr
    simp only [fieldValue, hval, parse_show_U bits z h0 h1]
  | sint bits z h0 h1 =>
    intro fuel rest hf hr
    obtain ⟨f, rfl⟩ : ∃ f, fuel = f + 1 := ⟨fuel - 1, by omega⟩
    obtain ⟨bw, hval⟩ := value_roundtrip_raw (showInt z) (showInt z) rest (show_clean z).2 (show_noPct z) (show_utf8 z) hr
    simp only [fieldValue, hval, parse_show_S bits z h0 h1]
  | btrue =>
    intro fuel rest hf hr
    obtain ⟨f, rfl⟩ : ∃ f, fuel = f + 1 := ⟨fuel - 1, by omega⟩
    obtain ⟨bw, hval⟩ := value_roundtrip_raw Serde.TRUE Serde.TRUE rest (by decide) (decode_noPct _ (by decide)) (by decide) hr
    simp only [fieldValue, hval, if_true]
  | bfalse =>
    intro fuel rest hf hr
    obtain ⟨f, rfl⟩ : ∃ f, fuel = f + 1 := ⟨fuel - 1, by omega⟩
    obtain ⟨bw, hval⟩ := value_roundtrip_raw Serde.FALSE Serde.FALSE rest (by decide) (decode_noPct _ (by decide)) (by decide) hr
    have hne : Serde.FALSE ≠ Serde.TRUE := by decide
    simp only [fieldValue, hval, hne, if_false, if_true]
  | some t v enc he hne ih =>
    intro fuel rest hf hr
    obtain ⟨f, rfl⟩ : ∃ f, fuel = f + 1 := ⟨fuel - 1, by omega⟩
    have hf' : optDepth t < f := by simp only [optDepth] at hf; omega
    have hnone : isNone (enc ++ rest) = false := by
      cases henc : enc with
      | nil => exact absurd henc hne
      | cons b tl =>
        have := enc_head_not_semi he
        rw [henc] at this
        simp only [List.head?_cons, ne_eq, Option.some.injEq] at this
        simp [isNone, this]
    simp only [fieldValue, hnone, Bool.false_eq_true, if_false, ih f rest hf' hr]

/-- a typed jar: name, declared type, value, and the text the client sends for it -/
abbrev TJar := List (Bytes × Ty × Value × Bytes)

def tailEncT : TJar → Bytes
  | [] => []
  | (n, _, _, enc) :: rest => [SEMI, SP] ++ (n ++ EQ :: (enc ++ tailEncT rest))

def encodeJarT : TJar → Bytes
  | [] => []
  | (n, _, _, enc) :: rest => n ++ EQ :: (enc ++ tailEncT rest)

theorem tailEncT_head (jar : TJar) : tailEncT jar = [] ∨ (tailEncT jar).head? = some SEMI := by
  cases jar with
  | nil => left; rfl
  | cons p rest => obtain ⟨n, t, v, e⟩ := p; right; rfl

def asFieldT (c : Bytes × Ty × Value × Bytes) : Bytes × Value := (c.1, c.2.2.1)

structure TJarOK (fields : List (Bytes × Ty × Bool)) (jar : TJar) : Prop where
  names_token : ∀ c ∈ jar, c.1 ≠ [] ∧ ∀ b ∈ c.1, badNameByte b = false
  encoded : ∀ c ∈ jar, Enc c.2.1 c.2.2.1 c.2.2.2 ∧ optDepth c.2.1 < 8
  declared : ∀ c ∈ jar, lookupField fields c.1 = some c.2.1
  distinct : (jar.map (·.1)).Nodup

theorem pairs_stepT (fields : List (Bytes × Ty × Bool)) (fuel : Nat) (n : Bytes) (ty : Ty) (v : Value) (enc : Bytes) (rest : TJar)
    (seen : List (Bytes × Value)) (hn : n ≠ [] ∧ ∀ b ∈ n, badNameByte b = false) (he : Enc ty v enc) (hdp : optDepth ty < 8)
    (hd : lookupField fields n = some ty) (hs : seen.find? (·.1 = n) = none) (first : Bool) :
    pairs fields (fuel + 1) first ((if first then [] else [SEMI, SP]) ++ (n ++ EQ :: (enc ++ tailEncT rest))) seen =
      pairs fields fuel false (tailEncT rest) (seen ++ [(n, v)]) := by
  obtain ⟨b0, n', hn0⟩ : ∃ b0 n', n = b0 :: n' := by
    cases n with
    | nil => exact absurd rfl hn.1
    | cons a t => exact ⟨a, t, rfl⟩
  have hname := name_roundtrip n (enc ++ tailEncT rest) hn.1 hn.2
  have hfv : fieldValue 8 ty (enc ++ tailEncT rest) = .ok (v, tailEncT rest) := field_roundtrip he 8 _ hdp (tailEncT_head rest)
  conv => lhs; unfold pairs
  cases first with
  | true =>
    simp only [if_true, List.nil_append]
    have hne : (n ++ EQ :: (enc ++ tailEncT rest)).isEmpty = false := by rw [hn0]; rfl
    simp only [hne, Bool.false_eq_true, if_false, hname, bne_self_eq_false, hd, hs, Option.isSome_none, hfv]
  | false =>
    simp only [Bool.false_eq_true, if_false]
    have hne : ([SEMI, SP] ++ (n ++ EQ :: (enc ++ tailEncT rest))).isEmpty = false := rfl
    simp only [Bool.false_eq_true, if_false, List.cons_append, List.nil_append, beq_self_eq_true, Bool.and_self, if_true, hname,
      bne_self_eq_false, hd, hs, Option.isSome_none, hfv]
    rfl

theorem TJarOK.tail {fields : List (Bytes × Ty × Bool)} {c : Bytes × Ty × Value × Bytes} {rest : TJar} (hok : TJarOK fields (c :: rest)) :
    TJarOK fields rest ∧ c.1 ∉ rest.map (·.1) := by
  have hnd := hok.distinct
  simp only [List.map_cons, List.nodup_cons] at hnd
  exact ⟨⟨fun x hx => hok.names_token x (List.mem_cons_of_mem _ hx), fun x hx => hok.encoded x (List.mem_cons_of_mem _ hx),
    fun x hx => hok.declared x (List.mem_cons_of_mem _ hx), hnd.2⟩, hnd.1⟩

theorem pairs_tailT (fields : List (Bytes × Ty × Bool)) : ∀ (jar : TJar) (seen : List (Bytes × Value)) (fuel : Nat),
    TJarOK fields jar → (∀ c ∈ jar, seen.find? (·.1 = c.1) = none) → jar.length < fuel →
    pairs fields fuel false (tailEncT jar) seen = .ok (seen ++ jar.map asFieldT) := by
  intro jar
  induction jar with
  | nil =>
    intro seen fuel _ _ hf
    cases fuel with
    | zero => simp at hf
    | succ f => simp [pairs, tailEncT]
  | cons p rest ih =>
    intro seen fuel hok hseen hf
    obtain ⟨n, ty, v, enc⟩ := p
    cases fuel with
    | zero => simp at hf
    | succ f =>
      have hn := hok.names_token _ (List.mem_cons_self ..)
      have he := hok.encoded _ (List.mem_cons_self ..)
      have hd := hok.declared _ (List.mem_cons_self ..)
      have hs := hseen _ (List.mem_cons_self ..)
      have step := pairs_stepT fields f n ty v enc rest seen hn he.1 he.2 hd hs false
      simp only [Bool.false_eq_true, if_false] at step
      have : tailEncT ((n, ty, v, enc) :: rest) = [SEMI, SP] ++ (n ++ EQ :: (enc ++ tailEncT rest)) := rfl
      rw [this, step]
      obtain ⟨hok', hnot⟩ := hok.tail
      have hseen' : ∀ c ∈ rest, (seen ++ [(n, v)]).find? (·.1 = c.1) = none := by
        intro c hc
        apply find_none_append _ _ _ _ (hseen c (List.mem_cons_of_mem _ hc))
        intro heq
        exact hnot (by rw [heq]; exact List.mem_map.mpr ⟨c, hc, rfl⟩)
      rw [ih (seen ++ [(n, v)]) f hok' hseen' (by simp at hf; omega)]
      simp [asFieldT]

/-- **The whole typed jar survives the trip.**  For every jar of cookies with distinct token names, each declared with a field type (text,
unsigned / signed integers of any width, bool, `Option` of those to any depth the decoder follows) and holding a value of that type written
in the type's text form, the header a client sends is read by the struct decoder's pair loop into exactly those values, in order. -/
theorem typed_jar_roundtrip (fields : List (Bytes × Ty × Bool)) (jar : TJar) (hok : TJarOK fields jar) :
    pairs fields ((encodeJarT jar).length + 2) true (encodeJarT jar) [] = .ok (jar.map asFieldT) := by
  cases jar with
  | nil => simp [pairs, encodeJarT]
  | cons p rest =>
    obtain ⟨n, ty, v, enc⟩ := p
    have hn := hok.names_token _ (List.mem_cons_self ..)
    have he := hok.encoded _ (List.mem_cons_self ..)
    have hd := hok.declared _ (List.mem_cons_self ..)
    have step := pairs_stepT fields ((n ++ EQ :: (enc ++ tailEncT rest)).length + 1) n ty v enc rest [] hn he.1 he.2 hd rfl true
    simp only [if_true, List.nil_append] at step
    have : encodeJarT ((n, ty, v, enc) :: rest) = n ++ EQ :: (enc ++ tailEncT rest) := rfl
    rw [this, show (n ++ EQ :: (enc ++ tailEncT rest)).length + 2 = ((n ++ EQ :: (enc ++ tailEncT rest)).length + 1) + 1 from rfl, step]
    obtain ⟨hok', hnot⟩ := hok.tail
    have hseen' : ∀ c ∈ rest, ([(n, v)] : List (Bytes × Value)).find? (·.1 = c.1) = none := by
      intro c hc
      have hne : n ≠ c.1 := fun heq => hnot (by rw [heq]; exact List.mem_map.mpr ⟨c, hc, rfl⟩)
      simp [hne]
    have hlen : rest.length < (n ++ EQ :: (enc ++ tailEncT rest)).length + 1 := by
      have : ∀ (l : TJar), l.length ≤ (tailEncT l).length := by
        intro l
        induction l with
        | nil => simp
        | cons q qs ihq => obtain ⟨a, b, c, d⟩ := q; simp only [tailEncT, List.length_append, List.length_cons]; omega
      have := this rest
      simp only [List.length_append, List.length_cons]; omega
    rw [pairs_tailT fields rest _ _ hok' hseen' hlen]
    simp [asFieldT]

/-- and `serde_cookie::from_str` delivers them in the declared fields -/
theorem fromStr_typed_jar (fields : List (Bytes × Ty × Bool)) (jar : TJar) (hok : TJarOK fields jar) :
    fromStr fields (encodeJarT jar) = (match fillMissing fields (jar.map asFieldT) with | some fs => .ok fs | none => .err) := by
  unfold fromStr
  rw [typed_jar_roundtrip fields jar hok]
  cases h : fillMissing fields (jar.map asFieldT) <;> simp [h]

-- non-vacuity: struct { n: u8, ok: bool, tag: Option<String>, d: i16 } with n=7, ok=true, tag=Some("a;"), d=-3
private def fldsT : List (Bytes × Ty × Bool) := [([110], .uint 8, false), ([111, 107], .bool, false), ([116, 97, 103], .option .string, false), ([100], .sint 16, false)]
private def jarT : TJar := [([110], .uint 8, .int 7, [55]), ([116, 97, 103], .option .string, .some (.str [97, 59]), [97, 37, 51, 66]),
  ([111, 107], .bool, .bool true, Serde.TRUE), ([100], .sint 16, .int (-3), [45, 51])]
example : TJarOK fldsT jarT := by
  refine ⟨?_, ?_, ?_, by decide⟩
  · intro c h; simp [jarT] at h; rcases h with rfl | rfl | rfl | rfl <;> decide
  · intro c h; simp [jarT] at h
    rcases h with rfl | rfl | rfl | rfl
    · exact ⟨Enc.uint 8 7 (by decide) (by decide), by decide⟩
    · exact ⟨Enc.some _ _ _ (Enc.string [97, 59] (by decide)) (by decide), by decide⟩
    · exact ⟨Enc.btrue, by decide⟩
    · exact ⟨Enc.sint 16 (-3) (by decide) (by decide), by decide⟩
  · intro c h; simp [jarT] at h; rcases h with rfl | rfl | rfl | rfl <;> rfl

end Ohkami.Cookie
