import OhkamiModel.M.Cookie
/-! # C11 — property theorems about the cookie models -/
namespace C11
open Ohkami Ohkami.Cookie

theorem u8_cases (P : UInt8 → Prop) (h : ∀ n : Fin 256, P n.val.toUInt8) (b : UInt8) : P b := by
  have := h ⟨b.toNat, b.toNat_lt⟩
  have e : b.toNat.toUInt8 = b := by cases b; simp [Nat.toUInt8, UInt8.toNat]
  simpa [e] using this

theorem position_none_of_all (p : UInt8 → Bool) : ∀ bs : Bytes, (∀ b ∈ bs, p b = false) → position p bs = none := by
  intro bs
  induction bs with
  | nil => intro _; rfl
  | cons b bs ih =>
    intro h
    simp only [position, h b (by simp), Bool.false_eq_true, if_false, ih (fun x hx => h x (by simp [hx])), Option.map_none]

theorem position_append (p : UInt8 → Bool) : ∀ (a : Bytes) (c : UInt8) (rest : Bytes), (∀ b ∈ a, p b = false) → p c = true →
    position p (a ++ c :: rest) = some a.length := by
  intro a
  induction a with
  | nil => intro c rest _ hc; simp [position, hc]
  | cons x a ih =>
    intro c rest h hc
    simp only [List.cons_append, position, h x (by simp), Bool.false_eq_true, if_false,
      ih c rest (fun b hb => h b (by simp [hb])) hc, Option.map_some, List.length_cons]

/-- the percent-encoder's alphabet is harmless for the cookie value syntax: no `;`, no quote, no forbidden byte -/
theorem encoded_value_clean (v : Bytes) : ∀ b ∈ Percent.encode v, badValueByte b = false ∧ b ≠ SEMI ∧ b ≠ DQ := by
  intro b hb
  rcases Percent.encode_alphabet v b hb with h | h
  · have : ∀ x : UInt8, Percent.isAlnum x = true → badValueByte x = false ∧ x ≠ SEMI ∧ x ≠ DQ :=
      u8_cases _ (by decide +kernel)
    exact this b h
  · subst h; decide

theorem stripQuotes_clean (bs : Bytes) (h : ∀ b ∈ bs, b ≠ DQ) : stripQuotes bs = bs := by
  unfold stripQuotes
  split
  · rename_i hc
    simp only [Bool.and_eq_true, beq_iff_eq] at hc
    obtain ⟨⟨_, hh⟩, _⟩ := hc
    cases bs with
    | nil => rfl
    | cons x t => simp at hh; exact absurd hh (h x (by simp))
  · rfl

/-- **A percent-encoded value survives the trip**: for every text value `v` (arbitrary Unicode), a cookie written as
`Percent.encode v` — alone at the end of the header or followed by `; more` — is read back as exactly `v`, and the rest
of the header is left for the next cookie. -/
theorem value_roundtrip_pct (v rest : Bytes) (hv : Http.validUtf8 v = true) (hr : rest = [] ∨ rest.head? = some SEMI) :
    ∃ borrowed, nextValue (Percent.encode v ++ rest) = (some (v, borrowed), rest) := by
  have hclean := encoded_value_clean v
  have hsq : stripQuotes (Percent.encode v) = Percent.encode v := stripQuotes_clean _ (fun b hb => (hclean b hb).2.2)
  have hany : (Percent.encode v).any badValueByte = false := by
    rw [List.any_eq_false]; intro b hb; simp [(hclean b hb).1]
  have hvv : validValue (Percent.encode v) = some (v, v == Percent.encode v) := by
    unfold validValue
    simp only [hsq, hany, Bool.false_eq_true, if_false, Percent.decode_encode, hv, if_true]
  rcases hr with rfl | hh
  · refine ⟨v == Percent.encode v, ?_⟩
    unfold nextValue
    rw [List.append_nil, position_none_of_all _ _ (fun b hb => by simpa using (hclean b hb).2.1)]
    simp only [hvv]
  · cases rest with
    | nil => simp at hh
    | cons c t =>
      simp only [List.head?_cons, Option.some.injEq] at hh
      subst hh
      refine ⟨v == Percent.encode v, ?_⟩
      unfold nextValue
      rw [position_append _ _ SEMI t (fun b hb => by simpa using (hclean b hb).2.1) (by decide)]
      simp only [List.take_left', List.drop_left', hvv]

/-- a token name followed by `=` is read as that name, leaving `=` and the value -/
theorem name_roundtrip (name rest : Bytes) (hne : name ≠ []) (hn : ∀ b ∈ name, badNameByte b = false) :
    nextName (name ++ EQ :: rest) = some (name, EQ :: rest) := by
  have hp : ∀ b ∈ name, (b == EQ || b == SEMI) = false := by
    intro b hb
    have : ∀ x : UInt8, badNameByte x = false → (x == EQ || x == SEMI) = false := u8_cases _ (by decide +kernel)
    exact this b (hn b hb)
  unfold nextName
  rw [position_append _ name EQ rest hp (by decide)]
  cases hl : name.length with
  | zero => exact absurd (List.eq_nil_of_length_eq_zero hl) hne
  | succ n =>
    have hany : (name.any badNameByte) = false := by rw [List.any_eq_false]; intro b hb; simp [hn b hb]
    have hget : (name ++ EQ :: rest)[n + 1]? = some EQ := by rw [← hl]; simp
    have htake : (name ++ EQ :: rest).take (n + 1) = name := by rw [← hl]; simp
    have hdrop : (name ++ EQ :: rest).drop (n + 1) = EQ :: rest := by rw [← hl]; simp
    simp only [htake, hany, Bool.false_eq_true, if_false, hget, beq_self_eq_true, if_true, hdrop]

/-- **The built `Set-Cookie` line starts with the cookie pair** `name=percent-encoded value`, whose value part contains
only RFC 6265 cookie-octets (alphanumerics and `%XX`), whatever the value text -/
theorem setcookie_pair (c : SetCookie.Cookie) :
    ∃ tail, SetCookie.build c = c.name ++ [61] ++ Percent.encode c.value ++ tail ∧
      ∀ b ∈ Percent.encode c.value, badValueByte b = false ∧ b ≠ SEMI ∧ b ≠ DQ := by
  refine ⟨SetCookie.opt SetCookie.sExpires c.expires ++ SetCookie.opt SetCookie.sMaxAge (c.maxAge.map Response.dec)
    ++ SetCookie.opt SetCookie.sDomain c.domain ++ SetCookie.opt SetCookie.sPath c.path
    ++ (if c.secure then SetCookie.sSecure else []) ++ (if c.httpOnly then SetCookie.sHttpOnly else [])
    ++ SetCookie.opt SetCookie.sSameSite (c.sameSite.map SetCookie.SameSite.bytes), ?_, encoded_value_clean c.value⟩
  unfold SetCookie.build
  simp only [List.append_assoc]

/-! ### the whole jar -/
end C11
namespace Ohkami.Cookie
open Ohkami Ohkami.Serde Ohkami.Serde.Concrete C11

/-- the `Cookie` header a client sends for a jar of text cookies: `name=percent-encoded value` joined by `; ` -/
def tailEnc : List (Bytes × Bytes) → Bytes
  | [] => []
  | (n, v) :: rest => [SEMI, SP] ++ (n ++ EQ :: (Percent.encode v ++ tailEnc rest))

def encodeJar : List (Bytes × Bytes) → Bytes
  | [] => []
  | (n, v) :: rest => n ++ EQ :: (Percent.encode v ++ tailEnc rest)

theorem tailEnc_head (jar : List (Bytes × Bytes)) : tailEnc jar = [] ∨ (tailEnc jar).head? = some SEMI := by
  cases jar with
  | nil => left; rfl
  | cons p rest => obtain ⟨n, v⟩ := p; right; rfl

/-- a cookie of the jar as the struct decoder must deliver it -/
def asField (nv : Bytes × Bytes) : Bytes × Value := (nv.1, .str nv.2)

structure JarOK (fields : List (Bytes × Ty × Bool)) (jar : List (Bytes × Bytes)) : Prop where
  names_token : ∀ nv ∈ jar, nv.1 ≠ [] ∧ ∀ b ∈ nv.1, badNameByte b = false
  values_utf8 : ∀ nv ∈ jar, Http.validUtf8 nv.2 = true
  declared : ∀ nv ∈ jar, lookupField fields nv.1 = some .string
  distinct : (jar.map (·.1)).Nodup

/-- one cookie `name=value` in front of the rest of the header is read into the `seen` list -/
theorem pairs_step (fields : List (Bytes × Ty × Bool)) (fuel : Nat) (n v : Bytes) (rest : List (Bytes × Bytes)) (seen : List (Bytes × Value))
    (hn : n ≠ [] ∧ ∀ b ∈ n, badNameByte b = false) (hv : Http.validUtf8 v = true) (hd : lookupField fields n = some .string)
    (hs : seen.find? (·.1 = n) = none) (first : Bool) :
    pairs fields (fuel + 1) first ((if first then [] else [SEMI, SP]) ++ (n ++ EQ :: (Percent.encode v ++ tailEnc rest))) seen =
      pairs fields fuel false (tailEnc rest) (seen ++ [(n, .str v)]) := by
  obtain ⟨b0, n', hn0⟩ : ∃ b0 n', n = b0 :: n' := by
    cases n with
    | nil => exact absurd rfl hn.1
    | cons a t => exact ⟨a, t, rfl⟩
  have hname := name_roundtrip n (Percent.encode v ++ tailEnc rest) hn.1 hn.2
  obtain ⟨bw, hval⟩ := value_roundtrip_pct v (tailEnc rest) hv (tailEnc_head rest)
  have hfv : fieldValue 8 .string (Percent.encode v ++ tailEnc rest) = .ok (.str v, tailEnc rest) := by
    simp only [fieldValue, hval]
  conv => lhs; unfold pairs
  cases first with
  | true =>
    simp only [if_true, List.nil_append]
    have hne : (n ++ EQ :: (Percent.encode v ++ tailEnc rest)).isEmpty = false := by rw [hn0]; rfl
    simp only [hne, Bool.false_eq_true, if_false, hname, bne_self_eq_false, hd, hs, Option.isSome_none, hfv]
  | false =>
    simp only [Bool.false_eq_true, if_false]
    have hne : ([SEMI, SP] ++ (n ++ EQ :: (Percent.encode v ++ tailEnc rest))).isEmpty = false := rfl
    simp only [Bool.false_eq_true, if_false, List.cons_append, List.nil_append, beq_self_eq_true, Bool.and_self, if_true, hname,
      bne_self_eq_false, hd, hs, Option.isSome_none, hfv]
    rfl

theorem find_none_append (seen : List (Bytes × Value)) (n m : Bytes) (v : Value) (h : seen.find? (·.1 = m) = none) (hne : n ≠ m) :
    (seen ++ [(n, v)]).find? (·.1 = m) = none := by
  rw [List.find?_append, h]
  simp [hne]

theorem pairs_tail (fields : List (Bytes × Ty × Bool)) : ∀ (jar : List (Bytes × Bytes)) (seen : List (Bytes × Value)) (fuel : Nat),
    JarOK fields jar → (∀ nv ∈ jar, seen.find? (·.1 = nv.1) = none) → jar.length < fuel →
    pairs fields fuel false (tailEnc jar) seen = .ok (seen ++ jar.map asField) := by
  intro jar
  induction jar with
  | nil =>
    intro seen fuel _ _ hf
    cases fuel with
    | zero => simp at hf
    | succ f => simp [pairs, tailEnc]
  | cons p rest ih =>
    intro seen fuel hok hseen hf
    obtain ⟨n, v⟩ := p
    cases fuel with
    | zero => simp at hf
    | succ f =>
      have hn := hok.names_token (n, v) (List.mem_cons_self ..)
      have hv := hok.values_utf8 (n, v) (List.mem_cons_self ..)
      have hd := hok.declared (n, v) (List.mem_cons_self ..)
      have hs := hseen (n, v) (List.mem_cons_self ..)
      have step := pairs_step fields f n v rest seen hn hv hd hs false
      simp only [Bool.false_eq_true, if_false] at step
      have : tailEnc ((n, v) :: rest) = [SEMI, SP] ++ (n ++ EQ :: (Percent.encode v ++ tailEnc rest)) := rfl
      rw [this, step]
      have hnd := hok.distinct
      simp only [List.map_cons, List.nodup_cons] at hnd
      have hok' : JarOK fields rest := ⟨fun x hx => hok.names_token x (List.mem_cons_of_mem _ hx), fun x hx => hok.values_utf8 x (List.mem_cons_of_mem _ hx),
        fun x hx => hok.declared x (List.mem_cons_of_mem _ hx), hnd.2⟩
      have hseen' : ∀ nv ∈ rest, (seen ++ [(n, Value.str v)]).find? (·.1 = nv.1) = none := by
        intro nv hnv
        apply find_none_append _ _ _ _ (hseen nv (List.mem_cons_of_mem _ hnv))
        intro he
        exact hnd.1 (by rw [he]; exact List.mem_map.mpr ⟨nv, hnv, rfl⟩)
      rw [ih (seen ++ [(n, Value.str v)]) f hok' hseen' (by simp at hf; omega)]
      simp [asField]

/-- **The whole jar survives the trip.**  For every jar of text cookies with distinct token names declared as `String` fields and
arbitrary Unicode values, the header a client sends (`name=percent-encoded value` joined by `; `) is read by the struct decoder's
pair loop into exactly those cookies, in order. -/
theorem jar_roundtrip (fields : List (Bytes × Ty × Bool)) (jar : List (Bytes × Bytes)) (hok : JarOK fields jar) :
    pairs fields ((encodeJar jar).length + 2) true (encodeJar jar) [] = .ok (jar.map asField) := by
  cases jar with
  | nil => simp [pairs, encodeJar]
  | cons p rest =>
    obtain ⟨n, v⟩ := p
    have hn := hok.names_token (n, v) (List.mem_cons_self ..)
    have hv := hok.values_utf8 (n, v) (List.mem_cons_self ..)
    have hd := hok.declared (n, v) (List.mem_cons_self ..)
    have step := pairs_step fields ((n ++ EQ :: (Percent.encode v ++ tailEnc rest)).length + 1) n v rest [] hn hv hd rfl true
    simp only [if_true, List.nil_append] at step
    have : encodeJar ((n, v) :: rest) = n ++ EQ :: (Percent.encode v ++ tailEnc rest) := rfl
    rw [this, show (n ++ EQ :: (Percent.encode v ++ tailEnc rest)).length + 2 = ((n ++ EQ :: (Percent.encode v ++ tailEnc rest)).length + 1) + 1 from rfl, step]
    have hnd := hok.distinct
    simp only [List.map_cons, List.nodup_cons] at hnd
    have hok' : JarOK fields rest := ⟨fun x hx => hok.names_token x (List.mem_cons_of_mem _ hx), fun x hx => hok.values_utf8 x (List.mem_cons_of_mem _ hx),
      fun x hx => hok.declared x (List.mem_cons_of_mem _ hx), hnd.2⟩
    have hseen' : ∀ nv ∈ rest, ([(n, Value.str v)] : List (Bytes × Value)).find? (·.1 = nv.1) = none := by
      intro nv hnv
      have hne : n ≠ nv.1 := fun he => hnd.1 (by rw [he]; exact List.mem_map.mpr ⟨nv, hnv, rfl⟩)
      simp [hne]
    -- the header is at least as long as the number of cookies left
    have hlen : rest.length < (n ++ EQ :: (Percent.encode v ++ tailEnc rest)).length + 1 := by
      have : ∀ (l : List (Bytes × Bytes)), l.length ≤ (tailEnc l).length := by
        intro l
        induction l with
        | nil => simp
        | cons q qs ihq => obtain ⟨a, b⟩ := q; simp only [tailEnc, List.length_append, List.length_cons]; omega
      have := this rest
      simp only [List.length_append, List.length_cons]; omega
    rw [pairs_tail fields rest _ _ hok' hseen' hlen]
    simp [asField]


/-- and `serde_cookie::from_str` delivers those cookies in the declared fields (absent `Option` fields as `None`, absent defaulted ones by
their default, a missing required one as an error) -/
theorem fromStr_jar (fields : List (Bytes × Ty × Bool)) (jar : List (Bytes × Bytes)) (hok : JarOK fields jar) :
    fromStr fields (encodeJar jar) = (match fillMissing fields (jar.map asField) with | some fs => .ok fs | none => .err) := by
  unfold fromStr
  rw [jar_roundtrip fields jar hok]
  cases h : fillMissing fields (jar.map asField) <;> simp [h]

-- non-vacuity: a two-cookie jar over a struct { sid: String, lang: String }
private def flds : List (Bytes × Ty × Bool) := [([115, 105, 100], .string, false), ([108, 97, 110, 103], .string, false)]
private def jar2 : List (Bytes × Bytes) := [([108, 97, 110, 103], [0xE6, 0x97, 0xA5]), ([115, 105, 100], [97, 32, 59])]
example : JarOK flds jar2 := ⟨by intro nv h; simp [jar2] at h; rcases h with rfl | rfl <;> decide, by intro nv h; simp [jar2] at h; rcases h with rfl | rfl <;> decide,
  by intro nv h; simp [jar2] at h; rcases h with rfl | rfl <;> rfl, by decide⟩

end Ohkami.Cookie
