import OhkamiModel.M.Cookie
/-! # C11 — property theorems about the cookie models -/
namespace C11
open Ohkami Ohkami.Cookie

theorem u8_cases (P : UInt8 → Prop) (h : ∀ n : Fin 256, P n.val.toUInt8) (b : UInt8) : P b := by
  have := h ⟨b.toNat, b.toNat_lt⟩
  have e : b.toNat.toUInt8 = b := by cases b; simp [Nat.toUInt8, UInt8.toNat]
  simpa [e] using this

theorem position_none_of_all (p : UInt8 → Bool) : ∀ bs : Bytes, (∀ b ∈ bs, p b = false) → position p bs = none := by
  intro bs
  induction bs with
  | nil => intro _; rfl
  | cons b bs ih =>
    intro h
    simp only [position, h b (by simp), Bool.false_eq_true, if_false, ih (fun x hx => h x (by simp [hx])), Option.map_none]

theorem position_append (p : UInt8 → Bool) : ∀ (a : Bytes) (c : UInt8) (rest : Bytes), (∀ b ∈ a, p b = false) → p c = true →
    position p (a ++ c :: rest) = some a.length := by
  intro a
  induction a with
  | nil => intro c rest _ hc; simp [position, hc]
  | cons x a ih =>
    intro c rest h hc
    simp only [List.cons_append, position, h x (by simp), Bool.false_eq_true, if_false,
      ih c rest (fun b hb => h b (by simp [hb])) hc, Option.map_some, List.length_cons]

/-- the percent-encoder's alphabet is harmless for the cookie value syntax: no `;`, no quote, no forbidden byte -/
theorem encoded_value_clean (v : Bytes) : ∀ b ∈ Percent.encode v, badValueByte b = false ∧ b ≠ SEMI ∧ b ≠ DQ := by
  intro b hb
  rcases Percent.encode_alphabet v b hb with h | h
  · have : ∀ x : UInt8, Percent.isAlnum x = true → badValueByte x = false ∧ x ≠ SEMI ∧ x ≠ DQ :=
      u8_cases _ (by decide +kernel)
    exact this b h
  · subst h; decide

theorem stripQuotes_clean (bs : Bytes) (h : ∀ b ∈ bs, b ≠ DQ) : stripQuotes bs = bs := by
  unfold stripQuotes
  split
  · rename_i hc
    simp only [Bool.and_eq_true, beq_iff_eq] at hc
    obtain ⟨⟨_, hh⟩, _⟩ := hc
    cases bs with
    | nil => rfl
    | cons x t => simp at hh; exact absurd hh (h x (by simp))
  · rfl

/-- **A percent-encoded value survives the trip**: for every text value `v` (arbitrary Unicode), a cookie written as
`Percent.encode v` — alone at the end of the header or followed by `; more` — is read back as exactly `v`, and the rest
of the header is left for the next cookie. -/
theorem value_roundtrip_pct (v rest : Bytes) (hv : Http.validUtf8 v = true) (hr : rest = [] ∨ rest.head? = some SEMI) :
    ∃ borrowed, nextValue (Percent.encode v ++ rest) = (some (v, borrowed), rest) := by
  have hclean := encoded_value_clean v
  have hsq : stripQuotes (Percent.encode v) = Percent.encode v := stripQuotes_clean _ (fun b hb => (hclean b hb).2.2)
  have hany : (Percent.encode v).any badValueByte = false := by
    rw [List.any_eq_false]; intro b hb; simp [(hclean b hb).1]
  have hvv : validValue (Percent.encode v) = some (v, v == Percent.encode v) := by
    unfold validValue
    simp only [hsq, hany, Bool.false_eq_true, if_false, Percent.decode_encode, hv, if_true]
  rcases hr with rfl | hh
  · refine ⟨v == Percent.encode v, ?_⟩
    unfold nextValue
    rw [List.append_nil, position_none_of_all _ _ (fun b hb => by simpa using (hclean b hb).2.1)]
    simp only [hvv]
  · cases rest with
    | nil => simp at hh
    | cons c t =>
      simp only [List.head?_cons, Option.some.injEq] at hh
      subst hh
      refine ⟨v == Percent.encode v, ?_⟩
      unfold nextValue
      rw [position_append _ _ SEMI t (fun b hb => by simpa using (hclean b hb).2.1) (by decide)]
      simp only [List.take_left', List.drop_left', hvv]

/-- a token name followed by `=` is read as that name, leaving `=` and the value -/
theorem name_roundtrip (name rest : Bytes) (hne : name ≠ []) (hn : ∀ b ∈ name, badNameByte b = false) :
    nextName (name ++ EQ :: rest) = some (name, EQ :: rest) := by
  have hp : ∀ b ∈ name, (b == EQ || b == SEMI) = false := by
    intro b hb
    have : ∀ x : UInt8, badNameByte x = false → (x == EQ || x == SEMI) = false := u8_cases _ (by decide +kernel)
    exact this b (hn b hb)
  unfold nextName
  rw [position_append _ name EQ rest hp (by decide)]
  cases hl : name.length with
  | zero => exact absurd (List.eq_nil_of_length_eq_zero hl) hne
  | succ n =>
    have hany : (name.any badNameByte) = false := by rw [List.any_eq_false]; intro b hb; simp [hn b hb]
    have hget : (name ++ EQ :: rest)[n + 1]? = some EQ := by rw [← hl]; simp
    have htake : (name ++ EQ :: rest).take (n + 1) = name := by rw [← hl]; simp
    have hdrop : (name ++ EQ :: rest).drop (n + 1) = EQ :: rest := by rw [← hl]; simp
    simp only [htake, hany, Bool.false_eq_true, if_false, hget, beq_self_eq_true, if_true, hdrop]

/-- **The built `Set-Cookie` line starts with the cookie pair** `name=percent-encoded value`, whose value part contains
only RFC 6265 cookie-octets (alphanumerics and `%XX`), whatever the value text -/
theorem setcookie_pair (c : SetCookie.Cookie) :
    ∃ tail, SetCookie.build c = c.name ++ [61] ++ Percent.encode c.value ++ tail ∧
      ∀ b ∈ Percent.encode c.value, badValueByte b = false ∧ b ≠ SEMI ∧ b ≠ DQ := by
  refine ⟨SetCookie.opt SetCookie.sExpires c.expires ++ SetCookie.opt SetCookie.sMaxAge (c.maxAge.map Response.dec)
    ++ SetCookie.opt SetCookie.sDomain c.domain ++ SetCookie.opt SetCookie.sPath c.path
    ++ (if c.secure then SetCookie.sSecure else []) ++ (if c.httpOnly then SetCookie.sHttpOnly else [])
    ++ SetCookie.opt SetCookie.sSameSite (c.sameSite.map SetCookie.SameSite.bytes), ?_, encoded_value_clean c.value⟩
  unfold SetCookie.build
  simp only [List.append_assoc]

end C11
