import OhkamiModel.Drv.C01
import OhkamiModel.Drv.C02
import OhkamiModel.Drv.C03
import OhkamiModel.Drv.C05
import OhkamiModel.Drv.C07
import OhkamiModel.Drv.C08
import OhkamiModel.Drv.C09
import OhkamiModel.Drv.C10
import OhkamiModel.Drv.C11
import OhkamiModel.Drv.C12
import OhkamiModel.Drv.C13
import OhkamiModel.Drv.C14
import OhkamiModel.Drv.C15
import OhkamiModel.Drv.C16
import OhkamiModel.Drv.C17
import OhkamiModel.Drv.C18
import OhkamiModel.Drv.C19
import OhkamiModel.Drv.C20
/-! The one line-protocol driver: `driver <prop>` reads one JSON case per line on stdin, writes one JSON answer per line. -/
open Lean

partial def loop (h : IO.FS.Stream) (f : Json → Except String Json) : IO Unit := do
  let line ← h.getLine
  if line.isEmpty then return ()
  match Json.parse line with
  | .error e => IO.println (Json.mkObj [("error", e)]).compress
  | .ok c =>
    match f c with
    | .ok j => IO.println j.compress
    | .error e => IO.println (Json.mkObj [("id", c.getObjValD "id"), ("error", e)]).compress   -- the answer names its case: the checker keeps its place
  loop h f

def main (args : List String) : IO UInt32 := do
  let stdin ← IO.getStdin
  match args with
  | ["C01"] | ["C04"] => loop stdin DrvC01.runCase; return 0
  | ["C02"] => loop stdin DrvC02.runCase; return 0
  | ["C03"] => loop stdin DrvC03.runCase; return 0
  | ["C05"] | ["C06"] => loop stdin DrvC05.runCase; return 0
  | ["C07"] => loop stdin DrvC07.runCase; return 0
  | ["C08"] => loop stdin DrvC08.runCase; return 0
  | ["C09"] => loop stdin DrvC09.runCase; return 0
  | ["C10"] => loop stdin DrvC10.runCase; return 0
  | ["C11"] => loop stdin DrvC11.runCase; return 0
  | ["C12"] => loop stdin DrvC12.runCase; return 0
  | ["C13"] => loop stdin DrvC13.runCase; return 0
  | ["C14"] => loop stdin DrvC14.runCase; return 0
  | ["C15"] => loop stdin DrvC15.runCase; return 0
  | ["C16"] => loop stdin DrvC16.runCase; return 0
  | ["C17"] => loop stdin DrvC17.runCase; return 0
  | ["C18"] => loop stdin DrvC18.runCase; return 0
  | ["C19"] => loop stdin DrvC19.runCase; return 0
  | ["C20"] => loop stdin DrvC20.runCase; return 0
  | _ => IO.eprintln "usage: driver <property id>"; return 2
