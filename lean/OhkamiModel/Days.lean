def delta (y : Nat) : Nat := (y + 3) / 4 - (y + 99) / 100 + (y + 399) / 400

theorem delta_succ (y : Nat) : delta y ≤ delta (y+1) ∧ delta (y+1) ≤ delta y + 1 := by
  unfold delta; omega

theorem delta_bound (y : Nat) (h : y ≤ 400) : delta y ≤ 97 ∧ 4 * delta y ≤ y + 15 := by
  unfold delta; omega

def cycleToYo (c : Nat) : Nat × Nat :=
  let y0 := c / 365
  let o := c % 365 + 1
  let d := delta y0
  if o ≤ d then (y0 - 1, o + 365 - delta (y0 - 1)) else (y0, o - d)

theorem cycleToYo_spec (c : Nat) (hc : c < 146097) :
    (cycleToYo c).1 < 400 ∧ 1 ≤ (cycleToYo c).2
      ∧ (cycleToYo c).2 + delta (cycleToYo c).1 ≤ 365 + delta ((cycleToYo c).1 + 1)
      ∧ c + 1 = 365 * (cycleToYo c).1 + delta (cycleToYo c).1 + (cycleToYo c).2 := by
  have hy0 : c / 365 ≤ 400 := by omega
  have hb := delta_bound (c / 365) hy0
  simp only [cycleToYo]
  split
  next h =>
    have hpos : 1 ≤ c / 365 := by
      rcases Nat.eq_zero_or_pos (c / 365) with h0 | h0
      · rw [h0] at h; simp [delta] at h
      · exact h0
    obtain ⟨y, hy⟩ : ∃ y, c / 365 = y + 1 := ⟨c / 365 - 1, by omega⟩
    have hs := delta_succ y
    have hs2 := delta_succ (y+1)
    have hb2 := delta_bound y (by omega)
    rw [hy] at h hb
    simp only [hy, Nat.add_sub_cancel]
    have hc2 : c = 365 * (y+1) + c % 365 := by have := Nat.div_add_mod c 365; omega
    refine ⟨by omega, by omega, ?_, ?_⟩ <;> omega
  next h =>
    have hs := delta_succ (c / 365)
    have h400 : delta 400 = 97 := by decide
    dsimp only
    refine ⟨?_, by omega, by omega, by omega⟩
    -- c/365 = 400 only if c ≥ 146000; then o = c - 146000 + 1 ≤ 97 = delta 400 contradiction
    rcases Nat.lt_or_ge (c / 365) 400 with hlt | hge
    · exact hlt
    · have : c / 365 = 400 := by omega
      rw [this, h400] at h
      omega
