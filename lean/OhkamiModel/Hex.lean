/-! C20, `Num::hexized` (`num.rs:1-21`): big-endian bytes, two nibbles each, a `match` whose last arm is
    `unreachable_unchecked()`. -/
namespace Ohkami.Num

def beBytes (n : Nat) : List Nat := (List.range 8).reverse.map fun i => n / 256 ^ i % 256     -- `usize::to_be_bytes`, 64-bit
def nibbles (n : Nat) : List Nat := (beBytes n).flatMap fun b => [b >>> 4, b &&& 15]
-- `h + match h { 0..=9 => b'0', 10..=15 => b'a' - 10, _ => unreachable_unchecked() }`
def hexChar (h : Nat) : Nat := if h ≤ 9 then 48 + h else 87 + h
def hexized (n : Nat) : List Nat := (nibbles n).map hexChar

-- spec: sixteen hexadecimal digits, most significant first, lower case
def hx (d : Nat) : Nat := "0123456789abcdef".toList.map Char.toNat |>.getD d 0
def hexSpec (n : Nat) : List Nat := (List.range 16).reverse.map fun i => hx (n / 16 ^ i % 16)

theorem byte_nibbles : ∀ b : Fin 256, (b.val >>> 4 ≤ 15 ∧ hexChar (b.val >>> 4) = hx (b.val / 16)) ∧
    (b.val &&& 15 ≤ 15 ∧ hexChar (b.val &&& 15) = hx (b.val % 16)) := by decide +kernel

/-- the unreachable arm is unreachable -/
theorem hexized_safe (n : Nat) : ∀ h ∈ nibbles n, h ≤ 15 := by
  intro h hh
  simp only [nibbles, beBytes, List.mem_flatMap, List.mem_map] at hh
  obtain ⟨b, ⟨i, _, rfl⟩, hb⟩ := hh
  have hlt : n / 256 ^ i % 256 < 256 := Nat.mod_lt _ (by decide)
  have := byte_nibbles ⟨_, hlt⟩
  simp only [List.mem_cons, List.not_mem_nil, or_false] at hb
  rcases hb with rfl | rfl
  · exact this.1.1
  · exact this.2.1

theorem hexized_exact (n : Nat) : hexized n = hexSpec n := by
  have key : ∀ c : Nat, hexChar ((n / c % 256) >>> 4) = hx (n / c % 256 / 16) ∧ hexChar ((n / c % 256) &&& 15) = hx (n / c % 256 % 16) := by
    intro c
    have hlt : n / c % 256 < 256 := Nat.mod_lt _ (by decide)
    have := byte_nibbles ⟨_, hlt⟩
    exact ⟨this.1.2, this.2.2⟩
  simp only [hexized, nibbles, beBytes, hexSpec, List.range, List.range.loop, List.reverse_cons, List.reverse_nil,
    List.nil_append, List.cons_append, List.map_cons, List.map_nil, List.flatMap_cons, List.flatMap_nil, List.append_nil,
    key]
  simp only [Nat.reducePow]
  have e15 : n / 72057594037927936 % 256 / 16 = n / 1152921504606846976 % 16 := by omega
  have e14 : n / 72057594037927936 % 256 % 16 = n / 72057594037927936 % 16 := by omega
  have e13 : n / 281474976710656 % 256 / 16 = n / 4503599627370496 % 16 := by omega
  have e12 : n / 281474976710656 % 256 % 16 = n / 281474976710656 % 16 := by omega
  have e11 : n / 1099511627776 % 256 / 16 = n / 17592186044416 % 16 := by omega
  have e10 : n / 1099511627776 % 256 % 16 = n / 1099511627776 % 16 := by omega
  have e9 : n / 4294967296 % 256 / 16 = n / 68719476736 % 16 := by omega
  have e8 : n / 4294967296 % 256 % 16 = n / 4294967296 % 16 := by omega
  have e7 : n / 16777216 % 256 / 16 = n / 268435456 % 16 := by omega
  have e6 : n / 16777216 % 256 % 16 = n / 16777216 % 16 := by omega
  have e5 : n / 65536 % 256 / 16 = n / 1048576 % 16 := by omega
  have e4 : n / 65536 % 256 % 16 = n / 65536 % 16 := by omega
  have e3 : n / 256 % 256 / 16 = n / 4096 % 16 := by omega
  have e2 : n / 256 % 256 % 16 = n / 256 % 16 := by omega
  have e1 : n / 1 % 256 / 16 = n / 16 % 16 := by omega
  have e0 : n / 1 % 256 % 16 = n / 1 % 16 := by omega
  simp only [e0, e1, e2, e3, e4, e5, e6, e7, e8, e9, e10, e11, e12, e13, e14, e15]

-- the repository's own test values, through the model
example : (hexized 314).dropWhile (· = 48) = "13a".toList.map Char.toNat := by decide +kernel

end Ohkami.Num
