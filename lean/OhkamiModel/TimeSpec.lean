import OhkamiModel.GenTime
/-! C20: specification of the Gregorian calendar and the model assembled from the generated definitions. -/
namespace Ohkami.Time
open Ohkami.Gen.Time

/-! ## Spec -/
def isLeap (y : Nat) : Bool := y % 4 == 0 && (y % 100 != 0 || y % 400 == 0)
-- leap years in [0, y)  (year 0 = 1 BCE is a leap year of the proleptic calendar)
def leaps (y : Nat) : Nat := (y + 3) / 4 - (y + 99) / 100 + (y + 399) / 400
def daysBeforeYear (y : Nat) : Nat := 365 * y + leaps y
def monthLen (leap : Bool) (m : Nat) : Nat :=
  match m with
  | 1 => 31 | 2 => if leap then 29 else 28 | 3 => 31 | 4 => 30 | 5 => 31 | 6 => 30
  | 7 => 31 | 8 => 31 | 9 => 30 | 10 => 31 | 11 => 30 | 12 => 31 | _ => 0
def daysBeforeMonth (leap : Bool) (m : Nat) : Nat := ((List.range (m - 1)).map fun i => monthLen leap (i + 1)).sum
def ValidDate (y m d : Nat) : Prop := 1 ≤ m ∧ m ≤ 12 ∧ 1 ≤ d ∧ d ≤ monthLen (isLeap y) m
-- 1-based day number counted from 0000-01-01 (= day 1)
def dayNumber (y m d : Nat) : Nat := daysBeforeYear y + daysBeforeMonth (isLeap y) m + d
-- anchor of the two magic constants: 1970-01-01 is day 719163 + 365 + 1 on this scale
example : dayNumber 1970 1 1 = 719163 + 365 + 1 := by decide

/-! ## Model: `UTCDateTime::from_unix_timestamp` followed by the accessors used by `into_imf_fixdate` -/
structure Fields where
  wday : Nat   -- days from Sunday
  day : Nat
  monthIdx : Nat
  year : Nat
  hour : Nat
  min : Nat
  sec : Nat
deriving Repr, DecidableEq

def fields (t : Nat) : Fields :=
  let d := shifted (dateArg (daysOf t))
  let yo := cycleToYo (cycleOf d)
  let date := pack (yearOf (yearDiv400 d) yo.1) (ofNew yo.2 (flagOf yo.1))
  let of_ := unpackOf date
  let mdf := mdfOf of_
  let (h, mi, s) := hms (secsOf t)
  { wday := numDaysFromSunday (weekdayOfMod7 (weekdayArg of_)),
    day := mdfDay mdf, monthIdx := mdfMonth mdf - 1, year := unpackYear date,
    hour := h, min := mi, sec := s }

-- RFC 9110's own example
example : fields 784111777 = ⟨0, 6, 10, 1994, 8, 49, 37⟩ := by decide +kernel

end Ohkami.Time
