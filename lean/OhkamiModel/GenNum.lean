/-! GENERATED from ohkami_lib/src/num.rs -/
namespace Ohkami.Gen
/-- the digit positions `itoa` unrolls, in source order -/
def itoaUnroll : List Nat := [1, 2, 3, 4, 5, 6, 7, 8, 9, 10, 11, 12, 13, 14, 15, 16, 17, 18, 19]
/-- `hexized_bytes`: (lo, hi, offset added) per match arm -/
def hexArms : List (Nat × Nat × Nat) := [(0, 9, 48), (10, 15, 87)]
end Ohkami.Gen
