import Lean.Data.Json
import OhkamiModel.Http
import OhkamiModel.P.Percent
open Lean Ohkami Ohkami.Http

namespace HSlice
def hexDigit (n : Nat) : Char := if n < 10 then Char.ofNat (48 + n) else Char.ofNat (87 + n)
def toHex (bs : Bytes) : String := String.ofList (bs.flatMap fun b => [hexDigit (b.toNat / 16), hexDigit (b.toNat % 16)])
def unhex1 (c : Char) : Nat := if c.isDigit then c.toNat - 48 else c.toNat - 87
def fromHex (s : String) : Bytes :=
  let rec go : List Char → Bytes
    | a :: b :: rest => (unhex1 a * 16 + unhex1 b).toUInt8 :: go rest
    | _ => []
  go s.toList

def splitOn (sep : UInt8) : Bytes → List Bytes
  | [] => [[]]
  | b :: bs =>
    match splitOn sep bs with
    | [] => [[]]
    | l :: ls => if b = sep then [] :: l :: ls else (b :: l) :: ls

-- QueryParams::iter (pairs without `=` or with an empty key are skipped); none = a decoded part is not UTF-8 (lossy decoding not modelled)
def queryPairs (q : Bytes) : Option (List (Bytes × Bytes)) :=
  if q.isEmpty then some [] else
  (splitOn 38 q).foldr (fun kv acc =>
    match acc with
    | none => none
    | some l =>
      match kv.idxOf? 61 with
      | none => some l
      | some 0 => some l
      | some n =>
        let k := Percent.decode (kv.take n); let v := Percent.decode (kv.drop (n + 1))
        if validUtf8 k && validUtf8 v then some ((k, v) :: l) else none) (some [])

-- Headers::get : custom first (byte-exact), then a standard header by its canonical or lower-case spelling
def getHeader (p : Parsed) (name : Bytes) : Option Bytes :=
  match p.custom.find? (·.1 = name) with
  | some nv => some nv.2
  | none =>
    let i := ((List.zip Gen.reqHeaderCanon Gen.reqHeaderLower).findIdx? fun t => t.1 == name || t.2 == name)
    match i with
    | some k => (p.std.find? (·.1 = k)).map (·.2)
    | none => none

def optHex : Option Bytes → Json | some b => toHex b | none => Json.null

def runCase (j : Json) : Except String Json := do
  let c ← j.getObjVal? "case"
  let first := fromHex (← (← c.getObjVal? "first").getStr?)
  let more := fromHex (← (← c.getObjVal? "more").getStr?)
  let names ← (← c.getObjVal? "names").getArr?
  let out : Json ← match parse first more with
    | .close => pure (Json.mkObj [("outcome", "close")])
    | .reject s => pure (Json.mkObj [("outcome", "reject"), ("status", s)])
    | .panic s => pure (Json.mkObj [("outcome", "panic"), ("site", s)])
    | .ok p =>
      match queryPairs (p.query.getD []) with
      | none => pure (Json.mkObj [("outcome", "unmodelled")])
      | some qs =>
        let gets ← names.toList.mapM fun n => do
          let nm := fromHex (← n.getStr?)
          pure (Json.arr #[toHex nm, optHex (getHeader p nm)])
        pure (Json.mkObj [("outcome", "ok"), ("method", p.method), ("path", toHex (if p.path.isEmpty then [47] else p.path)),
          ("query", Json.arr (qs.map fun kv => Json.arr #[toHex kv.1, toHex kv.2]).toArray),
          ("get", Json.arr gets.toArray), ("payload", optHex p.payload)])
  return Json.mkObj [("id", j.getObjValD "id"), ("model", out)]
end HSlice

partial def loop (h : IO.FS.Stream) : IO Unit := do
  let line ← h.getLine
  if line.isEmpty then return ()
  match Json.parse line >>= HSlice.runCase with
  | .ok j => IO.println j.compress
  | .error e => IO.println (Json.mkObj [("error", e)]).compress
  loop h

def main : IO Unit := do loop (← IO.getStdin)
