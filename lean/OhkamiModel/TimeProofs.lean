import OhkamiModel.TimeTables
namespace Ohkami.Time
open Ohkami.Gen.Time

theorem leaps_succ (y : Nat) : leaps (y + 1) = leaps y + (if isLeap y then 1 else 0) := by
  unfold leaps isLeap
  by_cases h4 : y % 4 = 0 <;> by_cases h100 : y % 100 = 0 <;> by_cases h400 : y % 400 = 0 <;>
    simp [h4, h100, h400] <;> omega

theorem leaps_bound (y : Nat) (h : y ≤ 400) : leaps y ≤ 97 ∧ 4 * leaps y ≤ y + 15 := by
  unfold leaps; omega

theorem leaps_400 (yd ym : Nat) : leaps (400 * yd + ym) = 97 * yd + leaps ym := by
  unfold leaps; omega

theorem isLeap_400 (yd ym : Nat) : isLeap (400 * yd + ym) = isLeap ym := by
  unfold isLeap
  have h4 : (400 * yd + ym) % 4 = ym % 4 := by omega
  have h100 : (400 * yd + ym) % 100 = ym % 100 := by omega
  have h400 : (400 * yd + ym) % 400 = ym % 400 := by omega
  rw [h4, h100, h400]

/-- chrono's `cycle_to_yo` with the generated table -/
theorem cycleToYo_spec (c : Nat) (hc : c < 146097) :
    (cycleToYo c).1 < 400 ∧ 1 ≤ (cycleToYo c).2
      ∧ (cycleToYo c).2 ≤ 365 + (if isLeap (cycleToYo c).1 then 1 else 0)
      ∧ c + 1 = 365 * (cycleToYo c).1 + leaps (cycleToYo c).1 + (cycleToYo c).2 := by
  have hy0 : c / 365 ≤ 400 := by omega
  have hb := leaps_bound (c / 365) hy0
  have e1 := yearDeltas_eq (c / 365) hy0
  have e2 := yearDeltas_eq (c / 365 - 1) (by omega)
  simp only [cycleToYo, ym0, ord0, ordBase, e1, e2]
  clear e1 e2
  split
  next h =>
    have hpos : 1 ≤ c / 365 := by
      rcases Nat.eq_zero_or_pos (c / 365) with h0 | h0
      · rw [h0] at h; simp [leaps] at h
      · exact h0
    obtain ⟨y, hy⟩ : ∃ y, c / 365 = y + 1 := ⟨c / 365 - 1, by omega⟩
    have hs := leaps_succ y
    have hb2 := leaps_bound y (by omega)
    rw [hy] at h hb
    simp only [hy, Nat.add_sub_cancel]
    have hc2 : c = 365 * (y + 1) + c % 365 := by have := Nat.div_add_mod c 365; omega
    refine ⟨by omega, by omega, ?_, ?_⟩
    · by_cases hl : isLeap y = true
      · simp only [hl, if_true] at hs ⊢; omega
      · simp only [hl, if_false] at hs ⊢; omega
    · omega
  next h =>
    have hs := leaps_succ (c / 365)
    have h400 : leaps 400 = 97 := by decide
    have hc2 := Nat.div_add_mod c 365
    dsimp only
    refine ⟨?_, by omega, ?_, by omega⟩
    · rcases Nat.lt_or_ge (c / 365) 400 with hlt | hge
      · exact hlt
      · have : c / 365 = 400 := by omega
        rw [this, h400] at h
        omega
    · -- ordinal ≤ 365 + leap: the next year's start is after `c`
      have hy1 : c / 365 + 1 ≤ 400 ∨ c / 365 = 400 := by omega
      rcases hy1 with hy1 | hy1
      · have hb1 := leaps_bound (c / 365 + 1) hy1
        by_cases hl : isLeap (c / 365) = true
        · simp only [hl, if_true] at hs ⊢; omega
        · simp only [hl, if_false] at hs ⊢; omega
      · rw [hy1, h400] at h; omega

end Ohkami.Time
