import OhkamiModel.HttpProofs
/-! C02, soundness direction: inversion lemmas — what the bytes of an accepted first read look like (helper lemmas; the property theorem is in Proofs/C02.lean) -/
namespace Ohkami.Http
open Ohkami.P

theorem readWhile_spec (p : UInt8 → Bool) (bs : Bytes) :
    bs = (readWhile p bs).1 ++ (readWhile p bs).2 ∧ (∀ b ∈ (readWhile p bs).1, p b = true) ∧
    ((readWhile p bs).2 = [] ∨ ∃ c r, (readWhile p bs).2 = c :: r ∧ p c = false) := by
  induction bs with
  | nil => simp [readWhile]
  | cons b bs ih =>
    by_cases hb : p b = true
    · simp only [readWhile, hb, if_true]
      obtain ⟨h1, h2, h3⟩ := ih
      refine ⟨by simp [← h1], ?_, h3⟩
      intro x hx
      rcases List.mem_cons.mp hx with rfl | hx
      · exact hb
      · exact h2 x hx
    · have hb' : p b = false := by simpa using hb
      simp only [readWhile, hb', Bool.false_eq_true, if_false]
      exact ⟨by simp, by simp, Or.inr ⟨b, bs, rfl, hb'⟩⟩

theorem consume_some (tok bs rest : Bytes) (h : consume tok bs = some rest) : bs = tok ++ rest := by
  unfold consume at h
  split at h
  · rename_i hp
    simp only [Option.some.injEq] at h
    subst h
    exact (List.prefix_iff_eq_append.mp (List.isPrefixOf_iff_prefix.mp hp)).symm
  · cases h

/-- what a header line accepted by the loop looks like -/
def LineOK (kv : Bytes × Bytes) : Prop :=
  (∀ b ∈ kv.1, b ≠ COLON) ∧ (∀ b ∈ kv.2, b ≠ CR) ∧ validUtf8 kv.1 = true ∧ validUtf8 kv.2 = true ∧ consume [CR, LF] (kv.1 ++ [COLON]) = none ∧
  isName kv.1 = true ∧         -- the name is a token: not empty, no separator, no control byte (so no line end inside it)
  isValue kv.2 = true          -- the value holds no control byte but HTAB (no NUL, no bare LF)

theorem headers_sound : ∀ (fuel : Nat) (bs : Bytes) (std : List (Nat × Bytes)) (cus : List (Bytes × Bytes)) (std' : List (Nat × Bytes)) (cus' : List (Bytes × Bytes)) (rest : Bytes),
    headers fuel bs std cus = .ok (std', cus', rest) →
    ∃ hs : List (Bytes × Bytes), bs = encodeHeaders hs ++ [CR, LF] ++ rest ∧ (∀ kv ∈ hs, LineOK kv) ∧ (std', cus') = hs.foldl stepH (std, cus) := by
  intro fuel
  induction fuel with
  | zero => intro bs std cus std' cus' rest h; simp [headers] at h
  | succ f ih =>
    intro bs std cus std' cus' rest h
    unfold headers at h
    cases hc : consume [CR, LF] bs with
    | some r =>
      simp only [hc, Outcome.ok.injEq, Prod.mk.injEq] at h
      obtain ⟨rfl, rfl, rfl⟩ := h
      exact ⟨[], by simpa [encodeHeaders] using consume_some _ _ _ hc, by simp, rfl⟩
    | none =>
      simp only [hc] at h
      obtain ⟨hk1, hk2, hk3⟩ := readWhile_spec (· != COLON) bs
      generalize hrw : readWhile (· != COLON) bs = kr at h hk1 hk2 hk3
      obtain ⟨k, r1⟩ := kr
      simp only at h hk1 hk2 hk3
      cases hc1 : consume [COLON, SP] r1 with
      | none => simp [hc1] at h
      | some r2 =>
        simp only [hc1] at h
        obtain ⟨hv1, hv2, hv3⟩ := readWhile_spec (· != CR) r2
        generalize hrw2 : readWhile (· != CR) r2 = vr at h hv1 hv2 hv3
        obtain ⟨v, r3⟩ := vr
        simp only at h hv1 hv2 hv3
        by_cases hu : (isName k && isValue v && validUtf8 k && validUtf8 v) = true
        · simp only [hu, Bool.not_true, Bool.false_eq_true, if_false] at h
          cases hc2 : consume [CR, LF] r3 with
          | none => simp [hc2] at h
          | some r4 =>
            simp only [hc2] at h
            have e1 := consume_some _ _ _ hc1
            have e2 := consume_some _ _ _ hc2
            have hbs : bs = (k ++ [COLON, SP] ++ v ++ [CR, LF]) ++ r4 := by
              rw [hk1, e1, hv1, e2]; simp
            have hline : LineOK (k, v) := by
              refine ⟨fun b hb => by simpa using hk2 b hb, fun b hb => by simpa using hv2 b hb, ?_, ?_, ?_, ?_, ?_⟩
              · simp only [Bool.and_eq_true] at hu; exact hu.1.2
              · simp only [Bool.and_eq_true] at hu; exact hu.2
              rotate_left
              · simp only [Bool.and_eq_true] at hu; exact hu.1.1.1
              · simp only [Bool.and_eq_true] at hu; exact hu.1.1.2
              · -- the line does not start with CRLF, since `bs` did not
                have : consume [CR, LF] bs = none := hc
                rw [hbs] at this
                unfold consume at this ⊢
                split at this
                · cases this
                · rename_i hnp
                  split
                  · rename_i hp
                    exfalso; apply hnp
                    have hp' := List.isPrefixOf_iff_prefix.mp hp
                    apply List.isPrefixOf_iff_prefix.mpr
                    obtain ⟨t, ht⟩ := hp'
                    refine ⟨t ++ [SP] ++ v ++ [CR, LF] ++ r4, ?_⟩
                    have e : k ++ [COLON, SP] ++ v ++ [CR, LF] ++ r4 = (k ++ [COLON]) ++ ([SP] ++ v ++ [CR, LF] ++ r4) := by simp
                    rw [e]
                    simp only at ht
                    rw [← ht]; simp
                  · rfl
            cases hsi : stdIndex k with
            | some i =>
              simp only [hsi] at h
              obtain ⟨hs, hb, hl, hf⟩ := ih r4 (appendStd std i v) cus std' cus' rest h
              refine ⟨(k, v) :: hs, ?_, ?_, ?_⟩
              · rw [hbs, hb]; simp [encodeHeaders]
              · intro kv hkv; rcases List.mem_cons.mp hkv with rfl | hkv; exact hline; exact hl kv hkv
              · simp only [List.foldl_cons, stepH, hsi]; exact hf
            | none =>
              simp only [hsi] at h
              obtain ⟨hs, hb, hl, hf⟩ := ih r4 std (appendCustom cus k v) std' cus' rest h
              refine ⟨(k, v) :: hs, ?_, ?_, ?_⟩
              · rw [hbs, hb]; simp [encodeHeaders]
              · intro kv hkv; rcases List.mem_cons.mp hkv with rfl | hkv; exact hline; exact hl kv hkv
              · simp only [List.foldl_cons, stepH, hsi]; exact hf
        · have hu' : (isName k && isValue v && validUtf8 k && validUtf8 v) = false := by simpa using hu
          simp [hu'] at h

end Ohkami.Http

namespace Ohkami.Http
open Ohkami.P

/-- how the payload relates to the announced length and to the bytes after the head (`remaining` of the first read, then `more`) -/
def PayloadOK (std : List (Nat × Bytes)) (remaining more : Bytes) (payload : Option Bytes) : Prop :=
  match std.find? (·.1 = Gen.contentLengthIndex) with
  | none => payload = none
  | some (_, v) =>
    v.isEmpty = false ∧ v.all isDigit = true ∧ decimal v < PAYLOAD_LIMIT ∧
    (decimal v = 0 → payload = none) ∧
    (decimal v ≠ 0 → payload = some ((remaining ++ more).take (decimal v)) ∧ decimal v ≤ (remaining ++ more).length)

theorem finish_sound (method : String) (np : Bytes) (q : Option Bytes) (r6 more : Bytes) (p : Parsed)
    (h : finish method np q r6 more = .ok p) :
    ∃ (hs : List (Bytes × Bytes)) (remaining : Bytes), r6 = encodeHeaders hs ++ [CR, LF] ++ remaining ∧ (∀ kv ∈ hs, LineOK kv) ∧
      p.method = method ∧ p.path = np ∧ p.query = q ∧ (p.std, p.custom) = foldHeaders hs ∧ PayloadOK p.std remaining more p.payload := by
  unfold finish at h
  cases hh : headers (r6.length + 1) r6 [] [] with
  | reject s => simp [hh] at h
  | close => simp [hh] at h
  | panic s => simp [hh] at h
  | ok t =>
    obtain ⟨std, cus, remaining⟩ := t
    obtain ⟨hs, hb, hl, hf⟩ := headers_sound _ _ _ _ _ _ _ hh
    simp only [hh] at h
    refine ⟨hs, remaining, hb, hl, ?_⟩
    have hfold : (std, cus) = foldHeaders hs := hf
    cases hcl : std.find? (·.1 = Gen.contentLengthIndex) with
    | none =>
      simp only [hcl, Outcome.ok.injEq] at h
      subst h
      exact ⟨rfl, rfl, rfl, hfold, by simp [PayloadOK, hcl]⟩
    | some kv =>
      obtain ⟨i, v⟩ := kv
      simp only [hcl] at h
      by_cases hbad : (v.isEmpty || !v.all isDigit) = true
      · simp [hbad] at h
      · have hbad' : (v.isEmpty || !v.all isDigit) = false := by simpa using hbad
        simp only [hbad', Bool.false_eq_true, if_false] at h
        simp only [Bool.or_eq_false_iff, Bool.not_eq_false'] at hbad'
        by_cases hbig : decimal v > USIZE_MAX
        · -- the clamped length is ≥ the payload limit: refused
          simp only [hbig, if_true] at h
          have h1 : ¬ (USIZE_MAX = 0) := by unfold USIZE_MAX; omega
          have h2 : USIZE_MAX ≥ PAYLOAD_LIMIT := by unfold USIZE_MAX PAYLOAD_LIMIT; omega
          simp [h1, h2] at h
        · simp only [hbig, if_false] at h
          by_cases h0 : decimal v = 0
          · simp only [h0, if_true, Outcome.ok.injEq] at h
            subst h
            exact ⟨rfl, rfl, rfl, hfold, by simp [PayloadOK, hcl, hbad'.1, hbad'.2, h0, PAYLOAD_LIMIT]⟩
          · simp only [h0, if_false] at h
            by_cases hlim : decimal v ≥ PAYLOAD_LIMIT
            · simp [hlim] at h
            · simp only [hlim, if_false] at h
              have hlt : decimal v < PAYLOAD_LIMIT := by omega
              by_cases hr0 : remaining.length = 0
              · have hrn : remaining = [] := List.length_eq_zero_iff.mp hr0
                simp only [hr0, if_true] at h
                by_cases hm : more.length ≥ decimal v
                · simp only [hm, if_true, Outcome.ok.injEq] at h
                  subst h
                  exact ⟨rfl, rfl, rfl, hfold, by simp [PayloadOK, hcl, hbad'.1, hbad'.2, h0, hlt, hrn]; exact hm⟩
                · simp [hm] at h
              · simp only [hr0, if_false] at h
                by_cases hle : decimal v ≤ remaining.length
                · simp only [hle, if_true, Outcome.ok.injEq] at h
                  subst h
                  refine ⟨rfl, rfl, rfl, hfold, ?_⟩
                  simp only [PayloadOK, hcl, hbad'.1, hbad'.2, hlt, true_and]
                  refine ⟨fun hz => absurd hz h0, fun _ => ⟨?_, by simp; omega⟩⟩
                  rw [List.take_append_of_le_length hle]
                · simp only [hle, if_false] at h
                  by_cases hm : more.length ≥ decimal v - remaining.length
                  · simp only [hm, if_true, Outcome.ok.injEq] at h
                    subst h
                    refine ⟨rfl, rfl, rfl, hfold, ?_⟩
                    simp only [PayloadOK, hcl, hbad'.1, hbad'.2, hlt, true_and]
                    refine ⟨fun hz => absurd hz h0, fun _ => ⟨?_, by simp; omega⟩⟩
                    rw [List.take_append]
                    have : List.take (decimal v) remaining = remaining := List.take_of_length_le (by omega)
                    rw [this]
                  · simp [hm] at h

end Ohkami.Http

namespace Ohkami.Http
open Ohkami.P

/-- the query part of a request target -/
def queryBytes : Option Bytes → Bytes
  | some q => QM :: q
  | none => []

/-- **Soundness.**  Whatever first read the parser accepts has the shape of a request —
`method SP path [? query] SP HTTP/1.1 CRLF (name ": " value CRLF)* CRLF remaining` with a known method, an origin-form UTF-8 path —
and the request object is exactly what that shape denotes: the method, the path (one trailing `/` stripped), the query, the header
lines folded in order into the two maps, and as payload the first Content-Length bytes of what follows the head. -/
theorem parse_sound' (first more : Bytes) (p : Parsed) (h : parse first more = .ok p) :
    ∃ (m path : Bytes) (query : Option Bytes) (hs : List (Bytes × Bytes)) (remaining : Bytes),
      first = m ++ SP :: (path ++ queryBytes query ++ SP :: (HTTP11 ++ (encodeHeaders hs ++ [CR, LF] ++ remaining))) ∧
      methodOf m = some p.method ∧ (∀ b ∈ m, b ≠ SP) ∧
      path.head? = some SLASH ∧ (∀ b ∈ path, b ≠ SP ∧ b ≠ QM) ∧ validUtf8 path = true ∧
      p.path = (if path.getLast? == some SLASH then path.dropLast else path) ∧
      p.query = query ∧ (∀ q, query = some q → ∀ b ∈ q, b ≠ SP) ∧
      (∀ kv ∈ hs, LineOK kv) ∧ (p.std, p.custom) = foldHeaders hs ∧ PayloadOK p.std remaining more p.payload := by
  unfold parse at h
  obtain ⟨hm1, hm2, hm3⟩ := readWhile_spec (· != SP) first
  generalize hrw : readWhile (· != SP) first = mr at h hm1 hm2 hm3
  obtain ⟨m, r0⟩ := mr
  simp only at h hm1 hm2 hm3
  cases hmo : methodOf m with
  | none => simp [hmo] at h
  | some method =>
    simp only [hmo] at h
    cases r0 with
    | nil => simp at h
    | cons b r1 =>
      simp only at h
      by_cases hb : (b != SP) = true
      · simp [hb] at h
      · have hb' : b = SP := by simpa using hb
        subst hb'
        simp only [bne_self_eq_false, Bool.false_eq_true, if_false] at h
        obtain ⟨hp1, hp2, hp3⟩ := readWhile_spec (fun b => b != SP && b != QM) r1
        generalize hrw2 : readWhile (fun b => b != SP && b != QM) r1 = pr at h hp1 hp2 hp3
        obtain ⟨path, r2⟩ := pr
        simp only at h hp1 hp2 hp3
        by_cases hsl : (path.head? != some SLASH) = true
        · simp [hsl] at h
        · have hsl' : path.head? = some SLASH := by simpa using hsl
          simp only [hsl', bne_self_eq_false, Bool.false_eq_true, if_false] at h
          by_cases hu : validUtf8 path = true
          · simp only [hu, Bool.not_true, Bool.false_eq_true, if_false] at h
            have hpathc : ∀ b ∈ path, b ≠ SP ∧ b ≠ QM := by
              intro b hb; have := hp2 b hb; simpa using this
            have hmsp : ∀ b ∈ m, b ≠ SP := by intro b hb; simpa using hm2 b hb
            cases r2 with
            | nil => simp at h
            | cons c r3 =>
              simp only at h
              by_cases hcs : (c == SP) = true
              · have : c = SP := by simpa using hcs
                subst this
                simp only [beq_self_eq_true, if_true] at h
                cases hc : consume HTTP11 r3 with
                | none => simp [hc] at h
                | some r6 =>
                  simp only [hc] at h
                  obtain ⟨hs, remaining, hb6, hl, e1, e2, e3, e4, e5⟩ := finish_sound _ _ _ _ _ _ h
                  refine ⟨m, path, none, hs, remaining, ?_, (by rw [e1]; exact hmo), hmsp, hsl', hpathc, hu, e2, e3, (by intro q hq; cases hq), hl, e4, e5⟩
                  rw [hm1, hp1, consume_some _ _ _ hc, hb6]; simp [queryBytes]
              · have hcs' : (c == SP) = false := by simpa using hcs
                simp only [hcs', Bool.false_eq_true, if_false] at h
                by_cases hcq : (c == QM) = true
                · have : c = QM := by simpa using hcq
                  subst this
                  simp only [beq_self_eq_true, if_true] at h
                  obtain ⟨hq1, hq2, hq3⟩ := readWhile_spec (· != SP) r3
                  generalize hrw3 : readWhile (· != SP) r3 = qr at h hq1 hq2 hq3
                  obtain ⟨q, r4⟩ := qr
                  simp only at h hq1 hq2 hq3
                  -- r4 starts with the space that ended the query (an empty r4 cannot continue with HTTP/1.1)
                  have hr4 : ∃ r5, r4 = SP :: r5 := by
                    rcases hq3 with hnil | ⟨d, r5, hd, hdp⟩
                    · subst hnil
                      have : consume HTTP11 ([] : Bytes) = none := by unfold consume; simp [HTTP11]
                      simp [this] at h
                    · have : d = SP := by simpa using hdp
                      exact ⟨r5, by rw [hd, this]⟩
                  obtain ⟨r5, hr5⟩ := hr4
                  subst hr5
                  simp only [List.drop_succ_cons, List.drop_zero, List.tail_cons] at h
                  cases hc : consume HTTP11 r5 with
                  | none => simp [hc] at h
                  | some r6 =>
                    simp only [hc] at h
                    obtain ⟨hs, remaining, hb6, hl, e1, e2, e3, e4, e5⟩ := finish_sound _ _ _ _ _ _ h
                    refine ⟨m, path, some q, hs, remaining, ?_, (by rw [e1]; exact hmo), hmsp, hsl', hpathc, hu, e2, e3, ?_, hl, e4, e5⟩
                    · rw [hm1, hp1, hq1, consume_some _ _ _ hc, hb6]; simp [queryBytes]
                    · intro q' hq' b hb
                      simp only [Option.some.injEq] at hq'; subst hq'
                      simpa using hq2 b hb
                · have hcq' : (c == QM) = false := by simpa using hcq
                  simp [hcq'] at h
          · have hu' : validUtf8 path = false := by simpa using hu
            simp [hu'] at h

end Ohkami.Http
