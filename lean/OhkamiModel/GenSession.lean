/-! GENERATED from ohkami/src/session/mod.rs (`Session::manage`). -/
namespace Ohkami.Gen
/-- a refused request is answered (`res.send`) -/
def refusalIsAnswered : Bool := true
/-- and then the loop is left unconditionally: nothing after a refused request is read as a request -/
def refusalEndsSession : Bool := true
/-- end of stream / unknown method (`Ok(None)`) leaves the loop -/
def noRequestEndsSession : Bool := true
/-- the Keep-Alive timeout is put around the wait for a request (`read`) and around nothing else of the loop: not around the handler, not around `send` -/
def keepAliveBoundsTheWaitOnly : Bool := true
/-- the connection's address is written back into the reused request object before each request -/
def ipRestored : Bool := true
end Ohkami.Gen
