import OhkamiModel.P.B64Main
namespace Ohkami.BasicAuth
open Ohkami.B64

theorem splitOnce_spec (c : UInt8) : ∀ (bs l r : Bytes), splitOnce c bs = some (l, r) → bs = l ++ [c] ++ r ∧ c ∉ l := by
  intro bs
  induction bs with
  | nil => intro l r h; simp [splitOnce] at h
  | cons b bs ih =>
    intro l r h
    simp only [splitOnce] at h
    split at h
    next hb => simp at h; obtain ⟨rfl, rfl⟩ := h; subst hb; simp
    next hb =>
      cases hs : splitOnce c bs with
      | none => simp [hs] at h
      | some lr =>
        obtain ⟨l', r'⟩ := lr
        simp [hs] at h
        obtain ⟨rfl, rfl⟩ := h
        obtain ⟨h1, h2⟩ := ih l' r' hs
        refine ⟨by simp [h1], ?_⟩
        intro hm
        simp only [List.mem_cons] at hm
        rcases hm with e | hm
        · exact hb e.symm
        · exact h2 hm

theorem splitOnce_first (c : UInt8) : ∀ (l r : Bytes), c ∉ l → splitOnce c (l ++ [c] ++ r) = some (l, r) := by
  intro l
  induction l with
  | nil => intro r _; simp [splitOnce]
  | cons a l ih =>
    intro r h
    have ha : a ≠ c := by intro e; apply h; simp [e]
    have hl : c ∉ l := by intro hm; apply h; simp [hm]
    simp only [List.cons_append, splitOnce, if_neg ha]
    have := ih r hl
    simp only [List.append_assoc, List.cons_append, List.nil_append] at this
    simp [this]

theorem isPrefixOf_eq {a b : Bytes} (h : a.isPrefixOf b = true) : b = a ++ b.drop a.length := by
  induction a generalizing b with
  | nil => simp
  | cons x a ih =>
    cases b with
    | nil => simp [List.isPrefixOf] at h
    | cons y b =>
      simp only [List.isPrefixOf, Bool.and_eq_true, beq_iff_eq] at h
      obtain ⟨rfl, h2⟩ := h
      simp only [List.cons_append, List.length_cons, List.drop_succ_cons]
      rw [← ih h2]

theorem isPrefixOf_append (a b : Bytes) : a.isPrefixOf (a ++ b) = true := by
  induction a with
  | nil => simp [List.isPrefixOf]
  | cons x a ih => simp [List.isPrefixOf, ih]

/-- C13: the handler runs iff the header is `Basic ` followed by the base64 of `user:password` of a configured pair -/
theorem admit_iff' (validUtf8 : Bytes → Bool) (pairs : List Pair)
    (hu : ∀ pr ∈ pairs, colon ∉ pr.user) (hv : ∀ pr ∈ pairs, validUtf8 (pr.user ++ [colon] ++ pr.pass) = true)
    (auth : Option Bytes) :
    fore validUtf8 pairs auth = .admit ↔
      ∃ pr ∈ pairs, auth = some (basicPrefix ++ encode (pr.user ++ [colon] ++ pr.pass)) := by
  constructor
  · intro h
    unfold fore at h
    cases auth with
    | none => simp at h
    | some v =>
      simp only at h
      split at h
      next hp =>
        cases hd : decode (List.drop basicPrefix.length v) with
        | none => simp [hd] at h
        | some cred =>
          simp only [hd] at h
          split at h
          next => simp at h
          next hval =>
            cases hs : splitOnce colon cred with
            | none => simp [hs] at h
            | some up =>
              obtain ⟨u, p⟩ := up
              simp only [hs] at h
              split at h
              next hany =>
                obtain ⟨pr, hm, hpr⟩ := List.any_eq_true.mp hany
                simp only [decide_eq_true_eq] at hpr
                obtain ⟨rfl, rfl⟩ := hpr
                refine ⟨pr, hm, ?_⟩
                obtain ⟨hc, _⟩ := splitOnce_spec colon cred _ _ hs
                have he := encode_decode' _ _ hd
                rw [isPrefixOf_eq hp, he, hc]
              next => simp at h
      next => simp at h
  · rintro ⟨pr, hm, rfl⟩
    unfold fore
    simp only [isPrefixOf_append, if_true, List.drop_left, decode_encode', hv pr hm, Bool.not_true, Bool.false_eq_true, if_false]
    rw [splitOnce_first colon pr.user pr.pass (hu pr hm)]
    simp only
    have : pairs.any (fun q => decide (q.user = pr.user ∧ q.pass = pr.pass)) = true :=
      List.any_eq_true.mpr ⟨pr, hm, by simp⟩
    rw [this]; simp

end Ohkami.BasicAuth
