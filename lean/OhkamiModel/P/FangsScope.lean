import OhkamiModel.P.FangsBuildND
/-! C04, scope — part 1: what the registration trie says about scope.

    `scopeBN t ss` walks the base trie along the request segments (a child is entered when its pattern matches the
    segment) and answers with the fang list stored at the node where the walk ends.  For every application tree that
    satisfies the property's side condition (`sideCond`) and whose applications carry distinct ids (`ID::new()` is a
    process-wide counter), the walk yields exactly the chain of applications whose composed mount prefix contains the
    path (`scope_build`).  Part 2 (`FangsScopeSearch.lean`) shows that the search of the finalized, compressed router
    answers with the same list. -/
namespace Ohkami.Fangs
open Ohkami

def segMatch : Seg → Bytes → Bool
  | .static c, s => decide (s = c)
  | .param, s => decide (s ≠ [])

def kidMatches (k : BN) (s : Bytes) : Bool := (k.pat.map (segMatch · s)).getD false

mutual
def scopeBN : BN → List Bytes → List Nat
  | .mk _ f _ _, [] => f
  | .mk _ f _ ks, s :: rest => scopeKids f ks s rest
def scopeKids (f : List Nat) : List BN → Bytes → List Bytes → List Nat
  | [], _, _ => f
  | k :: ks, s, rest => if kidMatches k s then scopeBN k rest else scopeKids f ks s rest
end

/-! ### invariants -/
mutual
def Flat (f : List Nat) : BN → Prop
  | .mk _ f' _ ks => f' = f ∧ FlatKids f ks
def FlatKids (f : List Nat) : List BN → Prop
  | [] => True
  | k :: ks => Flat f k ∧ FlatKids f ks
end

/-- two sibling patterns that one request segment can both match -/
def overlap : Option Seg → Option Seg → Bool
  | some a, some b => compat a b
  | _, _ => true

-- the shape `build` yields under the side condition: fang lists without repetition, a child's list extends its parent's
-- at the inner end, and two children that one segment can both match lie outside every mount (their subtrees carry the parent's list)
mutual
def Good : BN → Prop
  | .mk _ f _ ks => f.Nodup ∧ ks.Pairwise (fun a b => overlap a.pat b.pat = true → Flat f a ∧ Flat f b) ∧ GoodKids f ks
def GoodKids (f : List Nat) : List BN → Prop
  | [] => True
  | k :: ks => (∃ e, k.fangs = e ++ f) ∧ Good k ∧ GoodKids f ks
end

-- the prefix `r` is free in the trie: nothing is registered at or under it, every node on the way carries no fangs, and no sibling
-- on the way can match a segment that the prefix matches
mutual
def Free : Route → BN → Prop
  | [], .mk _ f h ks => f = [] ∧ h = none ∧ ks = []
  | s :: rest, .mk _ f _ ks => f = [] ∧ FreeKids s rest ks
def FreeKids (s : Seg) (rest : Route) : List BN → Prop
  | [] => True
  | k :: ks => (if k.pat = some s then Free rest k else overlap k.pat (some s) = false) ∧ FreeKids s rest ks
end

-- every fang id in the tree satisfies `P`
mutual
def AllIds (P : Nat → Prop) : BN → Prop
  | .mk _ f _ ks => (∀ x ∈ f, P x) ∧ AllIdsKids P ks
def AllIdsKids (P : Nat → Prop) : List BN → Prop
  | [] => True
  | k :: ks => AllIds P k ∧ AllIdsKids P ks
end

/-! ### append lemmas -/
theorem flatKids_append (f : List Nat) : ∀ a b : List BN, FlatKids f (a ++ b) ↔ FlatKids f a ∧ FlatKids f b
  | [], b => by simp [FlatKids]
  | k :: a, b => by simp [FlatKids, flatKids_append f a b, and_assoc]

theorem goodKids_append (f : List Nat) : ∀ a b : List BN, GoodKids f (a ++ b) ↔ GoodKids f a ∧ GoodKids f b
  | [], b => by simp [GoodKids]
  | k :: a, b => by simp [GoodKids, goodKids_append f a b, and_assoc]

theorem freeKids_append (s : Seg) (rest : Route) : ∀ a b : List BN, FreeKids s rest (a ++ b) ↔ FreeKids s rest a ∧ FreeKids s rest b
  | [], b => by simp [FreeKids]
  | k :: a, b => by simp [FreeKids, freeKids_append s rest a b, and_assoc]

theorem allIdsKids_append (P : Nat → Prop) : ∀ a b : List BN, AllIdsKids P (a ++ b) ↔ AllIdsKids P a ∧ AllIdsKids P b
  | [], b => by simp [AllIdsKids]
  | k :: a, b => by simp [AllIdsKids, allIdsKids_append P a b, and_assoc]

theorem kidsOK_append_iff : ∀ a b : List BN, KidsOK (a ++ b) ↔ KidsOK a ∧ KidsOK b
  | [], b => by simp [KidsOK]
  | k :: a, b => by simp [KidsOK, kidsOK_append_iff a b, and_assoc]

theorem scopeKids_append (f : List Nat) (s : Bytes) (rest : List Bytes) : ∀ a b : List BN,
    scopeKids f (a ++ b) s rest =
      if a.any (kidMatches · s) then scopeKids f a s rest else scopeKids f b s rest
  | [], b => by simp
  | k :: a, b => by
    simp only [List.cons_append, scopeKids, List.any_cons, scopeKids_append f s rest a b]
    by_cases h : kidMatches k s = true <;> simp [h]

theorem scopeKids_noMatch (f : List Nat) (s : Bytes) (rest : List Bytes) : ∀ a : List BN,
    a.any (kidMatches · s) = false → scopeKids f a s rest = f
  | [], _ => by simp [scopeKids]
  | k :: a, h => by
    simp only [List.any_cons, Bool.or_eq_false_iff] at h
    simp [scopeKids, h.1, scopeKids_noMatch f s rest a h.2]

/-! ### flat trees -/
mutual
theorem scopeBN_flat (f : List Nat) : ∀ (t : BN) (ss : List Bytes), Flat f t → scopeBN t ss = f
  | .mk _ f' _ _, [], h => by simp [scopeBN, h.1]
  | .mk _ f' _ ks, s :: rest, h => by
    simp only [scopeBN]
    obtain ⟨rfl, hk⟩ := h
    exact scopeKids_flat f' ks s rest hk
theorem scopeKids_flat (f : List Nat) : ∀ (ks : List BN) (s : Bytes) (rest : List Bytes), FlatKids f ks → scopeKids f ks s rest = f
  | [], _, _, _ => by simp [scopeKids]
  | k :: ks, s, rest, h => by
    simp only [scopeKids]
    split
    · exact scopeBN_flat f k rest h.1
    · exact scopeKids_flat f ks s rest h.2
end

theorem pairwise_of_flatKids (f : List Nat) (R : BN → BN → Prop) : ∀ ks : List BN, FlatKids f ks →
    ks.Pairwise (fun a b => R a b → Flat f a ∧ Flat f b) := by
  intro ks
  induction ks with
  | nil => intro _; exact List.Pairwise.nil
  | cons k ks ih =>
    intro h
    refine List.Pairwise.cons ?_ (ih h.2)
    intro b hb _
    refine ⟨h.1, ?_⟩
    clear ih
    induction ks with
    | nil => cases hb
    | cons c cs ih2 =>
      rcases List.mem_cons.mp hb with rfl | hb'
      · exact h.2.1
      · exact ih2 ⟨h.1, h.2.2⟩ hb'

theorem flat_fangs (f : List Nat) (t : BN) (h : Flat f t) : t.fangs = f := by
  obtain ⟨p, f', hh, ks⟩ := t
  exact h.1

mutual
theorem good_of_flat (f : List Nat) (hf : f.Nodup) : ∀ t : BN, Flat f t → Good t
  | .mk _ f' _ ks, h => by
    obtain ⟨rfl, hk⟩ := h
    exact ⟨hf, pairwise_of_flatKids f' _ ks hk, goodKids_of_flat f' hf ks hk⟩
theorem goodKids_of_flat (f : List Nat) (hf : f.Nodup) : ∀ ks : List BN, FlatKids f ks → GoodKids f ks
  | [], _ => trivial
  | k :: ks, h => ⟨⟨[], by simp [flat_fangs f k h.1]⟩, good_of_flat f hf k h.1, goodKids_of_flat f hf ks h.2⟩
end

end Ohkami.Fangs
