import OhkamiModel.P.Router
namespace Ohkami

theorem mem_stepStatic {rs : List (Route × Nat)} {s : Bytes} {t : Route} {h : Nat} :
    (t, h) ∈ stepStatic rs s ↔ (.static s :: t, h) ∈ rs := by
  unfold stepStatic
  simp only [List.mem_filterMap]
  constructor
  · rintro ⟨⟨r, h'⟩, hm, he⟩
    cases r with
    | nil => simp at he
    | cons x t' =>
      cases x with
      | param => simp at he
      | static y =>
        simp only at he
        split at he
        · simp at he; obtain ⟨rfl, rfl⟩ := he; subst_vars; exact hm
        · simp at he
  · intro hm
    exact ⟨(.static s :: t, h), hm, by simp⟩

theorem mem_stepParam {rs : List (Route × Nat)} {t : Route} {h : Nat} :
    (t, h) ∈ stepParam rs ↔ (.param :: t, h) ∈ rs := by
  unfold stepParam
  simp only [List.mem_filterMap]
  constructor
  · rintro ⟨⟨r, h'⟩, hm, he⟩
    cases r with
    | nil => simp at he
    | cons x t' =>
      cases x with
      | static y => simp at he
      | param => simp at he; obtain ⟨rfl, rfl⟩ := he; exact hm
  · intro hm
    exact ⟨(.param :: t, h), hm, by simp⟩

theorem greedy_miss' (segs : List Bytes) : ∀ (rs : List (Route × Nat)),
    (∀ r h ps, (r, h) ∈ rs → ¬ Matches r segs ps) → greedy rs segs = none := by
  induction segs with
  | nil =>
    intro rs hno
    simp only [greedy, Option.map_eq_none_iff, List.find?_eq_none]
    intro ⟨r, h⟩ hm
    simp only [decide_eq_true_eq]
    intro hr
    subst hr
    exact hno [] h [] hm Matches.nil
  | cons s ss ih =>
    intro rs hno
    simp only [greedy]
    split
    next hc =>
      apply ih
      intro r h ps hm hM
      exact hno (.static s :: r) h ps (mem_stepStatic.mp hm) (Matches.static s hc.1 hM)
    next hc =>
      split
      next hp =>
        rw [ih (stepParam rs)]
        · rfl
        · intro r h ps hm hM
          exact hno (.param :: r) h (s :: ps) (mem_stepParam.mp hm) (Matches.param s hp.1 hM)
      next => rfl

end Ohkami
