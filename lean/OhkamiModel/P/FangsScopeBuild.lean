import OhkamiModel.P.FangsScopeMerge
/-! C04, scope — part 1c: for every application tree under the side condition, the registration trie answers every path
    with exactly the chain of applications whose mount prefix contains it (`scope_build`). -/
namespace Ohkami.Fangs
open Ohkami

/-! ### `apply_fangs` -/
theorem applyKids_eq_map (id : Nat) : ∀ ks : List BN, applyKids id ks = ks.map (applyFangs id)
  | [] => rfl
  | k :: ks => by simp [applyKids, applyKids_eq_map id ks]

mutual
theorem allIds_mono (P Q : Nat → Prop) (hpq : ∀ x, P x → Q x) : ∀ t : BN, AllIds P t → AllIds Q t
  | .mk _ f _ ks, h => ⟨fun x hx => hpq x (h.1 x hx), allIdsKids_mono P Q hpq ks h.2⟩
theorem allIdsKids_mono (P Q : Nat → Prop) (hpq : ∀ x, P x → Q x) : ∀ ks : List BN, AllIdsKids P ks → AllIdsKids Q ks
  | [], _ => trivial
  | k :: ks, h => ⟨allIds_mono P Q hpq k h.1, allIdsKids_mono P Q hpq ks h.2⟩
end

mutual
theorem allIds_of_flat_nil (P : Nat → Prop) : ∀ t : BN, Flat [] t → AllIds P t
  | .mk _ f _ ks, h => by
    obtain ⟨rfl, hk⟩ := h
    exact ⟨by simp, allIdsKids_of_flat_nil P ks hk⟩
theorem allIdsKids_of_flat_nil (P : Nat → Prop) : ∀ ks : List BN, FlatKids [] ks → AllIdsKids P ks
  | [], _ => trivial
  | k :: ks, h => ⟨allIds_of_flat_nil P k h.1, allIdsKids_of_flat_nil P ks h.2⟩
end

theorem applyFangs_pat (id : Nat) (t : BN) : (applyFangs id t).pat = t.pat := (applyFangs_props id t).1

theorem applyFangs_fangs (id : Nat) (t : BN) : (applyFangs id t).fangs = addFang t.fangs id := by
  obtain ⟨p, f, h, ks⟩ := t
  simp [applyFangs, BN.fangs]

mutual
theorem applyFangs_scope (id : Nat) (S : Nat → Prop) (hid : ¬ S id) : ∀ (t : BN) (ss : List Bytes), AllIds S t →
    scopeBN (applyFangs id t) ss = scopeBN t ss ++ [id]
  | .mk _ f _ ks, [], h => by
    have : id ∉ f := fun hx => hid (h.1 id hx)
    simp [applyFangs, scopeBN, addFang_fresh f id this]
  | .mk _ f _ ks, s :: rest, h => by
    have : id ∉ f := fun hx => hid (h.1 id hx)
    simp only [applyFangs, scopeBN, addFang_fresh f id this]
    exact applyKids_scope id S hid f ks s rest h.2
theorem applyKids_scope (id : Nat) (S : Nat → Prop) (hid : ¬ S id) (f : List Nat) : ∀ (ks : List BN) (s : Bytes) (rest : List Bytes),
    AllIdsKids S ks → scopeKids (f ++ [id]) (applyKids id ks) s rest = scopeKids f ks s rest ++ [id]
  | [], _, _, _ => by simp [applyKids, scopeKids]
  | k :: ks, s, rest, h => by
    simp only [applyKids, scopeKids, kidMatches, applyFangs_pat]
    by_cases hm : (Option.map (fun x => segMatch x s) k.pat).getD false = true
    · simp only [hm, if_true]
      exact applyFangs_scope id S hid k rest h.1
    · simp only [hm, if_false]
      exact applyKids_scope id S hid f ks s rest h.2
end

mutual
theorem applyFangs_flat (id : Nat) (f : List Nat) (hid : id ∉ f) : ∀ t : BN, Flat f t → Flat (f ++ [id]) (applyFangs id t)
  | .mk _ f' _ ks, h => by
    obtain ⟨rfl, hk⟩ := h
    exact ⟨by simp [addFang_fresh f' id hid], applyKids_flat id f' hid ks hk⟩
theorem applyKids_flat (id : Nat) (f : List Nat) (hid : id ∉ f) : ∀ ks : List BN, FlatKids f ks → FlatKids (f ++ [id]) (applyKids id ks)
  | [], _ => trivial
  | k :: ks, h => ⟨applyFangs_flat id f hid k h.1, applyKids_flat id f hid ks h.2⟩
end

mutual
theorem applyFangs_good (id : Nat) (S : Nat → Prop) (hid : ¬ S id) : ∀ t : BN, Good t → AllIds S t → Good (applyFangs id t)
  | .mk _ f _ ks, hg, ha => by
    have hf : id ∉ f := fun hx => hid (ha.1 id hx)
    obtain ⟨hn, hpw, hgk⟩ := hg
    simp only [applyFangs, addFang_fresh f id hf]
    refine ⟨?_, ?_, applyKids_good id S hid f hf ks hgk ha.2⟩
    · rw [List.nodup_append]
      exact ⟨hn, by simp, by intro a ha' b hb; simp at hb; subst hb; intro e; subst e; exact hf ha'⟩
    · rw [applyKids_eq_map, List.pairwise_map]
      refine hpw.imp ?_
      intro a b hab ho
      simp only [applyFangs_pat] at ho
      obtain ⟨h1, h2⟩ := hab ho
      exact ⟨applyFangs_flat id f hf a h1, applyFangs_flat id f hf b h2⟩
theorem applyKids_good (id : Nat) (S : Nat → Prop) (hid : ¬ S id) (f : List Nat) (hf : id ∉ f) : ∀ ks : List BN,
    GoodKids f ks → AllIdsKids S ks → GoodKids (f ++ [id]) (applyKids id ks)
  | [], _, _ => trivial
  | k :: ks, hg, ha => by
    obtain ⟨⟨e, he⟩, hgk, hgs⟩ := hg
    refine ⟨⟨e, ?_⟩, applyFangs_good id S hid k hgk ha.1, applyKids_good id S hid f hf ks hgs ha.2⟩
    have hk : id ∉ k.fangs := by
      obtain ⟨p, f', h, ks'⟩ := k
      exact fun hx => hid (ha.1.1 id hx)
    rw [applyFangs_fangs, addFang_fresh _ id hk, he, List.append_assoc]
end

mutual
theorem applyFangs_allIds (id : Nat) (S : Nat → Prop) : ∀ t : BN, AllIds S t → AllIds (fun x => x = id ∨ S x) (applyFangs id t)
  | .mk _ f _ ks, h => by
    refine ⟨?_, applyKids_allIds id S ks h.2⟩
    intro x hx
    simp only [addFang] at hx
    split at hx
    · exact Or.inr (h.1 x hx)
    · rcases List.mem_append.mp hx with hx | hx
      · exact Or.inr (h.1 x hx)
      · left; simpa using hx
theorem applyKids_allIds (id : Nat) (S : Nat → Prop) : ∀ ks : List BN, AllIdsKids S ks → AllIdsKids (fun x => x = id ∨ S x) (applyKids id ks)
  | [], _ => trivial
  | k :: ks, h => ⟨applyFangs_allIds id S k h.1, applyKids_allIds id S ks h.2⟩
end

/-! ### the routes phase -/
theorem routes_phase (r : Option Route) : ∀ (routes : List (Route × Nat)) (t t' : BN), TreeOK t → ND t → Flat [] t →
    (∀ q, r = some q → Free q t ∧ ∀ rh ∈ routes, conflict q rh.1 = false) →
    routes.foldlM (fun t rh => register t rh.1 rh.2) t = some t' →
    TreeOK t' ∧ ND t' ∧ Flat [] t' ∧ (∀ q, r = some q → Free q t') := by
  intro routes
  induction routes with
  | nil => intro t t' h1 h2 h3 h4 h; simp at h; subst h; exact ⟨h1, h2, h3, fun q hq => (h4 q hq).1⟩
  | cons rh rest ih =>
    intro t t' h1 h2 h3 h4 h
    simp only [List.foldlM_cons, Option.bind_eq_bind, Option.bind_eq_some_iff] at h
    obtain ⟨t1, hr, h⟩ := h
    obtain ⟨_, hok1⟩ := routes_register t t1 rh.1 rh.2 h1 hr
    have hnd1 := (nd_mergeAt_leaf rh.1 t t1 (some rh.2) h1 h2 hr).2
    have hfl1 := flat_mergeAt_leaf rh.1 t t1 (some rh.2) h1 h3 hr
    refine ih t1 t' hok1 hnd1 hfl1 ?_ h
    intro q hq
    obtain ⟨hf, hc⟩ := h4 q hq
    exact ⟨free_mergeAt_leaf rh.1 q t t1 (some rh.2) h1 hf (hc rh (by simp)) hr, fun x hx => hc x (by simp [hx])⟩

/-! ### the mounts phase -/
def mountsScope (d : List Bytes → List Nat) : List (Route × App) → List Bytes → List Nat
  | [], ss => d ss
  | (r, a) :: rest, ss =>
    match segUnder r ss with
    | some ss' => (scopeChain a ss').reverse
    | none => mountsScope d rest ss

theorem scopeMounts_rev : ∀ (mounts : List (Route × App)) (ss : List Bytes),
    (scopeMounts mounts ss).reverse = mountsScope (fun _ => []) mounts ss
  | [], _ => by simp [scopeMounts, mountsScope]
  | (r, a) :: rest, ss => by
    simp only [scopeMounts, mountsScope]
    cases segUnder r ss with
    | some ss' => rfl
    | none => exact scopeMounts_rev rest ss

theorem diverge_excl : ∀ (r q : Route) (ss : List Bytes), diverge r q = true → (segUnder r ss).isSome → segUnder q ss = none
  | [], _, _, h, _ => by simp [diverge] at h
  | _ :: _, [], _, h, _ => by simp [diverge] at h
  | a :: r, b :: q, [], _, h2 => by simp [segUnder] at h2
  | a :: r, b :: q, s0 :: ss, h, h2 => by
    rw [segUnder_cons] at h2 ⊢
    simp only [diverge] at h
    by_cases hab : a = b
    · subst hab
      simp only [patMatches_self, if_true] at h
      by_cases hm : segMatch a s0 = true
      · simp only [hm, if_true] at h2 ⊢
        exact diverge_excl r q ss h h2
      · simp [hm]
    · have hpm : patMatches a b = false := by
        cases hm : patMatches a b with
        | false => rfl
        | true => exact absurd (patMatches_eq a b hm) hab
      simp only [hpm, Bool.false_eq_true, if_false, Bool.not_eq_true'] at h
      by_cases hm : segMatch a s0 = true
      · have : segMatch b s0 = false := by
          cases a <;> cases b <;> simp_all [compat, segMatch]
        simp [this]
      · simp [hm] at h2

theorem mountsScope_shift (r : Route) (c : List Bytes → List Nat) (d d' : List Bytes → List Nat)
    (hd : ∀ ss, d' ss = match segUnder r ss with | some ss' => c ss' | none => d ss) :
    ∀ (rest : List (Route × App)), (∀ m ∈ rest, diverge m.1 r = true) → ∀ ss,
      mountsScope d' rest ss = match segUnder r ss with | some ss' => c ss' | none => mountsScope d rest ss
  | [], _, ss => by simp only [mountsScope]; exact hd ss
  | (q, b) :: rest, hdv, ss => by
    simp only [mountsScope]
    cases hq : segUnder q ss with
    | some ss' =>
      have := diverge_excl q r ss (hdv (q, b) (by simp)) (by simp [hq])
      simp [this]
    | none =>
      simp only
      exact mountsScope_shift r c d d' hd rest (fun m hm => hdv m (by simp [hm])) ss

theorem sideCond_unfold (id : Nat) (hf : Bool) (routes : List (Route × Nat)) (mounts : List (Route × App))
    (h : sideCond (.mk id hf routes mounts) = true) :
    (∀ m ∈ mounts, ∀ rh ∈ routes, conflict m.1 rh.1 = false) ∧
    (mounts.map (·.1)).Pairwise (fun a b => conflict a b = false ∧ conflict b a = false) ∧
    sideMounts mounts = true := by
  simp only [sideCond, Bool.and_eq_true, List.all_eq_true, Bool.not_eq_true', decide_eq_true_eq] at h
  refine ⟨fun m hm rh hrh => h.1.1 m hm rh hrh, ?_, h.2⟩
  exact h.1.2.imp (fun hab => by simpa using hab)

mutual
/-- **The registration trie carries exactly the scope chain.** -/
theorem scope_build : ∀ (cfg : App) (t : BN), sideCond cfg = true → (idsOf cfg).Nodup → build cfg = some t →
    TreeOK t ∧ ND t ∧ Good t ∧ AllIds (· ∈ idsOf cfg) t ∧ ∀ ss, scopeBN t ss = (scopeChain cfg ss).reverse
  | .mk id hasFangs routes mounts, t, hsc, hids, h => by
    obtain ⟨hc1, hc2, hc3⟩ := sideCond_unfold id hasFangs routes mounts hsc
    simp only [build, Option.bind_eq_bind, Option.bind_eq_some_iff, Option.pure_def, Option.some.injEq] at h
    obtain ⟨t1, h1, t2, h2, rfl⟩ := h
    simp only [idsOf, List.nodup_cons] at hids
    have hok0 : TreeOK (BN.mk none [] none []) := by simp [TreeOK, KidsOK]
    have hnd0 : ND (BN.mk none [] none []) := by simp [ND, NDs, pats]
    have hfl0 : Flat [] (BN.mk none [] none []) := by simp [Flat, FlatKids]
    have hfree0 : ∀ q : Route, Free q (BN.mk none [] none []) := by
      intro q; cases q <;> simp [Free, FreeKids]
    obtain ⟨hok1, hnd1, hfl1, _⟩ := routes_phase none routes _ t1 hok0 hnd0 hfl0 (by intro q hq; cases hq) h1
    have hfree1 : ∀ m ∈ mounts, Free m.1 t1 := by
      intro m hm
      exact (routes_phase (some m.1) routes _ t1 hok0 hnd0 hfl0
        (by intro q hq; cases hq; exact ⟨hfree0 _, fun rh hrh => hc1 m hm rh hrh⟩) h1).2.2.2 m.1 rfl
    obtain ⟨hok2, hnd2, hg2, hid2, hs2⟩ := scope_buildMounts mounts t1 t2 (fun _ => False) hc3 hids.2 hc2 hok1 hnd1
      (good_of_flat [] List.nodup_nil t1 hfl1) (allIds_of_flat_nil _ t1 hfl1) hfree1 h2
    have hid2' : AllIds (· ∈ idsOfMounts mounts) t2 := allIds_mono _ _ (by intro x hx; simpa using hx) t2 hid2
    have hs2' : ∀ ss, scopeBN t2 ss = (scopeMounts mounts ss).reverse := by
      intro ss
      rw [hs2 ss, scopeMounts_rev]
      congr 1
      funext ss'
      exact scopeBN_flat [] t1 ss' hfl1
    cases hasFangs with
    | true =>
      simp only [if_true]
      refine ⟨(applyFangs_props id t2).2.2 hok2, applyFangs_nd id t2 hnd2, applyFangs_good id _ hids.1 t2 hg2 hid2',
        ?_, ?_⟩
      · exact allIds_mono _ _ (by intro x hx; simpa [idsOf] using hx) _ (applyFangs_allIds id _ t2 hid2')
      · intro ss
        rw [applyFangs_scope id _ hids.1 t2 ss hid2', hs2' ss]
        simp [scopeChain]
    | false =>
      simp only [Bool.false_eq_true, if_false]
      refine ⟨hok2, hnd2, hg2, ?_, ?_⟩
      · exact allIds_mono _ _ (by intro x hx; simp [idsOf, hx]) _ hid2'
      · intro ss
        rw [hs2' ss]
        simp [scopeChain]
theorem scope_buildMounts : ∀ (mounts : List (Route × App)) (t t' : BN) (P : Nat → Prop), sideMounts mounts = true →
    (idsOfMounts mounts).Nodup →
    (mounts.map (·.1)).Pairwise (fun a b => conflict a b = false ∧ conflict b a = false) →
    TreeOK t → ND t → Good t → AllIds P t → (∀ m ∈ mounts, Free m.1 t) → buildMounts t mounts = some t' →
    TreeOK t' ∧ ND t' ∧ Good t' ∧ AllIds (fun x => P x ∨ x ∈ idsOfMounts mounts) t' ∧
      ∀ ss, scopeBN t' ss = mountsScope (scopeBN t) mounts ss
  | [], t, t', P, _, _, _, hok, hnd, hg, hid, _, h => by
    simp only [buildMounts, Option.some.injEq] at h
    subst h
    exact ⟨hok, hnd, hg, allIds_mono _ _ (fun x hx => Or.inl hx) t hid, fun ss => rfl⟩
  | (r, a) :: rest, t, t', P, hsm, hids, hpw, hok, hnd, hg, hid, hfree, h => by
    simp only [buildMounts, Option.bind_eq_bind, Option.bind_eq_some_iff] at h
    obtain ⟨sub, hs, t1, h1, h2⟩ := h
    simp only [sideMounts, Bool.and_eq_true] at hsm
    simp only [idsOfMounts] at hids
    have hidsA := (List.nodup_append.mp hids).1
    have hidsR := (List.nodup_append.mp hids).2.1
    obtain ⟨hoks, hnds, hgs, hida, hsa⟩ := scope_build a sub hsm.1 hidsA hs
    simp only [List.map_cons, List.pairwise_cons] at hpw
    obtain ⟨m1, m2, m3, m4⟩ := mount_mergeAt r t sub t1 hok hnd hg (hfree (r, a) (by simp)) hoks hnds hgs h1
    obtain ⟨_, _, hok1⟩ := routes_mergeAt r t sub t1 hok hoks h1
    have hnd1 := nd_mergeAt r t sub t1 hok hoks hnd hnds h1
    have hdv : ∀ m ∈ rest, diverge m.1 r = true := by
      intro m hm
      have := hpw.1 m.1 (by simp only [List.mem_map]; exact ⟨m, hm, rfl⟩)
      exact diverge_of_noConflict m.1 r this.2 this.1
    have hfree1 : ∀ m ∈ rest, Free m.1 t1 := fun m hm => m3 m.1 (hdv m hm) (hfree m (by simp [hm]))
    let Q : Nat → Prop := fun x => P x ∨ x ∈ idsOf a
    have hid1 : AllIds Q t1 := m4 Q (allIds_mono _ _ (fun x hx => Or.inl hx) t hid) (allIds_mono _ _ (fun x hx => Or.inr hx) sub hida)
    obtain ⟨hok', hnd', hg', hid', hs'⟩ := scope_buildMounts rest t1 t' Q hsm.2 hidsR hpw.2 hok1 hnd1 m1 hid1 hfree1 h2
    refine ⟨hok', hnd', hg', ?_, ?_⟩
    · refine allIds_mono _ _ ?_ t' hid'
      intro x hx
      simp only [idsOfMounts, List.mem_append]
      rcases hx with (hx | hx) | hx
      · exact Or.inl hx
      · exact Or.inr (Or.inl hx)
      · exact Or.inr (Or.inr hx)
    · intro ss
      rw [hs' ss]
      simp only [mountsScope]
      rw [mountsScope_shift r (scopeBN sub) (scopeBN t) (scopeBN t1) m2 rest hdv ss]
      cases segUnder r ss with
      | some ss' => simp only; exact hsa ss'
      | none => rfl
end

end Ohkami.Fangs
