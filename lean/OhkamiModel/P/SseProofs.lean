import OhkamiModel.P.Sse
namespace Ohkami.Sse

theorem drain_done (sched : List PStep) : ∀ (q : List Bytes) (fuel : Nat), q.length + 1 ≤ fuel →
    drain fuel ⟨q, true⟩ sched = q := by
  intro q
  induction q with
  | nil =>
    intro fuel h
    cases fuel with
    | zero => omega
    | succ f => simp [drain, pollNext]
  | cons x q ih =>
    intro fuel h
    cases fuel with
    | zero => omega
    | succ f =>
      simp only [drain, pollNext]
      simp only [if_true]
      rw [ih f (by simp at h; omega)]

theorem allPushes_cons (st : PStep) (rest : List PStep) :
    allPushes (st :: rest) = st.pushes ++ allPushes rest := by
  simp [allPushes]

theorem drain_go : ∀ (sched : List PStep), EndsReady sched → ∀ (q : List Bytes) (fuel : Nat),
    sched.length + q.length + (allPushes sched).length + 1 ≤ fuel →
    drain fuel ⟨q, false⟩ sched = q ++ allPushes sched := by
  intro sched
  induction sched with
  | nil =>
    intro h
    obtain ⟨pre, last, he, _, _⟩ := h
    simp at he
  | cons st rest ih =>
    intro hE q fuel hf
    obtain ⟨pre, last, he, hlast, hpre⟩ := hE
    cases fuel with
    | zero => omega
    | succ f =>
      rw [allPushes_cons] at hf ⊢
      simp only [List.length_cons, List.length_append] at hf
      cases pre with
      | nil =>
        -- st is the last, ready step
        simp at he
        obtain ⟨rfl, rfl⟩ := he
        simp only [drain, pollNext, Bool.false_eq_true, if_false, hlast, if_true]
        cases hq : q ++ st.pushes with
        | nil => simpa [allPushes] using hq
        | cons x q' =>
          simp only
          rw [drain_done [] q' f (by
            have : (q ++ st.pushes).length = q'.length + 1 := by rw [hq]; simp
            simp only [List.length_append] at this
            omega)]
          simp [allPushes, hq]
      | cons p pre' =>
        simp at he
        obtain ⟨rfl, rfl⟩ := he
        have hnr : st.ready = false := hpre st (by simp)
        have hE' : EndsReady (pre' ++ [last]) := ⟨pre', last, rfl, hlast, fun s hs => hpre s (by simp [hs])⟩
        have hne : (pre' ++ [last]).isEmpty = false := by cases pre' <;> simp
        simp only [drain, pollNext, Bool.false_eq_true, if_false, hnr]
        cases hq : q ++ st.pushes with
        | nil =>
          simp only [hne, Bool.false_eq_true, if_false]
          rw [ih hE' [] f (by simp; simp only [List.length_append, List.length_cons, List.length_nil] at hf ⊢; omega)]
          rw [← List.append_assoc, hq]
        | cons x q' =>
          simp only
          rw [ih hE' q' f (by
            have : (q ++ st.pushes).length = q'.length + 1 := by rw [hq]; simp
            simp only [List.length_append] at this
            omega)]
          rw [← List.append_assoc, hq]; simp

theorem stream_delivers_all' (sched : List PStep) (h : EndsReady sched) :
    drain (sched.length + (allPushes sched).length + 1) ⟨[], false⟩ sched = allPushes sched := by
  have := drain_go sched h [] (sched.length + (allPushes sched).length + 1) (by simp)
  simpa using this

end Ohkami.Sse
