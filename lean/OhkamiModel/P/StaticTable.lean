import OhkamiModel.P.ChainProofs
/-! Static route tables (what `Dir` registers): the specification finds every registered route at exactly its own path. -/
namespace Ohkami

def AllStatic (r : Route) : Prop := ∀ s ∈ r, ∃ b, s = Seg.static b

def staticBytes : Route → List Bytes
  | [] => []
  | .static b :: r => b :: staticBytes r
  | .param :: r => staticBytes r

theorem staticBytes_map (l : List Bytes) : staticBytes (l.map Seg.static) = l := by
  induction l with
  | nil => rfl
  | cons b l ih => simp [staticBytes, ih]

theorem allStatic_map (l : List Bytes) : AllStatic (l.map Seg.static) := by
  intro s hs
  obtain ⟨b, _, rfl⟩ := List.mem_map.mp hs
  exact ⟨b, rfl⟩

theorem allStatic_tail {s : Seg} {t : Route} (h : AllStatic (s :: t)) : AllStatic t :=
  fun x hx => h x (by simp [hx])

theorem allStatic_append_right {a t : Route} (h : AllStatic (a ++ t)) : AllStatic t :=
  fun x hx => h x (by simp [hx])

theorem staticBytes_append (a : List Bytes) (t : Route) : staticBytes (a.map Seg.static ++ t) = a ++ staticBytes t := by
  induction a with
  | nil => rfl
  | cons b a ih => simp [staticBytes, ih]

/-- on a static table that holds `t`, following the forced chain along `t`'s own path never fails -/
theorem chainMatch_static_some : ∀ (fuel : Nat) (rs : List (Route × Nat)) (t : Route) (h : Nat),
    (t, h) ∈ rs → (∀ rh ∈ rs, AllStatic rh.1) → ∃ rs' ss', chainMatch fuel rs (staticBytes t) = some (rs', ss') := by
  intro fuel
  induction fuel with
  | zero => intro rs t h _ _; exact ⟨rs, _, rfl⟩
  | succ f ih =>
    intro rs t h hm hall
    simp only [chainMatch]
    split
    · exact ⟨rs, _, rfl⟩
    next c hc =>
      obtain ⟨t2, ht⟩ := forcedNext_spec hc (t, h) hm
      simp only at ht
      subst ht
      simp only [staticBytes, if_true]
      apply ih (stepStatic rs c) t2 h (mem_stepStatic.mpr hm)
      intro rh hrh
      have : (Seg.static c :: rh.1, rh.2) ∈ rs := mem_stepStatic.mp (by cases rh; exact hrh)
      exact allStatic_tail (hall _ this)

/-- **A static table finds every one of its routes**: at the path that is, segment for segment, a registered all-static route, the
specification answers with a handler registered at that very route and captures nothing. -/
theorem static_complete : ∀ (fuel : Nat) (rs : List (Route × Nat)) (r : Route) (h : Nat),
    (r, h) ∈ rs → (∀ rh ∈ rs, AllStatic rh.1) → WFRoutes rs → r.length < fuel →
    ∃ h', greedyChain fuel rs (staticBytes r) = some (h', []) ∧ (r, h') ∈ rs := by
  intro fuel
  induction fuel with
  | zero => intro rs r h _ _ _ hf; omega
  | succ f ih =>
    intro rs r h hm hall hwf hf
    cases r with
    | nil =>
      simp only [staticBytes, greedyChain]
      have : (rs.find? (fun rh => rh.1 = [])).isSome := by
        rw [List.find?_isSome]; exact ⟨([], h), hm, by simp⟩
      obtain ⟨rh, hrh⟩ := Option.isSome_iff_exists.mp this
      have h1 := List.find?_some hrh
      have h2 := List.mem_of_find?_eq_some hrh
      simp only [decide_eq_true_eq] at h1
      refine ⟨rh.2, by simp [hrh], ?_⟩
      rw [← h1]; exact h2
    | cons x t =>
      obtain ⟨s, rfl⟩ := hall _ hm x (by simp)
      have hs : s ≠ [] := by
        intro e; subst e
        exact hwf _ hm (by simp)
      have hmt : (t, h) ∈ stepStatic rs s := mem_stepStatic.mpr hm
      have hne : stepStatic rs s ≠ [] := List.ne_nil_of_mem hmt
      have hall1 : ∀ rh ∈ stepStatic rs s, AllStatic rh.1 := by
        intro rh hrh
        have : (Seg.static s :: rh.1, rh.2) ∈ rs := mem_stepStatic.mp (by cases rh; exact hrh)
        exact allStatic_tail (hall _ this)
      obtain ⟨rs', ss', hc⟩ := chainMatch_static_some ((staticBytes t).length + 1) (stepStatic rs s) t h hmt hall1
      obtain ⟨chain, h1, h2, h3⟩ := chainMatch_spec _ _ _ _ _ hc
      obtain ⟨t2, ht2⟩ := h3 _ hmt
      simp only at ht2
      have hmem2 : (t2, h) ∈ rs' := (h2 t2 h).mpr (ht2 ▸ hmt)
      have hss : ss' = staticBytes t2 := by
        rw [ht2, staticBytes_append] at h1
        exact (List.append_cancel_left h1).symm
      have hall2 : ∀ rh ∈ rs', AllStatic rh.1 := by
        intro rh hrh
        have := (h2 rh.1 rh.2).mp (by cases rh; exact hrh)
        exact allStatic_append_right (hall1 _ this)
      have hwf2 : WFRoutes rs' := by
        intro rh hrh hbad
        have h4 := (h2 rh.1 rh.2).mp (by cases rh; exact hrh)
        have h5 : (Seg.static s :: (chain.map Seg.static ++ rh.1), rh.2) ∈ rs := mem_stepStatic.mp h4
        exact hwf _ h5 (by simp [hbad])
      have hlen : t2.length < f := by
        have : t.length = chain.length + t2.length := by rw [ht2]; simp
        simp at hf; omega
      obtain ⟨h', hg, hm'⟩ := ih rs' t2 h hmem2 hall2 hwf2 hlen
      refine ⟨h', ?_, ?_⟩
      · simp only [staticBytes, greedyChain]
        have hcond : s ≠ [] ∧ stepStatic rs s ≠ [] := ⟨hs, hne⟩
        rw [hc, if_pos hcond]
        simp only
        rw [hss]; exact hg
      · have := (h2 t2 h').mp hm'
        rw [← ht2] at this
        exact mem_stepStatic.mp this

end Ohkami
