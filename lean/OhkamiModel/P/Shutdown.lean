/-! Prototype of the C18 model: Ctrl-C handler vs UntilInterrupt::poll over CATCH / WAKER. -/
namespace Ohkami.Shutdown

-- program counters
inductive HPc where | h0 | h1 | h2 | hDone       -- h0: store CATCH; h1: swap WAKER null; h2: wake if non-null
deriving DecidableEq, Repr
inductive PPc where | idle | p1 | p2 | p3 | pending | returnedNone
  -- idle: not being polled (needs a wake or first poll); p1: inner poll done (Pending), about to load CATCH
  -- p2: loaded false, about to swap WAKER in ; p3 (fixed code only): about to re-check CATCH
deriving DecidableEq, Repr

structure St where
  catch_  : Bool
  waker   : Bool          -- WAKER non-null
  taken   : Bool          -- handler's local `waker` is non-null
  hpc     : HPc
  ppc     : PPc
  wakePending : Bool      -- a wake was delivered and the task will be polled again
deriving DecidableEq, Repr

def init : St := ⟨false, false, false, .h0, .p1, false⟩    -- first poll has started

inductive Who where | handler | poller deriving DecidableEq, Repr

-- `fixed = true` models the planned repair: re-check CATCH after publishing the waker
def step (fixed : Bool) (s : St) : Who → Option St
  | .handler =>
    match s.hpc with
    | .h0 => some { s with catch_ := true, hpc := .h1 }
    | .h1 => some { s with taken := s.waker, waker := false, hpc := .h2 }
    | .h2 => some { s with wakePending := s.wakePending || s.taken, hpc := .hDone }
    | .hDone => none
  | .poller =>
    match s.ppc with
    | .p1 => if s.catch_ then some { s with ppc := .returnedNone } else some { s with ppc := .p2 }
    | .p2 => some { s with waker := true, ppc := if fixed then .p3 else .pending }
    | .p3 => if s.catch_ then some { s with ppc := .returnedNone } else some { s with ppc := .pending }
    | .pending => if s.wakePending then some { s with wakePending := false, ppc := .p1 } else none
    | .idle => none
    | .returnedNone => none

-- all states reachable within `fuel` steps under every scheduling choice
def reach (fixed : Bool) : Nat → List St → List St
  | 0, acc => acc
  | fuel + 1, acc =>
    let next := acc.flatMap fun s => [step fixed s .handler, step fixed s .poller].filterMap id
    reach fixed fuel ((acc ++ next).eraseDups)

def quiescent (fixed : Bool) (s : St) : Bool := (step fixed s .handler).isNone && (step fixed s .poller).isNone

-- bad: the handler ran to completion, nothing can move, and the loop is still waiting
def lost (fixed : Bool) (s : St) : Bool := quiescent fixed s && s.hpc == .hDone && s.ppc != .returnedNone

theorem lost_wakeup_in_current_code : (reach false 12 [init]).any (lost false) = true := by decide
theorem no_lost_wakeup_after_fix : (reach true 14 [init]).all (fun s => !lost true s) = true := by decide

end Ohkami.Shutdown

namespace Ohkami.Shutdown

/-! closure: `reach` has reached its fixpoint, so the `decide` theorem covers every reachable state -/
def closed (fixed : Bool) (l : List St) : Bool :=
  l.all fun s => [step fixed s .handler, step fixed s .poller].all fun o =>
    match o with | some s' => l.contains s' | none => true

theorem reach_closed_fixed : closed true (reach true 14 [init]) = true := by decide
theorem init_in : (reach true 14 [init]).contains init = true := by decide

inductive Reachable (fixed : Bool) : St → Prop
  | init : Reachable fixed init
  | step (s s' : St) (w : Who) : Reachable fixed s → step fixed s w = some s' → Reachable fixed s'

/-- every state reachable under *any* interleaving is in the enumerated set -/
theorem reachable_in (s : St) (h : Reachable true s) : (reach true 14 [init]).contains s = true := by
  induction h with
  | init => exact init_in
  | step s s' w _ hst ih =>
    have hc := reach_closed_fixed
    unfold closed at hc
    rw [List.all_eq_true] at hc
    have hs := hc s (by simpa using ih)
    rw [List.all_eq_true] at hs
    cases w with
    | handler =>
      have := hs (step true s .handler) (by simp)
      rw [hst] at this; exact this
    | poller =>
      have := hs (step true s .poller) (by simp)
      rw [hst] at this; exact this

/-- C18 (protocol level): in the repaired code no reachable state has lost the interrupt -/
theorem no_lost_wakeup (s : St) (h : Reachable true s) : lost true s = false := by
  have hin := reachable_in s h
  have hall := no_lost_wakeup_after_fix
  rw [List.all_eq_true] at hall
  have := hall s (by simpa using hin)
  simpa using this

end Ohkami.Shutdown
