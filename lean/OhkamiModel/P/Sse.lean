import OhkamiModel.Basic
/-! C17 model: `QueueStream::poll_next` as a step machine, the `data:` framing and the chunk framing of `send`. -/
namespace Ohkami.Sse

/-! ### QueueStream::poll_next as a step machine (ohkami_lib/src/stream.rs:321-338) -/

-- one poll of the producer future: what it pushes during that poll and whether it completes
structure PStep where
  pushes : List Bytes
  ready  : Bool
deriving Repr

structure QS where
  queue : List Bytes
  done  : Bool            -- queuing_state = None
deriving Repr

inductive Poll where
  | item (b : Bytes) | pending | finished
deriving Repr, DecidableEq

-- one `poll_next`; consumes one producer step unless the producer already completed
def pollNext (s : QS) (sched : List PStep) : Poll × QS × List PStep :=
  if s.done then
    match s.queue with
    | [] => (.finished, s, sched)
    | x :: q => (.item x, { s with queue := q }, sched)
  else
    match sched with
    | [] => -- producer would be polled but the script is exhausted: treat as Pending forever
      (match s.queue with | [] => (.pending, s, []) | x :: q => (.item x, { s with queue := q }, []))
    | st :: rest =>
      let q := s.queue ++ st.pushes
      if st.ready then
        match q with
        | [] => (.finished, { queue := [], done := true }, rest)
        | x :: q' => (.item x, { queue := q', done := true }, rest)
      else
        match q with
        | [] => (.pending, { queue := [], done := false }, rest)
        | x :: q' => (.item x, { queue := q', done := false }, rest)

-- drive `while let Some(chunk) = stream.next().await` ; Pending = re-poll (the waker fires)
def drain : Nat → QS → List PStep → List Bytes
  | 0, _, _ => []
  | fuel + 1, s, sched =>
    match pollNext s sched with
    | (.item x, s', sched') => x :: drain fuel s' sched'
    | (.pending, s', sched') => if sched'.isEmpty then [] else drain fuel s' sched'
    | (.finished, _, _) => []

def allPushes (sched : List PStep) : List Bytes := (sched.map (·.pushes)).flatten

def EndsReady (sched : List PStep) : Prop := ∃ pre last, sched = pre ++ [last] ∧ last.ready = true ∧ ∀ s ∈ pre, s.ready = false

-- every message pushed is yielded exactly once, in order, whatever the poll schedule

/-! ### framing (ohkami/src/response/mod.rs:347-388) -/
def LF : UInt8 := 10
def CR : UInt8 := 13
def dataPrefix : Bytes := [100, 97, 116, 97, 58, 32]   -- "data: "

def splitOn (sep : UInt8) : Bytes → List Bytes
  | [] => [[]]
  | b :: bs =>
    match splitOn sep bs with
    | [] => [[]]                       -- unreachable
    | l :: ls => if b = sep then [] :: l :: ls else (b :: l) :: ls

/-- CRLF, CR and LF are all line breaks of the event-stream format: `chunk.replace("\r\n", "\n").replace('\r', "\n")` -/
def normalizeNewlines : Bytes → Bytes
  | [] => []
  | [b] => if b = CR then [LF] else [b]
  | b :: c :: r => if b = CR then (if c = LF then LF :: normalizeNewlines r else LF :: normalizeNewlines (c :: r)) else b :: normalizeNewlines (c :: r)

def message (chunk : Bytes) : Bytes :=
  ((splitOn LF (normalizeNewlines chunk)).map fun line => dataPrefix ++ line ++ [LF]).flatten ++ [LF]

def hexDigit (n : Nat) : UInt8 := if n < 10 then (48 + n).toUInt8 else (87 + n).toUInt8
def hexNoLeading : Nat → Nat → Bytes      -- fuel, n
  | 0, _ => []
  | f + 1, n => if n < 16 then [hexDigit n] else hexNoLeading f (n / 16) ++ [hexDigit (n % 16)]

def chunkOf (msg : Bytes) : Bytes := hexNoLeading 16 msg.length ++ [CR, LF] ++ msg ++ [CR, LF]
def body (items : List Bytes) : Bytes := (items.map fun c => chunkOf (message c)).flatten ++ [48, CR, LF, CR, LF]


end Ohkami.Sse
