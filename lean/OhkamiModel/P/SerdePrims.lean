import OhkamiModel.P.SerdeRT
import OhkamiModel.Http
/-! The concrete std models the driver runs (`str::parse`, UTF-8 scalar decoding), and the proof that they satisfy
    the integer part of `PrimsOK`: the reader's number parser inverts the writer's number printer. -/
namespace Ohkami.Serde.Concrete
open Ohkami Ohkami.Serde

-- Rust `str::parse::<uN / iN>`: optional sign ('+' always, '-' for signed), at least one digit, in range
def splitSign : Bytes → Bool × Bytes
  | 43 :: r => (false, r)
  | 45 :: r => (true, r)
  | r => (false, r)
def parseInt (signed : Bool) (bits : Nat) (s : Bytes) : Option Int :=
  let (neg, ds) := splitSign s
  if s.head? == some 45 && !signed then none else
  if ds.isEmpty || !ds.all (fun b => 48 ≤ b && b ≤ 57) then none else
  let n : Nat := ds.foldl (fun n b => 10 * n + (b.toNat - 48)) 0
  let z : Int := if neg then -(n : Int) else n
  let (lo, hi) : Int × Int := if signed then (-(2 ^ (bits - 1) : Int), (2 ^ (bits - 1) : Int) - 1) else (0, (2 ^ bits : Int) - 1)
  if lo ≤ z ∧ z ≤ hi then some z else none

-- code points of valid UTF-8
def utf8Chars : Bytes → Option (List Nat)
  | [] => some []
  | b0 :: rest =>
    if b0 < 0x80 then (utf8Chars rest).map (b0.toNat :: ·)
    else if b0 < 0xE0 then match rest with
      | b1 :: r => (utf8Chars r).map (((b0.toNat - 0xC0) * 64 + (b1.toNat - 0x80)) :: ·)
      | _ => none
    else if b0 < 0xF0 then match rest with
      | b1 :: b2 :: r => (utf8Chars r).map (((b0.toNat - 0xE0) * 4096 + (b1.toNat - 0x80) * 64 + (b2.toNat - 0x80)) :: ·)
      | _ => none
    else match rest with
      | b1 :: b2 :: b3 :: r => (utf8Chars r).map (((b0.toNat - 0xF0) * 262144 + (b1.toNat - 0x80) * 4096 + (b2.toNat - 0x80) * 64 + (b3.toNat - 0x80)) :: ·)
      | _ => none

def prims : Prims := ⟨Percent.decode, Http.validUtf8, parseInt, fun _ => false, utf8Chars⟩



/-! ### the number parser inverts the number printer -/
def val (ds : Bytes) : Nat := ds.foldl (fun n b => 10 * n + (b.toNat - 48)) 0
abbrev IsDigit (b : UInt8) : Prop := (48 ≤ b && b ≤ 57) = true ∧ b ≠ 43 ∧ b ≠ 45 ∧ b < 0x80

theorem digit_facts : ∀ d : Fin 10, IsDigit (48 + d.val).toUInt8 ∧ (48 + d.val).toUInt8.toNat - 48 = d.val := by
  decide

theorem natDigits_spec : ∀ (fuel n : Nat) (acc : Bytes), n < fuel →
    ∃ ds, natDigits fuel n acc = ds ++ acc ∧ ds ≠ [] ∧ (∀ b ∈ ds, IsDigit b) ∧ val ds = n := by
  intro fuel
  induction fuel with
  | zero => intro n acc h; omega
  | succ f ih =>
    intro n acc h
    unfold natDigits
    split
    · rename_i hn
      obtain ⟨hd, hv⟩ := digit_facts ⟨n, hn⟩
      refine ⟨[(48 + n).toUInt8], rfl, by simp, ?_, ?_⟩
      · intro b hb; rw [List.mem_singleton.mp hb]; exact hd
      · simp only [val, List.foldl_cons, List.foldl_nil]; simp only at hv; omega
    · rename_i hn
      obtain ⟨ds', he, hne, hdig, hval⟩ := ih (n / 10) ((48 + n % 10).toUInt8 :: acc) (by omega)
      obtain ⟨hd, hv⟩ := digit_facts ⟨n % 10, Nat.mod_lt _ (by decide)⟩
      refine ⟨ds' ++ [(48 + n % 10).toUInt8], by rw [he, List.append_assoc]; rfl, by simp, ?_, ?_⟩
      · intro b hb
        rcases List.mem_append.mp hb with hb | hb
        · exact hdig b hb
        · rw [List.mem_singleton.mp hb]; exact hd
      · simp only [val, List.foldl_append, List.foldl_cons, List.foldl_nil] at hval ⊢
        simp only at hv
        rw [hval]; omega


theorem all_digits (ds : Bytes) (hd : ∀ b ∈ ds, IsDigit b) : ds.all (fun b => 48 ≤ b && b ≤ 57) = true := by
  rw [List.all_eq_true]; intro b hb; exact (hd b hb).1

theorem parseInt_pos (signed : Bool) (bits : Nat) (d : UInt8) (tl : Bytes) (hd : ∀ b ∈ d :: tl, IsDigit b) :
    parseInt signed bits (d :: tl) =
      (let z : Int := (val (d :: tl) : Nat)
       let lo : Int := if signed then -(2 ^ (bits - 1) : Int) else 0
       let hi : Int := if signed then (2 ^ (bits - 1) : Int) - 1 else (2 ^ bits : Int) - 1
       if lo ≤ z ∧ z ≤ hi then some z else none) := by
  have h0 := hd d (by simp)
  have hall := all_digits (d :: tl) hd
  have hm : splitSign (d :: tl) = (false, d :: tl) := by
    unfold splitSign
    split
    · rename_i r heq; cases heq; exact absurd rfl h0.2.1
    · rename_i r heq; cases heq; exact absurd rfl h0.2.2.1
    · rfl
  simp only [parseInt, hm, List.head?_cons, List.isEmpty_cons, hall, val]
  cases signed <;> simp [h0.2.2.1]

theorem parseInt_neg (bits : Nat) (d : UInt8) (tl : Bytes) (hd : ∀ b ∈ d :: tl, IsDigit b) :
    parseInt true bits (45 :: d :: tl) =
      (let z : Int := -((val (d :: tl) : Nat) : Int)
       if -(2 ^ (bits - 1) : Int) ≤ z ∧ z ≤ (2 ^ (bits - 1) : Int) - 1 then some z else none) := by
  have hall := all_digits (d :: tl) hd
  have hm : splitSign (45 :: d :: tl) = (true, d :: tl) := rfl
  simp only [parseInt, hm, List.head?_cons, List.isEmpty_cons, hall, val]
  simp


theorem parse_show_U (bits : Nat) (z : Int) (h0 : 0 ≤ z) (h1 : z < 2 ^ bits) : parseInt false bits (showInt z) = some z := by
  cases z with
  | negSucc n => omega
  | ofNat n =>
    obtain ⟨ds, he, hne, hdig, hval⟩ := natDigits_spec (n + 1) n [] (by omega)
    obtain ⟨d, tl, rfl⟩ := List.exists_cons_of_ne_nil hne
    simp only [showInt, he, List.append_nil]
    rw [parseInt_pos false bits d tl hdig, hval]
    simp only [Bool.false_eq_true, if_false]
    rw [if_pos]
    · rfl
    · constructor
      · exact h0
      · simp only [Int.ofNat_eq_coe] at h1 ⊢; omega

theorem parse_show_S (bits : Nat) (z : Int) (h0 : -(2 ^ (bits - 1) : Int) ≤ z) (h1 : z < 2 ^ (bits - 1)) :
    parseInt true bits (showInt z) = some z := by
  cases z with
  | ofNat n =>
    obtain ⟨ds, he, hne, hdig, hval⟩ := natDigits_spec (n + 1) n [] (by omega)
    obtain ⟨d, tl, rfl⟩ := List.exists_cons_of_ne_nil hne
    simp only [showInt, he, List.append_nil]
    rw [parseInt_pos true bits d tl hdig, hval]
    simp only [if_true]
    rw [if_pos]
    · rfl
    · constructor
      · exact h0
      · simp only [Int.ofNat_eq_coe] at h1 ⊢; omega
  | negSucc n =>
    obtain ⟨ds, he, hne, hdig, hval⟩ := natDigits_spec (n + 2) (n + 1) [] (by omega)
    obtain ⟨d, tl, rfl⟩ := List.exists_cons_of_ne_nil hne
    simp only [showInt, he, List.append_nil]
    rw [parseInt_neg bits d tl hdig, hval]
    have hz : -((n + 1 : Nat) : Int) = Int.negSucc n := by omega
    simp only [hz]
    rw [if_pos]
    constructor
    · exact h0
    · omega

theorem ascii_valid : ∀ bs : Bytes, (∀ b ∈ bs, b < 0x80) → Http.validUtf8 bs = true := by
  intro bs
  induction bs with
  | nil => intro _; rfl
  | cons b bs ih =>
    intro h
    have hb := h b (by simp)
    unfold Http.validUtf8
    rw [if_pos hb]
    exact ih (fun x hx => h x (by simp [hx]))

theorem show_utf8 (z : Int) : Http.validUtf8 (showInt z) = true := by
  apply ascii_valid
  cases z with
  | ofNat n =>
    obtain ⟨ds, he, _, hdig, _⟩ := natDigits_spec (n + 1) n [] (by omega)
    simp only [showInt, he, List.append_nil]
    exact fun b hb => (hdig b hb).2.2.2
  | negSucc n =>
    obtain ⟨ds, he, _, hdig, _⟩ := natDigits_spec (n + 2) (n + 1) [] (by omega)
    simp only [showInt, he, List.append_nil]
    intro b hb
    rcases List.mem_cons.mp hb with rfl | hb
    · decide
    · exact (hdig b hb).2.2.2


/-! ### one scalar value survives UTF-8 encoding and decoding -/
theorem tn (n : Nat) (h : n < 256) : n.toUInt8.toNat = n := by
  simp [Nat.toUInt8]; omega

theorem utf8_1 (c : Nat) (h : c < 0x80) :
    Http.validUtf8 (utf8Enc c) = true ∧ utf8Chars (utf8Enc c) = some [c] := by
  have e : utf8Enc c = [c.toUInt8] := by unfold utf8Enc; rw [if_pos h]
  have a0 := tn c (by omega)
  rw [e]
  constructor
  · simp only [Http.validUtf8, UInt8.lt_iff_toNat_lt, a0]; simp; omega
  · simp only [utf8Chars, UInt8.lt_iff_toNat_lt, a0]; simp; omega

theorem utf8_2 (c : Nat) (h1 : 0x80 ≤ c) (h2 : c < 0x800) :
    Http.validUtf8 (utf8Enc c) = true ∧ utf8Chars (utf8Enc c) = some [c] := by
  have e : utf8Enc c = [(0xC0 + c / 64).toUInt8, (0x80 + c % 64).toUInt8] := by
    unfold utf8Enc; rw [if_neg (by omega), if_pos (by omega)]
  have a0 := tn (0xC0 + c / 64) (by omega)
  have a1 := tn (0x80 + c % 64) (by omega)
  rw [e]
  constructor
  · simp only [Http.validUtf8, Http.cont, UInt8.lt_iff_toNat_lt, UInt8.le_iff_toNat_le, a0, a1]
    simp
    split <;> omega
  · simp only [utf8Chars, UInt8.lt_iff_toNat_lt, a0, a1]
    simp
    rw [if_neg (by omega), if_pos (by omega)]
    congr 2; omega

theorem utf8_3 (c : Nat) (h1 : 0x800 ≤ c) (h2 : c < 0x10000) (hs : c < 0xD800 ∨ 0xE000 ≤ c) :
    Http.validUtf8 (utf8Enc c) = true ∧ utf8Chars (utf8Enc c) = some [c] := by
  have e : utf8Enc c = [(0xE0 + c / 4096).toUInt8, (0x80 + c / 64 % 64).toUInt8, (0x80 + c % 64).toUInt8] := by
    unfold utf8Enc; rw [if_neg (by omega), if_neg (by omega), if_pos (by omega)]
  have a0 := tn (0xE0 + c / 4096) (by omega)
  have a1 := tn (0x80 + c / 64 % 64) (by omega)
  have a2 := tn (0x80 + c % 64) (by omega)
  rw [e]
  constructor
  · simp only [Http.validUtf8, Http.cont, UInt8.lt_iff_toNat_lt, UInt8.le_iff_toNat_le, ← UInt8.toNat_inj, a0, a1, a2]
    simp
    rw [if_neg (by omega), if_neg (by omega)]
    refine ⟨by omega, ?_, by omega⟩
    split
    · omega
    · split <;> omega
  · simp only [utf8Chars, UInt8.lt_iff_toNat_lt, a0, a1, a2]
    simp
    rw [if_neg (by omega), if_neg (by omega), if_pos (by omega)]
    congr 2; omega

theorem utf8_4 (c : Nat) (h1 : 0x10000 ≤ c) (h2 : c < 0x110000) :
    Http.validUtf8 (utf8Enc c) = true ∧ utf8Chars (utf8Enc c) = some [c] := by
  have e : utf8Enc c = [(0xF0 + c / 262144).toUInt8, (0x80 + c / 4096 % 64).toUInt8, (0x80 + c / 64 % 64).toUInt8,
      (0x80 + c % 64).toUInt8] := by
    unfold utf8Enc; rw [if_neg (by omega), if_neg (by omega), if_neg (by omega)]
  have a0 := tn (0xF0 + c / 262144) (by omega)
  have a1 := tn (0x80 + c / 4096 % 64) (by omega)
  have a2 := tn (0x80 + c / 64 % 64) (by omega)
  have a3 := tn (0x80 + c % 64) (by omega)
  rw [e]
  constructor
  · simp only [Http.validUtf8, Http.cont, UInt8.lt_iff_toNat_lt, UInt8.le_iff_toNat_le, ← UInt8.toNat_inj, a0, a1, a2, a3]
    simp
    rw [if_neg (by omega), if_neg (by omega), if_neg (by omega)]
    refine ⟨by omega, ?_, ?_⟩
    · split
      · omega
      · split <;> omega
    · first | omega | exact ⟨by omega, by omega⟩
  · simp only [utf8Chars, UInt8.lt_iff_toNat_lt, a0, a1, a2, a3]
    simp
    rw [if_neg (by omega), if_neg (by omega), if_neg (by omega)]
    congr 2; omega


theorem decode_noPct : ∀ bs : Bytes, (∀ b ∈ bs, b ≠ Percent.PCT) → Percent.decode bs = bs := by
  intro bs
  induction bs with
  | nil => intro _; simp [Percent.decode]
  | cons b bs ih =>
    intro h
    rw [Percent.decode_cons_ne b bs (h b (by simp)), ih (fun x hx => h x (by simp [hx]))]

theorem digit_ne_pct (b : UInt8) (h : IsDigit b) : b ≠ Percent.PCT := by
  rintro rfl
  revert h
  decide

theorem show_noPct (z : Int) : Percent.decode (showInt z) = showInt z := by
  apply decode_noPct
  cases z with
  | ofNat n =>
    obtain ⟨ds, he, _, hdig, _⟩ := natDigits_spec (n + 1) n [] (by omega)
    simp only [showInt, he, List.append_nil]
    exact fun b hb => digit_ne_pct b (hdig b hb)
  | negSucc n =>
    obtain ⟨ds, he, _, hdig, _⟩ := natDigits_spec (n + 2) (n + 1) [] (by omega)
    simp only [showInt, he, List.append_nil]
    intro b hb
    rcases List.mem_cons.mp hb with rfl | hb'
    · decide
    · exact digit_ne_pct b (hdig b hb')

/-- the driver's std models satisfy everything `roundtrip_struct` assumes -/
theorem prims_ok : PrimsOK prims where
  pct := Percent.decode_encode
  intU := parse_show_U
  intS := parse_show_S
  intUtf8 := show_utf8
  pctInt := show_noPct
  pctBool := ⟨decode_noPct _ (by decide), decode_noPct _ (by decide)⟩
  chr := by
    intro c hc
    by_cases h1 : c < 0x80
    · exact utf8_1 c h1
    · by_cases h2 : c < 0x800
      · exact utf8_2 c (by omega) h2
      · by_cases h3 : c < 0x10000
        · exact utf8_3 c (by omega) h3 (by omega)
        · exact utf8_4 c (by omega) (by omega)

end Ohkami.Serde.Concrete
