import OhkamiModel.P.FangsBuild
import OhkamiModel.P.FangsNodup
/-! Sibling patterns are pairwise distinct everywhere in the trie `build` yields, for every application tree: no node has two
    children of the same pattern (two param children, or two static children with the same bytes), so no registered route
    sits behind a twin that the search never enters.  Before fix 8878fb7 this failed for a parent that registers a route under
    the prefix of a mount. -/
namespace Ohkami.Fangs
open Ohkami

mutual
theorem applyFangs_nd (id : Nat) : ∀ t : BN, ND t → ND (applyFangs id t)
  | .mk p f h ks, hn => by
    obtain ⟨h1, h2⟩ := applyKids_nd id ks
    simp only [applyFangs, ND, h1]
    exact ⟨hn.1, h2 hn.2⟩
theorem applyKids_nd (id : Nat) : ∀ ks : List BN, pats (applyKids id ks) = pats ks ∧ (NDs ks → NDs (applyKids id ks))
  | [] => by simp [applyKids, pats]
  | k :: ks => by
    obtain ⟨h1, _, _⟩ := applyFangs_props id k
    obtain ⟨h4, h5⟩ := applyKids_nd id ks
    refine ⟨?_, ?_⟩
    · simp only [pats, applyKids, List.map_cons, h1] at h4 ⊢
      rw [h4]
    · intro ⟨a, b⟩
      exact ⟨applyFangs_nd id k a, h5 b⟩
end

theorem nd_foldl_register : ∀ (routes : List (Route × Nat)) (t t' : BN), TreeOK t → ND t →
    routes.foldlM (fun t rh => register t rh.1 rh.2) t = some t' → ND t' := by
  intro routes
  induction routes with
  | nil => intro t t' _ hn h; simp at h; subst h; exact hn
  | cons rh rest ih =>
    intro t t' ht hn h
    simp only [List.foldlM_cons, Option.bind_eq_bind, Option.bind_eq_some_iff] at h
    obtain ⟨t1, h1, h2⟩ := h
    obtain ⟨_, hok1⟩ := routes_register t t1 rh.1 rh.2 ht h1
    exact ih t1 t' hok1 (nd_mergeAt_leaf rh.1 t t1 (some rh.2) ht hn h1).2 h2

mutual
theorem nd_build : ∀ (cfg : App) (t : BN), build cfg = some t → ND t
  | .mk id hasFangs routes mounts, t, h => by
    simp only [build, Option.bind_eq_bind, Option.bind_eq_some_iff, Option.pure_def, Option.some.injEq] at h
    obtain ⟨t1, h1, t2, h2, rfl⟩ := h
    have hok0 : TreeOK (BN.mk none [] none []) := by simp [TreeOK, KidsOK]
    obtain ⟨_, hok1⟩ := routes_foldl_register routes _ t1 hok0 h1
    have hn1 := nd_foldl_register routes _ t1 hok0 (by simp [ND, NDs, pats]) h1
    have hn2 := nd_buildMounts mounts t1 t2 hok1 hn1 h2
    split
    · exact applyFangs_nd id t2 hn2
    · exact hn2
theorem nd_buildMounts : ∀ (mounts : List (Route × App)) (t t' : BN), TreeOK t → ND t → buildMounts t mounts = some t' → ND t'
  | [], t, t', _, hn, h => by simp [buildMounts] at h; subst h; exact hn
  | (r, a) :: rest, t, t', ht, hn, h => by
    simp only [buildMounts, Option.bind_eq_bind, Option.bind_eq_some_iff] at h
    obtain ⟨sub, hs, t1, h1, h2⟩ := h
    obtain ⟨_, hoks⟩ := routes_build a sub hs
    obtain ⟨_, _, hok1⟩ := routes_mergeAt r t sub t1 ht hoks h1
    exact nd_buildMounts rest t1 t' hok1 (nd_mergeAt r t sub t1 ht hoks hn (nd_build a sub hs) h1) h2
end

end Ohkami.Fangs
