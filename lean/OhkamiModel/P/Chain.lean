import OhkamiModel.P.RouterProofs
namespace Ohkami

/-! `greedyChain`: greedy with look-ahead over forced static chains (what single-child compression computes). -/

-- the routes all continue with one and the same static segment (node without handler, single static child)
def forcedNext (rs : List (Route × Nat)) : Option Bytes :=
  match rs with
  | [] => none
  | (.static c :: _, _) :: _ =>
    if rs.all (fun rh => match rh.1 with | .static c' :: _ => c' == c | _ => false) then some c else none
  | _ => none

-- follow the forced chain below a static child along the remaining path
def chainMatch : Nat → List (Route × Nat) → List Bytes → Option (List (Route × Nat) × List Bytes)
  | 0, rs, ss => some (rs, ss)
  | fuel + 1, rs, ss =>
    match forcedNext rs with
    | none => some (rs, ss)
    | some c =>
      match ss with
      | s' :: ss' => if s' = c then chainMatch fuel (stepStatic rs c) ss' else none
      | [] => none

def maxLen (rs : List (Route × Nat)) : Nat := (rs.map (·.1.length)).foldl max 0

def greedyChain : Nat → List (Route × Nat) → List Bytes → Option (Nat × List Bytes)
  | 0, _, _ => none
  | _ + 1, rs, [] => (rs.find? (fun rh => rh.1 = [])).map fun rh => (rh.2, [])
  | fuel + 1, rs, s :: ss =>
    let viaStatic : Option (List (Route × Nat) × List Bytes) :=
      if s ≠ [] ∧ stepStatic rs s ≠ [] then chainMatch (ss.length + 1) (stepStatic rs s) ss else none
    match viaStatic with
    | some (rs', ss') => greedyChain fuel rs' ss'
    | none =>
      if s ≠ [] ∧ stepParam rs ≠ [] then
        (greedyChain fuel (stepParam rs) ss).map fun (h, ps) => (h, s :: ps)
      else none

-- the two examples checked on the real router
def ex1 : List (Route × Nat) := [([.static [97], .static [98]], 1), ([.param, .static [99]], 2)]
def ex2 : List (Route × Nat) := ex1 ++ [([.static [97], .static [100]], 3)]
example : greedyChain 5 ex1 [[97], [99]] = some (2, [[97]]) := by decide
example : greedyChain 5 ex2 [[97], [99]] = none := by decide
example : greedy ex1 [[97], [99]] = none := by decide

end Ohkami
