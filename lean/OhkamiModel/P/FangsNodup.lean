import OhkamiModel.P.FangsRoutes
/-! Sibling patterns stay pairwise distinct through registration (first conjunct of B.15's `TInv`): descending into
    the matching child or appending a child that matches none keeps the list of sibling patterns duplicate-free. -/
namespace Ohkami.Fangs
open Ohkami

def pats (ks : List BN) : List (Option Seg) := ks.map BN.pat

theorem patMatches_self (s : Seg) : patMatches s s = true := by
  cases s <;> simp [patMatches]

theorem updKids_pats (g : BN → Option BN) (s : Seg)
    (hg : ∀ k k', g k = some k' → k'.pat = k.pat) :
    ∀ ks ks', KidsOK ks → updKids g ks s = some ks' →
      pats ks' = pats ks ∨ (pats ks' = pats ks ++ [some s] ∧ some s ∉ pats ks) := by
  intro ks
  induction ks with
  | nil =>
    intro ks' _ h
    simp only [updKids, Option.map_eq_some_iff] at h
    obtain ⟨k', hk', rfl⟩ := h
    right
    have := hg _ k' hk'
    have e : k'.pat = some s := this
    simp [pats, e]
  | cons k ks ih =>
    intro ks' hok h
    obtain ⟨hkp, _, hoks⟩ := hok
    obtain ⟨p, hp⟩ := Option.isSome_iff_exists.mp hkp
    simp only [updKids] at h
    split at h
    · simp only [Option.map_eq_some_iff] at h
      obtain ⟨k', hk', rfl⟩ := h
      left
      simp [pats, hg k k' hk']
    · rename_i hm
      simp only [hp, Option.map_some, Option.getD_some] at hm
      simp only [Option.map_eq_some_iff] at h
      obtain ⟨ks2, hks2, rfl⟩ := h
      rcases ih ks2 hoks hks2 with h1 | ⟨h1, h2⟩
      · left; simp only [pats, List.map_cons] at h1 ⊢; rw [h1]
      · right
        refine ⟨by simp only [pats, List.map_cons, List.cons_append] at h1 ⊢; rw [h1], ?_⟩
        simp only [pats, List.map_cons, List.mem_cons, not_or] at h2 ⊢
        refine ⟨?_, h2⟩
        rw [hp]
        intro e
        cases e
        exact hm (patMatches_self s)

/-- registration never creates two siblings with the same pattern -/
theorem updKids_nodup (g : BN → Option BN) (s : Seg) (hg : ∀ k k', g k = some k' → k'.pat = k.pat)
    (ks ks' : List BN) (hok : KidsOK ks) (h : updKids g ks s = some ks') (hn : (pats ks).Nodup) : (pats ks').Nodup := by
  rcases updKids_pats g s hg ks ks' hok h with h1 | ⟨h1, h2⟩
  · rw [h1]; exact hn
  · rw [h1]
    exact List.nodup_append.mpr ⟨hn, by simp, by intro a ha b hb; simp at hb; subst hb; intro e; subst e; exact h2 ha⟩


mutual
def ND : BN → Prop
  | .mk _ _ _ ks => (pats ks).Nodup ∧ NDs ks
def NDs : List BN → Prop
  | [] => True
  | k :: ks => ND k ∧ NDs ks
end

theorem updKids_nds (g : BN → Option BN) (s : Seg) (hg : ∀ k k', TreeOK k → ND k → g k = some k' → ND k') :
    ∀ ks ks', KidsOK ks → NDs ks → updKids g ks s = some ks' → NDs ks' := by
  intro ks
  induction ks with
  | nil =>
    intro ks' _ _ h
    simp only [updKids, Option.map_eq_some_iff] at h
    obtain ⟨k', hk', rfl⟩ := h
    exact ⟨hg _ k' (by simp [TreeOK, KidsOK]) (by simp [ND, NDs, pats]) hk', trivial⟩
  | cons k ks ih =>
    intro ks' hok hnd h
    obtain ⟨_, hkt, hoks⟩ := hok
    simp only [updKids] at h
    split at h
    · simp only [Option.map_eq_some_iff] at h
      obtain ⟨k', hk', rfl⟩ := h
      exact ⟨hg k k' hkt hnd.1 hk', hnd.2⟩
    · simp only [Option.map_eq_some_iff] at h
      obtain ⟨ks2, hks2, rfl⟩ := h
      exact ⟨hnd.1, ih ks2 hoks hnd.2 hks2⟩

theorem mergeAt_pat (r : Route) (t sub t' : BN) (h : mergeAt r t sub = some t') : t'.pat = t.pat := by
  obtain ⟨p, f, hh, ks⟩ := t
  obtain ⟨p', f', hh', ks'⟩ := sub
  cases r with
  | nil =>
    simp only [mergeAt] at h
    split at h
    · cases h
    split at h
    · cases h
    · cases h; rfl
  | cons s rest =>
    simp only [mergeAt, Option.map_eq_some_iff] at h
    obtain ⟨ks2, _, rfl⟩ := h
    rfl

/-- **Registering a handler keeps sibling patterns distinct everywhere in the trie.** (`sub` is the one-node tree of
    `register`; for a mounted application the same holds when the mount node is new, which the property's side
    condition guarantees.) -/
theorem nd_mergeAt_leaf : ∀ (r : Route) (t t' : BN) (h' : Option Nat), TreeOK t → ND t →
    mergeAt r t (.mk none [] h' []) = some t' → t'.pat = t.pat ∧ ND t' := by
  intro r
  induction r with
  | nil =>
    intro t t' h' _ hnd h
    obtain ⟨p, f, hh, ks⟩ := t
    simp only [mergeAt] at h
    split at h
    · cases h
    split at h
    · cases h
    · cases h
      refine ⟨rfl, ?_⟩
      simpa [ND] using hnd
  | cons s rest ih =>
    intro t t' h' ht hnd h
    obtain ⟨p, f, hh, ks⟩ := t
    simp only [mergeAt, Option.map_eq_some_iff] at h
    obtain ⟨ks', hks', rfl⟩ := h
    refine ⟨rfl, ?_⟩
    have hpat : ∀ k k', TreeOK k → ND k → mergeAt rest k (.mk none [] h' []) = some k' → k'.pat = k.pat ∧ ND k' :=
      fun k k' hk hn hm => ih k k' h' hk hn hm
    obtain ⟨hn1, hn2⟩ := hnd
    refine ⟨?_, ?_⟩
    · exact updKids_nodup _ s (fun k k' hm => mergeAt_pat rest k _ k' hm) ks ks' ht hks' hn1
    · exact updKids_nds _ s (fun k k' hk hn hm => (hpat k k' hk hn hm).2) ks ks' ht hn2 hks'

end Ohkami.Fangs
