import OhkamiModel.P.FangsRoutes
/-! Sibling patterns stay pairwise distinct through registration (first conjunct of B.15's `TInv`): descending into
    the matching child or appending a child that matches none keeps the list of sibling patterns duplicate-free. -/
namespace Ohkami.Fangs
open Ohkami

def pats (ks : List BN) : List (Option Seg) := ks.map BN.pat

theorem patMatches_self (s : Seg) : patMatches s s = true := by
  cases s <;> simp [patMatches]

theorem updKids_pats (g : BN → Option BN) (s : Seg)
    (hg : ∀ k k', g k = some k' → k'.pat = k.pat) :
    ∀ ks ks', KidsOK ks → updKids g ks s = some ks' →
      pats ks' = pats ks ∨ (pats ks' = pats ks ++ [some s] ∧ some s ∉ pats ks) := by
  intro ks
  induction ks with
  | nil =>
    intro ks' _ h
    simp only [updKids, Option.map_eq_some_iff] at h
    obtain ⟨k', hk', rfl⟩ := h
    right
    have := hg _ k' hk'
    have e : k'.pat = some s := this
    simp [pats, e]
  | cons k ks ih =>
    intro ks' hok h
    obtain ⟨hkp, _, hoks⟩ := hok
    obtain ⟨p, hp⟩ := Option.isSome_iff_exists.mp hkp
    simp only [updKids] at h
    split at h
    · simp only [Option.map_eq_some_iff] at h
      obtain ⟨k', hk', rfl⟩ := h
      left
      simp [pats, hg k k' hk']
    · rename_i hm
      simp only [hp, Option.map_some, Option.getD_some] at hm
      simp only [Option.map_eq_some_iff] at h
      obtain ⟨ks2, hks2, rfl⟩ := h
      rcases ih ks2 hoks hks2 with h1 | ⟨h1, h2⟩
      · left; simp only [pats, List.map_cons] at h1 ⊢; rw [h1]
      · right
        refine ⟨by simp only [pats, List.map_cons, List.cons_append] at h1 ⊢; rw [h1], ?_⟩
        simp only [pats, List.map_cons, List.mem_cons, not_or] at h2 ⊢
        refine ⟨?_, h2⟩
        rw [hp]
        intro e
        cases e
        exact hm (patMatches_self s)

/-- registration never creates two siblings with the same pattern -/
theorem updKids_nodup (g : BN → Option BN) (s : Seg) (hg : ∀ k k', g k = some k' → k'.pat = k.pat)
    (ks ks' : List BN) (hok : KidsOK ks) (h : updKids g ks s = some ks') (hn : (pats ks).Nodup) : (pats ks').Nodup := by
  rcases updKids_pats g s hg ks ks' hok h with h1 | ⟨h1, h2⟩
  · rw [h1]; exact hn
  · rw [h1]
    exact List.nodup_append.mpr ⟨hn, by simp, by intro a ha b hb; simp at hb; subst hb; intro e; subst e; exact h2 ha⟩


mutual
def ND : BN → Prop
  | .mk _ _ _ ks => (pats ks).Nodup ∧ NDs ks
def NDs : List BN → Prop
  | [] => True
  | k :: ks => ND k ∧ NDs ks
end

theorem updKids_nds (g : BN → Option BN) (s : Seg) (hg : ∀ k k', TreeOK k → ND k → g k = some k' → ND k') :
    ∀ ks ks', KidsOK ks → NDs ks → updKids g ks s = some ks' → NDs ks' := by
  intro ks
  induction ks with
  | nil =>
    intro ks' _ _ h
    simp only [updKids, Option.map_eq_some_iff] at h
    obtain ⟨k', hk', rfl⟩ := h
    exact ⟨hg _ k' (by simp [TreeOK, KidsOK]) (by simp [ND, NDs, pats]) hk', trivial⟩
  | cons k ks ih =>
    intro ks' hok hnd h
    obtain ⟨_, hkt, hoks⟩ := hok
    simp only [updKids] at h
    split at h
    · simp only [Option.map_eq_some_iff] at h
      obtain ⟨k', hk', rfl⟩ := h
      exact ⟨hg k k' hkt hnd.1 hk', hnd.2⟩
    · simp only [Option.map_eq_some_iff] at h
      obtain ⟨ks2, hks2, rfl⟩ := h
      exact ⟨hnd.1, ih ks2 hoks hnd.2 hks2⟩

theorem mergeParts_pat (t a t' : BN) (h : mergeParts t a = some t') : t'.pat = t.pat := by
  obtain ⟨p, f, hh, ks⟩ := t
  obtain ⟨p', f', hh', ks'⟩ := a
  simp only [mergeParts] at h
  split at h
  · cases h
  · simp only [Option.map_eq_some_iff] at h
    obtain ⟨ks2, _, rfl⟩ := h
    rfl

theorem not_mem_pats_of_noMatch (ks : List BN) (s : Seg) (h : hasMatch ks s = false) : some s ∉ pats ks := by
  intro hm
  simp only [pats, List.mem_map] at hm
  obtain ⟨k, hk, hp⟩ := hm
  have : hasMatch ks s = true := by
    simp only [hasMatch, List.any_eq_true]
    exact ⟨k, hk, by simp [hp, patMatches_self]⟩
  simp [h] at this

theorem nds_append : ∀ a b : List BN, NDs a → NDs b → NDs (a ++ b) := by
  intro a b ha hb
  induction a with
  | nil => simpa using hb
  | cons k ks ih => exact ⟨ha.1, ih ha.2⟩

mutual
theorem nd_mergeParts : ∀ (t a t' : BN), TreeOK t → TreeOK a → ND t → ND a → mergeParts t a = some t' → ND t'
  | .mk p f h ks, .mk p' f' h' ks', t', ht, ha, hnt, hna, hm => by
    simp only [mergeParts] at hm
    split at hm
    · cases hm
    · simp only [Option.map_eq_some_iff] at hm
      obtain ⟨ks2, hk2, rfl⟩ := hm
      exact nd_mergeKids ks ks' ks2 ht ha hnt.1 hnt.2 hna.2 hk2
theorem nd_mergeKids : ∀ (ks cs ks' : List BN), KidsOK ks → KidsOK cs → (pats ks).Nodup → NDs ks → NDs cs →
    mergeKids ks cs = some ks' → (pats ks').Nodup ∧ NDs ks'
  | ks, [], ks', _, _, hn, hnd, _, hm => by
    simp only [mergeKids, Option.some.injEq] at hm; subst hm; exact ⟨hn, hnd⟩
  | ks, c :: cs, ks', hk, hc, hn, hnd, hnc, hm => by
    obtain ⟨hcp, hct, hcs⟩ := hc
    obtain ⟨s, hs⟩ := Option.isSome_iff_exists.mp hcp
    simp only [mergeKids, hs] at hm
    split at hm
    · simp only [Option.bind_eq_some_iff] at hm
      obtain ⟨ks2, h2, h3⟩ := hm
      have hg : ∀ k k', TreeOK k → k.pat = some s → mergeParts k c = some k' →
          k'.pat = some s ∧ (routesOfBN k').Perm (routesOfBN k ++ routesOfBN c) ∧ TreeOK k' := by
        intro k k' hk' hp hm'
        obtain ⟨h1, h2, h3⟩ := routes_mergeParts k c k' hk' hct hm'
        exact ⟨h1.trans hp, h2, h3⟩
      obtain ⟨_, hok2⟩ := routes_updKids (fun k => mergeParts k c) s _ hg ks ks2 hk h2
      have hn2 := updKids_nodup _ s (fun k k' hm' => mergeParts_pat k c k' hm') ks ks2 hk h2 hn
      have hnd2 := updKids_nds _ s (fun k k' hk' hnk hm' => nd_mergeParts k c k' hk' hct hnk hnc.1 hm') ks ks2 hk hnd h2
      exact nd_mergeKids ks2 cs ks' hok2 hcs hn2 hnd2 hnc.2 h3
    · rename_i hno
      have hno' : hasMatch ks s = false := by simpa using hno
      refine nd_mergeKids (ks ++ [c]) cs ks' (kidsOK_append ks [c] hk ⟨hcp, hct, trivial⟩) hcs ?_ (nds_append ks [c] hnd ⟨hnc.1, trivial⟩) hnc.2 hm
      simp only [pats, List.map_append, List.map_cons, List.map_nil, hs]
      exact List.nodup_append.mpr ⟨hn, by simp, by
        intro a ha b hb; simp at hb; subst hb; intro e; subst e; exact not_mem_pats_of_noMatch ks s hno' ha⟩
end

theorem mergeAt_pat (r : Route) (t sub t' : BN) (h : mergeAt r t sub = some t') : t'.pat = t.pat := by
  cases r with
  | nil => simp only [mergeAt] at h; exact mergeParts_pat t sub t' h
  | cons s rest =>
    obtain ⟨p, f, hh, ks⟩ := t
    simp only [mergeAt, Option.map_eq_some_iff] at h
    obtain ⟨ks2, _, rfl⟩ := h
    rfl

/-- **Registering a handler and mounting an application keep sibling patterns distinct everywhere in the trie**: whatever the
    parent already has under the mount point (since fix 8878fb7 the mounted tree is merged node by node). -/
theorem nd_mergeAt : ∀ (r : Route) (t sub t' : BN), TreeOK t → TreeOK sub → ND t → ND sub →
    mergeAt r t sub = some t' → ND t' := by
  intro r
  induction r with
  | nil =>
    intro t sub t' ht hs hnd hns h
    simp only [mergeAt] at h
    exact nd_mergeParts t sub t' ht hs hnd hns h
  | cons s rest ih =>
    intro t sub t' ht hs hnd hns h
    obtain ⟨p, f, hh, ks⟩ := t
    simp only [mergeAt, Option.map_eq_some_iff] at h
    obtain ⟨ks', hks', rfl⟩ := h
    obtain ⟨hn1, hn2⟩ := hnd
    refine ⟨?_, ?_⟩
    · exact updKids_nodup _ s (fun k k' hm => mergeAt_pat rest k _ k' hm) ks ks' ht hks' hn1
    · exact updKids_nds _ s (fun k k' hk hn hm => ih k sub k' hk hs hn hns hm) ks ks' ht hn2 hks'

theorem nd_mergeAt_leaf (r : Route) (t t' : BN) (h' : Option Nat) (ht : TreeOK t) (hnd : ND t)
    (h : mergeAt r t (.mk none [] h' []) = some t') : t'.pat = t.pat ∧ ND t' :=
  ⟨mergeAt_pat r t _ t' h, nd_mergeAt r t _ t' ht (by simp [TreeOK, KidsOK]) hnd (by simp [ND, NDs, pats]) h⟩

end Ohkami.Fangs
