import OhkamiModel.P.Final
namespace Ohkami

/-! finalisation: single-child compression, child sort, byte patterns (`impl From<base::Node> for Node`) -/

-- children order of the final tree: static patterns first, the param child last
-- (the code sorts the static ones reverse-alphabetically; their mutual order is shown not to matter)
def sortK (ks : List RNode) : List RNode :=
  ks.filter (fun k => k.pat != .param) ++ ks.filter (fun k => k.pat == .param)

mutual
-- the compression loop for a node whose (merged) static pattern so far is `acc`
def finStatic (acc : Bytes) (h : Option Nat) (ks : List BNode) : RNode :=
  match h, ks with
  | none, [.mk (.static c) h' ks'] => finStatic (acc ++ slash :: c) h' ks'
  | none, [] => .mk (.static acc) none (sortK (finKids []))
  | none, [.mk .param h' ks'] => .mk (.static acc) none (sortK (finKids [.mk .param h' ks']))
  | none, k1 :: k2 :: rest => .mk (.static acc) none (sortK (finKids (k1 :: k2 :: rest)))
  | some x, ks => .mk (.static acc) (some x) (sortK (finKids ks))
termination_by (sizeOf ks, 1)
decreasing_by
  all_goals simp_wf
  · left; omega
  all_goals (right; omega)
def finKids (ks : List BNode) : List RNode :=
  match ks with
  | [] => []
  | (.mk (.static c) h ks') :: rest => finStatic (slash :: c) h ks' :: finKids rest
  | (.mk .param h ks') :: rest => .mk .param h (sortK (finKids ks')) :: finKids rest
termination_by (sizeOf ks, 0)
decreasing_by
  all_goals simp_wf
  all_goals (left; omega)
end

def finalize : BNode → RNode
  | .mk _ h ks => finStatic [] h ks

-- the two routers of the experiment, at byte level
def tABD : BNode := .mk .param none [.mk (.static [97]) none [.mk (.static [98]) (some 1) [], .mk (.static [100]) (some 3) []], .mk .param none [.mk (.static [99]) (some 2) []]]

end Ohkami

namespace Ohkami

-- the forced chain below a node body `(h, ks)` and the body at its end
def chainEnd (h : Option Nat) (ks : List BNode) : List Bytes × Option Nat × List BNode :=
  match h, ks with
  | none, [.mk (.static c) h' ks'] => let r := chainEnd h' ks'; (c :: r.1, r.2)
  | none, [] => ([], none, [])
  | none, [.mk .param h' ks'] => ([], none, [.mk .param h' ks'])
  | none, k1 :: k2 :: rest => ([], none, k1 :: k2 :: rest)
  | some x, ks => ([], some x, ks)
termination_by sizeOf ks
decreasing_by simp_wf; omega

theorem joinSegs_append (a b : List Bytes) : joinSegs (a ++ b) = joinSegs a ++ joinSegs b := by
  induction a with
  | nil => simp [joinSegs]
  | cons s a ih => simp [joinSegs, ih]

/-- what compression produces: one node whose pattern is the whole forced chain -/
theorem finStatic_eq (pre : List Bytes) (h : Option Nat) (ks : List BNode) :
    finStatic (joinSegs pre) h ks =
      .mk (.static (joinSegs (pre ++ (chainEnd h ks).1))) (chainEnd h ks).2.1 (sortK (finKids (chainEnd h ks).2.2)) := by
  fun_induction chainEnd h ks generalizing pre with
  | case1 c h' ks' r ih =>
    rw [finStatic]
    have : joinSegs pre ++ slash :: c = joinSegs (pre ++ [c]) := by simp [joinSegs_append, joinSegs]
    rw [this, ih (pre ++ [c])]
    simp only [List.append_assoc, List.singleton_append]
    rfl
  | case2 => rw [finStatic]; simp
  | case3 h' ks' => rw [finStatic]; simp
  | case4 k1 k2 rest => rw [finStatic]; simp
  | case5 x ks => rw [finStatic]; simp

end Ohkami

namespace Ohkami

/-- following the chain on the request's side = comparing with the chain compression merged -/
theorem followChain_chainEnd (h : Option Nat) (ks : List BNode) :
    ∀ (fuel : Nat) (p : Seg) (ss : List Bytes), ss.length < fuel →
    (followChain fuel (.mk p h ks) ss).map (fun r => (r.1.handler, r.1.kids, r.2)) =
      if (chainEnd h ks).1.isPrefixOf ss then some ((chainEnd h ks).2.1, (chainEnd h ks).2.2, ss.drop (chainEnd h ks).1.length) else none := by
  fun_induction chainEnd h ks with
  | case1 c h' ks' r ih =>
    intro fuel p ss hf
    cases fuel with
    | zero => omega
    | succ f =>
      simp only [followChain]
      cases ss with
      | nil => simp [List.isPrefixOf]
      | cons s' ss' =>
        by_cases hc : s' = c
        · subst hc
          simp only [if_true]
          rw [ih f (.static s') ss' (by simp at hf; omega)]
          simp [List.isPrefixOf, r]
        · have : ¬ (c = s') := fun e => hc e.symm
          simp [List.isPrefixOf, hc, this]
  | case2 =>
    intro fuel p ss hf
    cases fuel with
    | zero => omega
    | succ f => simp [followChain, List.isPrefixOf, BNode.handler, BNode.kids]
  | case3 h' ks' =>
    intro fuel p ss hf
    cases fuel with
    | zero => omega
    | succ f => simp [followChain, List.isPrefixOf, BNode.handler, BNode.kids]
  | case4 k1 k2 rest =>
    intro fuel p ss hf
    cases fuel with
    | zero => omega
    | succ f => simp [followChain, List.isPrefixOf, BNode.handler, BNode.kids]
  | case5 x ks =>
    intro fuel p ss hf
    cases fuel with
    | zero => omega
    | succ f => simp [followChain, List.isPrefixOf, BNode.handler, BNode.kids]

/-- `lookupC` looks only at a node's handler and children -/
theorem lookupC_body (fuel : Nat) (n n' : BNode) (segs : List Bytes) (hh : n.handler = n'.handler) (hk : n.kids = n'.kids) :
    lookupC fuel n segs = lookupC fuel n' segs := by
  cases fuel with
  | zero => simp [lookupC]
  | succ f =>
    cases segs with
    | nil => simp [lookupC, hh]
    | cons s ss => simp only [lookupC, hk]

end Ohkami
