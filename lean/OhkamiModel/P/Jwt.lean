import OhkamiModel.P.B64Main
/-! C12 model: `JWT::verified` (after F15, F16) with `mac`, JSON and the clock as parameters; base64url concrete. -/
namespace Ohkami.Jwt
open Ohkami.B64

def DOT : UInt8 := 46

-- minimal JSON view the fang needs: a claim is absent, a number (as a rational num/den with sign), or something else
inductive Claim where
  | absent
  | num (neg : Bool) (n d : Nat)      -- ±n/d, d > 0
  | other
deriving DecidableEq, Repr

structure Json where
  typ : Option (Option Bytes)   -- none: no "typ"; some none: present but not a string; some (some s)
  cty : Option (Option Bytes)
  alg : Option (Option Bytes)
  nbf : Claim
  exp : Claim
  iat : Claim
  payload : Nat                 -- opaque handle of the whole JSON value (what `from_value` sees)

inductive Alg where | HS256 | HS384 | HS512 deriving DecidableEq, Repr
def Alg.str : Alg → Bytes
  | .HS256 => [72, 83, 50, 53, 54] | .HS384 => [72, 83, 51, 56, 52] | .HS512 => [72, 83, 53, 49, 50]

structure Env where
  mac : Alg → Bytes → Bytes → Bytes          -- HMAC-SHA2 (parameter)
  jsonParse : Bytes → Option Json            -- serde_json::from_slice (parameter)
  b64urlDec : Bytes → Option Bytes           -- URL_SAFE_NO_PAD decode (concrete in the project; parameter here)
  fromValue : Nat → Option Nat               -- serde_json::from_value::<Payload> (parameter)
  now : Nat

inductive Out where
  | admit (payload : Nat)
  | status (code : Nat)
deriving DecidableEq, Repr

def lowerEq (a : Bytes) (b : Bytes) : Bool := a.map (fun c => if 65 ≤ c && c ≤ 90 then c + 32 else c) == b
def jwtLower : Bytes := [106, 119, 116]

-- t > now / t ≤ now on exact rationals
def gtNow (c : Claim) (now : Nat) : Bool := match c with | .num false n d => n > now * d | _ => false
def leNow (c : Claim) (now : Nat) : Bool := match c with | .num true _ _ => true | .num false n d => n ≤ now * d | _ => false

def splitDots : Bytes → List Bytes
  | [] => [[]]
  | b :: bs =>
    match splitDots bs with
    | [] => [[]]
    | l :: ls => if b = DOT then [] :: l :: ls else (b :: l) :: ls

def bearer : Bytes := [66, 101, 97, 114, 101, 114, 32]

-- `typ` / `cty`, when present, must be the string "JWT" in any letter case
def tagOk (t : Option (Option Bytes)) : Bool :=
  match t with | none => true | some (some s) => lowerEq s jwtLower | some none => false
def futureBad (c : Claim) (now : Nat) : Bool := c != .absent && (c == .other || gtNow c now)
def pastBad (c : Claim) (now : Nat) : Bool := c != .absent && (c == .other || leNow c now)

def verified (E : Env) (alg : Alg) (secret : Bytes) (isOptions : Bool) (auth : Option Bytes) : Out :=
  if isOptions then .status 200 else
  match auth with
  | none => .status 401
  | some v =>
    if !bearer.isPrefixOf v then .status 401 else
    match splitDots (v.drop bearer.length) with
    | [] => .status 401
    | hp :: rest1 =>
      match (E.b64urlDec hp).bind E.jsonParse with
      | none => .status 400
      | some hdr =>
        if !tagOk hdr.typ then .status 400 else
        if !tagOk hdr.cty then .status 400 else
        match hdr.alg with
        | none => .status 401
        | some a =>
          if a != some alg.str then .status 400 else
          match rest1 with
          | [] => .status 401
          | pp :: rest2 =>
            match (E.b64urlDec pp).bind E.jsonParse with
            | none => .status 400
            | some pl =>
              -- F15: a claim that is present must be a number; nbf/iat not in the future, exp in the future
              if futureBad pl.nbf E.now then .status 401 else
              if pastBad pl.exp E.now then .status 401 else
              if futureBad pl.iat E.now then .status 401 else
              match rest2 with
              | [] => .status 401
              | sp :: rest3 =>
                match E.b64urlDec sp with
                | none => .status 401
                | some sig =>
                  if !rest3.isEmpty then .status 401 else      -- F16
                  if sig != E.mac alg secret (hp ++ [DOT] ++ pp) then .status 401 else
                  match E.fromValue pl.payload with
                  | none => .status 500
                  | some p => .admit p

def claimsAdmit (pl : Json) (now : Nat) : Prop :=
  futureBad pl.nbf now = false ∧ pastBad pl.exp now = false ∧ futureBad pl.iat now = false

-- what "admit the current time" means for one claim, on examples (now = 100)
example : futureBad .absent 100 = false ∧ futureBad .other 100 = true ∧ futureBad (.num false 101 1) 100 = true
    ∧ futureBad (.num false 201 2) 100 = true ∧ futureBad (.num false 100 1) 100 = false ∧ futureBad (.num true 5 1) 100 = false := by decide
example : pastBad .absent 100 = false ∧ pastBad .other 100 = true ∧ pastBad (.num false 100 1) 100 = true
    ∧ pastBad (.num false 201 2) 100 = false ∧ pastBad (.num true 5 1) 100 = true := by decide

/-- C12, soundness: the handler runs only for `Bearer h.p.s` with exactly three parts, whose signature is the MAC of
    `h.p` under the configured secret and algorithm, whose header names that algorithm, whose time claims admit `now`;
    and the payload handed on is the signed payload. -/
theorem admit_sound (E : Env) (alg : Alg) (secret : Bytes) (isOptions : Bool) (auth : Option Bytes) (p : Nat)
    (h : verified E alg secret isOptions auth = .admit p) :
    isOptions = false ∧ ∃ v hp pp sp hdr pl, auth = some v ∧ bearer.isPrefixOf v = true ∧
      splitDots (v.drop bearer.length) = [hp, pp, sp] ∧
      (E.b64urlDec hp).bind E.jsonParse = some hdr ∧ hdr.alg = some (some alg.str) ∧
      (E.b64urlDec pp).bind E.jsonParse = some pl ∧ claimsAdmit pl E.now ∧
      E.b64urlDec sp = some (E.mac alg secret (hp ++ [DOT] ++ pp)) ∧ E.fromValue pl.payload = some p := by
  unfold verified at h
  split at h
  · simp at h
  next hopt =>
  refine ⟨by simpa using hopt, ?_⟩
  split at h
  · simp at h
  next v =>
  split at h
  · simp at h
  next hb =>
  split at h
  · simp at h
  next hp rest1 hsplit =>
  split at h
  · simp at h
  next hdr hhdr =>
  split at h
  · simp at h
  next htyp =>
  split at h
  · simp at h
  next hcty =>
  split at h
  · simp at h
  next a ha =>
  split at h
  · simp at h
  next halg =>
  split at h
  · simp at h
  next pp rest2 =>
  split at h
  · simp at h
  next pl hpl =>
  split at h
  · simp at h
  next hnbf =>
  split at h
  · simp at h
  next hexp =>
  split at h
  · simp at h
  next hiat =>
  split at h
  · simp at h
  next sp rest3 =>
  split at h
  · simp at h
  next sig hsig =>
  split at h
  · simp at h
  next hr3 =>
  split at h
  · simp at h
  next hmac =>
  split at h
  · simp at h
  next p' hfv =>
  have hpe : p' = p := by simpa using h
  subst hpe
  have hr3' : rest3 = [] := by simpa using hr3
  subst hr3'
  have hmac' : sig = E.mac alg secret (hp ++ [DOT] ++ pp) := by simpa using hmac
  have halg' : a = some alg.str := by simpa using halg
  exact ⟨v, hp, pp, sp, hdr, pl, rfl, by simpa using hb, hsplit, hhdr, by rw [ha, halg'], hpl,
    ⟨by simpa using hnbf, by simpa using hexp, by simpa using hiat⟩, by rw [hsig, hmac'], hfv⟩

end Ohkami.Jwt
