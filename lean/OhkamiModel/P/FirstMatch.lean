import OhkamiModel.P.Finalize
namespace Ohkami

def finKid : BNode → RNode
  | .mk (.static c) h ks' => finStatic (slash :: c) h ks'
  | .mk .param h ks' => .mk .param h (sortK (finKids ks'))

theorem finKids_eq_map : ∀ ks : List BNode, finKids ks = ks.map finKid := by
  intro ks
  induction ks with
  | nil => rw [finKids]; rfl
  | cons k ks ih =>
    obtain ⟨p, h, ks'⟩ := k
    cases p with
    | static c => rw [finKids, ih]; rfl
    | param => rw [finKids, ih]; rfl

theorem finKid_static (c : Bytes) (h : Option Nat) (ks' : List BNode) :
    finKid (.mk (.static c) h ks') =
      .mk (.static (joinSegs (c :: (chainEnd h ks').1))) (chainEnd h ks').2.1 (sortK (finKids (chainEnd h ks').2.2)) := by
  have := finStatic_eq [c] h ks'
  simp only [joinSegs, List.append_nil, List.singleton_append] at this
  simpa [finKid, joinSegs] using this

theorem firstMatch_append (a b : List RNode) (bytes : Bytes) :
    firstMatch (a ++ b) bytes = (match firstMatch a bytes with | some r => some r | none => firstMatch b bytes) := by
  induction a with
  | nil => simp [firstMatch]
  | cons k a ih =>
    simp only [List.cons_append, firstMatch]
    cases takeF k.pat bytes with
    | some r => simp
    | none => simpa using ih

/-! no-slash invariant of the static patterns -/
mutual
def NS : BNode → Prop
  | .mk p _ ks => (match p with | .static c => NoSlash c | .param => True) ∧ NSK ks
def NSK : List BNode → Prop
  | [] => True
  | k :: ks => NS k ∧ NSK ks
end

theorem NSK_mem : ∀ {ks : List BNode}, NSK ks → ∀ {k}, k ∈ ks → NS k := by
  intro ks
  induction ks with
  | nil => intro _ k hk; simp at hk
  | cons k0 ks ih =>
    intro h k hk
    simp only [NSK] at h
    simp only [List.mem_cons] at hk
    rcases hk with rfl | hk
    · exact h.1
    · exact ih h.2 hk

/-- the chain and the body at its end inherit the invariants -/
theorem chainEnd_inv (h : Option Nat) (ks : List BNode) :
    KInv ks → (ks.map BNode.pat).Nodup → NSK ks →
    (∀ c ∈ (chainEnd h ks).1, NoSlash c) ∧ KInv (chainEnd h ks).2.2 ∧ ((chainEnd h ks).2.2.map BNode.pat).Nodup ∧ NSK (chainEnd h ks).2.2 := by
  fun_induction chainEnd h ks with
  | case1 c h' ks' r ih =>
    intro hk hn hns
    simp only [KInv, TInv] at hk
    simp only [NSK, NS] at hns
    obtain ⟨h1, h2, h3, h4⟩ := ih hk.1.1 hk.1.2 hns.1.2
    refine ⟨?_, h2, h3, h4⟩
    intro x hx
    simp only [List.mem_cons] at hx
    rcases hx with rfl | hx
    · exact hns.1.1
    · exact h1 x hx
  | case2 => intro hk hn hns; exact ⟨by simp, hk, hn, hns⟩
  | case3 h' ks' => intro hk hn hns; exact ⟨by simp, hk, hn, hns⟩
  | case4 k1 k2 rest => intro hk hn hns; exact ⟨by simp, hk, hn, hns⟩
  | case5 x ks => intro hk hn hns; exact ⟨by simp, hk, hn, hns⟩

end Ohkami

namespace Ohkami

def staticHit (ks : List BNode) (s : Bytes) (ss : List Bytes) : Option (RNode × Bytes × Option Bytes) :=
  match findStatic ks s with
  | some (.mk p hk ksk) =>
    if (chainEnd hk ksk).1.isPrefixOf ss then
      some (finKid (.mk p hk ksk), joinSegs (ss.drop (chainEnd hk ksk).1.length), none)
    else none
  | none => none

def paramHit (ks : List BNode) (s : Bytes) (ss : List Bytes) : Option (RNode × Bytes × Option Bytes) :=
  match findParam ks with
  | some k => some (finKid k, joinSegs ss, some s)
  | none => none

theorem firstMatch_statics : ∀ (ks : List BNode) (s : Bytes) (ss : List Bytes),
    KInv ks → (ks.map BNode.pat).Nodup → NSK ks → NoSlash s → (∀ x ∈ ss, NoSlash x) →
    firstMatch ((ks.map finKid).filter (fun k => k.pat != .param)) (joinSegs (s :: ss)) = staticHit ks s ss := by
  intro ks
  induction ks with
  | nil => intro s ss _ _ _ _ _; simp [firstMatch, staticHit, findStatic]
  | cons k0 rest ih =>
    intro s ss hk hn hns hs hss
    simp only [KInv] at hk
    simp only [List.map_cons, List.nodup_cons] at hn
    simp only [NSK] at hns
    have ih' := ih s ss hk.2.2.2 hn.2 hns.2 hs hss
    obtain ⟨p0, h0, ks0⟩ := k0
    cases p0 with
    | param =>
      have hpat : (finKid (BNode.mk Seg.param h0 ks0)).pat = .param := rfl
      simp only [List.map_cons, List.filter_cons, hpat, bne_self_eq_false, Bool.false_eq_true, if_false]
      rw [ih']
      simp [staticHit, findStatic, BNode.pat]
    | static c =>
      have hti : TInv (BNode.mk (Seg.static c) h0 ks0) := hk.1
      obtain ⟨hk0, hn0⟩ := TInv_mk.mp hti
      have hns0 : NS (BNode.mk (Seg.static c) h0 ks0) := hns.1
      simp only [NS] at hns0
      obtain ⟨hcs, _, _, _⟩ := chainEnd_inv h0 ks0 hk0 hn0 hns0.2
      have hfk := finKid_static c h0 ks0
      have hpat : (finKid (BNode.mk (Seg.static c) h0 ks0)).pat = .static (joinSegs (c :: (chainEnd h0 ks0).1)) := by
        rw [hfk]; rfl
      have hne : ((finKid (BNode.mk (Seg.static c) h0 ks0)).pat != RPat.param) = true := by rw [hpat]; rfl
      rw [List.map_cons, List.filter_cons, if_pos hne]
      simp only [firstMatch, hpat, takeF]
      rw [takeStatic_chain (c :: (chainEnd h0 ks0).1) (s :: ss)
            (by intro x hx; simp only [List.mem_cons] at hx; rcases hx with rfl | hx; exact hns0.1; exact hcs x hx)
            (by intro x hx; simp only [List.mem_cons] at hx; rcases hx with rfl | hx; exact hs; exact hss x hx)]
      by_cases hcse : c = s
      · subst hcse
        have hnone : findStatic rest c = none := findStatic_none_of_not_mem rest c (by simpa [BNode.pat] using hn.1)
        by_cases hpre : (chainEnd h0 ks0).1.isPrefixOf ss = true
        · simp [List.isPrefixOf, hpre, staticHit, findStatic, BNode.pat]
        · simp only [List.isPrefixOf, beq_self_eq_true, Bool.true_and, hpre, Bool.false_eq_true, if_false, Option.map_none]
          rw [ih']
          simp [staticHit, findStatic, BNode.pat, hpre, hnone]
      · have hcs' : ¬ (Seg.static c = Seg.static s) := fun e => hcse (Seg.static.inj e)
        simp only [List.isPrefixOf, hcse, beq_iff_eq, Bool.false_and, Bool.false_eq_true, if_false, Option.map_none]
        rw [ih']
        simp [staticHit, findStatic, BNode.pat, hcs', hcse]

theorem firstMatch_params : ∀ (ks : List BNode) (s : Bytes) (ss : List Bytes), NoSlash s →
    firstMatch ((ks.map finKid).filter (fun k => k.pat == .param)) (joinSegs (s :: ss)) =
      if s ≠ [] then paramHit ks s ss else none := by
  intro ks
  induction ks with
  | nil => intro s ss _; simp [firstMatch, paramHit, findParam]
  | cons k0 rest ih =>
    intro s ss hs
    have ih' := ih s ss hs
    obtain ⟨p0, h0, ks0⟩ := k0
    cases p0 with
    | static c =>
      have hpat : (finKid (BNode.mk (Seg.static c) h0 ks0)).pat = .static (joinSegs (c :: (chainEnd h0 ks0).1)) := by
        rw [finKid_static]; rfl
      have hne : ((finKid (BNode.mk (Seg.static c) h0 ks0)).pat == RPat.param) = false := by rw [hpat]; rfl
      rw [List.map_cons, List.filter_cons, if_neg (by rw [hne]; simp)]
      rw [ih']
      simp [paramHit, findParam, BNode.pat]
    | param =>
      have hpat : (finKid (BNode.mk Seg.param h0 ks0)).pat = .param := rfl
      simp only [List.map_cons, List.filter_cons, hpat, beq_self_eq_true, if_true, firstMatch, takeF]
      rw [takeParam_join s ss hs]
      by_cases hse : s = []
      · subst hse
        simp only [ne_eq, not_true_eq_false, if_false, Option.map_none]
        rw [ih']; simp
      · simp [hse, paramHit, findParam, BNode.pat]

/-- the child loop of the final tree on `/s/ss…`: the static child with pattern `s` if its whole chain
    matches, otherwise the param child (binding `s`), provided `s` is not empty -/
theorem firstMatch_kids (ks : List BNode) (s : Bytes) (ss : List Bytes)
    (hk : KInv ks) (hn : (ks.map BNode.pat).Nodup) (hns : NSK ks) (hs : NoSlash s) (hss : ∀ x ∈ ss, NoSlash x) :
    firstMatch (sortK (finKids ks)) (joinSegs (s :: ss)) =
      (match staticHit ks s ss with
       | some r => some r
       | none => if s ≠ [] then paramHit ks s ss else none) := by
  unfold sortK
  rw [firstMatch_append, finKids_eq_map, firstMatch_statics ks s ss hk hn hns hs hss, firstMatch_params ks s ss hs]

end Ohkami
