import OhkamiModel.P.SerdeRT3
import OhkamiModel.P.SerdePrims
/-! C09, the round trip with nothing assumed about the text functions: the driver's concrete models of
    `str::parse`, `from_utf8` and percent-decoding satisfy `PrimsOK` (`prims_ok`), so `roundtrip_struct` holds for the
    very definitions the correspondence check runs against the real `to_string` / `from_bytes`. -/
namespace Ohkami.Serde
open Ohkami.Serde.Concrete

theorem roundtrip_struct_concrete (fields : List (Bytes × Ty × Bool)) (fs : List (Bytes × Value)) (text : Bytes) (fuel : Nat)
    (hw : wellTyped Http.validUtf8 (.struct fields) (.struct fs) = true)
    (hu : unamb true (.struct fs) = true)
    (hnd : (fields.map (·.1)).Nodup) (hne : ∀ n ∈ fields.map (·.1), n ≠ [])
    (he : encode true (.struct fs) = .ok text)
    (hf : szp fs + 2 ≤ fuel) :
    ∃ side, decode prims false fuel (.struct fields) ⟨text, .key⟩ = .ok (.struct fs, ⟨[], side⟩) :=
  roundtrip_struct prims prims_ok fields fs text fuel hw hu hnd hne he hf

end Ohkami.Serde
