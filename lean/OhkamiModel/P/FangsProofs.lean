import OhkamiModel.P.Fangs
namespace Ohkami.Fangs
open Ohkami

/-! ### onion order: the fold of `into_proc_with` (first of the list built first) is the onion of the reversed list -/
-- one `Fangs::build` around an inner proc, with the proc represented by the trace it produces
def buildF (passes : Nat → Bool) (f : Nat) (inner : List Ev) : List Ev :=
  if passes f then .enter f :: inner ++ [.leave f] else [.enter f]

-- `FangsList::into_proc_with` (`base.rs:63-88`): `iter.fold(most_inner.build(h.proc), |proc, fangs| fangs.build(proc))`
def intoProc (passes : Nat → Bool) (l : List Nat) (h : Option Nat) : List Ev :=
  l.foldl (fun proc f => buildF passes f proc) [.handler h]

theorem onion_foldr (passes : Nat → Bool) (h : Option Nat) :
    ∀ l, onion passes l h = l.foldr (fun f inner => buildF passes f inner) [.handler h] := by
  intro l
  induction l with
  | nil => rfl
  | cons f l ih => simp [onion, buildF, ih]

/-- **C04, order.** Whatever list of fangs a node carries (innermost first), the proc built from it lets a request
    through the fangs outermost first, then the handler, then back in reverse, and stops at the first fang that
    answers by itself. -/
theorem intoProc_onion (passes : Nat → Bool) (l : List Nat) (h : Option Nat) :
    intoProc passes l h = onion passes l.reverse h := by
  rw [onion_foldr, List.foldr_reverse]; rfl

-- an early answer cuts everything inside it: nothing after `enter f` except the `leave`s of the fangs outside
theorem early_answer (passes : Nat → Bool) (outer inner : List Nat) (f : Nat) (h : Option Nat) (hf : passes f = false)
    (hout : ∀ g ∈ outer, passes g = true) :
    onion passes (outer ++ f :: inner) h = outer.map .enter ++ [.enter f] ++ outer.reverse.map .leave := by
  induction outer with
  | nil => simp [onion, hf]
  | cons g gs ih =>
    have hg := hout g (by simp)
    have := ih (fun g' hg' => hout g' (by simp [hg']))
    simp [onion, hg, this]

/-! ### the defect F2 repairs, as theorems about the model (P with fangs mounts A with fangs at `/a`, A has `/x`) -/
def A : App := .mk 1 true [([.static [120]], 7)] []
def P1 : App := .mk 0 true [] [([.static [97]], A)]
def run (rep : Bool) (cfg : App) (ss : List Bytes) : Option (List Nat × Option Nat) :=
  (build cfg).map fun t => search 10 (finalize rep 10 t false) ss

end Ohkami.Fangs
