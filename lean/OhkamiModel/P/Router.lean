import OhkamiModel.Basic
/-! Prototype of the C01 model + spec + theorem statements (statements only). -/

namespace Ohkami

def slash : UInt8 := 47

inductive Seg where
  | static (s : Bytes)      -- segment text without the leading '/'
  | param
deriving DecidableEq, Repr, Inhabited

abbrev Route := List Seg

/-! ## Spec: greedy, segment-level, on the flat route table -/

-- routes whose next segment is the static segment `s`, with that segment consumed
def stepStatic (rs : List (Route × Nat)) (s : Bytes) : List (Route × Nat) :=
  rs.filterMap fun (r, h) =>
    match r with
    | .static x :: t => if x = s then some (t, h) else none
    | _ => none

-- routes whose next segment is a param, with that segment consumed
def stepParam (rs : List (Route × Nat)) : List (Route × Nat) :=
  rs.filterMap fun (r, h) =>
    match r with
    | .param :: t => some (t, h)
    | _ => none

def greedy : List (Route × Nat) → List Bytes → Option (Nat × List Bytes)
  | rs, [] => (rs.find? (fun rh => rh.1 = [])).map fun rh => (rh.2, [])
  | rs, s :: ss =>
    if s ≠ [] ∧ stepStatic rs s ≠ [] then greedy (stepStatic rs s) ss
    else if s ≠ [] ∧ stepParam rs ≠ [] then
      (greedy (stepParam rs) ss).map fun (h, ps) => (h, s :: ps)
    else none

-- a route matches a segment list, binding params
inductive Matches : Route → List Bytes → List Bytes → Prop
  | nil : Matches [] [] []
  | static {r segs ps} (s : Bytes) : s ≠ [] → Matches r segs ps → Matches (.static s :: r) (s :: segs) ps
  | param {r segs ps} (s : Bytes) : s ≠ [] → Matches r segs ps → Matches (.param :: r) (s :: segs) (s :: ps)

-- `r` is at least as static as `r'` at the first position where their kinds differ
inductive MoreStatic : Route → Route → Prop
  | refl (r) : MoreStatic r r
  | here (s r r') : MoreStatic (.static s :: r) (.param :: r')
  | static (s r r') : MoreStatic r r' → MoreStatic (.static s :: r) (.static s :: r')
  | param (r r') : MoreStatic r r' → MoreStatic (.param :: r) (.param :: r')

def NodupRoutes (rs : List (Route × Nat)) : Prop := (rs.map (·.1)).Nodup




/-! ## Model: final tree and byte-level search (router/final.rs) -/

inductive Pat where
  | static (bs : Bytes)     -- bytes *with* leading '/', possibly several segments, or [] at the root
  | param
deriving DecidableEq, Repr

inductive FNode where
  | mk (pat : Pat) (handler : Option Nat) (kids : List FNode)
deriving Repr

def splitNextSection : Bytes → Bytes × Bytes
  | [] => ([], [])
  | b :: bs => if b = slash then ([], b :: bs) else
      let (a, r) := splitNextSection bs; (b :: a, r)

-- `Pattern::take_through` (with the segment-boundary condition of the planned fix as a flag)
def takeThrough (boundary : Bool) (p : Pat) (bytes : Bytes) : Option (Bytes × Option Bytes) :=
  match p with
  | .static s =>
    if s.isPrefixOf bytes then
      let rem := bytes.drop s.length
      if boundary && !(rem.isEmpty || rem.head? == some slash) then none else some (rem, none)
    else none
  | .param =>
    match bytes with
    | b0 :: b1 :: _ =>
      if b0 = slash ∧ b1 ≠ slash then
        let (pv, rem) := splitNextSection (bytes.drop 1)
        some (rem, some pv)
      else none
    | _ => none

-- result of `search_target`: (node's handler if hit, params) ; `none` = catch (404)
mutual
def searchKids (b : Bool) : List FNode → Nat → Bytes → List Bytes → Option (Nat × List Bytes)
  | [], _, _, _ => none
  | k :: ks, fuel, bytes, ps =>
    match k with
    | .mk pat h kids =>
      match takeThrough b pat bytes with
      | some (rem, pv) =>
        let ps' := match pv with | some v => ps ++ [v] | none => ps
        if rem.isEmpty then h.map (·, ps')
        else match fuel with
          | 0 => none
          | fuel + 1 => searchKids b kids fuel rem ps'
      | none => searchKids b ks fuel bytes ps
end

def searchTarget (b : Bool) (root : FNode) (bytes : Bytes) : Option (Nat × List Bytes) :=
  searchKids b [root] (bytes.length + 1) bytes []

/-! path normalisation (request/path.rs) and segmentation (spec side) -/
def normalize (p : Bytes) : Bytes := if p.getLast? = some slash then p.dropLast else p

theorem splitNextSection_snd_length (bs : Bytes) : (splitNextSection bs).2.length ≤ bs.length := by
  induction bs with
  | nil => simp [splitNextSection]
  | cons b bs ih =>
    simp only [splitNextSection]
    split
    · simp
    · simp only [List.length_cons]; omega

def segments : Bytes → List Bytes
  | [] => []
  | _ :: bs => (splitNextSection bs).1 :: segments (splitNextSection bs).2
termination_by bs => bs.length
decreasing_by
  have := splitNextSection_snd_length bs
  simp only [List.length_cons]; omega

end Ohkami
