import OhkamiModel.P.ChainProofs
namespace Ohkami

theorem stepStatic_perm {rs rs' : List (Route × Nat)} (h : rs.Perm rs') (s : Bytes) :
    (stepStatic rs s).Perm (stepStatic rs' s) := by
  unfold stepStatic; exact h.filterMap _

theorem stepParam_perm {rs rs' : List (Route × Nat)} (h : rs.Perm rs') :
    (stepParam rs).Perm (stepParam rs') := by
  unfold stepParam; exact h.filterMap _

theorem forcedNext_iff {rs : List (Route × Nat)} {c : Bytes} :
    forcedNext rs = some c ↔ rs ≠ [] ∧ ∀ rh ∈ rs, ∃ t, rh.1 = .static c :: t := by
  constructor
  · intro h
    refine ⟨?_, forcedNext_spec h⟩
    intro he; subst he; simp [forcedNext] at h
  · intro ⟨hne, hall⟩
    cases rs with
    | nil => exact absurd rfl hne
    | cons rh0 rest =>
      obtain ⟨t0, ht0⟩ := hall rh0 (by simp)
      obtain ⟨r0, h0⟩ := rh0
      simp only at ht0
      subst ht0
      simp only [forcedNext]
      have : ((Seg.static c :: t0, h0) :: rest).all (fun rh => match rh.1 with | .static c' :: _ => c' == c | _ => false) = true := by
        rw [List.all_eq_true]
        intro rh hm
        obtain ⟨t, ht⟩ := hall rh hm
        rw [ht]; simp
      split
      · rfl
      · next hn => exact absurd this hn

theorem forcedNext_perm {rs rs' : List (Route × Nat)} (h : rs.Perm rs') : forcedNext rs = forcedNext rs' := by
  cases hf : forcedNext rs with
  | some c =>
    symm
    rw [forcedNext_iff] at hf ⊢
    refine ⟨?_, fun rh hm => hf.2 rh (h.mem_iff.mpr hm)⟩
    intro he; subst he; exact hf.1 (by simpa using h.eq_nil)
  | none =>
    symm
    cases hf' : forcedNext rs' with
    | none => rfl
    | some c =>
      rw [forcedNext_iff] at hf'
      have : forcedNext rs = some c := by
        rw [forcedNext_iff]
        refine ⟨?_, fun rh hm => hf'.2 rh (h.mem_iff.mp hm)⟩
        intro he; subst he; exact hf'.1 (by simpa using h.symm.eq_nil)
      rw [this] at hf; simp at hf

/-- chain matching on permuted lists: same remaining path, permuted remaining routes -/
theorem chainMatch_perm : ∀ (fuel : Nat) (rs rs' : List (Route × Nat)) (ss : List Bytes), rs.Perm rs' →
    (chainMatch fuel rs ss = none ∧ chainMatch fuel rs' ss = none) ∨
    ∃ a a' ss', chainMatch fuel rs ss = some (a, ss') ∧ chainMatch fuel rs' ss = some (a', ss') ∧ a.Perm a' := by
  intro fuel
  induction fuel with
  | zero => intro rs rs' ss h; right; exact ⟨rs, rs', ss, by simp [chainMatch], by simp [chainMatch], h⟩
  | succ f ih =>
    intro rs rs' ss h
    simp only [chainMatch, ← forcedNext_perm h]
    cases forcedNext rs with
    | none => right; exact ⟨rs, rs', ss, rfl, rfl, h⟩
    | some c =>
      cases ss with
      | nil => left; simp
      | cons s' ss'' =>
        by_cases hc : s' = c
        · simp only [hc, if_true]
          exact ih _ _ _ (stepStatic_perm h c)
        · left; simp [hc]

end Ohkami

namespace Ohkami

/-- handlers are determined by the route when routes are pairwise distinct -/
theorem NodupRoutes_unique : ∀ {rs : List (Route × Nat)}, NodupRoutes rs → ∀ {r h h'}, (r, h) ∈ rs → (r, h') ∈ rs → h = h' := by
  intro rs
  induction rs with
  | nil => intro _ r h h' hm; simp at hm
  | cons x rs ih =>
    intro hn r h h' hm hm'
    unfold NodupRoutes at hn
    simp only [List.map_cons, List.nodup_cons] at hn
    obtain ⟨hx, hn'⟩ := hn
    simp only [List.mem_cons] at hm hm'
    rcases hm with rfl | hm <;> rcases hm' with hm' | hm'
    · exact (Prod.mk.inj hm').2.symm ▸ rfl
    · exact absurd (List.mem_map.mpr ⟨(r, h'), hm', rfl⟩) hx
    · subst hm'; exact absurd (List.mem_map.mpr ⟨(r, h), hm, rfl⟩) hx
    · exact ih hn' hm hm'

theorem NodupRoutes_stepStatic : ∀ {rs : List (Route × Nat)}, NodupRoutes rs → ∀ s, NodupRoutes (stepStatic rs s) := by
  intro rs
  induction rs with
  | nil => intro _ s; simp [stepStatic, NodupRoutes]
  | cons x rs ih =>
    intro hn s
    unfold NodupRoutes at hn
    simp only [List.map_cons, List.nodup_cons] at hn
    obtain ⟨hx, hn'⟩ := hn
    have ih' := ih hn' s
    obtain ⟨r, h⟩ := x
    have hcons : stepStatic ((r, h) :: rs) s =
        (match r with | .static y :: t => if y = s then [(t, h)] else [] | _ => []) ++ stepStatic rs s := by
      unfold stepStatic
      cases r with
      | nil => simp
      | cons a t =>
        cases a with
        | param => simp
        | static y => by_cases hy : y = s <;> simp [hy]
    rw [hcons]
    cases r with
    | nil => simpa using ih'
    | cons a t =>
      cases a with
      | param => simpa using ih'
      | static y =>
        by_cases hy : y = s
        · subst hy
          simp only [if_true, List.singleton_append]
          unfold NodupRoutes
          simp only [List.map_cons, List.nodup_cons]
          refine ⟨?_, ih'⟩
          intro hmem
          obtain ⟨⟨t', h'⟩, hm', heq⟩ := List.mem_map.mp hmem
          simp only at heq
          subst heq
          exact hx (List.mem_map.mpr ⟨(.static y :: t', h'), mem_stepStatic.mp hm', rfl⟩)
        · simpa [hy] using ih'

theorem NodupRoutes_stepParam : ∀ {rs : List (Route × Nat)}, NodupRoutes rs → NodupRoutes (stepParam rs) := by
  intro rs
  induction rs with
  | nil => intro _; simp [stepParam, NodupRoutes]
  | cons x rs ih =>
    intro hn
    unfold NodupRoutes at hn
    simp only [List.map_cons, List.nodup_cons] at hn
    obtain ⟨hx, hn'⟩ := hn
    have ih' := ih hn'
    obtain ⟨r, h⟩ := x
    have hcons : stepParam ((r, h) :: rs) =
        (match r with | .param :: t => [(t, h)] | _ => []) ++ stepParam rs := by
      unfold stepParam
      cases r with
      | nil => simp
      | cons a t =>
        cases a with
        | param => simp
        | static y => simp
    rw [hcons]
    cases r with
    | nil => simpa using ih'
    | cons a t =>
      cases a with
      | static y => simpa using ih'
      | param =>
        simp only [List.singleton_append]
        unfold NodupRoutes
        simp only [List.map_cons, List.nodup_cons]
        refine ⟨?_, ih'⟩
        intro hmem
        obtain ⟨⟨t', h'⟩, hm', heq⟩ := List.mem_map.mp hmem
        simp only at heq
        subst heq
        exact hx (List.mem_map.mpr ⟨(.param :: t', h'), mem_stepParam.mp hm', rfl⟩)

theorem NodupRoutes_perm {rs rs' : List (Route × Nat)} (h : rs.Perm rs') (hn : NodupRoutes rs) : NodupRoutes rs' := by
  unfold NodupRoutes at *
  exact (h.map _).nodup hn

theorem find_nil_perm {rs rs' : List (Route × Nat)} (h : rs.Perm rs') (hn : NodupRoutes rs) :
    rs.find? (fun rh => rh.1 = []) = rs'.find? (fun rh => rh.1 = []) := by
  have hn' := NodupRoutes_perm h hn
  cases hf : rs.find? (fun rh => rh.1 = []) with
  | none =>
    symm
    rw [List.find?_eq_none] at hf ⊢
    intro x hx
    exact hf x (h.mem_iff.mpr hx)
  | some x =>
    have hx := List.mem_of_find?_eq_some hf
    have hp : x.1 = [] := by simpa using List.find?_some hf
    cases hf' : rs'.find? (fun rh => rh.1 = []) with
    | none =>
      rw [List.find?_eq_none] at hf'
      exact absurd (by simpa using hp) (hf' x (h.mem_iff.mp hx))
    | some y =>
      have hy := List.mem_of_find?_eq_some hf'
      have hq : y.1 = [] := by simpa using List.find?_some hf'
      obtain ⟨xr, xh⟩ := x
      obtain ⟨yr, yh⟩ := y
      simp only at hp hq
      subst hp; subst hq
      have := NodupRoutes_unique hn' (h.mem_iff.mp hx) hy
      rw [this]

end Ohkami

namespace Ohkami

theorem chainMatch_nodup : ∀ (fuel : Nat) (rs : List (Route × Nat)) (ss : List Bytes) (a : List (Route × Nat)) (ss' : List Bytes),
    NodupRoutes rs → chainMatch fuel rs ss = some (a, ss') → NodupRoutes a := by
  intro fuel
  induction fuel with
  | zero => intro rs ss a ss' hn h; simp [chainMatch] at h; obtain ⟨rfl, _⟩ := h; exact hn
  | succ f ih =>
    intro rs ss a ss' hn h
    simp only [chainMatch] at h
    split at h
    next => simp at h; obtain ⟨rfl, _⟩ := h; exact hn
    next c hc =>
      split at h
      next s' ss'' =>
        split at h
        next heq => exact ih _ _ _ _ (NodupRoutes_stepStatic hn c) h
        next => simp at h
      next => simp at h

theorem perm_ne_nil_iff {α} {l l' : List α} (h : l.Perm l') : (l ≠ []) ↔ (l' ≠ []) := by
  have := h.length_eq
  constructor
  · intro hx he; subst he; exact hx (List.eq_nil_of_length_eq_zero (by simpa using this))
  · intro hx he; subst he; exact hx (List.eq_nil_of_length_eq_zero (by simpa using this.symm))

theorem greedyChain_cons (f : Nat) (rs : List (Route × Nat)) (s : Bytes) (ss : List Bytes) :
    greedyChain (f + 1) rs (s :: ss) =
      match (if s ≠ [] ∧ stepStatic rs s ≠ [] then chainMatch (ss.length + 1) (stepStatic rs s) ss else none) with
      | some (rs', ss') => greedyChain f rs' ss'
      | none =>
        if s ≠ [] ∧ stepParam rs ≠ [] then
          (greedyChain f (stepParam rs) ss).map fun (h, ps) => (h, s :: ps)
        else none := by
  rfl

/-- registration order does not matter: the spec is a function of the route *set* -/
theorem chain_perm : ∀ (fuel : Nat) (rs rs' : List (Route × Nat)) (segs : List Bytes),
    rs.Perm rs' → NodupRoutes rs → greedyChain fuel rs segs = greedyChain fuel rs' segs := by
  intro fuel
  induction fuel with
  | zero => intro rs rs' segs _ _; simp [greedyChain]
  | succ f ih =>
    intro rs rs' segs h hn
    cases segs with
    | nil => simp only [greedyChain, find_nil_perm h hn]
    | cons s ss =>
      have hst := stepStatic_perm h s
      have hsp := stepParam_perm h
      have hne : (stepStatic rs s ≠ []) ↔ (stepStatic rs' s ≠ []) := perm_ne_nil_iff hst
      have hnp : (stepParam rs ≠ []) ↔ (stepParam rs' ≠ []) := perm_ne_nil_iff hsp
      rw [greedyChain_cons, greedyChain_cons]
      by_cases hc : s ≠ [] ∧ stepStatic rs s ≠ []
      · have hc' : s ≠ [] ∧ stepStatic rs' s ≠ [] := ⟨hc.1, hne.mp hc.2⟩
        rw [if_pos hc, if_pos hc']
        rcases chainMatch_perm (ss.length + 1) _ _ ss hst with ⟨h1, h2⟩ | ⟨a, a', ss', h1, h2, hp⟩
        · rw [h1, h2]
          simp only
          by_cases hpc : s ≠ [] ∧ stepParam rs ≠ []
          · have hpc' : s ≠ [] ∧ stepParam rs' ≠ [] := ⟨hpc.1, hnp.mp hpc.2⟩
            rw [if_pos hpc, if_pos hpc', ih _ _ _ hsp (NodupRoutes_stepParam hn)]
          · have hpc' : ¬ (s ≠ [] ∧ stepParam rs' ≠ []) := fun x => hpc ⟨x.1, hnp.mpr x.2⟩
            rw [if_neg hpc, if_neg hpc']
        · rw [h1, h2]
          simp only
          exact ih _ _ _ hp (chainMatch_nodup _ _ _ _ _ (NodupRoutes_stepStatic hn s) h1)
      · have hc' : ¬ (s ≠ [] ∧ stepStatic rs' s ≠ []) := fun x => hc ⟨x.1, hne.mpr x.2⟩
        rw [if_neg hc, if_neg hc']
        simp only
        by_cases hpc : s ≠ [] ∧ stepParam rs ≠ []
        · have hpc' : s ≠ [] ∧ stepParam rs' ≠ [] := ⟨hpc.1, hnp.mp hpc.2⟩
          rw [if_pos hpc, if_pos hpc', ih _ _ _ hsp (NodupRoutes_stepParam hn)]
        · have hpc' : ¬ (s ≠ [] ∧ stepParam rs' ≠ []) := fun x => hpc ⟨x.1, hnp.mpr x.2⟩
          rw [if_neg hpc, if_neg hpc']

end Ohkami
