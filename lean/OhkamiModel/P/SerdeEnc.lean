import OhkamiModel.P.Serde
/-! Prototype: URL-encoded serializer (`serde_urlencoded/ser.rs`) over the same `Value`s, and the decidable
    side conditions of the round trip (C09). -/
namespace Ohkami.Serde

-- `itoa`-style decimal text of an integer (what `to_string` of every integer type prints)
def natDigits : Nat → Nat → Bytes → Bytes
  | 0, _, acc => acc
  | fuel + 1, n, acc => if n < 10 then (48 + n).toUInt8 :: acc else natDigits fuel (n / 10) ((48 + n % 10).toUInt8 :: acc)
def showInt (z : Int) : Bytes :=
  match z with
  | .ofNat n => natDigits (n + 1) n []
  | .negSucc n => 45 :: natDigits (n + 2) (n + 1) []

-- UTF-8 of one scalar value
def utf8Enc (c : Nat) : Bytes :=
  if c < 0x80 then [c.toUInt8]
  else if c < 0x800 then [(0xC0 + c / 64).toUInt8, (0x80 + c % 64).toUInt8]
  else if c < 0x10000 then [(0xE0 + c / 4096).toUInt8, (0x80 + c / 64 % 64).toUInt8, (0x80 + c % 64).toUInt8]
  else [(0xF0 + c / 262144).toUInt8, (0x80 + c / 4096 % 64).toUInt8, (0x80 + c / 64 % 64).toUInt8, (0x80 + c % 64).toUInt8]

-- how sequence elements are joined. `firstFlag = true` is the repaired writer (F9d: a first-element flag),
-- `false` today's (`if !output.ends_with('=') { push(',') }`): renderings that are empty while the text after `=` is
-- still empty leave no trace at all
def joinSeq (firstFlag : Bool) : List Bytes → Bytes
  | [] => []
  | r :: rs =>
    if !firstFlag && r.isEmpty then joinSeq firstFlag rs
    else r ++ rs.flatMap (COMMA :: ·)

inductive SerErr where | bytes | nested deriving Repr, DecidableEq

-- a value in value position (after `key=`); maps and structs are refused there (`init` is already false)
def encVal (firstFlag : Bool) : Value → Except SerErr Bytes
  | .bool b => .ok (if b then TRUE else FALSE)
  | .int z => .ok (showInt z)
  | .floatText t => .ok t
  | .char c => .ok (Percent.encode (utf8Enc c))
  | .str s => .ok (Percent.encode s)
  | .bytes _ => .error .bytes
  | .none => .ok []
  | .unit => .ok []
  | .defaulted => .ok []
  | .some v => encVal firstFlag v
  | .newtype v => encVal firstFlag v
  | .variant n => .ok (Percent.encode n)
  | .seq vs => do
    let rs ← encVals firstFlag vs
    pure (joinSeq firstFlag rs)
  | .map _ => .error .nested
  | .struct _ => .error .nested
where encVals (firstFlag : Bool) : List Value → Except SerErr (List Bytes)
  | [] => .ok []
  | v :: vs => do
    let r ← encVal firstFlag v
    let rs ← encVals firstFlag vs
    pure (r :: rs)

def encPairs (firstFlag : Bool) : List (Bytes × Value) → Except SerErr Bytes
  | [] => .ok []
  | [(k, v)] => do
    let r ← encVal firstFlag v
    pure (Percent.encode k ++ EQ :: r)
  | (k, v) :: rest => do
    let r ← encVal firstFlag v
    let more ← encPairs firstFlag rest
    pure (Percent.encode k ++ EQ :: r ++ AMP :: more)

-- `to_string` of a top-level struct or string-keyed map
def encode (firstFlag : Bool) : Value → Except SerErr Bytes
  | .struct fs => encPairs firstFlag fs
  | .map kvs => encPairs firstFlag (kvs.filterMap fun kv => match kv.1 with | .str k => some (k, kv.2) | _ => none)
  | _ => .error .nested

/-- what the *format* cannot tell apart, stated on renderings: `Some v` rendered empty reads back as `None`;
    a one-element sequence rendered empty reads back as `[]`. -/
def unamb (firstFlag : Bool) : Value → Bool
  | .some v => (match encVal firstFlag v with | .ok r => !r.isEmpty | _ => false) && unamb firstFlag v
  | .newtype v => unamb firstFlag v
  | .seq vs =>
    (match vs with
     | [v] => (match encVal firstFlag v with | .ok r => !r.isEmpty | _ => false)
     | _ => true) && unambs firstFlag vs
  | .struct fs => unambF firstFlag fs
  | .map kvs => unambM firstFlag kvs
  | _ => true
where
  unambs (firstFlag : Bool) : List Value → Bool
    | [] => true
    | v :: vs => unamb firstFlag v && unambs firstFlag vs
  unambF (firstFlag : Bool) : List (Bytes × Value) → Bool
    | [] => true
    | (_, v) :: fs => unamb firstFlag v && unambF firstFlag fs
  unambM (firstFlag : Bool) : List (Value × Value) → Bool
    | [] => true
    | (k, v) :: kvs => (match k with | .str s => !s.isEmpty | _ => false) && unamb firstFlag v && unambM firstFlag kvs


-- element types of a sequence: everything whose rendering has no `,` of its own
def noSeq : Ty → Bool
  | .seq _ | .map _ _ | .struct _ | .bytes | .byteBuf | .ignored | .float _ => false
  | .option t | .newtype t => noSeq t
  | _ => true

/-- `v` is a value of the Rust type described by `ty` (what the generator draws and the theorem quantifies over).
    `utf8` is the validity test of `String`. A `&'de str` field can only borrow from the input, so it holds exactly the
    strings whose encoding is the identity; variant names are any UTF-8 text (read back percent-decoded since fix ca4cc42). -/
def wellTyped (utf8 : Bytes → Bool) : Ty → Value → Bool
  | .bool, .bool _ => true
  | .uint bits, .int z => 0 ≤ z && z < 2 ^ bits
  | .sint bits, .int z => -(2 ^ (bits - 1) : Int) ≤ z && z < 2 ^ (bits - 1)
  | .char, .char c => c < 0xD800 || (0xE000 ≤ c && c < 0x110000)
  | .string, .str s => utf8 s
  | .str, .str s => utf8 s && Percent.encode s == s
  | .option _, .none => true
  | .option t, .some v => wellTyped utf8 t v
  | .unit, .unit => true
  | .newtype t, .newtype v => wellTyped utf8 t v
  | .seq t, .seq vs => noSeq t && wtAll utf8 t vs
  | .map .string vt, .map kvs => wtMap utf8 vt kvs
  | .struct fields, .struct fs => wtFields utf8 fields fs
  | .unitEnum names, .variant n => names.contains n && utf8 n
  | _, _ => false
where
  wtAll (utf8 : Bytes → Bool) (t : Ty) : List Value → Bool
    | [] => true
    | v :: vs => wellTyped utf8 t v && wtAll utf8 t vs
  wtMap (utf8 : Bytes → Bool) (vt : Ty) : List (Value × Value) → Bool
    | [] => true
    | (k, v) :: kvs => (match k with | .str s => utf8 s | _ => false) && wellTyped utf8 vt v && wtMap utf8 vt kvs
  wtFields (utf8 : Bytes → Bool) : List (Bytes × Ty × Bool) → List (Bytes × Value) → Bool
    | [], [] => true
    | (n, t, _) :: fields, (m, v) :: fs => n == m && utf8 n && wellTyped utf8 t v && wtFields utf8 fields fs
    | _, _ => false

end Ohkami.Serde
