import OhkamiModel.P.FangsScopeSearch
/-! C01 with fang scopes: the search of the finalized router of ANY application tree (fangs anywhere, compression restricted by scopes)
    answers with a handler only if that handler is registered on a route that matches the path segment by segment (`search_hit_sound`);
    hence, when no registered route matches, no handler runs (`search_miss`).  No hypothesis on the fang lists is needed. -/
namespace Ohkami.Fangs
open Ohkami

/-- the routes of a "virtual node": its handler at the empty route, and its children's routes -/
def vroutes (h : Option Nat) (ks : List BN) : List (Route × Nat) := routesOfBN (.mk none [] h ks)

theorem routesOfBN_eq_vroutes (p : Option Seg) (f : List Nat) (h : Option Nat) (ks : List BN) :
    routesOfBN (.mk p f h ks) = vroutes h ks := by simp only [vroutes, routesOfBN]

theorem mem_vroutes (h : Option Nat) (ks : List BN) (r : Route) (x : Nat) :
    (r, x) ∈ vroutes h ks ↔ (r = [] ∧ h = some x) ∨ (r, x) ∈ routesOfKidsBN ks := by
  cases h <;> simp [vroutes, routesOfBN, eq_comm]

theorem routesOfKids_inhKids (f : List Nat) : ∀ ks : List BN, routesOfKidsBN (inhKids f ks) = routesOfKidsBN ks
  | [] => rfl
  | k :: ks => by
    have ih := routesOfKids_inhKids f ks
    obtain ⟨p, f', h, ks'⟩ := k
    have e : inhKids f (BN.mk p f' h ks' :: ks) = BN.mk p (inherit f' f) h ks' :: inhKids f ks := rfl
    rw [e]
    simp only [routesOfKidsBN, BN.pat, ih]
    have e2 : routesOfBN (BN.mk p (inherit f' f) h ks') = routesOfBN (BN.mk p f' h ks') := by simp only [routesOfBN]
    rw [e2]

theorem kidsOK_inhKids (f : List Nat) : ∀ ks : List BN, KidsOK ks → KidsOK (inhKids f ks)
  | [], _ => trivial
  | k :: ks, h => by
    obtain ⟨p, f', hh, ks'⟩ := k
    exact ⟨h.1, h.2.1, kidsOK_inhKids f ks h.2.2⟩

theorem mem_routesOfKids (ks : List BN) (k : BN) (sk : Seg) (hk : k ∈ ks) (hp : k.pat = some sk) (r : Route) (x : Nat)
    (hr : (r, x) ∈ routesOfBN k) : (sk :: r, x) ∈ routesOfKidsBN ks := by
  induction ks with
  | nil => cases hk
  | cons a as ih =>
    simp only [routesOfKidsBN, List.mem_append]
    rcases List.mem_cons.mp hk with rfl | hk'
    · left
      simp only [hp, List.mem_map]
      exact ⟨(r, x), hr, rfl⟩
    · right; exact ih hk'

/-- the compression loop keeps the routes: a route of the node it stops at, prefixed by the chain it took in, is a route of the node it started at -/
theorem compress_routes (p : Option Seg) (o : Bool) : ∀ (n : Nat) (ps : List Seg) (f : List Nat) (h : Option Nat) (ks : List BN), KidsOK ks →
    ∃ chain f' h' ks', finalize.compress true p o n ps f h ks = (ps ++ chain, f', h', ks') ∧ KidsOK ks' ∧
      ∀ r x, (r, x) ∈ vroutes h' ks' → (chain ++ r, x) ∈ vroutes h ks := by
  intro n
  induction n with
  | zero =>
    intro ps f h ks hok
    exact ⟨[], f, h, ks, by simp [finalize.compress], hok, fun r x hr => by simpa using hr⟩
  | succ n ih =>
    intro ps f h ks hok
    unfold finalize.compress
    split
    · rename_i c f' h' ks'
      split
      · simp only [if_true]
        have hok' : KidsOK ks' := hok.2.1
        have emap : List.map (fun k => BN.mk k.pat (inherit k.fangs f') k.handler k.kids) ks' = inhKids f' ks' := rfl
        rw [emap]
        obtain ⟨chain, f2, h2, ks2, e1, e2, e3⟩ := ih (ps ++ [.static c]) f' h' (inhKids f' ks') (kidsOK_inhKids f' ks' hok')
        refine ⟨.static c :: chain, f2, h2, ks2, by simp [e1], e2, ?_⟩
        intro r x hr
        have h3 := e3 r x hr
        rw [mem_vroutes, routesOfKids_inhKids] at h3
        rw [mem_vroutes]
        right
        have hmem : (chain ++ r, x) ∈ routesOfBN (BN.mk (some (.static c)) f' h' ks') := by
          rw [routesOfBN_eq_vroutes, mem_vroutes]; exact h3
        exact mem_routesOfKids [BN.mk (some (.static c)) f' h' ks'] _ (.static c) (by simp) rfl (chain ++ r) x hmem
      · exact ⟨[], f, none, _, by simp, hok, fun r x hr => by simpa using hr⟩
    · exact ⟨[], f, h, ks, by simp, hok, fun r x hr => by simpa using hr⟩

theorem segUnder_eq_takePats : ∀ (r : Route) (ss : List Bytes), segUnder r ss = takePats r ss
  | [], ss => by simp [segUnder, takePats]
  | .static c :: ps, [] => by simp [segUnder, takePats]
  | .param :: ps, [] => by simp [segUnder, takePats]
  | .static c :: ps, s :: ss => by simp [segUnder, takePats, segUnder_eq_takePats ps ss]
  | .param :: ps, s :: ss => by simp [segUnder, takePats, segUnder_eq_takePats ps ss]

/-- a child `k` finalized and searched: a handler comes only from a route of `k` that, behind `k`'s own segment, matches what is left -/
theorem kid_hit : ∀ (F G : Nat) (k : BN) (o : Bool) (ss : List Bytes) (f : List Nat) (x : Nat), TreeOK k →
    search G (finalize true F k o) ss = (f, some x) →
    ∃ r, (r, x) ∈ routesOfBN k ∧ takePats (k.pat.toList ++ r) ss = some [] := by
  intro F
  induction F with
  | zero =>
    intro G k o ss f x _ h
    obtain ⟨p, fk, hk, ksk⟩ := k
    cases G with
    | zero => simp [finalize, search] at h
    | succ G =>
      simp only [finalize, search_succ, after] at h
      cases hp : takePats p.toList ss with
      | none => simp [hp] at h
      | some rest =>
        simp only [hp] at h
        cases rest with
        | nil =>
          simp only [after, Prod.mk.injEq] at h
          refine ⟨[], ?_, by simp only [BN.pat, List.append_nil]; exact hp⟩
          rw [routesOfBN_eq_vroutes, mem_vroutes]; exact Or.inl ⟨rfl, h.2⟩
        | cons s r => simp [after, search.firstKid] at h
  | succ F ih =>
    intro G k o ss f x hok h
    obtain ⟨p, fk, hk, ksk⟩ := k
    cases G with
    | zero => cases hfin : finalize true (F + 1) (.mk p fk hk ksk) o with | mk a b c d => simp [hfin, search] at h
    | succ G =>
    have hokk : KidsOK ksk := hok
    obtain ⟨chain, f', h', ks', ec, hok', hrt⟩ := compress_routes p o F p.toList fk hk (inhKids fk ksk) (kidsOK_inhKids fk ksk hokk)
    rw [finalize_succ, ec, search_succ] at h
    simp only at h
    cases hp : takePats (p.toList ++ chain) ss with
    | none => simp [hp] at h
    | some rest =>
      simp only [hp] at h
      have hrt' : ∀ r y, (r, y) ∈ vroutes h' ks' → (chain ++ r, y) ∈ routesOfBN (.mk p fk hk ksk) := by
        intro r y hr
        have h4 := hrt r y hr
        rw [mem_vroutes, routesOfKids_inhKids] at h4
        rw [routesOfBN_eq_vroutes, mem_vroutes]; exact h4
      cases rest with
      | nil =>
        simp only [after, Prod.mk.injEq] at h
        refine ⟨chain, by simpa using hrt' [] x ((mem_vroutes h' ks' [] x).mpr (Or.inl ⟨rfl, h.2⟩)), ?_⟩
        simp only [BN.pat]; exact hp
      | cons s1 r1 =>
        simp only [after] at h
        cases hfk : search.firstKid (s1 :: r1) ((sortKids ks').map fun k => finalize true F k (k.fangs.length != f'.length)) with
        | none => simp [hfk] at h
        | some kr =>
          obtain ⟨K, r⟩ := kr
          simp only [hfk] at h
          obtain ⟨hmem, rfl, _⟩ := firstKid_some _ _ K r hfk
          simp only [List.mem_map] at hmem
          obtain ⟨k, hk', rfl⟩ := hmem
          have hkm := (mem_sortKids ks' k).mp hk'
          have hkfacts : TreeOK k ∧ ∃ sk, k.pat = some sk := by
            clear h hfk hrt hrt' ec hp
            induction ks' with
            | nil => cases hkm
            | cons a as iha =>
              rcases List.mem_cons.mp hkm with rfl | hm
              · exact ⟨hok'.2.1, Option.isSome_iff_exists.mp hok'.1⟩
              · exact iha hok'.2.2 ((mem_sortKids as k).mpr hm) hm
          obtain ⟨hokk', sk, hsk⟩ := hkfacts
          obtain ⟨r2, hr2, hm2⟩ := ih G k _ (s1 :: r1) f x hokk' h
          refine ⟨chain ++ (sk :: r2), hrt' (sk :: r2) x ?_, ?_⟩
          · rw [mem_vroutes]
            right
            exact mem_routesOfKids ks' k sk hkm hsk r2 x hr2
          · simp only [BN.pat]
            rw [← List.append_assoc, takePats_append, hp]
            simpa [hsk] using hm2

/-- **A hit is a registered, matching route** — for the router with fang scopes, any application tree -/
theorem search_hit_sound (cfg : App) (t : BN) (ss : List Bytes) (F G : Nat) (f : List Nat) (x : Nat) (hb : build cfg = some t)
    (h : search G (finalize true F t false) ss = (f, some x)) :
    ∃ r, (r, x) ∈ flatRoutes cfg ∧ segUnder r ss = some [] := by
  obtain ⟨hperm, hok⟩ := routes_build cfg t hb
  obtain ⟨r, hr, hm⟩ := kid_hit F G t false ss f x hok h
  rw [build_pat cfg t hb] at hm
  exact ⟨r, hperm.mem_iff.mp hr, by rw [segUnder_eq_takePats]; simpa using hm⟩

/-- **No matching route, no handler** -/
theorem search_miss (cfg : App) (t : BN) (ss : List Bytes) (F G : Nat) (hb : build cfg = some t)
    (hno : ∀ r x, (r, x) ∈ flatRoutes cfg → segUnder r ss ≠ some []) :
    (search G (finalize true F t false) ss).2 = none := by
  cases hs : search G (finalize true F t false) ss with
  | mk f o =>
    cases o with
    | none => rfl
    | some x =>
      obtain ⟨r, hr, hm⟩ := search_hit_sound cfg t ss F G f x hb hs
      exact absurd hm (hno r x hr)

end Ohkami.Fangs
