import OhkamiModel.P.RespProofs
namespace Ohkami
open IndexMap

/-! custom-header list (TupleMap) sums -/
def gX (nv : Bytes × Bytes) : Nat := nv.1.length + sepLen + nv.2.length + crlfLen
def customLen (l : List (Bytes × Bytes)) : Nat := (l.map gX).sum
def cookieLen (l : List Bytes) : Nat := (l.map fun c => 12 + c.length + crlfLen).sum

theorem sum_map_set {α} (g : α → Nat) (l : List α) (i : Nat) (x : α) (hi : i < l.length) :
    ((l.set i x).map g).sum + g l[i] = (l.map g).sum + g x := by
  induction l generalizing i with
  | nil => simp at hi
  | cons a l ih =>
    cases i with
    | zero => simp; omega
    | succ j =>
      simp only [List.set_cons_succ, List.map_cons, List.sum_cons, List.getElem_cons_succ]
      have := ih j (by simpa using hi)
      omega

theorem sum_map_dropLast {α} (g : α → Nat) (l : List α) (hne : l ≠ []) :
    ((l.dropLast).map g).sum + g (l.getLast hne) = (l.map g).sum := by
  have := List.dropLast_concat_getLast hne
  conv => rhs; rw [← this]
  simp

theorem sum_map_swapRemove {α} (g : α → Nat) (l : List α) (i : Nat) (hi : i < l.length) :
    ((swapRemove l i).map g).sum + g l[i] = (l.map g).sum := by
  have hne : l ≠ [] := by intro h; subst h; simp at hi
  unfold swapRemove
  have h1 : l[i]? = some l[i] := List.getElem?_eq_getElem hi
  have h2 : l.getLast? = some (l.getLast hne) := List.getLast?_eq_some_getLast hne
  rw [h1, h2]
  simp only
  split
  next heq =>
    have hi' : i = l.length - 1 := by omega
    subst hi'
    have : l[l.length - 1] = l.getLast hne := by
      rw [List.getLast_eq_getElem]
    rw [this]
    exact sum_map_dropLast g l hne
  next hneq =>
    have hne' : l.set i (l.getLast hne) ≠ [] := by simp [hne]
    have hlast : (l.set i (l.getLast hne)).getLast hne' = l.getLast hne := by
      have e : (l.set i (l.getLast hne)).getLast? = l.getLast? := by
        rw [List.getLast?_eq_getElem?, List.getLast?_eq_getElem?]
        simp only [List.length_set]
        rw [List.getElem?_set_ne]
        omega
      rw [List.getLast?_eq_some_getLast hne', List.getLast?_eq_some_getLast hne] at e
      exact Option.some.inj e
    have a := sum_map_dropLast g (l.set i (l.getLast hne)) hne'
    rw [hlast] at a
    have b := sum_map_set g l i (l.getLast hne) hi
    omega

theorem le_sum_map_getElem {α} (g : α → Nat) (l : List α) (i : Nat) (hi : i < l.length) :
    g l[i] ≤ (l.map g).sum := by
  induction l generalizing i with
  | nil => simp at hi
  | cons a l ih =>
    cases i with
    | zero => simp
    | succ j =>
      simp only [List.getElem_cons_succ, List.map_cons, List.sum_cons]
      have := ih j (by simpa using hi)
      omega

theorem findIdx?_spec (l : List (Bytes × Bytes)) (n : Bytes) (i : Nat)
    (h : l.findIdx? (fun nv => decide (nv.1 = n)) = some i) : ∃ hi : i < l.length, (l[i]).1 = n := by
  rw [List.findIdx?_eq_some_iff_getElem] at h
  obtain ⟨hi, hp, _⟩ := h
  exact ⟨hi, by simpa using hp⟩

/-! the invariant -/
def fStd (nameLen : Nat → Nat) (kv : Nat × Bytes) : Nat := nameLen kv.1 + sepLen + kv.2.length + crlfLen

structure Headers.Inv (nameLen : Nat → Nat) (n : Nat) (h : Headers) : Prop where
  wf : h.std.WF n
  size_eq : h.size = stdLen (fStd nameLen) h.std + customLen h.custom + cookieLen h.cookies + crlfLen

theorem Inv_empty (nameLen : Nat → Nat) (n : Nat) : (Headers.empty n).Inv nameLen n := by
  constructor
  · exact WF_new n
  · simp [Headers.empty, stdLen, sumLive, liveFrom, IndexMap.new, customLen, cookieLen]

def HOp.keyOk (n : Nat) : HOp → Prop
  | .insert k _ | .remove k | .append k _ => k < n
  | _ => True

theorem joinSep_length : joinSep.length = 2 := rfl

theorem Inv_apply (nameLen : Nat → Nat) (n : Nat) (h : Headers) (hi : h.Inv nameLen n) (op : HOp) (hk : op.keyOk n) :
    (h.apply nameLen op).Inv nameLen n := by
  obtain ⟨wf, hs⟩ := hi
  cases op with
  | insert k v =>
    change k < n at hk
    simp only [Headers.apply]
    cases hg : h.std.get k with
    | none =>
      simp only
      refine ⟨WF_set _ n wf k hk v, ?_⟩
      simp only
      rw [stdLen_set _ _ n wf k hk v hg, hs]
      simp [fStd]; omega
    | some old =>
      simp only
      refine ⟨WF_update _ n wf k v, ?_⟩
      simp only
      have := stdLen_update (fStd nameLen) _ n wf k v old hg
      have hle := stdLen_delete (fStd nameLen) _ n wf k old hg
      simp only [fStd] at this hle
      rw [hs]; omega
  | remove k =>
    simp only [Headers.apply]
    cases hg : h.std.get k with
    | none =>
      simp only
      refine ⟨WF_delete _ n wf k, ?_⟩
      simp only
      rw [stdLen_delete_none _ _ n wf k hg, hs]
    | some old =>
      simp only
      refine ⟨WF_delete _ n wf k, ?_⟩
      simp only
      have := stdLen_delete (fStd nameLen) _ n wf k old hg
      simp only [fStd] at this
      rw [hs]; omega
  | append k v =>
    change k < n at hk
    simp only [Headers.apply]
    cases hg : h.std.get k with
    | none =>
      simp only
      refine ⟨WF_set _ n wf k hk v, ?_⟩
      simp only
      rw [stdLen_set _ _ n wf k hk v hg, hs]
      simp [fStd]; omega
    | some old =>
      simp only
      refine ⟨WF_update _ n wf k _, ?_⟩
      simp only
      have := stdLen_update (fStd nameLen) _ n wf k (old ++ joinSep ++ v) old hg
      have hle := stdLen_delete (fStd nameLen) _ n wf k old hg
      simp only [fStd, List.length_append, joinSep_length] at this hle
      rw [hs]; omega
  | insertX name v =>
    simp only [Headers.apply]
    cases hf : h.custom.findIdx? (fun nv => decide (nv.1 = name)) with
    | none =>
      simp only
      refine ⟨wf, ?_⟩
      simp only
      rw [hs]; simp [customLen, gX]; omega
    | some i =>
      simp only
      obtain ⟨hi, hn⟩ := findIdx?_spec _ _ _ hf
      refine ⟨wf, ?_⟩
      simp only
      have := sum_map_set gX h.custom i (name, v) hi
      have e : (h.custom[i]?).map (fun x => x.2.length) = some (h.custom[i]).2.length := by
        rw [List.getElem?_eq_getElem hi]; rfl
      rw [e]
      have g1 : gX h.custom[i] = name.length + sepLen + (h.custom[i]).2.length + crlfLen := by simp [gX, hn]
      have g2 : gX (name, v) = name.length + sepLen + v.length + crlfLen := by simp [gX]
      have hle := le_sum_map_getElem gX h.custom i hi
      simp only [Option.getD_some, customLen]
      rw [hs]; simp only [customLen]
      omega
  | removeX name =>
    simp only [Headers.apply]
    cases hf : h.custom.findIdx? (fun nv => decide (nv.1 = name)) with
    | none => exact ⟨wf, hs⟩
    | some i =>
      simp only
      obtain ⟨hi, hn⟩ := findIdx?_spec _ _ _ hf
      refine ⟨wf, ?_⟩
      simp only
      have := sum_map_swapRemove gX h.custom i hi
      have e : (h.custom[i]?).map (fun x => x.2.length) = some (h.custom[i]).2.length := by
        rw [List.getElem?_eq_getElem hi]; rfl
      rw [e]
      have g1 : gX h.custom[i] = name.length + sepLen + (h.custom[i]).2.length + crlfLen := by simp [gX, hn]
      simp only [Option.getD_some, customLen]
      rw [hs]; simp only [customLen]
      omega
  | appendX name v =>
    simp only [Headers.apply]
    cases hf : h.custom.findIdx? (fun nv => decide (nv.1 = name)) with
    | none =>
      simp only
      refine ⟨wf, ?_⟩
      simp only
      rw [hs]; simp [customLen, gX]; omega
    | some i =>
      simp only
      obtain ⟨hi, hn⟩ := findIdx?_spec _ _ _ hf
      refine ⟨wf, ?_⟩
      simp only
      have e : (h.custom[i]?).map (fun x => x.2) = some (h.custom[i]).2 := by
        rw [List.getElem?_eq_getElem hi]; rfl
      rw [e]
      simp only [Option.getD_some]
      have := sum_map_set gX h.custom i (name, (h.custom[i]).2 ++ joinSep ++ v) hi
      have g1 : gX h.custom[i] = name.length + sepLen + (h.custom[i]).2.length + crlfLen := by simp [gX, hn]
      have g2 : gX (name, (h.custom[i]).2 ++ joinSep ++ v) = name.length + sepLen + ((h.custom[i]).2.length + 2 + v.length) + crlfLen := by
        simp [gX, joinSep_length]; omega
      simp only [customLen]
      rw [hs]; simp only [customLen]
      omega
  | cookie line =>
    simp only [Headers.apply]
    refine ⟨wf, ?_⟩
    simp only
    rw [hs]; simp [cookieLen]; omega

/-- C03 core theorem: for every operation history, the reserved size is exactly the number of bytes written. -/
theorem size_exact' (nameLen : Nat → Nat) (n : Nat) (ops : List HOp) (hk : ∀ op ∈ ops, op.keyOk n) :
    (ops.foldl (Headers.apply nameLen) (Headers.empty n)).Inv nameLen n := by
  suffices ∀ (h : Headers), h.Inv nameLen n → (ops.foldl (Headers.apply nameLen) h).Inv nameLen n from
    this _ (Inv_empty nameLen n)
  induction ops with
  | nil => intro h hi; exact hi
  | cons op ops ih =>
    intro h hi
    simp only [List.foldl_cons]
    exact ih (fun o ho => hk o (by simp [ho])) _ (Inv_apply nameLen n h hi op (hk op (by simp)))

end Ohkami
