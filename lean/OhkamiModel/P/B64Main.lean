import OhkamiModel.P.B64Proofs
namespace Ohkami.B64

theorem decChar_pad : decChar pad = none := by decide +kernel

theorem enc_lt (n : Nat) : n % 64 < 64 := Nat.mod_lt _ (by decide)

theorem decode_encode' : ∀ bs : Bytes, decode (encode bs) = some bs := by
  intro bs
  fun_induction encode bs with
  | case1 a b c rest n ih =>
    -- a full quantum
    have ha := a.toNat_lt; have hb := b.toNat_lt; have hc := c.toNat_lt
    have hn : n = a.toNat * 65536 + b.toNat * 256 + c.toNat := rfl
    obtain ⟨r1, r2, r3, r4⟩ := sextets_roundtrip a.toNat b.toNat c.toNat ha hb hc
    rw [← hn] at r1 r2 r3 r4
    have d0 := decChar_encChar (n / 262144) r4
    have d1 := decChar_encChar (n / 4096 % 64) (enc_lt _)
    have d2 := decChar_encChar (n / 64 % 64) (enc_lt _)
    have d3 := decChar_encChar (n % 64) (enc_lt _)
    have p2 := encChar_ne_pad (n / 64 % 64) (enc_lt _)
    have p3 := encChar_ne_pad (n % 64) (enc_lt _)
    cases hrest : encode rest with
    | nil =>
      -- last quantum
      rw [hrest] at ih
      simp only [decode, p2, p3, false_and, if_false, d0, d1, d2, d3, Option.bind_eq_bind, Option.bind_some, r1, r2, r3, toUInt8_toNat] at ih ⊢
      simp [decode] at ih
      cases rest with
      | nil => rfl
      | cons x xs => simp at ih
    | cons e es =>
      rw [hrest] at ih
      simp only [decode, d0, d1, d2, d3, Option.bind_eq_bind, Option.bind_some, ih, r1, r2, r3, toUInt8_toNat]
  | case2 a b n =>
    have ha := a.toNat_lt; have hb := b.toNat_lt
    have hn : n = a.toNat * 65536 + b.toNat * 256 := rfl
    obtain ⟨r1, r2, r3, r4⟩ := sextets_roundtrip a.toNat b.toNat 0 ha hb (by decide)
    simp only [Nat.add_zero] at r1 r2 r3 r4
    rw [← hn] at r1 r2 r3 r4
    have d0 := decChar_encChar (n / 262144) r4
    have d1 := decChar_encChar (n / 4096 % 64) (enc_lt _)
    have d2 := decChar_encChar (n / 64 % 64) (enc_lt _)
    have p2 := encChar_ne_pad (n / 64 % 64) (enc_lt _)
    have hz : n / 64 % 64 % 4 = 0 := by omega
    simp only [decode, p2, false_and, if_false, if_true, d0, d1, d2, Option.bind_eq_bind, Option.bind_some, hz, r1, r2, toUInt8_toNat]
  | case3 a n =>
    have ha := a.toNat_lt
    have hn : n = a.toNat * 65536 := rfl
    obtain ⟨r1, r2, r3, r4⟩ := sextets_roundtrip a.toNat 0 0 ha (by decide) (by decide)
    simp only [Nat.add_zero, Nat.zero_mul] at r1 r2 r3 r4
    rw [← hn] at r1 r2 r3 r4
    have d0 := decChar_encChar (n / 262144) r4
    have d1 := decChar_encChar (n / 4096 % 64) (enc_lt _)
    have hz : n / 4096 % 64 % 16 = 0 := by omega
    simp only [decode, and_self, if_true, d0, d1, Option.bind_eq_bind, Option.bind_some, hz, r1, toUInt8_toNat]
  | case4 => simp [decode]

end Ohkami.B64

namespace Ohkami.B64

theorem decChar_spec : ∀ c : Fin 256, ∀ n, decChar c.val.toUInt8 = some n → n < 64 ∧ encChar n = c.val.toUInt8 := by
  have h : ∀ c : Fin 256, (match decChar c.val.toUInt8 with
      | some n => decide (n < 64) && (encChar n == c.val.toUInt8)
      | none => true) = true := by decide +kernel
  intro c n hn
  have := h c
  rw [hn] at this
  simpa using this

theorem decChar_spec' (c : UInt8) (n : Nat) (h : decChar c = some n) : n < 64 ∧ encChar n = c := by
  have := decChar_spec ⟨c.toNat, c.toNat_lt⟩ n (by simpa [toUInt8_toNat] using h)
  simpa [toUInt8_toNat] using this

theorem toNat_toUInt8 (n : Nat) (h : n < 256) : n.toUInt8.toNat = n := by
  simp [Nat.toUInt8, UInt8.toNat, UInt8.ofNat, Nat.mod_eq_of_lt h]

theorem quantum_back (a b c d : Nat) (ha : a < 64) (hb : b < 64) (hc : c < 64) (hd : d < 64) :
    let n := (a * 4 + b / 16) * 65536 + (b % 16 * 16 + c / 4) * 256 + (c % 4 * 64 + d)
    n / 262144 = a ∧ n / 4096 % 64 = b ∧ n / 64 % 64 = c ∧ n % 64 = d
      ∧ a * 4 + b / 16 < 256 ∧ b % 16 * 16 + c / 4 < 256 ∧ c % 4 * 64 + d < 256 := by
  intro n; simp only [n]; omega

theorem u8a (a b : Nat) (ha : a < 64) (hb : b < 64) : (UInt8.ofNat a * 4 + UInt8.ofNat (b / 16)).toNat = a * 4 + b / 16 := by
  simp [UInt8.toNat_add, UInt8.toNat_mul, UInt8.toNat_ofNat]; omega
theorem u8b (b c : Nat) (hb : b < 64) (hc : c < 64) : (UInt8.ofNat (b % 16) * 16 + UInt8.ofNat (c / 4)).toNat = b % 16 * 16 + c / 4 := by
  simp [UInt8.toNat_add, UInt8.toNat_mul, UInt8.toNat_ofNat]; omega
theorem u8c (c d : Nat) (hc : c < 64) (hd : d < 64) : (UInt8.ofNat (c % 4) * 64 + UInt8.ofNat d).toNat = c % 4 * 64 + d := by
  simp [UInt8.toNat_add, UInt8.toNat_mul, UInt8.toNat_ofNat]; omega

/-- canonical: a string that decodes is the encoding of what it decodes to -/
theorem encode_decode' : ∀ (s bs : Bytes), decode s = some bs → s = encode bs := by
  intro s
  fun_induction decode s with
  | case1 => intro bs h; have h := Option.some.inj h; subst h; simp [encode]
  | case2 c0 c1 c2 c3 hpp =>
    intro bs h
    obtain ⟨rfl, rfl⟩ := hpp
    cases h0 : decChar c0 with
    | none => simp [h0] at h
    | some a =>
      cases h1 : decChar c1 with
      | none => simp [h0, h1] at h
      | some b =>
        obtain ⟨ha, ea⟩ := decChar_spec' c0 a h0
        obtain ⟨hb, eb⟩ := decChar_spec' c1 b h1
        simp only [h0, h1, Option.bind_eq_bind, Option.bind_some] at h
        split at h
        next hz =>
          have h := Option.some.inj h; subst h
          have hv1 : a * 4 + b / 16 < 256 := by omega
          simp only [encode, toNat_toUInt8 _ hv1]
          have e1 : (a * 4 + b / 16) * 65536 / 262144 = a := by omega
          have e2 : (a * 4 + b / 16) * 65536 / 4096 % 64 = b := by omega
          rw [e1, e2, ea, eb]
        next => simp at h
  | case3 c0 c1 c2 hnpp =>
    intro bs h
    cases h0 : decChar c0 with
    | none => simp [h0] at h
    | some a =>
      cases h1 : decChar c1 with
      | none => simp [h0, h1] at h
      | some b =>
        cases h2 : decChar c2 with
        | none => simp [h0, h1, h2] at h
        | some c =>
          obtain ⟨ha, ea⟩ := decChar_spec' c0 a h0
          obtain ⟨hb, eb⟩ := decChar_spec' c1 b h1
          obtain ⟨hc, ec⟩ := decChar_spec' c2 c h2
          simp only [h0, h1, h2, Option.bind_eq_bind, Option.bind_some] at h
          split at h
          next hz =>
            have h := Option.some.inj h; subst h
            have hv1 : a * 4 + b / 16 < 256 := by omega
            have hv2 : b % 16 * 16 + c / 4 < 256 := by omega
            simp only [encode, toNat_toUInt8 _ hv1, toNat_toUInt8 _ hv2]
            have e1 : ((a * 4 + b / 16) * 65536 + (b % 16 * 16 + c / 4) * 256) / 262144 = a := by omega
            have e2 : ((a * 4 + b / 16) * 65536 + (b % 16 * 16 + c / 4) * 256) / 4096 % 64 = b := by omega
            have e3 : ((a * 4 + b / 16) * 65536 + (b % 16 * 16 + c / 4) * 256) / 64 % 64 = c := by omega
            rw [e1, e2, e3, ea, eb, ec]
          next => simp at h
  | case4 c0 c1 c2 c3 hnpp hnp =>
    intro bs h
    cases h0 : decChar c0 with
    | none => simp [h0] at h
    | some a =>
      cases h1 : decChar c1 with
      | none => simp [h0, h1] at h
      | some b =>
        cases h2 : decChar c2 with
        | none => simp [h0, h1, h2] at h
        | some c =>
          cases h3 : decChar c3 with
          | none => simp [h0, h1, h2, h3] at h
          | some d =>
            obtain ⟨ha, ea⟩ := decChar_spec' c0 a h0
            obtain ⟨hb, eb⟩ := decChar_spec' c1 b h1
            obtain ⟨hc, ec⟩ := decChar_spec' c2 c h2
            obtain ⟨hd, ed⟩ := decChar_spec' c3 d h3
            simp only [h0, h1, h2, h3, Option.bind_eq_bind, Option.bind_some] at h
            have h := Option.some.inj h; subst h
            obtain ⟨e1, e2, e3, e4, hv1, hv2, hv3⟩ := quantum_back a b c d ha hb hc hd
            simp only [encode, toNat_toUInt8 _ hv1, toNat_toUInt8 _ hv2, toNat_toUInt8 _ hv3]
            rw [e1, e2, e3, e4, ea, eb, ec, ed]
  | case5 c0 c1 c2 c3 rest hrest ih =>
    intro bs h
    cases h0 : decChar c0 with
    | none => simp [h0] at h
    | some a =>
      cases h1 : decChar c1 with
      | none => simp [h0, h1] at h
      | some b =>
        cases h2 : decChar c2 with
        | none => simp [h0, h1, h2] at h
        | some c =>
          cases h3 : decChar c3 with
          | none => simp [h0, h1, h2, h3] at h
          | some d =>
            cases ht : decode rest with
            | none => simp [h0, h1, h2, h3, ht] at h
            | some tl =>
              obtain ⟨ha, ea⟩ := decChar_spec' c0 a h0
              obtain ⟨hb, eb⟩ := decChar_spec' c1 b h1
              obtain ⟨hc, ec⟩ := decChar_spec' c2 c h2
              obtain ⟨hd, ed⟩ := decChar_spec' c3 d h3
              simp only [h0, h1, h2, h3, ht, Option.bind_eq_bind, Option.bind_some] at h
              have h := Option.some.inj h; subst h
              obtain ⟨e1, e2, e3, e4, hv1, hv2, hv3⟩ := quantum_back a b c d ha hb hc hd
              simp only [encode, toNat_toUInt8 _ hv1, toNat_toUInt8 _ hv2, toNat_toUInt8 _ hv3]
              rw [e1, e2, e3, e4, ea, eb, ec, ed, ← ih tl ht]
  | case6 s h1 h2 h3 => intro bs h; simp at h

end Ohkami.B64
