import OhkamiModel.P.SerdeEnc
/-! C09 round trip, value level: for every well-typed, unambiguous value in value position,
    the reader applied to the writer's text gives the value back and stops exactly at the end of it. -/
namespace Ohkami.Serde

def Clean (r : Bytes) : Prop := ∀ x ∈ r, x ≠ AMP ∧ x ≠ EQ
def CleanC (r : Bytes) : Prop := ∀ x ∈ r, x ≠ AMP ∧ x ≠ EQ ∧ x ≠ COMMA
def Stop (rest : Bytes) : Prop := rest = [] ∨ ∃ t, rest = AMP :: t

theorem CleanC.clean {r} (h : CleanC r) : Clean r := fun x hx => ⟨(h x hx).1, (h x hx).2.1⟩

theorem findPunc_clean_append (r rest : Bytes) (h : Clean r) :
    findPunc (r ++ rest) = (findPunc rest).map (· + r.length) := by
  induction r with
  | nil => simp
  | cons b bs ih =>
    have hb := h b (by simp)
    have ih' := ih (fun x hx => h x (by simp [hx]))
    simp only [List.cons_append, findPunc]
    rw [if_neg (by intro hc; cases hc with | inl e => exact hb.2 e | inr e => exact hb.1 e), ih']
    cases findPunc rest <;> simp [Nat.add_assoc]

theorem nextSection_value (r rest : Bytes) (h : Clean r) (hs : Stop rest) :
    nextSection ⟨r ++ rest, .value⟩ = .ok (r, ⟨rest, .value⟩) := by
  unfold nextSection
  simp only [findPunc_clean_append r rest h]
  rcases hs with rfl | ⟨t, rfl⟩
  · simp [findPunc]
  · simp [findPunc, AMP, EQ]

theorem nextSection_key (k rest : Bytes) (h : Clean k) (hk : k ≠ []) :
    nextSection ⟨k ++ EQ :: rest, .key⟩ = .ok (k, ⟨EQ :: rest, .key⟩) := by
  unfold nextSection
  simp only [findPunc_clean_append k (EQ :: rest) h]
  have : k.length ≠ 0 := by simpa using hk
  obtain ⟨n, hn⟩ : ∃ n, k.length = n + 1 := ⟨k.length - 1, by omega⟩
  simp [findPunc, EQ, hn]


@[simp] theorem ok_bind {α β} (a : α) (f : α → Outcome β) : (Outcome.ok a >>= f) = f a := rfl
@[simp] theorem pure_eq {α} (a : α) : (pure a : Outcome α) = .ok a := rfl

/-- what the round trip needs of std: the text parsers invert the text writers -/
structure PrimsOK (P : Prims) : Prop where
  pct : ∀ s, P.percentDecode (Percent.encode s) = s
  intU : ∀ bits (z : Int), 0 ≤ z → z < 2 ^ bits → P.parseInt false bits (showInt z) = some z
  intS : ∀ bits (z : Int), -(2 ^ (bits - 1) : Int) ≤ z → z < 2 ^ (bits - 1) → P.parseInt true bits (showInt z) = some z
  intUtf8 : ∀ z, P.validUtf8 (showInt z) = true
  pctInt : ∀ z, P.percentDecode (showInt z) = showInt z            -- digits and the sign hold no escape
  pctBool : P.percentDecode TRUE = TRUE ∧ P.percentDecode FALSE = FALSE
  chr : ∀ c, (c < 0xD800 ∨ (0xE000 ≤ c ∧ c < 0x110000)) → P.validUtf8 (utf8Enc c) = true ∧ P.utf8Chars (utf8Enc c) = some [c]

theorem alnum_pct_clean : ∀ x : UInt8, (Percent.isAlnum x = true ∨ x = Percent.PCT) → x ≠ AMP ∧ x ≠ EQ ∧ x ≠ COMMA := by
  intro x h
  refine ⟨?_, ?_, ?_⟩ <;> (rintro rfl; revert h; decide)

theorem cleanC_encode (s : Bytes) : CleanC (Percent.encode s) :=
  fun x hx => alnum_pct_clean x (Percent.encode_alphabet s x hx)

theorem digit_clean (d : Nat) (hd : d < 10) : (48 + d).toUInt8 ≠ AMP ∧ (48 + d).toUInt8 ≠ EQ ∧ (48 + d).toUInt8 ≠ COMMA := by
  have : ∀ d : Fin 10, (48 + d.val).toUInt8 ≠ AMP ∧ (48 + d.val).toUInt8 ≠ EQ ∧ (48 + d.val).toUInt8 ≠ COMMA := by decide
  exact this ⟨d, hd⟩

theorem cleanC_natDigits : ∀ fuel n acc, CleanC acc → CleanC (natDigits fuel n acc) := by
  intro fuel
  induction fuel with
  | zero => intro n acc h; simpa [natDigits] using h
  | succ f ih =>
    intro n acc h
    unfold natDigits
    split
    · rename_i hn
      intro x hx
      rcases List.mem_cons.mp hx with rfl | hx
      · exact digit_clean n hn
      · exact h x hx
    · apply ih
      intro x hx
      rcases List.mem_cons.mp hx with rfl | hx
      · exact digit_clean (n % 10) (Nat.mod_lt _ (by omega))
      · exact h x hx

theorem cleanC_showInt (z : Int) : CleanC (showInt z) := by
  unfold showInt
  cases z with
  | ofNat n => exact cleanC_natDigits _ _ _ (by intro x hx; cases hx)
  | negSucc n =>
    intro x hx
    rcases List.mem_cons.mp hx with rfl | hx
    · decide
    · exact cleanC_natDigits _ _ _ (by intro x hx; cases hx) x hx


/-! ### `splitComma` undoes the repaired sequence writer -/
theorem splitComma_ne_nil : ∀ xs, splitComma xs ≠ [] := by
  intro xs
  cases xs with
  | nil => simp [splitComma]
  | cons b bs =>
    simp only [splitComma]
    split
    · simp
    · split <;> simp

theorem splitComma_comma (xs : Bytes) : splitComma (COMMA :: xs) = [] :: splitComma xs := by
  simp only [splitComma]
  split
  · rename_i h; exact absurd h (splitComma_ne_nil xs)
  · rename_i l ls h; simp [h]

theorem splitComma_append (r tail : Bytes) (hr : ∀ x ∈ r, x ≠ COMMA) :
    splitComma (r ++ tail) = ((splitComma tail).head?.getD [] |> (r ++ ·)) :: (splitComma tail).tail := by
  induction r with
  | nil =>
    cases h : splitComma tail with
    | nil => exact absurd h (splitComma_ne_nil tail)
    | cons l ls => simp [h]
  | cons b bs ih =>
    have ih' := ih (fun x hx => hr x (by simp [hx]))
    simp only [List.cons_append, splitComma, ih']
    have hb : b ≠ COMMA := hr b (by simp)
    simp [hb]

theorem splitComma_join : ∀ (rs : List Bytes) (r : Bytes), (∀ x ∈ r :: rs, CleanC x) →
    splitComma (joinSeq true (r :: rs)) = r :: rs := by
  intro rs
  induction rs with
  | nil =>
    intro r h
    have := splitComma_append r [] (fun x hx => (h r (by simp) x hx).2.2)
    simpa [joinSeq, splitComma] using this
  | cons r' rs ih =>
    intro r h
    have ih' := ih r' (fun x hx => h x (List.mem_cons_of_mem _ hx))
    have hr := splitComma_append r (COMMA :: joinSeq true (r' :: rs)) (fun x hx => (h r (by simp) x hx).2.2)
    simp only [joinSeq, Bool.not_true, Bool.false_and, Bool.false_eq_true, if_false, List.flatMap_cons] at hr ih' ⊢
    rw [List.cons_append, hr, splitComma_comma, ih']
    simp


/-! ### renderings of sequence-element types contain none of `&`, `=`, `,` -/
theorem cleanC_nil : CleanC [] := by intro x hx; cases hx

theorem cleanC_encVal (u : Bytes → Bool) : ∀ (v : Value) (t : Ty) (r : Bytes),
    wellTyped u t v = true → noSeq t = true → encVal true v = .ok r → CleanC r
  | .bool b, t, r, _, _, he => by
    simp only [encVal, Except.ok.injEq] at he; subst he
    cases b
    · intro x hx; revert x; decide
    · intro x hx; revert x; decide
  | .int z, t, r, _, _, he => by
    simp only [encVal, Except.ok.injEq] at he; subst he; exact cleanC_showInt z
  | .char c, t, r, _, _, he => by
    simp only [encVal, Except.ok.injEq] at he; subst he; exact cleanC_encode _
  | .str s, t, r, _, _, he => by
    simp only [encVal, Except.ok.injEq] at he; subst he; exact cleanC_encode _
  | .variant n, t, r, _, _, he => by
    simp only [encVal, Except.ok.injEq] at he; subst he; exact cleanC_encode _
  | .none, t, r, _, _, he => by
    simp only [encVal, Except.ok.injEq] at he; subst he; exact cleanC_nil
  | .unit, t, r, _, _, he => by
    simp only [encVal, Except.ok.injEq] at he; subst he; exact cleanC_nil
  | .defaulted, t, r, _, _, he => by
    simp only [encVal, Except.ok.injEq] at he; subst he; exact cleanC_nil
  | .some v, t, r, hw, hn, he => by
    cases t <;> simp only [wellTyped, Bool.false_eq_true] at hw
    rename_i t'
    exact cleanC_encVal u v t' r hw (by simpa [noSeq] using hn) (by simpa [encVal] using he)
  | .newtype v, t, r, hw, hn, he => by
    cases t <;> simp only [wellTyped, Bool.false_eq_true] at hw
    rename_i t'
    exact cleanC_encVal u v t' r hw (by simpa [noSeq] using hn) (by simpa [encVal] using he)
  | .floatText _, t, r, hw, _, _ => by cases t <;> simp [wellTyped] at hw
  | .bytes _, t, r, hw, _, _ => by cases t <;> simp [wellTyped] at hw
  | .seq _, t, r, hw, hn, _ => by
    cases t <;> simp only [wellTyped, Bool.false_eq_true] at hw
    simp [noSeq] at hn
  | .map _, t, r, _, _, he => by simp [encVal] at he
  | .struct _, t, r, _, _, he => by simp [encVal] at he


theorem cleanC_encVals (u : Bytes → Bool) (t : Ty) (hn : noSeq t = true) : ∀ (vs : List Value) (rs : List Bytes),
    wellTyped.wtAll u t vs = true → encVal.encVals true vs = .ok rs → ∀ r ∈ rs, CleanC r := by
  intro vs
  induction vs with
  | nil => intro rs _ he; simp [encVal.encVals] at he; subst he; intro r hr; cases hr
  | cons v vs ih =>
    intro rs hw he
    simp only [wellTyped.wtAll, Bool.and_eq_true] at hw
    cases h1 : encVal true v with
    | error e => simp [encVal.encVals, h1, bind, Except.bind] at he
    | ok r1 =>
      cases h2 : encVal.encVals true vs with
      | error e => simp [encVal.encVals, h1, h2, bind, Except.bind] at he
      | ok rs' =>
        simp [encVal.encVals, h1, h2, bind, Except.bind, pure, Except.pure] at he
        subst he
        intro r hr
        rcases List.mem_cons.mp hr with rfl | hr
        · exact cleanC_encVal u v t _ hw.1 hn h1
        · exact ih rs' hw.2 h2 r hr

def sz : Value → Nat
  | .some v => sz v + 1
  | .newtype v => sz v + 1
  | .seq vs => szs vs + 2
  | _ => 1
where szs : List Value → Nat
  | [] => 0
  | v :: vs => sz v + 1 + szs vs

theorem sz_pos : ∀ v, 1 ≤ sz v := by
  intro v; cases v <;> simp [sz]

theorem sectionOr_value (site : String) (r rest : Bytes) (h : Clean r) (hs : Stop rest) :
    sectionOr false site ⟨r ++ rest, .value⟩ = .ok (r, ⟨rest, .value⟩) := by
  simp [sectionOr, nextSection_value r rest h hs]

end Ohkami.Serde
