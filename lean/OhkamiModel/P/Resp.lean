import OhkamiModel.Basic
/-! Prototype of the C03 model: IndexMap, response Headers with size accounting. -/
namespace Ohkami

structure IndexMap where
  index  : List (Option Nat)            -- slot table (length N); none = NULL
  values : List (Nat × Bytes)           -- append-only
deriving Repr

namespace IndexMap
def new (n : Nat) : IndexMap := ⟨List.replicate n none, []⟩
def slot (m : IndexMap) (k : Nat) : Option Nat := (m.index[k]?).join
def get (m : IndexMap) (k : Nat) : Option Bytes :=
  match m.slot k with
  | none => none
  | some p => (m.values[p]?).map (·.2)
def set (m : IndexMap) (k : Nat) (v : Bytes) : IndexMap :=
  ⟨m.index.set k (some m.values.length), m.values ++ [(k, v)]⟩
def delete (m : IndexMap) (k : Nat) : IndexMap := ⟨m.index.set k none, m.values⟩
-- overwrite in place (`*old = value` through get_mut)
def update (m : IndexMap) (k : Nat) (v : Bytes) : IndexMap :=
  match m.slot k with
  | none => m
  | some p => ⟨m.index, m.values.set p (k, v)⟩
-- `iter` as the code has it today: entry is yielded iff its key's slot is not NULL
def iterCode (m : IndexMap) : List (Nat × Bytes) :=
  m.values.filter fun kv => (m.slot kv.1).isSome
-- `iter` after the planned fix: iff its key's slot points at this very position
def iterFixed (m : IndexMap) : List (Nat × Bytes) :=
  (m.values.zipIdx).filterMap fun (kv, p) => if m.slot kv.1 = some p then some kv else none
end IndexMap

structure Headers where
  std    : IndexMap
  custom : List (Bytes × Bytes)          -- TupleMap (insert replaces, remove = swap_remove)
  cookies : List Bytes
  size   : Nat
deriving Repr

inductive HOp where
  | insert (k : Nat) (v : Bytes)
  | remove (k : Nat)
  | append (k : Nat) (v : Bytes)
  | insertX (name v : Bytes)
  | removeX (name : Bytes)
  | appendX (name v : Bytes)
  | cookie (line : Bytes)
deriving Repr

def crlfLen : Nat := 2
def sepLen : Nat := 2
def joinSep : Bytes := [44, 32]    -- ", "

def swapRemove {α} (l : List α) (i : Nat) : List α :=
  match l[i]?, l.getLast? with
  | some _, some last => if i + 1 = l.length then l.dropLast else (l.set i last).dropLast
  | _, _ => l

def Headers.apply (nameLen : Nat → Nat) (h : Headers) : HOp → Headers
  | .insert k v =>
    match h.std.get k with
    | none => { h with std := h.std.set k v, size := h.size + (nameLen k + sepLen + v.length + crlfLen) }
    | some old => { h with std := h.std.update k v, size := h.size - old.length + v.length }
  | .remove k =>
    match h.std.get k with
    | none => { h with std := h.std.delete k }
    | some old => { h with std := h.std.delete k, size := h.size - (nameLen k + sepLen + old.length + crlfLen) }
  | .append k v =>
    match h.std.get k with
    | none => { h with std := h.std.set k v, size := h.size + (nameLen k + sepLen + v.length + crlfLen) }
    | some old => { h with std := h.std.update k (old ++ joinSep ++ v), size := h.size + (2 + v.length) }
  | .insertX n v =>
    match h.custom.findIdx? (·.1 = n) with
    | none => { h with custom := h.custom ++ [(n, v)], size := h.size + (n.length + sepLen + v.length + crlfLen) }
    | some i => { h with custom := h.custom.set i (n, v), size := h.size - ((h.custom[i]?).map (·.2.length)).getD 0 + v.length }
  | .removeX n =>
    match h.custom.findIdx? (·.1 = n) with
    | none => h
    | some i => { h with custom := swapRemove h.custom i,
                         size := h.size - (n.length + sepLen + ((h.custom[i]?).map (·.2.length)).getD 0 + crlfLen) }
  | .appendX n v =>
    match h.custom.findIdx? (·.1 = n) with
    | none => { h with custom := h.custom ++ [(n, v)], size := h.size + (n.length + sepLen + v.length + crlfLen) }
    | some i => { h with custom := h.custom.set i (n, ((h.custom[i]?).map (·.2)).getD [] ++ joinSep ++ v), size := h.size + (2 + v.length) }
  | .cookie line => { h with cookies := h.cookies ++ [line], size := h.size + (12 + line.length + crlfLen) }

-- bytes that `write_unchecked_to` emits, as a length (fixed iteration)
def Headers.renderedLen (nameLen : Nat → Nat) (iter : IndexMap → List (Nat × Bytes)) (h : Headers) : Nat :=
  ((iter h.std).map fun kv => nameLen kv.1 + sepLen + kv.2.length + crlfLen).sum
  + (h.custom.map fun nv => nv.1.length + sepLen + nv.2.length + crlfLen).sum
  + (h.cookies.map fun c => 12 + c.length + crlfLen).sum
  + crlfLen

def Headers.empty (n : Nat) : Headers := ⟨IndexMap.new n, [], [], crlfLen⟩

-- C03 core: the reserved size is exactly what is written, for every operation history.

/-- and the code's iteration breaks it: witness -/
example : let h := [HOp.insert 1 [97], .remove 1, .insert 1 [98, 98]].foldl (Headers.apply fun _ => 6) (Headers.empty 2)
    h.renderedLen (fun _ => 6) IndexMap.iterCode = 25 ∧ h.size = 14 := by decide

end Ohkami
