import OhkamiModel.P.SerdeRT
/-! C08 for the URL-encoded reader: with the repaired section handling (`unwrapSites = false`, F8a) no input and no
    target type can make the reader panic or reach an unchecked operation; it answers `ok`, `err`, or runs out of fuel. -/
namespace Ohkami.Serde

def NoCrash {α} : Outcome α → Prop
  | .panic _ => False
  | .ub _ => False
  | _ => True

@[simp] theorem noCrash_ok {α} (a : α) : NoCrash (Outcome.ok a) := trivial
@[simp] theorem noCrash_err {α} (e : ErrClass) : NoCrash (Outcome.err e : Outcome α) := trivial
@[simp] theorem noCrash_unm {α} : NoCrash (Outcome.unmodelled : Outcome α) := trivial
@[simp] theorem noCrash_pure {α} (a : α) : NoCrash (pure a : Outcome α) := trivial

theorem noCrash_bind {α β} (x : Outcome α) (f : α → Outcome β) (hx : NoCrash x) (hf : ∀ a, NoCrash (f a)) :
    NoCrash (x >>= f) := by
  cases x with
  | ok a => exact hf a
  | err e => trivial
  | panic s => exact hx.elim
  | ub s => exact hx.elim
  | unmodelled => trivial

theorem noCrash_nextSection (d : De) : NoCrash (nextSection d) := by
  unfold nextSection
  split <;> (try split) <;> simp

theorem noCrash_sectionOr (site : String) (d : De) : NoCrash (sectionOr false site d) := by
  unfold sectionOr
  have := noCrash_nextSection d
  split
  · simp
  · assumption

variable (P : Prims)

theorem noCrash_decodeStr (b : Bool) (sec : Bytes) : NoCrash (decodeStr P b sec) := by
  unfold decodeStr
  dsimp only
  split <;> (try split) <;> simp

macro "crash_step" : tactic =>
  `(tactic| first
    | exact noCrash_ok _ | exact noCrash_err _ | exact noCrash_unm | exact noCrash_pure _
    | exact noCrash_nextSection _ | exact noCrash_sectionOr _ _ | exact noCrash_decodeStr _ _ _
    | assumption
    | (refine noCrash_bind _ _ ?_ (fun _ => ?_))
    | split)

theorem decode_total : ∀ fuel : Nat,
    (∀ ty d, NoCrash (decode P false fuel ty d)) ∧
    (∀ t es acc, NoCrash (seqLoop P false fuel t es acc)) ∧
    (∀ vt first acc d, NoCrash (mapLoop P false fuel vt first acc d)) ∧
    (∀ fields first acc d, NoCrash (structLoop P false fuel fields first acc d)) := by
  intro fuel
  induction fuel with
  | zero =>
    refine ⟨?_, ?_, ?_, ?_⟩
    · intro ty d; simp [decode]
    · intro t es acc; simp [seqLoop]
    · intro vt first acc d; simp [mapLoop]
    · intro fields first acc d; simp [structLoop]
  | succ f ih =>
    obtain ⟨ihd, ihs, ihm, iht⟩ := ih
    refine ⟨?_, ?_, ?_, ?_⟩
    · intro ty d
      cases ty <;> simp only [decode] <;> (repeat' crash_step)
      all_goals (first | exact ihd _ _ | exact ihs _ _ _ | exact ihm _ _ _ _ | exact iht _ _ _ _ | skip)
    · intro t es acc
      cases es <;> simp only [seqLoop] <;> (repeat' crash_step)
      all_goals (first | exact ihd _ _ | exact ihs _ _ _ | skip)
    · intro vt first acc d
      simp only [mapLoop]
      repeat' crash_step
      all_goals (first | exact ihd _ _ | exact ihm _ _ _ _ | skip)
    · intro fields first acc d
      simp only [structLoop]
      repeat' crash_step
      all_goals (first | exact ihd _ _ | exact iht _ _ _ _ | skip)


/-- **C08 (URL-encoded reader).** For every input, target type and amount of fuel the repaired reader neither panics
    nor reaches an unchecked operation. -/
theorem from_bytes_total (fuel : Nat) (ty : Ty) (input : Bytes) :
    NoCrash (decode P false fuel ty ⟨input, .key⟩) := (decode_total P fuel).1 ty _

-- today's code does panic: an `=` inside a value read as an integer (`a=1=2`), site `deserialize_uN`
example : decode ⟨id, fun _ => true, fun _ _ _ => none, fun _ => false, fun _ => none⟩ true 10
    (.struct [([97], .uint 32, false)]) ⟨[97, 61, 49, 61, 50], .key⟩ = .panic "deserialize_uN" := by rfl

end Ohkami.Serde
