import OhkamiModel.P.FangsHit
import OhkamiModel.M.RouterFull
/-! The loop-shaped search of the executable model (`searchP`: shaped like `Node::search_target`, it also collects the path params) answers
    with the same fang list and the same handler as `search`, the function the theorems of C01 / C04 are about — on every finalized router
    and every path, given fuel for one step per segment. -/
namespace Ohkami.Fangs
open Ohkami

theorem takePatsP_fst : ∀ (ps : List Seg) (ss : List Bytes), (takePatsP ps ss).map (·.1) = takePats ps ss
  | [], ss => by simp [takePatsP, takePats]
  | .static c :: ps, [] => by simp [takePatsP, takePats]
  | .param :: ps, [] => by simp [takePatsP, takePats]
  | .static c :: ps, s :: ss => by
    simp only [takePatsP, takePats]
    split
    · exact takePatsP_fst ps ss
    · rfl
  | .param :: ps, s :: ss => by
    simp only [takePatsP, takePats]
    split
    · rw [← takePatsP_fst ps ss]; cases takePatsP ps ss <;> simp
    · rfl

theorem firstKidP_none : ∀ (kids : List CN) (rest : List Bytes), firstKidP kids rest = none → search.firstKid rest kids = none
  | [], _, _ => by simp [search.firstKid]
  | .mk ps' f' h' ks' :: more, rest, h => by
    simp only [firstKidP] at h
    have e := takePatsP_fst ps' rest
    cases hp : takePatsP ps' rest with
    | some x => obtain ⟨a, b⟩ := x; simp [hp] at h
    | none =>
      simp only [hp] at h e
      simp only [search.firstKid, ← e, Option.map_none]
      exact firstKidP_none more rest h

theorem firstKidP_some : ∀ (kids : List CN) (rest : List Bytes) (k : CN) (r cap : List Bytes), firstKidP kids rest = some (k, r, cap) →
    search.firstKid rest kids = some (k, rest) ∧ takePats k.pats rest = some r
  | [], _, _, _, _, h => by simp [firstKidP] at h
  | .mk ps' f' h' ks' :: more, rest, k, r, cap, h => by
    simp only [firstKidP] at h
    have e := takePatsP_fst ps' rest
    cases hp : takePatsP ps' rest with
    | some x =>
      obtain ⟨a, b⟩ := x
      simp only [hp, Option.some.injEq, Prod.mk.injEq] at h
      obtain ⟨rfl, rfl, rfl⟩ := h
      simp only [hp, Option.map_some] at e
      simp [search.firstKid, ← e, CN.pats]
    | none =>
      simp only [hp] at h e
      simp only [search.firstKid, ← e, Option.map_none]
      exact firstKidP_some more rest k r cap h

-- every child, at every depth, has a pattern of at least one segment (true of every finalized router: only the root has none)
mutual
def NEk : CN → Prop
  | .mk _ _ _ ks => NEks ks
def NEks : List CN → Prop
  | [] => True
  | k :: ks => k.pats ≠ [] ∧ NEk k ∧ NEks ks
end

theorem neks_mem : ∀ (ks : List CN) (k : CN), NEks ks → k ∈ ks → k.pats ≠ [] ∧ NEk k
  | [], _, _, h => by cases h
  | a :: as, k, hn, h => by
    rcases List.mem_cons.mp h with rfl | h'
    · exact ⟨hn.1, hn.2.1⟩
    · exact neks_mem as k hn.2.2 h'

/-- the loop `go` of `searchP`, from a node whose pattern has been taken, agrees with what `search` does there (`after`) -/
theorem go_eq_after : ∀ (n G : Nat) (ps : List Seg) (f : List Nat) (h : Option Nat) (ks : List CN) (rest caps : List Bytes),
    NEks ks → rest ≠ [] → rest.length ≤ n → rest.length ≤ G →
    ((searchP.go n (.mk ps f h ks) rest caps).1, (searchP.go n (.mk ps f h ks) rest caps).2.1) = after G f h ks rest := by
  intro n
  induction n with
  | zero => intro G ps f h ks rest caps _ hne hn _; cases rest with | nil => exact absurd rfl hne | cons a b => simp at hn
  | succ n ih =>
    intro G ps f h ks rest caps hk hne hn hG
    obtain ⟨s, r0, rfl⟩ : ∃ s r0, rest = s :: r0 := by cases rest with | nil => exact absurd rfl hne | cons a b => exact ⟨a, b, rfl⟩
    obtain ⟨G, rfl⟩ : ∃ G', G = G' + 1 := ⟨G - 1, by simp at hG; omega⟩
    simp only [searchP.go, after]
    cases hfk : firstKidP ks (s :: r0) with
    | none => simp [firstKidP_none ks _ hfk]
    | some x =>
      obtain ⟨k, r, cap⟩ := x
      obtain ⟨e1, e2⟩ := firstKidP_some ks _ k r cap hfk
      obtain ⟨hmem, _, _⟩ := firstKid_some ks _ k _ e1
      obtain ⟨hkne, hknk⟩ := neks_mem ks k hk hmem
      obtain ⟨ps', f', h', ks'⟩ := k
      simp only [e1, search_succ]
      simp only [CN.pats] at e2 hkne
      simp only [e2]
      have hlen := takePats_len ps' (s :: r0) r e2
      have hps : 0 < ps'.length := List.length_pos_iff.mpr hkne
      cases r with
      | nil => simp [after]
      | cons s1 r1 =>
        simp only
        simp only [List.length_cons] at hlen hn hG
        exact ih G ps' f' h' ks' (s1 :: r1) (caps ++ cap) hknk (by simp) (by simp only [List.length_cons]; omega) (by simp only [List.length_cons]; omega)

/-- **`searchP` and `search` answer alike** (fang list and handler) -/
theorem searchP_eq_search (G : Nat) (cn : CN) (ss caps : List Bytes) (hn : NEk cn) (hG : ss.length + 1 ≤ G) :
    ((searchP G cn ss caps).1, (searchP G cn ss caps).2.1) = search G cn ss := by
  obtain ⟨G, rfl⟩ : ∃ G', G = G' + 1 := ⟨G - 1, by omega⟩
  obtain ⟨ps, f, h, ks⟩ := cn
  rw [search_succ]
  simp only [searchP]
  have e := takePatsP_fst ps ss
  cases hp : takePatsP ps ss with
  | none => simp only [hp, Option.map_none] at e; simp [← e]
  | some x =>
    obtain ⟨rest, cap⟩ := x
    simp only [hp, Option.map_some] at e
    simp only [← e]
    have hlen := takePats_len ps ss rest e.symm
    cases rest with
    | nil => simp [after]
    | cons s1 r1 =>
      simp only
      exact go_eq_after G G ps f h ks (s1 :: r1) (caps ++ cap) hn (by simp) (by omega) (by omega)

end Ohkami.Fangs

namespace Ohkami.Fangs
open Ohkami

theorem finalize_pats_ne (F : Nat) (k : BN) (o : Bool) (sk : Seg) (hp : k.pat = some sk) (hok : TreeOK k) : (finalize true F k o).pats ≠ [] := by
  obtain ⟨p, f, h, ks⟩ := k
  simp only [BN.pat] at hp
  subst hp
  cases F with
  | zero => simp [finalize, CN.pats]
  | succ F =>
    obtain ⟨chain, f', h', ks', ec, _, _⟩ := compress_routes (some sk) o F [sk] f h (inhKids f ks) (kidsOK_inhKids f ks hok)
    rw [finalize_succ]
    simp only [Option.toList, CN.pats]
    rw [ec]
    simp

theorem neks_map (g : BN → CN) : ∀ l : List BN, (∀ k ∈ l, (g k).pats ≠ [] ∧ NEk (g k)) → NEks (l.map g)
  | [], _ => trivial
  | a :: as, h => ⟨(h a (by simp)).1, (h a (by simp)).2, neks_map g as (fun k hk => h k (by simp [hk]))⟩

theorem kidsOK_mem : ∀ (ks : List BN) (k : BN), KidsOK ks → k ∈ ks → TreeOK k ∧ ∃ sk, k.pat = some sk
  | [], _, _, h => by cases h
  | a :: as, k, hok, h => by
    rcases List.mem_cons.mp h with rfl | h'
    · exact ⟨hok.2.1, Option.isSome_iff_exists.mp hok.1⟩
    · exact kidsOK_mem as k hok.2.2 h'

/-- every finalized router has it: below the root every node's pattern holds at least its own segment -/
theorem finalize_nek : ∀ (F : Nat) (t : BN) (o : Bool), TreeOK t → NEk (finalize true F t o) := by
  intro F
  induction F with
  | zero => intro t o _; obtain ⟨p, f, h, ks⟩ := t; simp [finalize, NEk, NEks]
  | succ F ih =>
    intro t o hok
    obtain ⟨p, f, h, ks⟩ := t
    obtain ⟨chain, f', h', ks', ec, hok', _⟩ := compress_routes p o F p.toList f h (inhKids f ks) (kidsOK_inhKids f ks hok)
    rw [finalize_succ, ec]
    simp only [NEk]
    apply neks_map
    intro k hk
    obtain ⟨hkok, sk, hsk⟩ := kidsOK_mem ks' k hok' ((mem_sortKids ks' k).mp hk)
    exact ⟨finalize_pats_ne F k _ sk hsk hkok, ih k _ hkok⟩

/-- **The loop-shaped search of the executable model is the proved one**, on the finalized router of every application tree -/
theorem searchP_is_search (cfg : App) (t : BN) (ss caps : List Bytes) (F G : Nat) (hb : build cfg = some t) (hG : ss.length + 1 ≤ G) :
    ((searchP G (finalize true F t false) ss caps).1, (searchP G (finalize true F t false) ss caps).2.1) = search G (finalize true F t false) ss :=
  searchP_eq_search G _ ss caps (finalize_nek F t false (routes_build cfg t hb).2) hG

end Ohkami.Fangs
