import OhkamiModel.P.FangsRoutes
/-! The route table of a whole application tree: `build` (registration of own routes, mounting of sub-applications,
    fang application) yields a trie whose routes are exactly the flattened configuration. -/
namespace Ohkami.Fangs
open Ohkami

mutual
def flatRoutes : App → List (Route × Nat)
  | .mk _ _ routes mounts => routes ++ flatMounts mounts
def flatMounts : List (Route × App) → List (Route × Nat)
  | [] => []
  | (r, a) :: rest => under r (flatRoutes a) ++ flatMounts rest
end

mutual
theorem applyFangs_props (id : Nat) : ∀ t : BN,
    (applyFangs id t).pat = t.pat ∧ routesOfBN (applyFangs id t) = routesOfBN t ∧ (TreeOK t → TreeOK (applyFangs id t))
  | .mk p f h ks => by
    obtain ⟨h2, h3⟩ := applyKids_props id ks
    simp only [applyFangs, BN.pat, routesOfBN, TreeOK, h2, true_and]
    exact h3
theorem applyKids_props (id : Nat) : ∀ ks : List BN,
    routesOfKidsBN (applyKids id ks) = routesOfKidsBN ks ∧ (KidsOK ks → KidsOK (applyKids id ks))
  | [] => by simp [applyKids]
  | k :: ks => by
    obtain ⟨h1, h2, h3⟩ := applyFangs_props id k
    obtain ⟨h4, h5⟩ := applyKids_props id ks
    simp only [applyKids, routesOfKidsBN, h1, h2, h4, KidsOK, true_and]
    intro ⟨a, b, c⟩
    exact ⟨a, h3 b, h5 c⟩
end

theorem routes_foldl_register : ∀ (routes : List (Route × Nat)) (t t' : BN), TreeOK t →
    routes.foldlM (fun t rh => register t rh.1 rh.2) t = some t' →
    (routesOfBN t').Perm (routesOfBN t ++ routes) ∧ TreeOK t' := by
  intro routes
  induction routes with
  | nil => intro t t' ht h; simp at h; subst h; simp [ht]
  | cons rh rest ih =>
    intro t t' ht h
    simp only [List.foldlM_cons, Option.bind_eq_bind, Option.bind_eq_some_iff] at h
    obtain ⟨t1, h1, h2⟩ := h
    obtain ⟨hp1, hok1⟩ := routes_register t t1 rh.1 rh.2 ht h1
    obtain ⟨hp2, hok2⟩ := ih t1 t' hok1 h2
    refine ⟨hp2.trans ?_, hok2⟩
    have := List.Perm.append_right rest hp1
    simpa [List.append_assoc] using this

mutual
theorem routes_build : ∀ (cfg : App) (t : BN), build cfg = some t →
    (routesOfBN t).Perm (flatRoutes cfg) ∧ TreeOK t
  | .mk id hasFangs routes mounts, t, h => by
    simp only [build, Option.bind_eq_bind, Option.bind_eq_some_iff, Option.pure_def, Option.some.injEq] at h
    obtain ⟨t1, h1, t2, h2, rfl⟩ := h
    obtain ⟨hp1, hok1⟩ := routes_foldl_register routes _ t1 (by simp [TreeOK, KidsOK]) h1
    obtain ⟨hp2, hok2⟩ := routes_buildMounts mounts t1 t2 hok1 h2
    have hp : (routesOfBN t2).Perm (flatRoutes (.mk id hasFangs routes mounts)) := by
      refine hp2.trans ?_
      simp only [flatRoutes]
      exact List.Perm.append_right _ (by simpa [routesOfBN, routesOfKidsBN] using hp1)
    split
    · obtain ⟨_, hr, hk⟩ := applyFangs_props id t2
      exact ⟨hr ▸ hp, hk hok2⟩
    · exact ⟨hp, hok2⟩
theorem routes_buildMounts : ∀ (mounts : List (Route × App)) (t t' : BN), TreeOK t → buildMounts t mounts = some t' →
    (routesOfBN t').Perm (routesOfBN t ++ flatMounts mounts) ∧ TreeOK t'
  | [], t, t', ht, h => by simp [buildMounts] at h; subst h; simp [flatMounts, ht]
  | (r, a) :: rest, t, t', ht, h => by
    simp only [buildMounts, Option.bind_eq_bind, Option.bind_eq_some_iff] at h
    obtain ⟨sub, hs, t1, h1, h2⟩ := h
    obtain ⟨hps, hoks⟩ := routes_build a sub hs
    obtain ⟨_, hp1, hok1⟩ := routes_mergeAt r t sub t1 ht hoks h1
    obtain ⟨hp2, hok2⟩ := routes_buildMounts rest t1 t' hok1 h2
    refine ⟨hp2.trans ?_, hok2⟩
    simp only [flatMounts, ← List.append_assoc]
    refine List.Perm.append_right _ (hp1.trans (List.Perm.append_left _ ?_))
    exact hps.map _
end

end Ohkami.Fangs
