import OhkamiModel.P.TrieProofs
namespace Ohkami

theorem routesOfKids_ne_nil_route : ∀ (ks : List BNode) (rh : Route × Nat), rh ∈ routesOfKids ks → rh.1 ≠ [] := by
  intro ks
  induction ks with
  | nil => intro rh h; simp [routesOfKids] at h
  | cons k ks ih =>
    intro rh h
    simp only [routesOfKids, List.mem_append, List.mem_map] at h
    rcases h with ⟨x, _, rfl⟩ | h
    · simp
    · exact ih rh h

theorem routesOfKids_head : ∀ (ks : List BNode) (rh : Route × Nat), rh ∈ routesOfKids ks →
    ∃ k ∈ ks, ∃ t, rh.1 = k.pat :: t := by
  intro ks
  induction ks with
  | nil => intro rh h; simp [routesOfKids] at h
  | cons k ks ih =>
    intro rh h
    simp only [routesOfKids, List.mem_append, List.mem_map] at h
    rcases h with ⟨x, _, rfl⟩ | h
    · exact ⟨k, by simp, x.1, rfl⟩
    · obtain ⟨k', hk', t, ht⟩ := ih rh h
      exact ⟨k', by simp [hk'], t, ht⟩

/-- when is the continuation below a node forced? exactly when compression would merge it with its child -/
theorem forcedNext_node (p : Seg) (h : Option Nat) (ks : List BNode) (hi : TInv (.mk p h ks)) :
    forcedNext (routesOf (.mk p h ks)) =
      (match h, ks with
       | none, [.mk (.static c) _ _] => some c
       | _, _ => none) := by
  obtain ⟨hk, hn⟩ := TInv_mk.mp hi
  rw [routesOf_mk]
  cases h with
  | some x => simp [forcedNext]
  | none =>
    simp only [List.nil_append]
    cases ks with
    | nil => simp [routesOfKids, forcedNext]
    | cons k1 rest =>
      obtain ⟨_, hne1, _⟩ := KInv_mem hk (k := k1) (by simp)
      cases rest with
      | nil =>
        obtain ⟨p1, h1, ks1⟩ := k1
        cases p1 with
        | param =>
          simp only
          cases hf : forcedNext (routesOfKids [BNode.mk Seg.param h1 ks1]) with
          | none => rfl
          | some c =>
            exfalso
            obtain ⟨_, hall⟩ := forcedNext_iff.mp hf
            cases hr : routesOf (BNode.mk Seg.param h1 ks1) with
            | nil => exact hne1 hr
            | cons rh _ =>
              have : (Seg.param :: rh.1, rh.2) ∈ routesOfKids [BNode.mk Seg.param h1 ks1] := by
                simp [routesOfKids, hr, BNode.pat]
              obtain ⟨t, ht⟩ := hall _ this
              simp at ht
        | static c =>
          simp only
          rw [forcedNext_iff]
          constructor
          · intro he
            simp [routesOfKids] at he
            exact hne1 he
          · intro rh hm
            obtain ⟨k, hk', t, ht⟩ := routesOfKids_head _ rh hm
            simp at hk'; subst hk'
            exact ⟨t, ht⟩
      | cons k2 rest2 =>
        simp only
        cases hf : forcedNext (routesOfKids (k1 :: k2 :: rest2)) with
        | none => rfl
        | some c =>
          exfalso
          obtain ⟨_, hall⟩ := forcedNext_iff.mp hf
          obtain ⟨_, hne2, _⟩ := KInv_mem hk (k := k2) (by simp)
          have hp1 : k1.pat = .static c := by
            cases hr : routesOf k1 with
            | nil => exact absurd hr hne1
            | cons rh _ =>
              have : (k1.pat :: rh.1, rh.2) ∈ routesOfKids (k1 :: k2 :: rest2) := by
                simp [routesOfKids, hr]
              obtain ⟨t, ht⟩ := hall _ this
              simp at ht; exact ht.1
          have hp2 : k2.pat = .static c := by
            cases hr : routesOf k2 with
            | nil => exact absurd hr hne2
            | cons rh _ =>
              have : (k2.pat :: rh.1, rh.2) ∈ routesOfKids (k1 :: k2 :: rest2) := by
                simp [routesOfKids, hr]
              obtain ⟨t, ht⟩ := hall _ this
              simp at ht; exact ht.1
          simp only [List.map_cons, List.nodup_cons, List.mem_cons] at hn
          exact hn.1 (Or.inl (by rw [hp1, hp2]))

end Ohkami

namespace Ohkami

/-- following the forced chain in the trie = matching the chain on the route list -/
theorem chainMatch_followChain : ∀ (fuel : Nat) (k : BNode) (ss : List Bytes), TInv k → routesOf k ≠ [] →
    (chainMatch fuel (routesOf k) ss = none ∧ followChain fuel k ss = none) ∨
    ∃ k' ss', chainMatch fuel (routesOf k) ss = some (routesOf k', ss') ∧ followChain fuel k ss = some (k', ss')
      ∧ TInv k' ∧ routesOf k' ≠ [] := by
  intro fuel
  induction fuel with
  | zero => intro k ss hi hne; right; exact ⟨k, ss, by simp [chainMatch], by simp [followChain], hi, hne⟩
  | succ f ih =>
    intro k ss hi hne
    obtain ⟨p, h, ks⟩ := k
    have hfn := forcedNext_node p h ks hi
    obtain ⟨hk, hn⟩ := TInv_mk.mp hi
    simp only [chainMatch, hfn]
    -- case analysis following `followChain`
    cases h with
    | some x => right; exact ⟨_, ss, by simp, by simp [followChain], hi, hne⟩
    | none =>
      cases ks with
      | nil => right; exact ⟨_, ss, by simp, by simp [followChain], hi, hne⟩
      | cons k1 rest =>
        cases rest with
        | cons k2 rest2 => right; exact ⟨_, ss, by simp, by simp [followChain], hi, hne⟩
        | nil =>
          obtain ⟨p1, h1, ks1⟩ := k1
          cases p1 with
          | param => right; exact ⟨_, ss, by simp, by simp [followChain], hi, hne⟩
          | static c =>
            obtain ⟨hi1, hne1, _⟩ := KInv_mem hk (k := BNode.mk (Seg.static c) h1 ks1) (by simp)
            have hstep : stepStatic (routesOf (BNode.mk p none [BNode.mk (Seg.static c) h1 ks1])) c
                = routesOf (BNode.mk (Seg.static c) h1 ks1) := by
              rw [stepStatic_node _ _ _ _ hn]
              simp [findStatic, BNode.pat]
            simp only [followChain]
            cases ss with
            | nil => left; simp
            | cons s' ss' =>
              by_cases hc : s' = c
              · subst hc
                simp only [if_true, hstep]
                exact ih _ _ hi1 hne1
              · left; simp [hc]

theorem find_nil_routesOf (p : Seg) (h : Option Nat) (ks : List BNode) :
    ((routesOf (.mk p h ks)).find? (fun rh => rh.1 = [])).map (fun rh => (rh.2, ([] : List Bytes))) = h.map (fun x => (x, [])) := by
  rw [routesOf_mk]
  cases h with
  | some x => simp
  | none =>
    simp only [List.nil_append, Option.map_none, Option.map_eq_none_iff, List.find?_eq_none]
    intro rh hm
    simpa using routesOfKids_ne_nil_route ks rh hm

/-- Segment-level refinement: the look-up that compression + greedy descent compute on the trie is
    `greedyChain` on the trie's flat route table. -/
theorem lookupC_eq_greedyChain : ∀ (fuel : Nat) (n : BNode) (segs : List Bytes), TInv n →
    lookupC fuel n segs = greedyChain fuel (routesOf n) segs := by
  intro fuel
  induction fuel with
  | zero => intro n segs _; simp [lookupC, greedyChain]
  | succ f ih =>
    intro n segs hi
    obtain ⟨p, h, ks⟩ := n
    obtain ⟨hk, hn⟩ := TInv_mk.mp hi
    cases segs with
    | nil =>
      simp only [lookupC, greedyChain, BNode.handler]
      exact (find_nil_routesOf p h ks).symm
    | cons s ss =>
      rw [greedyChain_cons]
      simp only [lookupC, BNode.kids]
      rw [stepStatic_node p h ks s hn, stepParam_node p h ks hn]
      -- static candidate
      by_cases hs : s = []
      · subst hs; simp
      · simp only [ne_eq, hs, not_false_eq_true, true_and, if_true]
        have hparam : (match findParam ks with
              | some k => Option.map (fun x => (x.1, s :: x.2)) (lookupC f k ss)
              | none => none) =
            (if (match findParam ks with | some k => routesOf k | none => []) ≠ [] then
                Option.map (fun x => (x.1, s :: x.2)) (greedyChain f (match findParam ks with | some k => routesOf k | none => []) ss)
              else none) := by
          cases hfp : findParam ks with
          | none => simp
          | some kp =>
            obtain ⟨hm, _⟩ := findParam_mem hfp
            obtain ⟨hip, hnep, _⟩ := KInv_mem hk hm
            simp only [ne_eq, hnep, not_false_eq_true, if_true]
            rw [ih kp ss hip]
        cases hfs : findStatic ks s with
        | none =>
          simp only [ne_eq, not_true_eq_false, if_false]
          exact hparam
        | some k1 =>
          obtain ⟨hm, _⟩ := findStatic_mem hfs
          obtain ⟨hi1, hne1, _⟩ := KInv_mem hk hm
          simp only [ne_eq, hne1, not_false_eq_true, if_true]
          rcases chainMatch_followChain (ss.length + 1) k1 ss hi1 hne1 with ⟨h1, h2⟩ | ⟨k', ss', h1, h2, hi', _⟩
          · rw [h1, h2]; exact hparam
          · rw [h1, h2]
            simp only
            exact ih k' ss' hi'

end Ohkami
