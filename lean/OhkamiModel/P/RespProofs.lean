import OhkamiModel.P.Resp
namespace Ohkami
open IndexMap

/-! enumerate-and-filter with an explicit position offset (the shape of `values.iter().enumerate().filter(..)`) -/
def liveFrom (m : IndexMap) : Nat → List (Nat × Bytes) → List (Nat × Bytes)
  | _, [] => []
  | p, kv :: vs => (if m.slot kv.1 = some p then [kv] else []) ++ liveFrom m (p + 1) vs

def IndexMap.live (m : IndexMap) : List (Nat × Bytes) := liveFrom m 0 m.values

/-- well-formedness of the slot table w.r.t. the value vector -/
structure IndexMap.WF (m : IndexMap) (n : Nat) : Prop where
  len : m.index.length = n
  slot_ok : ∀ k p, m.slot k = some p → ∃ v, m.values[p]? = some (k, v)

theorem slot_set_self (m : IndexMap) (k : Nat) (x : Option Nat) (vs : List (Nat × Bytes)) (hk : k < m.index.length) :
    (⟨m.index.set k x, vs⟩ : IndexMap).slot k = x := by
  simp [IndexMap.slot, hk]

theorem slot_set_other (m : IndexMap) (k k' : Nat) (x : Option Nat) (vs : List (Nat × Bytes)) (h : k' ≠ k) :
    (⟨m.index.set k x, vs⟩ : IndexMap).slot k' = m.slot k' := by
  simp [IndexMap.slot, Ne.symm h]

theorem slot_values_irrel (idx : List (Option Nat)) (vs vs' : List (Nat × Bytes)) (k : Nat) :
    (⟨idx, vs⟩ : IndexMap).slot k = (⟨idx, vs'⟩ : IndexMap).slot k := rfl

theorem get_eq_none_iff_slot (m : IndexMap) (n : Nat) (hw : m.WF n) (k : Nat) :
    m.get k = none ↔ m.slot k = none := by
  unfold IndexMap.get
  constructor
  · intro h
    cases hs : m.slot k with
    | none => rfl
    | some p =>
      obtain ⟨v, hv⟩ := hw.slot_ok k p hs
      simp [hs, hv] at h
  · intro h; simp [h]

/-- `liveFrom` only looks at the slots of the keys that occur -/
theorem liveFrom_congr (m m' : IndexMap) (vs : List (Nat × Bytes)) (p : Nat)
    (h : ∀ i (hi : i < vs.length), (m.slot (vs[i]).1 = some (p + i)) ↔ (m'.slot (vs[i]).1 = some (p + i))) :
    liveFrom m p vs = liveFrom m' p vs := by
  induction vs generalizing p with
  | nil => rfl
  | cons kv vs ih =>
    simp only [liveFrom]
    have h0 := h 0 (by simp)
    simp only [List.getElem_cons_zero, Nat.add_zero] at h0
    have hrest : liveFrom m (p + 1) vs = liveFrom m' (p + 1) vs := by
      apply ih
      intro i hi
      have := h (i + 1) (by simp; omega)
      simp only [List.getElem_cons_succ] at this
      have e : p + (i + 1) = p + 1 + i := by omega
      rw [e] at this
      exact this
    rw [hrest]
    by_cases hc : m.slot kv.1 = some p
    · simp [hc, h0.mp hc]
    · have : ¬ m'.slot kv.1 = some p := fun h' => hc (h0.mpr h')
      simp [hc, this]

theorem liveFrom_append (m : IndexMap) (p : Nat) (a b : List (Nat × Bytes)) :
    liveFrom m p (a ++ b) = liveFrom m p a ++ liveFrom m (p + a.length) b := by
  induction a generalizing p with
  | nil => simp [liveFrom]
  | cons kv a ih =>
    simp only [List.cons_append, liveFrom, ih, List.length_cons, List.append_assoc]
    have e : p + 1 + a.length = p + (a.length + 1) := by omega
    rw [e]

/-- `set` on a key whose slot is empty appends exactly one live entry -/
theorem live_set (m : IndexMap) (n : Nat) (hw : m.WF n) (k : Nat) (hk : k < n) (v : Bytes)
    (hs : m.slot k = none) :
    (m.set k v).live = m.live ++ [(k, v)] := by
  unfold IndexMap.live IndexMap.set
  simp only
  rw [liveFrom_append]
  have hk' : k < m.index.length := by rw [hw.len]; exact hk
  congr 1
  · apply liveFrom_congr
    intro i hi
    by_cases hkk : (m.values[i]).1 = k
    · rw [hkk]
      simp only [Nat.zero_add]
      constructor
      · intro h
        rw [slot_set_self m k _ _ hk'] at h
        simp at h; omega
      · intro h; rw [hs] at h; simp at h
    · rw [slot_set_other m k _ _ _ hkk]
  · simp only [liveFrom, Nat.zero_add]
    have : (⟨m.index.set k (some m.values.length), m.values ++ [(k, v)]⟩ : IndexMap).slot k = some m.values.length :=
      slot_set_self m k _ _ hk'
    simp [this]


/-! sums over the live entries -/
def sumLive (f : Nat × Bytes → Nat) (m : IndexMap) (q : Nat) (vs : List (Nat × Bytes)) : Nat :=
  ((liveFrom m q vs).map f).sum

theorem sumLive_cons (f : Nat × Bytes → Nat) (m : IndexMap) (q : Nat) (kv : Nat × Bytes) (vs : List (Nat × Bytes)) :
    sumLive f m q (kv :: vs) = (if m.slot kv.1 = some q then f kv else 0) + sumLive f m (q + 1) vs := by
  unfold sumLive
  simp only [liveFrom]
  split <;> simp

/-- deleting key `k` removes exactly the entry its slot points at -/
theorem sumLive_delete (f : Nat × Bytes → Nat) (m : IndexMap) (k : Nat) (old : Bytes) :
    ∀ (vs : List (Nat × Bytes)) (q p : Nat), m.slot k = some p → q ≤ p → vs[p - q]? = some (k, old) →
    sumLive f m q vs = sumLive f ⟨m.index.set k none, m.values⟩ q vs + f (k, old) := by
  intro vs
  induction vs with
  | nil => intro q p _ _ h; simp at h
  | cons kv vs ih =>
    intro q p hs hq hv
    rw [sumLive_cons, sumLive_cons]
    by_cases hpq : p = q
    · subst hpq
      simp only [Nat.sub_self, List.getElem?_cons_zero, Option.some.injEq] at hv
      subst hv
      have hk' : k < m.index.length := by
        unfold IndexMap.slot at hs
        cases hi : m.index[k]? with
        | none => simp [hi] at hs
        | some x => exact (List.getElem?_eq_some_iff.mp hi).1
      have h1 : (⟨m.index.set k none, m.values⟩ : IndexMap).slot k = none := slot_set_self m k none _ hk'
      simp only [hs, if_true, h1]
      have : sumLive f m (p + 1) vs = sumLive f ⟨m.index.set k none, m.values⟩ (p + 1) vs := by
        unfold sumLive
        rw [liveFrom_congr m ⟨m.index.set k none, m.values⟩ vs (p + 1)]
        intro i hi
        by_cases hkk : (vs[i]).1 = k
        · rw [hkk, hs, h1]; simp; omega
        · rw [slot_set_other m k _ _ _ hkk]
      rw [this]; simp; omega
    · have hlt : q < p := by omega
      have hv' : vs[p - (q + 1)]? = some (k, old) := by
        have : p - q = (p - (q + 1)) + 1 := by omega
        rw [this] at hv
        simpa using hv
      have ihh := ih (q + 1) p hs (by omega) hv'
      rw [ihh]
      by_cases hkk : kv.1 = k
      · have hk' : k < m.index.length := by
          unfold IndexMap.slot at hs
          cases hi : m.index[k]? with
          | none => simp [hi] at hs
          | some x => exact (List.getElem?_eq_some_iff.mp hi).1
        have h1 : (⟨m.index.set k none, m.values⟩ : IndexMap).slot k = none := slot_set_self m k none _ hk'
        have hne : ¬ (some p = some q) := by simp; omega
        rw [hkk, hs, h1]
        simp [hne]
      · rw [slot_set_other m k _ _ _ hkk]
        omega


/-- overwriting the value at the position the slot points at -/
theorem sumLive_setval (f : Nat × Bytes → Nat) (m : IndexMap) (k : Nat) (v old : Bytes) :
    ∀ (vs : List (Nat × Bytes)) (q p : Nat), m.slot k = some p → q ≤ p → vs[p - q]? = some (k, old) →
    sumLive f m q (vs.set (p - q) (k, v)) + f (k, old) = sumLive f m q vs + f (k, v) := by
  intro vs
  induction vs with
  | nil => intro q p _ _ h; simp at h
  | cons kv vs ih =>
    intro q p hs hq hv
    by_cases hpq : p = q
    · subst hpq
      simp only [Nat.sub_self, List.getElem?_cons_zero, Option.some.injEq] at hv
      subst hv
      simp only [Nat.sub_self, List.set_cons_zero]
      rw [sumLive_cons, sumLive_cons]
      simp only [hs, if_true]
      omega
    · have hv' : vs[p - (q + 1)]? = some (k, old) := by
        have : p - q = (p - (q + 1)) + 1 := by omega
        rw [this] at hv
        simpa using hv
      have e : p - q = (p - (q + 1)) + 1 := by omega
      rw [e, List.set_cons_succ, sumLive_cons, sumLive_cons]
      have ihh := ih (q + 1) p hs (by omega) hv'
      omega

theorem sumLive_values_irrel (f : Nat × Bytes → Nat) (idx : List (Option Nat)) (v1 v2 : List (Nat × Bytes))
    (q : Nat) (l : List (Nat × Bytes)) : sumLive f ⟨idx, v1⟩ q l = sumLive f ⟨idx, v2⟩ q l := by
  unfold sumLive
  rw [liveFrom_congr (⟨idx, v1⟩ : IndexMap) ⟨idx, v2⟩ l q]
  intro i hi
  exact Iff.rfl

/-! IndexMap-level statements -/
def stdLen (f : Nat × Bytes → Nat) (m : IndexMap) : Nat := sumLive f m 0 m.values

theorem get_some_spec (m : IndexMap) (n : Nat) (hw : m.WF n) (k : Nat) (old : Bytes) (h : m.get k = some old) :
    ∃ p, m.slot k = some p ∧ m.values[p]? = some (k, old) := by
  unfold IndexMap.get at h
  cases hs : m.slot k with
  | none => simp [hs] at h
  | some p =>
    obtain ⟨v, hv⟩ := hw.slot_ok k p hs
    simp [hs, hv] at h
    subst h
    exact ⟨p, rfl, hv⟩

theorem stdLen_set (f : Nat × Bytes → Nat) (m : IndexMap) (n : Nat) (hw : m.WF n) (k : Nat) (hk : k < n) (v : Bytes)
    (hg : m.get k = none) : stdLen f (m.set k v) = stdLen f m + f (k, v) := by
  have hs := (get_eq_none_iff_slot m n hw k).mp hg
  have := live_set m n hw k hk v hs
  unfold IndexMap.live at this
  unfold stdLen sumLive
  rw [this]
  simp

theorem stdLen_delete (f : Nat × Bytes → Nat) (m : IndexMap) (n : Nat) (hw : m.WF n) (k : Nat) (old : Bytes)
    (hg : m.get k = some old) : stdLen f m = stdLen f (m.delete k) + f (k, old) := by
  obtain ⟨p, hs, hv⟩ := get_some_spec m n hw k old hg
  exact sumLive_delete f m k old m.values 0 p hs (by omega) (by simpa using hv)

theorem stdLen_delete_none (f : Nat × Bytes → Nat) (m : IndexMap) (n : Nat) (hw : m.WF n) (k : Nat)
    (hg : m.get k = none) : stdLen f (m.delete k) = stdLen f m := by
  have hs := (get_eq_none_iff_slot m n hw k).mp hg
  unfold stdLen sumLive IndexMap.delete
  simp only
  rw [liveFrom_congr]
  intro i hi
  by_cases hkk : (m.values[i]).1 = k
  · rw [hkk, hs]
    by_cases hk' : k < m.index.length
    · rw [slot_set_self m k none _ hk']
    · have : m.index.set k none = m.index := by
        apply List.set_eq_of_length_le; omega
      rw [this]; simp [hs, IndexMap.slot] at *
      simp [hs]
  · rw [slot_set_other m k _ _ _ hkk]

theorem stdLen_update (f : Nat × Bytes → Nat) (m : IndexMap) (n : Nat) (hw : m.WF n) (k : Nat) (v old : Bytes)
    (hg : m.get k = some old) : stdLen f (m.update k v) + f (k, old) = stdLen f m + f (k, v) := by
  obtain ⟨p, hs, hv⟩ := get_some_spec m n hw k old hg
  have := sumLive_setval f m k v old m.values 0 p hs (by omega) (by simpa using hv)
  unfold stdLen IndexMap.update
  simp only [hs]
  rw [sumLive_values_irrel f m.index (m.values.set p (k, v)) m.values]
  simpa using this


/-! well-formedness is preserved -/
theorem WF_new (n : Nat) : (IndexMap.new n).WF n := by
  constructor
  · simp [IndexMap.new]
  · intro k p h
    simp [IndexMap.new, IndexMap.slot, List.getElem?_replicate] at h
    split at h <;> simp at h

theorem WF_set (m : IndexMap) (n : Nat) (hw : m.WF n) (k : Nat) (hk : k < n) (v : Bytes) : (m.set k v).WF n := by
  have hk' : k < m.index.length := by rw [hw.len]; exact hk
  constructor
  · simp [IndexMap.set, hw.len]
  · intro k' p h
    unfold IndexMap.set at h ⊢
    by_cases hkk : k' = k
    · subst hkk
      rw [slot_set_self m k' _ _ hk'] at h
      simp at h; subst h
      exact ⟨v, by simp⟩
    · rw [slot_set_other m k _ _ _ hkk] at h
      obtain ⟨v', hv'⟩ := hw.slot_ok k' p h
      refine ⟨v', ?_⟩
      simp only
      rw [List.getElem?_append_left]
      · exact hv'
      · exact (List.getElem?_eq_some_iff.mp hv').1

theorem WF_delete (m : IndexMap) (n : Nat) (hw : m.WF n) (k : Nat) : (m.delete k).WF n := by
  constructor
  · simp [IndexMap.delete, hw.len]
  · intro k' p h
    unfold IndexMap.delete at h ⊢
    by_cases hkk : k' = k
    · subst hkk
      by_cases hk' : k' < m.index.length
      · rw [slot_set_self m k' _ _ hk'] at h; simp at h
      · have : m.index.set k' none = m.index := List.set_eq_of_length_le (by omega)
        rw [this] at h
        exact hw.slot_ok k' p h
    · rw [slot_set_other m k _ _ _ hkk] at h
      exact hw.slot_ok k' p h

theorem WF_update (m : IndexMap) (n : Nat) (hw : m.WF n) (k : Nat) (v : Bytes) : (m.update k v).WF n := by
  unfold IndexMap.update
  cases hs : m.slot k with
  | none => simpa using hw
  | some p =>
    simp only
    constructor
    · exact hw.len
    · intro k' p' h
      have h' : m.slot k' = some p' := h
      obtain ⟨v', hv'⟩ := hw.slot_ok k' p' h'
      by_cases hpp : p' = p
      · subst hpp
        obtain ⟨v0, hv0⟩ := hw.slot_ok k p' hs
        have : (k', v') = (k, v0) := by rw [hv0] at hv'; exact (Option.some.inj hv').symm
        have hk : k' = k := (Prod.mk.inj this).1
        subst hk
        refine ⟨v, ?_⟩
        simp only
        rw [List.getElem?_set_self]
        exact (List.getElem?_eq_some_iff.mp hv').1
      · refine ⟨v', ?_⟩
        simp only
        rw [List.getElem?_set_ne (Ne.symm hpp)]
        exact hv'

end Ohkami
