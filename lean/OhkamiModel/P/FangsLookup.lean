import OhkamiModel.P.SearchP
/-! C15 (and C01): every registered route is found when the finalized router is searched with the route's own literal — the look-up
    `gen_openapi_doc` performs for each (route, method) pair (`router.search_target(route)`): static segments as written, a param segment as
    `:name`.  Needs: sibling patterns distinct (`ND`, proved for every built trie) and no static segment beginning with `:` (what
    `RouteSegment` parsing guarantees: such a segment IS a param). -/
namespace Ohkami.Fangs
open Ohkami

def COLONB : UInt8 := 58

/-- `ss` spells the route: a static segment as it is, a param segment as some text beginning with `:` -/
def LitOf : Route → List Bytes → Prop
  | [], [] => True
  | .static c :: r, s :: ss => s = c ∧ LitOf r ss
  | .param :: r, s :: ss => s.head? = some COLONB ∧ LitOf r ss
  | _, _ => False

-- no static segment of the trie begins with `:`
mutual
def NoColonT : BN → Prop
  | .mk _ _ _ ks => NoColonKs ks
def NoColonKs : List BN → Prop
  | [] => True
  | k :: ks => (∀ c, k.pat = some (.static c) → c.head? ≠ some COLONB) ∧ NoColonT k ∧ NoColonKs ks
end

theorem litOf_nil_left : ∀ ss, LitOf [] ss → ss = []
  | [], _ => rfl
  | _ :: _, h => by simp [LitOf] at h

theorem takePats_lit : ∀ (a b : Route) (ss : List Bytes), LitOf (a ++ b) ss → ∃ rest, takePats a ss = some rest ∧ LitOf b rest
  | [], b, ss, h => ⟨ss, by simp [takePats], by simpa using h⟩
  | .static c :: a, b, [], h => by simp [LitOf] at h
  | .param :: a, b, [], h => by simp [LitOf] at h
  | .static c :: a, b, s :: ss, h => by
    simp only [List.cons_append, LitOf] at h
    obtain ⟨rest, h1, h2⟩ := takePats_lit a b ss h.2
    exact ⟨rest, by simp [takePats, h.1, h1], h2⟩
  | .param :: a, b, s :: ss, h => by
    simp only [List.cons_append, LitOf] at h
    obtain ⟨rest, h1, h2⟩ := takePats_lit a b ss h.2
    have hne : s ≠ [] := by intro e; subst e; simp at h
    exact ⟨rest, by simp [takePats, hne, h1], h2⟩

theorem litOf_length : ∀ (r : Route) (ss : List Bytes), LitOf r ss → ss.length = r.length
  | [], [], _ => rfl
  | [], _ :: _, h => by simp [LitOf] at h
  | .static c :: r, [], h => by simp [LitOf] at h
  | .param :: r, [], h => by simp [LitOf] at h
  | .static c :: r, s :: ss, h => by simp only [LitOf] at h; simp [litOf_length r ss h.2]
  | .param :: r, s :: ss, h => by simp only [LitOf] at h; simp [litOf_length r ss h.2]

theorem mem_routesOfKids_inv : ∀ (ks : List BN) (r : Route) (x : Nat), KidsOK ks → (r, x) ∈ routesOfKidsBN ks →
    ∃ k sk r', k ∈ ks ∧ k.pat = some sk ∧ r = sk :: r' ∧ (r', x) ∈ routesOfBN k
  | [], _, _, _, h => by simp [routesOfKidsBN] at h
  | a :: as, r, x, hok, h => by
    simp only [routesOfKidsBN, List.mem_append] at h
    obtain ⟨sk, hsk⟩ := Option.isSome_iff_exists.mp hok.1
    rcases h with h | h
    · simp only [hsk, List.mem_map] at h
      obtain ⟨⟨r', x'⟩, hm, he⟩ := h
      simp only [Prod.mk.injEq] at he
      obtain ⟨rfl, rfl⟩ := he
      exact ⟨a, sk, r', by simp, hsk, rfl, hm⟩
    · obtain ⟨k, sk', r', hk, hp, he, hm⟩ := mem_routesOfKids_inv as r x hok.2.2 h
      exact ⟨k, sk', r', List.mem_cons_of_mem _ hk, hp, he, hm⟩

theorem nd_inhKids (f : List Nat) : ∀ ks : List BN, NDs ks → pats (inhKids f ks) = pats ks ∧ NDs (inhKids f ks)
  | [], _ => ⟨rfl, trivial⟩
  | k :: ks, h => by
    obtain ⟨p, f', hh, ks'⟩ := k
    obtain ⟨e1, e2⟩ := nd_inhKids f ks h.2
    refine ⟨?_, ?_⟩
    · simp only [pats, inhKids, List.map_cons, BN.pat] at e1 ⊢; rw [e1]
    · exact ⟨h.1, e2⟩

theorem noColon_inhKids (f : List Nat) : ∀ ks : List BN, NoColonKs ks → NoColonKs (inhKids f ks)
  | [], _ => trivial
  | k :: ks, h => by
    obtain ⟨p, f', hh, ks'⟩ := k
    exact ⟨h.1, h.2.1, noColon_inhKids f ks h.2.2⟩

/-- the compression loop, both ways: the routes of the node it started at are exactly the routes of the node it stops at behind the chain it took in -/
theorem compress_routes_iff (p : Option Seg) (o : Bool) : ∀ (n : Nat) (ps : List Seg) (f : List Nat) (h : Option Nat) (ks : List BN),
    KidsOK ks → (pats ks).Nodup → NDs ks → NoColonKs ks →
    ∃ chain f' h' ks', finalize.compress true p o n ps f h ks = (ps ++ chain, f', h', ks') ∧ KidsOK ks' ∧ (pats ks').Nodup ∧ NDs ks' ∧ NoColonKs ks' ∧
      ∀ r x, (r, x) ∈ vroutes h ks ↔ ∃ r', r = chain ++ r' ∧ (r', x) ∈ vroutes h' ks' := by
  intro n
  induction n with
  | zero =>
    intro ps f h ks hok hn hnd hnc
    exact ⟨[], f, h, ks, by simp [finalize.compress], hok, hn, hnd, hnc, fun r x => by simp⟩
  | succ n ih =>
    intro ps f h ks hok hn hnd hnc
    unfold finalize.compress
    split
    · rename_i c f' h' ks'
      split
      · simp only [if_true]
        have emap : List.map (fun k => BN.mk k.pat (inherit k.fangs f') k.handler k.kids) ks' = inhKids f' ks' := rfl
        rw [emap]
        have hok' : KidsOK ks' := hok.2.1
        have hnd' : ND (BN.mk (some (.static c)) f' h' ks') := hnd.1
        obtain ⟨ep, endk⟩ := nd_inhKids f' ks' hnd'.2
        obtain ⟨chain, f2, h2, ks2, e1, e2, e3, e4, e5, e6⟩ := ih (ps ++ [.static c]) f' h' (inhKids f' ks') (kidsOK_inhKids f' ks' hok')
          (by rw [ep]; exact hnd'.1) endk (noColon_inhKids f' ks' hnc.2.1)
        refine ⟨.static c :: chain, f2, h2, ks2, by simp [e1], e2, e3, e4, e5, ?_⟩
        intro r x
        have hiff := e6
        constructor
        · intro hr
          rw [mem_vroutes] at hr
          rcases hr with ⟨_, hh⟩ | hr
          · cases hh
          · obtain ⟨k, sk, r', hk, hp, rfl, hm⟩ := mem_routesOfKids_inv _ r x hok hr
            rcases List.mem_singleton.mp hk with rfl
            simp only [BN.pat, Option.some.injEq] at hp
            subst hp
            rw [routesOfBN_eq_vroutes] at hm
            have hm' : (r', x) ∈ vroutes h' (inhKids f' ks') := by
              rw [mem_vroutes, routesOfKids_inhKids]; exact (mem_vroutes h' ks' r' x).mp hm
            obtain ⟨r'', rfl, h3⟩ := (hiff r' x).mp hm'
            exact ⟨r'', by simp, h3⟩
        · rintro ⟨r', rfl, h3⟩
          have hm' : (chain ++ r', x) ∈ vroutes h' (inhKids f' ks') := (hiff (chain ++ r') x).mpr ⟨r', rfl, h3⟩
          rw [mem_vroutes, routesOfKids_inhKids] at hm'
          rw [mem_vroutes]
          right
          have hmem : (chain ++ r', x) ∈ routesOfBN (BN.mk (some (.static c)) f' h' ks') := by
            rw [routesOfBN_eq_vroutes, mem_vroutes]; exact hm'
          exact mem_routesOfKids [BN.mk (some (.static c)) f' h' ks'] _ (.static c) (by simp) rfl (chain ++ r') x hmem
      · exact ⟨[], f, none, _, by simp, hok, hn, hnd, hnc, fun r x => by simp⟩
    · exact ⟨[], f, h, ks, by simp, hok, hn, hnd, hnc, fun r x => by simp⟩

end Ohkami.Fangs

namespace Ohkami.Fangs
open Ohkami

/-- the pattern of a finalized node takes the literal of any route that passes through it -/
theorem fin_pats_lit (F : Nat) (k : BN) (o : Bool) (r : Route) (x : Nat) (ss : List Bytes) (hok : TreeOK k) (hnd : ND k) (hnc : NoColonT k)
    (hr : (r, x) ∈ routesOfBN k) (hl : LitOf (k.pat.toList ++ r) ss) : (takePats (finalize true F k o).pats ss).isSome := by
  obtain ⟨p, f, h, ks⟩ := k
  cases F with
  | zero =>
    simp only [finalize, CN.pats]
    obtain ⟨rest, h1, _⟩ := takePats_lit p.toList r ss hl
    simp [h1]
  | succ F =>
    obtain ⟨e1, e2⟩ := nd_inhKids f ks hnd.2
    obtain ⟨chain, f', h', ks', ec, _, _, _, _, hiff⟩ := compress_routes_iff p o F p.toList f h (inhKids f ks) (kidsOK_inhKids f ks hok)
      (by rw [e1]; exact hnd.1) e2 (noColon_inhKids f ks hnc)
    rw [finalize_succ, ec]
    simp only [CN.pats]
    rw [routesOfBN_eq_vroutes] at hr
    have hr' : (r, x) ∈ vroutes h (inhKids f ks) := by rw [mem_vroutes, routesOfKids_inhKids]; exact (mem_vroutes h ks r x).mp hr
    obtain ⟨r', rfl, _⟩ := (hiff r x).mp hr'
    simp only [BN.pat] at hl
    rw [← List.append_assoc] at hl
    obtain ⟨rest, h1, _⟩ := takePats_lit (p.toList ++ chain) r' ss hl
    simp [h1]

/-- the pattern of a finalized node begins with the node's own segment -/
theorem fin_pats_head (F : Nat) (k : BN) (o : Bool) (hok : TreeOK k) : ∃ chain, (finalize true F k o).pats = k.pat.toList ++ chain := by
  obtain ⟨p, f, h, ks⟩ := k
  cases F with
  | zero => exact ⟨[], by simp [finalize, CN.pats, BN.pat]⟩
  | succ F =>
    obtain ⟨chain, f', h', ks', ec, _, _⟩ := compress_routes p o F p.toList f h (inhKids f ks) (kidsOK_inhKids f ks hok)
    exact ⟨chain, by rw [finalize_succ, ec]; simp [CN.pats, BN.pat]⟩

theorem firstKid_skip : ∀ (A : List CN) (rest : List Bytes) (tl : List CN), (∀ a ∈ A, takePats a.pats rest = none) →
    search.firstKid rest (A ++ tl) = search.firstKid rest tl
  | [], _, _, _ => rfl
  | .mk ps f h ks :: A, rest, tl, hA => by
    have h1 : takePats ps rest = none := hA (.mk ps f h ks) (by simp)
    simp only [List.cons_append, search.firstKid, h1]
    exact firstKid_skip A rest tl (fun a ha => hA a (by simp [ha]))

theorem firstKid_here (K : CN) (rest : List Bytes) (tl : List CN) (h : (takePats K.pats rest).isSome) :
    search.firstKid rest (K :: tl) = some (K, rest) := by
  obtain ⟨ps, f, hh, ks⟩ := K
  obtain ⟨x, hx⟩ := Option.isSome_iff_exists.mp h
  simp only [CN.pats] at hx
  simp [search.firstKid, hx]

/-- the literal of one segment -/
def segLit : Seg → Bytes → Prop
  | .static c, s0 => s0 = c
  | .param, s0 => s0.head? = some COLONB

/-- among the sorted children of a node, the literal of a route's next segment picks the child of that segment -/
theorem firstKid_picks (ks : List BN) (g : BN → CN) (k : BN) (sk : Seg) (s0 : Bytes) (rest' : List Bytes)
    (hok : KidsOK ks) (hn : (pats ks).Nodup) (hnc : NoColonKs ks) (hk : k ∈ ks) (hp : k.pat = some sk)
    (hlit : segLit sk s0)
    (hg : ∀ a ∈ ks, ∃ chain, (g a).pats = a.pat.toList ++ chain) (hsucc : (takePats (g k).pats (s0 :: rest')).isSome) :
    search.firstKid (s0 :: rest') ((sortKids ks).map g) = some (g k, s0 :: rest') := by
  -- a child with another pattern fails at the first segment, unless it is the param child (which is sorted behind the statics)
  have hfail : ∀ a ∈ ks, a.pat ≠ some sk → (isStatic a.pat = true ∨ sk = .param) → takePats (g a).pats (s0 :: rest') = none := by
    intro a ha hne hst
    obtain ⟨chain, hc⟩ := hg a ha
    obtain ⟨hap, _⟩ := kidsOK_mem ks a hok ha
    obtain ⟨_, sa, hsa⟩ := kidsOK_mem ks a hok ha
    rw [hc, hsa]
    have hnca : ∀ c, a.pat = some (.static c) → c.head? ≠ some COLONB := by
      clear hsucc hg hn hk
      induction ks with
      | nil => cases ha
      | cons b bs ih =>
        rcases List.mem_cons.mp ha with rfl | ha'
        · exact hnc.1
        · exact ih hok.2.2 hnc.2.2 ha'
    cases sa with
    | static ca =>
      simp only [Option.toList, List.cons_append, takePats]
      cases sk with
      | static c =>
        have : ca ≠ c := by intro e; subst e; exact hne hsa
        simp only [segLit] at hlit; subst hlit
        simp [Ne.symm this]
      | param =>
        simp only [segLit] at hlit
        have := hnca ca hsa
        have : s0 ≠ ca := by intro e; subst e; exact this hlit
        simp [this]
    | param =>
      rcases hst with hst | hst
      · simp [hsa, isStatic] at hst
      · subst hst; exact absurd hsa hne
  have hsub : ∀ (q : BN → Bool), ((sortKids ks).filter q).length ≥ 0 := fun _ => Nat.zero_le _
  -- split the sorted list at `k`
  simp only [sortKids, List.map_append]
  cases hst : isStatic k.pat with
  | true =>
    have hkm : k ∈ ks.filter (fun a => isStatic a.pat) := List.mem_filter.mpr ⟨hk, by simpa using hst⟩
    obtain ⟨A, B, hAB⟩ := List.append_of_mem hkm
    have hnd1 : (pats (ks.filter fun a => isStatic a.pat)).Nodup := by
      have : (pats (ks.filter fun a => isStatic a.pat)).Sublist (pats ks) := by
        simp only [pats]; exact (List.filter_sublist).map _
      exact hn.sublist this
    rw [hAB] at hnd1 ⊢
    simp only [List.map_append, List.map_cons, List.append_assoc, List.cons_append]
    rw [firstKid_skip (A.map g) _ _ ?_]
    · exact firstKid_here (g k) _ _ hsucc
    · intro a ha
      obtain ⟨a0, ha0, rfl⟩ := List.mem_map.mp ha
      have ha0f : a0 ∈ ks.filter (fun a => isStatic a.pat) := by rw [hAB]; simp [ha0]
      obtain ⟨ha0k, ha0s⟩ := List.mem_filter.mp ha0f
      have hne : a0.pat ≠ some sk := by
        intro e
        simp only [pats, List.map_append, List.map_cons] at hnd1
        have := (List.nodup_append.mp hnd1).2.2 (a0.pat) (List.mem_map.mpr ⟨a0, ha0, rfl⟩) (k.pat) (by simp)
        exact this (by rw [e, hp])
      exact hfail a0 ha0k hne (Or.inl (by simpa using ha0s))
  | false =>
    obtain ⟨_, sk', hsk'⟩ := kidsOK_mem ks k hok hk
    have hskp : sk = .param := by
      rw [hp] at hsk' hst
      cases sk with
      | static c => simp [isStatic] at hst
      | param => rfl
    subst hskp
    have hkm : k ∈ ks.filter (fun a => !isStatic a.pat) := List.mem_filter.mpr ⟨hk, by simp [hst]⟩
    obtain ⟨A, B, hAB⟩ := List.append_of_mem hkm
    have hnd2 : (pats (ks.filter fun a => !isStatic a.pat)).Nodup := by
      have : (pats (ks.filter fun a => !isStatic a.pat)).Sublist (pats ks) := by
        simp only [pats]; exact (List.filter_sublist).map _
      exact hn.sublist this
    rw [hAB] at hnd2 ⊢
    rw [firstKid_skip ((ks.filter fun a => isStatic a.pat).map g) _ _ ?_]
    · simp only [List.map_append, List.map_cons]
      rw [firstKid_skip (A.map g) _ _ ?_]
      · exact firstKid_here (g k) _ _ hsucc
      · intro a ha
        obtain ⟨a0, ha0, rfl⟩ := List.mem_map.mp ha
        have ha0f : a0 ∈ ks.filter (fun a => !isStatic a.pat) := by rw [hAB]; simp [ha0]
        obtain ⟨ha0k, _⟩ := List.mem_filter.mp ha0f
        have hne : a0.pat ≠ some .param := by
          intro e
          simp only [pats, List.map_append, List.map_cons] at hnd2
          have := (List.nodup_append.mp hnd2).2.2 (a0.pat) (List.mem_map.mpr ⟨a0, ha0, rfl⟩) (k.pat) (by simp)
          exact this (by rw [e, hp])
        exact hfail a0 ha0k hne (Or.inr rfl)
    · intro a ha
      obtain ⟨a0, ha0, rfl⟩ := List.mem_map.mp ha
      obtain ⟨ha0k, ha0s⟩ := List.mem_filter.mp ha0
      have hne : a0.pat ≠ some .param := by
        intro e; rw [e] at ha0s; simp [isStatic] at ha0s
      exact hfail a0 ha0k hne (Or.inr rfl)

end Ohkami.Fangs

namespace Ohkami.Fangs
open Ohkami

theorem nds_mem : ∀ (ks : List BN) (k : BN), NDs ks → k ∈ ks → ND k
  | [], _, _, h => by cases h
  | a :: as, k, hn, h => by
    rcases List.mem_cons.mp h with rfl | h'
    · exact hn.1
    · exact nds_mem as k hn.2 h'

theorem noColon_mem : ∀ (ks : List BN) (k : BN), NoColonKs ks → k ∈ ks → NoColonT k
  | [], _, _, h => by cases h
  | a :: as, k, hn, h => by
    rcases List.mem_cons.mp h with rfl | h'
    · exact hn.2.1
    · exact noColon_mem as k hn.2.2 h'

theorem vroutes_nil (h : Option Nat) (ks : List BN) (x : Nat) (hok : KidsOK ks) (hm : ([], x) ∈ vroutes h ks) : h = some x := by
  rcases (mem_vroutes h ks [] x).mp hm with ⟨_, hh⟩ | hk
  · exact hh
  · obtain ⟨_, _, _, _, _, he, _⟩ := mem_routesOfKids_inv ks [] x hok hk
    cases he

/-- a node of the trie, finalized and searched with the literal of a route that passes through it: the route's handler is found -/
theorem kid_found : ∀ (F G : Nat) (k : BN) (o : Bool) (r : Route) (x : Nat) (ss : List Bytes), TreeOK k → ND k → NoColonT k →
    (r, x) ∈ routesOfBN k → LitOf (k.pat.toList ++ r) ss → r.length ≤ F → r.length < G →
    (search G (finalize true F k o) ss).2 = some x := by
  intro F
  induction F with
  | zero =>
    intro G k o r x ss hok _ _ hr hl hF hG
    obtain ⟨p, f, h, ks⟩ := k
    have : r = [] := List.eq_nil_of_length_eq_zero (by omega)
    subst this
    obtain ⟨G, rfl⟩ : ∃ G', G = G' + 1 := ⟨G - 1, by omega⟩
    rw [routesOfBN_eq_vroutes] at hr
    have hh := vroutes_nil h ks x hok hr
    obtain ⟨rest, h1, h2⟩ := takePats_lit p.toList [] ss hl
    have := litOf_nil_left rest h2
    subst this
    simp [finalize, search_succ, h1, after, hh]
  | succ F ih =>
    intro G k o r x ss hok hnd hnc hr hl hF hG
    obtain ⟨p, f, h, ks⟩ := k
    obtain ⟨G, rfl⟩ : ∃ G', G = G' + 1 := ⟨G - 1, by omega⟩
    obtain ⟨e1, e2⟩ := nd_inhKids f ks hnd.2
    obtain ⟨chain, f', h', ks', ec, hok', hn', hnd', hnc', hiff⟩ := compress_routes_iff p o F p.toList f h (inhKids f ks) (kidsOK_inhKids f ks hok)
      (by rw [e1]; exact hnd.1) e2 (noColon_inhKids f ks hnc)
    rw [routesOfBN_eq_vroutes] at hr
    have hr' : (r, x) ∈ vroutes h (inhKids f ks) := by rw [mem_vroutes, routesOfKids_inhKids]; exact (mem_vroutes h ks r x).mp hr
    obtain ⟨r', rfl, hr2⟩ := (hiff r x).mp hr'
    simp only [BN.pat] at hl
    rw [← List.append_assoc] at hl
    obtain ⟨rest, h1, h2⟩ := takePats_lit (p.toList ++ chain) r' ss hl
    rw [finalize_succ, ec, search_succ]
    simp only [h1]
    cases r' with
    | nil =>
      have := litOf_nil_left rest h2
      subst this
      simp [after, vroutes_nil h' ks' x hok' hr2]
    | cons s r'' =>
      rcases (mem_vroutes h' ks' (s :: r'') x).mp hr2 with ⟨he, _⟩ | hk
      · cases he
      obtain ⟨k2, sk2, r2, hk2, hp2, he, hm2⟩ := mem_routesOfKids_inv ks' (s :: r'') x hok' hk
      simp only [List.cons.injEq] at he
      obtain ⟨rfl, rfl⟩ := he
      cases rest with
      | nil => cases s <;> simp [LitOf] at h2
      | cons s0 rest' =>
        obtain ⟨hk2ok, _⟩ := kidsOK_mem ks' k2 hok' hk2
        have hk2nd := nds_mem ks' k2 hnd' hk2
        have hk2nc := noColon_mem ks' k2 hnc' hk2
        have hlit2 : LitOf (k2.pat.toList ++ r'') (s0 :: rest') := by rw [hp2]; exact h2
        have hlit : segLit s s0 := by
          cases s <;> simp only [LitOf] at h2 <;> exact h2.1
        have hpick := firstKid_picks ks' (fun k => finalize true F k (k.fangs.length != f'.length)) k2 s s0 rest' hok' hn' hnc' hk2 hp2 hlit
          (fun a ha => fin_pats_head F a _ (kidsOK_mem ks' a hok' ha).1)
          (fin_pats_lit F k2 _ r'' x (s0 :: rest') hk2ok hk2nd hk2nc hm2 hlit2)
        simp only [after, hpick]
        simp only [List.length_append, List.length_cons] at hF hG
        exact ih G k2 _ r'' x (s0 :: rest') hk2ok hk2nd hk2nc hm2 hlit2 (by omega) (by omega)

end Ohkami.Fangs

namespace Ohkami.Fangs
open Ohkami

/-! ### no static segment of a built trie begins with `:` when none of the configuration does -/
def segOK (s : Seg) : Prop := ∀ c, s = .static c → c.head? ≠ some COLONB
def routeOK (r : Route) : Prop := ∀ s ∈ r, segOK s

mutual
def CfgOK : App → Prop
  | .mk _ _ routes mounts => (∀ rh ∈ routes, routeOK rh.1) ∧ MountsOK mounts
def MountsOK : List (Route × App) → Prop
  | [] => True
  | (r, a) :: rest => routeOK r ∧ CfgOK a ∧ MountsOK rest
end

theorem noColonKs_append : ∀ a b : List BN, NoColonKs (a ++ b) ↔ NoColonKs a ∧ NoColonKs b
  | [], b => by simp [NoColonKs]
  | k :: a, b => by simp [NoColonKs, noColonKs_append a b, and_assoc]

theorem noColon_fresh (s : Seg) (hs : segOK s) : NoColonKs [BN.mk (some s) [] none []] := by
  refine ⟨?_, trivial, trivial⟩
  intro c hc
  simp only [BN.pat, Option.some.injEq] at hc
  exact hs c hc

mutual
theorem noColon_mergeParts : ∀ (t a t' : BN), TreeOK t → TreeOK a → NoColonT t → NoColonT a → mergeParts t a = some t' → NoColonT t'
  | .mk p f h ks, .mk p' f' h' ks', t', ht, ha, hnt, hna, hm => by
    simp only [mergeParts] at hm
    split at hm
    · cases hm
    · simp only [Option.map_eq_some_iff] at hm
      obtain ⟨ks2, hk2, rfl⟩ := hm
      exact noColon_mergeKids ks ks' ks2 ht ha hnt hna hk2
theorem noColon_mergeKids : ∀ (ks cs ks' : List BN), KidsOK ks → KidsOK cs → NoColonKs ks → NoColonKs cs → mergeKids ks cs = some ks' → NoColonKs ks'
  | ks, [], ks', _, _, hk, _, hm => by simp only [mergeKids, Option.some.injEq] at hm; subst hm; exact hk
  | ks, c :: cs, ks', hok, hoc, hk, hc, hm => by
    obtain ⟨hcp, hct, hcs⟩ := hoc
    obtain ⟨s, hs⟩ := Option.isSome_iff_exists.mp hcp
    simp only [mergeKids, hs] at hm
    split at hm
    · simp only [Option.bind_eq_some_iff] at hm
      obtain ⟨ks2, h2, h3⟩ := hm
      have hok2 : KidsOK ks2 ∧ NoColonKs ks2 := by
        rcases updKids_spec _ s ks ks2 hok h2 with ⟨pre, k, post, k', rfl, hkp, _, hg, rfl⟩ | ⟨_, k', hg, rfl⟩
        · have hokk := (kidsOK_append_iff pre (k :: post)).mp hok
          have hnk := (noColonKs_append pre (k :: post)).mp hk
          have hp' : k'.pat = some s := by rw [mergeParts_pat k c k' hg, hkp]
          obtain ⟨_, hr, hok'⟩ := routes_mergeParts k c k' hokk.2.2.1 hct hg
          refine ⟨(kidsOK_append_iff pre (k' :: post)).mpr ⟨hokk.1, by simp [hp'], hok', hokk.2.2.2⟩, ?_⟩
          rw [noColonKs_append]
          refine ⟨hnk.1, ?_, noColon_mergeParts k c k' hokk.2.2.1 hct hnk.2.2.1 hc.2.1 hg, hnk.2.2.2⟩
          intro c0 hc0; rw [hp'] at hc0; rw [← hkp] at hc0; exact hnk.2.1 c0 hc0
        · -- not reached: `hasMatch` was true
          have hp' : k'.pat = some s := by rw [mergeParts_pat _ c k' hg]; rfl
          obtain ⟨_, hr, hok'⟩ := routes_mergeParts _ c k' (by simp [TreeOK, KidsOK]) hct hg
          refine ⟨(kidsOK_append_iff ks [k']).mpr ⟨hok, by simp [hp'], hok', trivial⟩, ?_⟩
          rw [noColonKs_append]
          refine ⟨hk, ?_, noColon_mergeParts _ c k' (by simp [TreeOK, KidsOK]) hct (by simp [NoColonT, NoColonKs]) hc.2.1 hg, trivial⟩
          intro c0 hc0; rw [hp'] at hc0; rw [← hs] at hc0; exact hc.1 c0 hc0
      exact noColon_mergeKids ks2 cs ks' hok2.1 hcs hok2.2 hc.2.2 h3
    · exact noColon_mergeKids (ks ++ [c]) cs ks' ((kidsOK_append_iff ks [c]).mpr ⟨hok, hcp, hct, trivial⟩) hcs
        ((noColonKs_append ks [c]).mpr ⟨hk, hc.1, hc.2.1, trivial⟩) hc.2.2 hm
end

theorem noColon_mergeAt : ∀ (r : Route) (t sub t' : BN), TreeOK t → TreeOK sub → NoColonT t → NoColonT sub → routeOK r →
    mergeAt r t sub = some t' → NoColonT t'
  | [], t, sub, t', ht, hs, hnt, hns, _, h => by simp only [mergeAt] at h; exact noColon_mergeParts t sub t' ht hs hnt hns h
  | s :: rest, .mk p f hh ks, sub, t', ht, hs, hnt, hns, hr, h => by
    simp only [mergeAt, Option.map_eq_some_iff] at h
    obtain ⟨ks', hk, rfl⟩ := h
    have hrest : routeOK rest := fun x hx => hr x (by simp [hx])
    have hsok : segOK s := hr s (by simp)
    rcases updKids_spec _ s ks ks' ht hk with ⟨pre, k, post, k', rfl, hkp, _, hg, rfl⟩ | ⟨_, k', hg, rfl⟩
    · have hokk := (kidsOK_append_iff pre (k :: post)).mp ht
      have hnk := (noColonKs_append pre (k :: post)).mp hnt
      have hp' : k'.pat = some s := by rw [mergeAt_pat rest k sub k' hg, hkp]
      show NoColonKs (pre ++ k' :: post)
      rw [noColonKs_append]
      refine ⟨hnk.1, ?_, noColon_mergeAt rest k sub k' hokk.2.2.1 hs hnk.2.2.1 hns hrest hg, hnk.2.2.2⟩
      intro c0 hc0; rw [hp'] at hc0; rw [← hkp] at hc0; exact hnk.2.1 c0 hc0
    · have hp' : k'.pat = some s := by rw [mergeAt_pat rest _ sub k' hg]; rfl
      show NoColonKs (ks ++ [k'])
      rw [noColonKs_append]
      refine ⟨hnt, ?_, noColon_mergeAt rest _ sub k' (by simp [TreeOK, KidsOK]) hs (by simp [NoColonT, NoColonKs]) hns hrest hg, trivial⟩
      intro c0 hc0; rw [hp'] at hc0
      simp only [Option.some.injEq] at hc0
      exact hsok c0 hc0

mutual
theorem noColon_applyFangs (id : Nat) : ∀ t : BN, NoColonT t → NoColonT (applyFangs id t)
  | .mk p f h ks, hn => noColon_applyKids id ks hn
theorem noColon_applyKids (id : Nat) : ∀ ks : List BN, NoColonKs ks → NoColonKs (applyKids id ks)
  | [], _ => trivial
  | k :: ks, hn => ⟨by intro c hc; rw [applyFangs_pat] at hc; exact hn.1 c hc, noColon_applyFangs id k hn.2.1, noColon_applyKids id ks hn.2.2⟩
end

theorem noColon_foldl_register : ∀ (routes : List (Route × Nat)) (t t' : BN), TreeOK t → NoColonT t → (∀ rh ∈ routes, routeOK rh.1) →
    routes.foldlM (fun t rh => register t rh.1 rh.2) t = some t' → TreeOK t' ∧ NoColonT t' := by
  intro routes
  induction routes with
  | nil => intro t t' h1 h2 _ h; simp at h; subst h; exact ⟨h1, h2⟩
  | cons rh rest ih =>
    intro t t' h1 h2 hr h
    simp only [List.foldlM_cons, Option.bind_eq_bind, Option.bind_eq_some_iff] at h
    obtain ⟨t1, hreg, h⟩ := h
    obtain ⟨_, hok1⟩ := routes_register t t1 rh.1 rh.2 h1 hreg
    have hn1 := noColon_mergeAt rh.1 t _ t1 h1 (by simp [TreeOK, KidsOK]) h2 (by simp [NoColonT, NoColonKs]) (hr rh (by simp)) hreg
    exact ih t1 t' hok1 hn1 (fun x hx => hr x (by simp [hx])) h

mutual
theorem noColon_build : ∀ (cfg : App) (t : BN), CfgOK cfg → build cfg = some t → NoColonT t
  | .mk id hasFangs routes mounts, t, hc, h => by
    simp only [build, Option.bind_eq_bind, Option.bind_eq_some_iff, Option.pure_def, Option.some.injEq] at h
    obtain ⟨t1, h1, t2, h2, rfl⟩ := h
    obtain ⟨hok1, hn1⟩ := noColon_foldl_register routes _ t1 (by simp [TreeOK, KidsOK]) (by simp [NoColonT, NoColonKs]) hc.1 h1
    have hn2 := noColon_buildMounts mounts t1 t2 hok1 hn1 hc.2 h2
    split
    · exact noColon_applyFangs id t2 hn2
    · exact hn2
theorem noColon_buildMounts : ∀ (mounts : List (Route × App)) (t t' : BN), TreeOK t → NoColonT t → MountsOK mounts →
    buildMounts t mounts = some t' → NoColonT t'
  | [], t, t', _, hn, _, h => by simp [buildMounts] at h; subst h; exact hn
  | (r, a) :: rest, t, t', ht, hn, hm, h => by
    simp only [buildMounts, Option.bind_eq_bind, Option.bind_eq_some_iff] at h
    obtain ⟨sub, hs, t1, h1, h2⟩ := h
    obtain ⟨_, hoks⟩ := routes_build a sub hs
    obtain ⟨_, _, hok1⟩ := routes_mergeAt r t sub t1 ht hoks h1
    have hns := noColon_build a sub hm.2.1 hs
    exact noColon_buildMounts rest t1 t' hok1 (noColon_mergeAt r t sub t1 ht hoks hn hns hm.1 h1) hm.2.2 h2
end

/-- **Every registered route is found by its own literal**: for every application tree whose static segments do not begin with `:`, each route of the
    flattened configuration, spelled as a path (param segments as `:name`), is answered by its own handler — so the per-route look-ups of
    `gen_openapi_doc` reach every registered (route, method) pair -/
theorem literal_found (cfg : App) (t : BN) (r : Route) (x : Nat) (ss : List Bytes) (F G : Nat) (hc : CfgOK cfg) (hb : build cfg = some t)
    (hr : (r, x) ∈ flatRoutes cfg) (hl : LitOf r ss) (hF : r.length ≤ F) (hG : r.length < G) :
    (search G (finalize true F t false) ss).2 = some x := by
  obtain ⟨hperm, hok⟩ := routes_build cfg t hb
  have hp := build_pat cfg t hb
  refine kid_found F G t false r x ss hok (nd_build cfg t hb) (noColon_build cfg t hc hb) (hperm.mem_iff.mpr hr) ?_ hF hG
  rw [hp]; exact hl

end Ohkami.Fangs
