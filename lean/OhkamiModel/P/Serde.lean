import OhkamiModel.P.Percent
/-! Prototype: serde data-model descriptor, visitor acceptance, URL-encoded deserializer core (C08/C09). -/
namespace Ohkami.Serde

inductive Ty where
  | bool
  | uint (bits : Nat) | sint (bits : Nat)
  | float (bits : Nat)
  | char
  | str                         -- `&'de str`: borrowed only
  | string                      -- `String` / `Cow<str>`
  | bytes                       -- `&'de [u8]`
  | byteBuf                     -- `Vec<u8>` via serde_bytes-like visitors
  | option (t : Ty)
  | unit
  | newtype (t : Ty)
  | seq (t : Ty)
  | map (k v : Ty)
  | struct (fields : List (Bytes × Ty × Bool))     -- name, type, has #[serde(default)]
  | unitEnum (variants : List Bytes)
  | ignored
deriving Repr

inductive Value where
  | bool (b : Bool) | int (z : Int) | floatText (t : Bytes) | char (c : Nat)
  | str (s : Bytes) | bytes (s : Bytes)
  | none | some (v : Value) | unit | newtype (v : Value)
  | seq (vs : List Value) | map (kvs : List (Value × Value))
  | struct (fs : List (Bytes × Value)) | variant (name : Bytes) | defaulted
deriving Repr

inductive ErrClass where
  | syntax | type | missingField | duplicateField | unknownVariant | trailing | unsupported
deriving Repr, DecidableEq

inductive Outcome (α : Type) where
  | ok (a : α) | err (e : ErrClass) | panic (site : String) | ub (site : String) | unmodelled
deriving Repr

instance : Monad Outcome where
  pure := .ok
  bind x f := match x with
    | .ok a => f a | .err e => .err e | .panic s => .panic s | .ub s => .ub s | .unmodelled => .unmodelled

inductive Side where | key | value deriving DecidableEq, Repr
structure De where
  input : Bytes
  side  : Side
deriving Repr

def AMP : UInt8 := 38
def EQ : UInt8 := 61
def COMMA : UInt8 := 44
def TRUE : Bytes := [116, 114, 117, 101]
def FALSE : Bytes := [102, 97, 108, 115, 101]

def findPunc : Bytes → Option Nat
  | [] => none
  | b :: bs => if b = EQ ∨ b = AMP then some 0 else (findPunc bs).map (· + 1)

-- `next_section` (serde_urlencoded/de.rs:51-79); returns the section and the advanced deserializer
def nextSection (d : De) : Outcome (Bytes × De) :=
  match d.side, findPunc d.input with
  | .key, none => .err .syntax
  | .key, some 0 => .err .syntax
  | .key, some n => if d.input[n]? = some EQ then .ok (d.input.take n, { d with input := d.input.drop n }) else .err .syntax
  | .value, none => .ok (d.input, { d with input := [] })
  | .value, some n => if d.input[n]? = some AMP then .ok (d.input.take n, { d with input := d.input.drop n }) else .err .syntax

-- parameters standing for std / percent-encoding behaviour (hand models in the project)
structure Prims where
  percentDecode : Bytes → Bytes
  validUtf8 : Bytes → Bool
  parseInt : (signed : Bool) → (bits : Nat) → Bytes → Option Int
  floatOk : Bytes → Bool
  utf8Chars : Bytes → Option (List Nat)

variable (P : Prims)

def decodeStr (borrowedOnly : Bool) (sec : Bytes) : Outcome Value :=
  let dec := P.percentDecode sec
  if !P.validUtf8 dec then .err .syntax
  else if borrowedOnly && dec != sec then .err .type     -- visit_string on a `&str` visitor
  else .ok (.str dec)

/-- the deserializer proper, by recursion on the type descriptor.
    `unwrapSites = true` is today's code (`next_section().unwrap()`), `false` the repaired one. -/
def sectionOr (unwrapSites : Bool) (site : String) (d : De) : Outcome (Bytes × De) :=
  match nextSection d with
  | .err e => if unwrapSites then .panic site else .err e
  | o => o

def splitComma : Bytes → List Bytes
  | [] => [[]]
  | b :: bs =>
    match splitComma bs with
    | [] => [[]]
    | l :: ls => if b = COMMA then [] :: l :: ls else (b :: l) :: ls

def fillMissing : List (Bytes × Ty × Bool) → List (Bytes × Value) → Option (List (Bytes × Value))
  | [], _ => some []
  | (n, t, dflt) :: rest, seen =>
    match seen.find? (·.1 = n), fillMissing rest seen with
    | _, none => none
    | some nv, some fs => some (nv :: fs)
    | none, some fs =>
      (match t with
       | .option _ => some ((n, .none) :: fs)
       | _ => if dflt then some ((n, .defaulted) :: fs) else none)

def lookupField : List (Bytes × Ty × Bool) → Bytes → Option Ty
  | [], _ => none
  | (n, t, _) :: rest, k => if n = k then some t else lookupField rest k

-- one fuel for everything: type nesting and the pair loop; exhaustion is reported apart from the code's outcomes
mutual
def decode (unwrapSites : Bool) : Nat → Ty → De → Outcome (Value × De)
  | 0, _, _ => .unmodelled
  | fuel + 1, ty, d =>
    match ty with
    -- numbers and booleans are read from the percent-decoded section (`%35` is `5`; since fix 2c45ee6)
    | .bool => do
      let (sec, d') ← sectionOr unwrapSites "deserialize_bool" d
      let sec := P.percentDecode sec
      if sec = TRUE then pure (.bool true, d')
      else if sec = FALSE then pure (.bool false, d') else .err .type
    | .uint bits => do
      let (sec, d') ← sectionOr unwrapSites "deserialize_uN" d
      let sec := P.percentDecode sec
      match (if P.validUtf8 sec then P.parseInt false bits sec else none) with
      | some z => pure (.int z, d') | none => .err .type
    | .sint bits => do
      let (sec, d') ← sectionOr unwrapSites "deserialize_iN" d
      let sec := P.percentDecode sec
      match (if P.validUtf8 sec then P.parseInt true bits sec else none) with
      | some z => pure (.int z, d') | none => .err .type
    | .float _ => do
      let (sec, d') ← sectionOr unwrapSites "deserialize_fN" d
      let sec := P.percentDecode sec
      if P.validUtf8 sec && P.floatOk sec then pure (.floatText sec, d') else .err .type
    | .char => do
      let (sec, d') ← nextSection d
      let dec := P.percentDecode sec
      match (if P.validUtf8 dec then P.utf8Chars dec else none) with
      | some [c] => pure (.char c, d') | _ => .err .type
    | .str => do
      let (sec, d') ← nextSection d
      let v ← decodeStr P true sec
      pure (v, d')
    | .string => do
      let (sec, d') ← nextSection d
      let v ← decodeStr P false sec
      pure (v, d')
    | .bytes => do
      let (sec, d') ← sectionOr unwrapSites "deserialize_bytes" d
      let dec := P.percentDecode sec
      if dec != sec then .err .type else pure (.bytes dec, d')
    | .byteBuf => do
      let (sec, d') ← sectionOr unwrapSites "deserialize_bytes" d
      pure (.bytes (P.percentDecode sec), d')
    | .option t =>
      if d.input.isEmpty || d.input.head? == some AMP then .ok (.none, d)
      else do
        let (v, d') ← decode unwrapSites fuel t d
        pure (.some v, d')
    | .unit =>
      if d.input.isEmpty || d.input.head? == some AMP then .ok (.unit, d) else .err .type
    | .newtype t => do
      let (v, d') ← decode unwrapSites fuel t d
      pure (.newtype v, d')
    | .seq t => do
      -- CommaSeparated (after F9a, F9c): the section is split at ',' ; each element is read by a sub-deserializer on the value side
      let (sec, d') ← sectionOr unwrapSites "CommaSeparated::new" d
      if sec.isEmpty then pure (.seq [], d') else
      let vs ← seqLoop unwrapSites fuel t (splitComma sec) []
      pure (.seq vs, d')
    | .map _ vt => mapLoop unwrapSites fuel vt true [] d
    | .unitEnum vs => do
      -- `variant_seed` reads the name through `deserialize_identifier` = `deserialize_str` (fix ca4cc42): percent-decoded, UTF-8
      let (sec, d') ← nextSection d
      let v ← decodeStr P false sec
      match v with
      | .str n => if vs.contains n then pure (.variant n, d') else .err .unknownVariant
      | _ => .err .type
    | .ignored =>
      match nextSection d with
      | .ok (_, d') => .ok (.unit, { d' with side := .key })
      | _ => .ok (.unit, { d with side := .key })
    | .struct fields => structLoop unwrapSites fuel fields true [] d
def seqLoop (unwrapSites : Bool) : Nat → Ty → List Bytes → List Value → Outcome (List Value)
  | 0, _, _, _ => .unmodelled
  | _, _, [], acc => .ok acc
  | fuel + 1, t, e :: es, acc => do
    let (v, _) ← decode unwrapSites fuel t ⟨e, .value⟩
    seqLoop unwrapSites fuel t es (acc ++ [v])
-- `visit_map` into a string-keyed map (later keys overwrite)
def mapLoop (unwrapSites : Bool) : Nat → Ty → Bool → List (Value × Value) → De → Outcome (Value × De)
  | 0, _, _, _, _ => .unmodelled
  | fuel + 1, vt, first, acc, d =>
    if d.input.isEmpty then .ok (.map acc, d)
    else do
      let d1 ← (if first then pure d else
        match d.input with
        | b :: rest => if b = AMP then pure { d with input := rest } else (.err .syntax : Outcome De)
        | [] => .err .syntax)
      let (kv, d2) ← decode unwrapSites fuel .string { d1 with side := .key }
      match d2.input with
      | b :: rest =>
        if b ≠ EQ then .err .syntax else do
          let (v, d4) ← decode unwrapSites fuel vt { input := rest, side := .value }
          mapLoop unwrapSites fuel vt false (acc.filter (fun p => toString (repr p.1) != toString (repr kv)) ++ [(kv, v)]) d4
      | [] => .err .syntax
-- `visit_map` of a derived struct visitor over `AmpersandSeparated`
def structLoop (unwrapSites : Bool) : Nat → List (Bytes × Ty × Bool) → Bool → List (Bytes × Value) → De → Outcome (Value × De)
  | 0, _, _, _, _ => .unmodelled
  | fuel + 1, fields, first, acc, d =>
    if d.input.isEmpty then
      -- end of the map: a field that was not seen is `None` for an Option, its default if it has one, else an error
      match fillMissing fields acc with
      | some fs => .ok (.struct fs, d)
      | none => .err .missingField
    else do
      let d1 ← (if first then pure d else
        match d.input with
        | b :: rest => if b = AMP then pure { d with input := rest } else (.err .syntax : Outcome De)
        | [] => .err .syntax)
      let (ksec, d2) ← nextSection { d1 with side := .key }
      let kdec := P.percentDecode ksec
      if !P.validUtf8 kdec then .err .syntax else
      match d2.input with
      | b :: rest =>
        if b ≠ EQ then .err .syntax else
        let d3 : De := { input := rest, side := .value }
        match lookupField fields kdec with
        | some t =>
          if acc.any (·.1 = kdec) then .err .duplicateField else do
            let (v, d4) ← decode unwrapSites fuel t d3
            structLoop unwrapSites fuel fields false (acc ++ [(kdec, v)]) d4
        | none => do
            let (_, d4) ← decode unwrapSites fuel .ignored d3
            structLoop unwrapSites fuel fields false acc d4
      | [] => .err .syntax
end

end Ohkami.Serde
