import OhkamiModel.P.Bytes
namespace Ohkami

/-! router/final.rs at byte level -/
inductive RPat where
  | static (bs : Bytes)
  | param
deriving Repr, DecidableEq

inductive RNode where
  | mk (pat : RPat) (handler : Option Nat) (kids : List RNode)
deriving Repr

namespace RNode
def pat : RNode → RPat | mk p _ _ => p
def handler : RNode → Option Nat | mk _ h _ => h
def kids : RNode → List RNode | mk _ _ k => k
end RNode

-- `Pattern::Param` branch of take_through
def takeParam (bytes : Bytes) : Option (Bytes × Bytes) :=
  match bytes with
  | b0 :: b1 :: rest =>
    if b0 = slash ∧ b1 ≠ slash then some (splitNextSection (b1 :: rest)) else none
  | _ => none

-- take_through: remaining bytes, and the captured param if any
def takeF (p : RPat) (bytes : Bytes) : Option (Bytes × Option Bytes) :=
  match p with
  | .static s => (takeStatic true s bytes).map fun rem => (rem, none)
  | .param => (takeParam bytes).map fun (pv, rem) => (rem, some pv)

-- the `for child in target.children` loop: first child whose pattern takes a prefix
def firstMatch : List RNode → Bytes → Option (RNode × Bytes × Option Bytes)
  | [], _ => none
  | k :: ks, bytes =>
    match takeF k.pat bytes with
    | some (rem, pv) => some (k, rem, pv)
    | none => firstMatch ks bytes

-- `'next_target` loop below a node that has been entered with non-empty remaining bytes
def searchBelow : Nat → RNode → Bytes → Option (Nat × List Bytes)
  | 0, _, _ => none
  | fuel + 1, n, bytes =>
    match firstMatch n.kids bytes with
    | none => none
    | some (k, rem, pv) =>
      let r := if rem.isEmpty then k.handler.map fun h => (h, ([] : List Bytes)) else searchBelow fuel k rem
      match pv with
      | some v => r.map fun (h, ps) => (h, v :: ps)
      | none => r

-- `search_target` from the root
def searchTop (fuel : Nat) (root : RNode) (bytes : Bytes) : Option (Nat × List Bytes) :=
  match takeF root.pat bytes with
  | none => none
  | some (rem, _) => if rem.isEmpty then root.handler.map fun h => (h, []) else searchBelow fuel root rem

/-! lemmas about the param branch -/
theorem splitNextSection_seg : ∀ (s U : Bytes), NoSlash s → Slashy U → splitNextSection (s ++ U) = (s, U) := by
  intro s
  induction s with
  | nil =>
    intro U _ hU
    rcases hU with rfl | hU
    · simp [splitNextSection]
    · cases U with
      | nil => simp at hU
      | cons u U' => simp at hU; subst hU; simp [splitNextSection]
  | cons a s ih =>
    intro U hs hU
    have ha : a ≠ slash := by intro e; apply hs; simp [e]
    have hs' : NoSlash s := by intro h; apply hs; simp [h]
    simp only [List.cons_append, splitNextSection, if_neg ha, ih U hs' hU]

theorem takeParam_join (s : Bytes) (ss : List Bytes) (hs : NoSlash s) :
    takeParam (joinSegs (s :: ss)) = if s ≠ [] then some (s, joinSegs ss) else none := by
  cases s with
  | nil =>
    simp only [joinSegs, List.nil_append, ne_eq, not_true_eq_false, if_false]
    cases ss with
    | nil => simp [joinSegs, takeParam]
    | cons s2 ss2 => simp [joinSegs, takeParam]
  | cons a s' =>
    have ha : a ≠ slash := by intro e; apply hs; simp [e]
    simp only [joinSegs, List.cons_append, takeParam, ne_eq, not_false_eq_true, and_self, ha, if_true, reduceCtorEq]
    have := splitNextSection_seg (a :: s') (joinSegs ss) hs (slashy_joinSegs ss)
    simp only [List.cons_append] at this
    rw [this]

theorem takeParam_nil : takeParam [] = none := rfl

end Ohkami
