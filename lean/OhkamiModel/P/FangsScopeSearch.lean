import OhkamiModel.P.FangsScopeBuild
/-! C04, scope — part 2: the search of the finalized (inheriting, compressed, statics-first) router answers every path with the
    fang list that the walk of the registration trie yields (`search_scope`), hence — with part 1 — with exactly the chain of
    applications whose mount prefix contains the path (`scope_statement`). -/
namespace Ohkami.Fangs
open Ohkami

def CN.pats : CN → List Seg | .mk ps _ _ _ => ps

/-! ### `inherit` is the identity on good tries -/
theorem filter_notin_self (f : List Nat) : f.filter (fun id => !f.contains id) = [] := by
  rw [List.filter_eq_nil_iff]
  intro a ha
  simp [ha]

theorem inherit_ext (e f : List Nat) (h : (e ++ f).Nodup) : inherit (e ++ f) f = e ++ f := by
  simp only [inherit, List.filter_append, filter_notin_self, List.append_nil]
  congr 1
  rw [List.filter_eq_self]
  intro a ha
  have := (List.nodup_append.mp h).2.2 a ha
  simp only [List.contains_eq_mem, Bool.not_eq_eq_eq_not, Bool.not_true, decide_eq_false_iff_not]
  intro hf
  exact this a hf rfl

def inhKids (f : List Nat) (ks : List BN) : List BN := ks.map fun k => BN.mk k.pat (inherit k.fangs f) k.handler k.kids

theorem good_nodup (k : BN) (h : Good k) : k.fangs.Nodup := by
  obtain ⟨p, f, hh, ks⟩ := k
  exact h.1

theorem inhKids_good (f : List Nat) : ∀ ks : List BN, GoodKids f ks → inhKids f ks = ks
  | [], _ => rfl
  | k :: ks, h => by
    obtain ⟨⟨e, he⟩, hg, hr⟩ := h
    have hn := good_nodup k hg
    have ih := inhKids_good f ks hr
    simp only [inhKids, List.map_cons] at ih ⊢
    rw [ih]
    congr 1
    rw [he] at hn
    obtain ⟨p, f', hh, ks'⟩ := k
    simp only [BN.fangs] at he
    subst he
    simp [BN.pat, BN.fangs, BN.handler, BN.kids, inherit_ext e f hn]

/-! ### patterns of a compressed node -/
theorem takePats_cons (s : Seg) (ps : List Seg) (s0 : Bytes) (ss : List Bytes) :
    takePats (s :: ps) (s0 :: ss) = if segMatch s s0 then takePats ps ss else none := by
  cases s <;> simp [takePats, segMatch]

theorem takePats_cons_nil (s : Seg) (ps : List Seg) : takePats (s :: ps) [] = none := by
  cases s <;> simp [takePats]

theorem takePats_append : ∀ (ps qs : List Seg) (ss : List Bytes), takePats (ps ++ qs) ss = (takePats ps ss).bind (takePats qs)
  | [], qs, ss => by simp [takePats]
  | s :: ps, qs, [] => by simp [takePats_cons_nil]
  | s :: ps, qs, s0 :: ss => by
    simp only [List.cons_append, takePats_cons]
    split
    · exact takePats_append ps qs ss
    · rfl

theorem takePats_len : ∀ (ps : List Seg) (ss r : List Bytes), takePats ps ss = some r → r.length + ps.length = ss.length
  | [], ss, r, h => by simp [takePats] at h; subst h; simp
  | s :: ps, [], r, h => by simp [takePats_cons_nil] at h
  | s :: ps, s0 :: ss, r, h => by
    rw [takePats_cons] at h
    split at h
    · have := takePats_len ps ss r h
      simp only [List.length_cons]; omega
    · cases h

/-! ### the walk from a "virtual node" (fang list + children) -/
def vscope (f : List Nat) (ks : List BN) : List Bytes → List Nat
  | [] => f
  | s :: r => scopeKids f ks s r

theorem scopeBN_eq_vscope (p : Option Seg) (f : List Nat) (h : Option Nat) (ks : List BN) (ss : List Bytes) :
    scopeBN (.mk p f h ks) ss = vscope f ks ss := by
  cases ss <;> simp [scopeBN, vscope]

def VGood (f : List Nat) (ks : List BN) : Prop :=
  f.Nodup ∧ ks.Pairwise (fun a b => overlap a.pat b.pat = true → Flat f a ∧ Flat f b) ∧ GoodKids f ks

/-- the compression loop: it extends the pattern by a chain of static segments, keeps the fang list, and the walk from the node
    it stops at continues the walk from the node it started at -/
theorem compress_spec (p : Option Seg) (o : Bool) : ∀ (n : Nat) (ps : List Seg) (f : List Nat) (h : Option Nat) (ks : List BN),
    VGood f ks → KidsOK ks →
    ∃ chain h' ks', finalize.compress true p o n ps f h ks = (ps ++ chain, f, h', ks') ∧ VGood f ks' ∧ KidsOK ks' ∧
      (chain ≠ [] → o = false) ∧
      (∀ ss, match takePats chain ss with
        | some rest => vscope f ks' rest = vscope f ks ss
        | none => vscope f ks ss = f) := by
  intro n
  induction n with
  | zero =>
    intro ps f h ks hv hok
    exact ⟨[], h, ks, by simp [finalize.compress], hv, hok, by simp, fun ss => by simp [takePats]⟩
  | succ n ih =>
    intro ps f h ks hv hok
    unfold finalize.compress
    split
    · rename_i c f' h' ks'
      split
      · rename_i hcond
        simp only [Bool.not_true, Bool.false_or, Bool.and_eq_true, Bool.not_eq_eq_eq_not, beq_iff_eq, if_true] at hcond ⊢
        obtain ⟨_, ho, hlen⟩ := hcond
        obtain ⟨_, _, hgk⟩ := hv
        obtain ⟨⟨e, he⟩, hgc, _⟩ := hgk
        simp only [BN.fangs] at he
        have hf' : f' = f := by
          subst he
          simp only [List.length_append] at hlen
          have : e = [] := List.eq_nil_of_length_eq_zero (by omega)
          simp [this]
        subst hf'
        have hv' : VGood f' ks' := hgc
        have hok' : KidsOK ks' := hok.2.1
        have hinh : List.map (fun k => BN.mk k.pat (inherit k.fangs f') k.handler k.kids) ks' = ks' := inhKids_good f' ks' hgc.2.2
        rw [hinh]
        obtain ⟨chain, h2, ks2, e1, e2, e3, e4, e5⟩ := ih (ps ++ [.static c]) f' h' ks' hv' hok'
        refine ⟨.static c :: chain, h2, ks2, by simp [e1], e2, e3, fun _ => by simpa using ho, ?_⟩
        intro ss
        cases ss with
        | nil => simp [takePats_cons_nil, vscope]
        | cons s0 rest =>
          rw [takePats_cons]
          by_cases hm : segMatch (.static c) s0 = true
          · simp only [hm, if_true]
            have hk : kidMatches (.mk (some (.static c)) f' h' ks') s0 = true := by simpa [kidMatches, BN.pat] using hm
            have hw : vscope f' [.mk (some (.static c)) f' h' ks'] (s0 :: rest) = vscope f' ks' rest := by
              simp only [vscope, scopeKids, hk, if_true, scopeBN_eq_vscope]
            have := e5 rest
            cases hr : takePats chain rest with
            | some r => simp only [hr] at this ⊢; rw [hw]; exact this
            | none => simp only [hr] at this ⊢; rw [hw]; exact this
          · have hk : kidMatches (.mk (some (.static c)) f' h' ks') s0 = false := by simpa [kidMatches, BN.pat] using hm
            simp [hm, vscope, scopeKids, hk]
      · exact ⟨[], none, _, by simp, hv, hok, by simp, fun ss => by simp [takePats]⟩
    · rename_i hno
      exact ⟨[], h, ks, by simp, hv, hok, by simp, fun ss => by simp [takePats]⟩

/-! ### the search, one node at a time -/
def after (G : Nat) (f : List Nat) (h : Option Nat) (kids : List CN) : List Bytes → List Nat × Option Nat
  | [] => (f, h)
  | s :: r =>
    match search.firstKid (s :: r) kids with
    | some (k, r') => search G k r'
    | none => (f, none)

theorem search_succ (G : Nat) (ps : List Seg) (f : List Nat) (h : Option Nat) (ks : List CN) (ss : List Bytes) :
    search (G + 1) (.mk ps f h ks) ss = match takePats ps ss with
      | none => (f, none)
      | some rest => after G f h ks rest := by
  simp only [search]
  cases takePats ps ss with
  | none => rfl
  | some r => cases r <;> rfl

theorem firstKid_some : ∀ (kids : List CN) (rest : List Bytes) (k : CN) (r : List Bytes),
    search.firstKid rest kids = some (k, r) → k ∈ kids ∧ r = rest ∧ (takePats k.pats rest).isSome
  | [], _, _, _, h => by simp [search.firstKid] at h
  | .mk ps' f' h' ks' :: more, rest, k, r, h => by
    simp only [search.firstKid] at h
    cases hp : takePats ps' rest with
    | some x =>
      simp only [hp, Option.some.injEq, Prod.mk.injEq] at h
      obtain ⟨rfl, rfl⟩ := h
      exact ⟨by simp, rfl, by simp [CN.pats, hp]⟩
    | none =>
      simp only [hp] at h
      obtain ⟨a, b, c⟩ := firstKid_some more rest k r h
      exact ⟨List.mem_cons_of_mem _ a, b, c⟩

theorem firstKid_none : ∀ (kids : List CN) (rest : List Bytes), search.firstKid rest kids = none →
    ∀ k ∈ kids, takePats k.pats rest = none
  | [], _, _, k, hk => by cases hk
  | .mk ps' f' h' ks' :: more, rest, h, k, hk => by
    simp only [search.firstKid] at h
    cases hp : takePats ps' rest with
    | some x => simp [hp] at h
    | none =>
      simp only [hp] at h
      rcases List.mem_cons.mp hk with rfl | hk'
      · exact hp
      · exact firstKid_none more rest h k hk'

def sortKids (ks : List BN) : List BN := ks.filter (fun k => isStatic k.pat) ++ ks.filter (fun k => !isStatic k.pat)

theorem mem_sortKids (ks : List BN) (k : BN) : k ∈ sortKids ks ↔ k ∈ ks := by
  simp only [sortKids, List.mem_append, List.mem_filter]
  constructor
  · rintro (⟨h, _⟩ | ⟨h, _⟩) <;> exact h
  · intro h
    cases hs : isStatic k.pat
    · exact Or.inr ⟨h, by simp [hs]⟩
    · exact Or.inl ⟨h, by simp⟩

theorem finalize_succ (F : Nat) (p : Option Seg) (f : List Nat) (h : Option Nat) (ks : List BN) (o : Bool) :
    finalize true (F + 1) (.mk p f h ks) o =
      CN.mk (finalize.compress true p o F p.toList f h (inhKids f ks)).1
        (finalize.compress true p o F p.toList f h (inhKids f ks)).2.1
        (finalize.compress true p o F p.toList f h (inhKids f ks)).2.2.1
        ((sortKids (finalize.compress true p o F p.toList f h (inhKids f ks)).2.2.2).map fun k =>
          finalize true F k (k.fangs.length != (finalize.compress true p o F p.toList f h (inhKids f ks)).2.1.length)) := by
  simp [finalize, inhKids, sortKids]

/-- what is shown for a child `k` of a node whose fang list is `f`, finalized with fuel `F` and searched with fuel `G` -/
def KidClaim (F G : Nat) (f : List Nat) (k : BN) (s0 : Bytes) (rest' : List Bytes) : Prop :=
  (∀ r, takePats (finalize true F k (k.fangs.length != f.length)).pats (s0 :: rest') = some r →
      (search G (finalize true F k (k.fangs.length != f.length)) (s0 :: rest')).1 = scopeBN k rest' ∧ kidMatches k s0 = true) ∧
  (takePats (finalize true F k (k.fangs.length != f.length)).pats (s0 :: rest') = none →
      kidMatches k s0 = false ∨ scopeBN k rest' = f)

theorem overlap_of_both (a b : BN) (s0 : Bytes) (h1 : kidMatches a s0 = true) (h2 : kidMatches b s0 = true) :
    overlap a.pat b.pat = true := by
  cases ha : a.pat with
  | none => simp [overlap]
  | some x =>
    cases hb : b.pat with
    | none => simp [overlap]
    | some y =>
      simp only [kidMatches, ha, hb, Option.map_some, Option.getD_some] at h1 h2
      cases x <;> cases y <;> simp_all [overlap, compat, segMatch]

theorem scopeKids_pick (f : List Nat) (s0 : Bytes) (r' : List Bytes) : ∀ (ks : List BN), VGood f ks → ∀ k ∈ ks,
    kidMatches k s0 = true → scopeKids f ks s0 r' = scopeBN k r'
  | [], _, k, hk, _ => by cases hk
  | a :: ks, hv, k, hk, hm => by
    obtain ⟨hn, hpw, hgk⟩ := hv
    rw [List.pairwise_cons] at hpw
    simp only [scopeKids]
    rcases List.mem_cons.mp hk with rfl | hk'
    · simp [hm]
    · by_cases hma : kidMatches a s0 = true
      · simp only [hma, if_true]
        obtain ⟨fa, fk⟩ := hpw.1 k hk' (overlap_of_both a k s0 hma hm)
        rw [scopeBN_flat f a r' fa, scopeBN_flat f k r' fk]
      · simp only [hma, Bool.false_eq_true, if_false]
        exact scopeKids_pick f s0 r' ks ⟨hn, hpw.2, hgk.2.2⟩ k hk' hm

theorem scopeKids_allf (f : List Nat) (s0 : Bytes) (r' : List Bytes) : ∀ (ks : List BN),
    (∀ k ∈ ks, kidMatches k s0 = true → scopeBN k r' = f) → scopeKids f ks s0 r' = f
  | [], _ => by simp [scopeKids]
  | a :: ks, h => by
    simp only [scopeKids]
    split
    · rename_i hm; exact h a (by simp) hm
    · exact scopeKids_allf f s0 r' ks (fun k hk => h k (by simp [hk]))

theorem kids_lemma (F G : Nat) (f : List Nat) (h : Option Nat) (ks : List BN) (hv : VGood f ks) (s0 : Bytes) (r' : List Bytes)
    (hc : ∀ k ∈ ks, KidClaim F G f k s0 r') :
    (after G f h ((sortKids ks).map fun k => finalize true F k (k.fangs.length != f.length)) (s0 :: r')).1 =
      scopeKids f ks s0 r' := by
  simp only [after]
  cases hfk : search.firstKid (s0 :: r') ((sortKids ks).map fun k => finalize true F k (k.fangs.length != f.length)) with
  | some kr =>
    obtain ⟨K, r⟩ := kr
    obtain ⟨hmem, rfl, htp⟩ := firstKid_some _ _ K r hfk
    simp only [List.mem_map] at hmem
    obtain ⟨k, hk, rfl⟩ := hmem
    have hk' := (mem_sortKids ks k).mp hk
    obtain ⟨x, hx⟩ := Option.isSome_iff_exists.mp htp
    obtain ⟨e1, e2⟩ := (hc k hk').1 x hx
    simp only
    rw [e1, scopeKids_pick f s0 r' ks hv k hk' e2]
  | none =>
    simp only
    have hall := firstKid_none _ _ hfk
    symm
    apply scopeKids_allf
    intro k hk hm
    have := hall (finalize true F k (k.fangs.length != f.length)) (by
      simp only [List.mem_map]; exact ⟨k, (mem_sortKids ks k).mpr hk, rfl⟩)
    rcases (hc k hk).2 this with h1 | h1
    · rw [hm] at h1; cases h1
    · exact h1

/-- a node of the trie, finalized and searched: the search answers with the walk's fang list, and a node that is skipped
    (its compressed pattern fails) either does not match the segment or carries the parent's list all along the chain -/
theorem kid_all : ∀ (F G : Nat) (f : List Nat) (k : BN) (s0 : Bytes) (rest' : List Bytes), Good k → TreeOK k →
    (∃ sk, k.pat = some sk) → (∃ e, k.fangs = e ++ f) → rest'.length + 1 ≤ F → rest'.length + 1 ≤ G →
    KidClaim F G f k s0 rest' := by
  intro F
  induction F with
  | zero => intro G f k s0 rest' _ _ _ _ h; omega
  | succ F ih =>
    intro G f k s0 rest' hg hok hpat hext hF hG
    cases G with
    | zero => omega
    | succ G =>
    obtain ⟨p, fk, hk, ksk⟩ := k
    obtain ⟨sk, hsk⟩ := hpat
    simp only [BN.pat] at hsk
    subst hsk
    obtain ⟨e, he⟩ := hext
    simp only [BN.fangs] at he
    have hv : VGood fk ksk := hg
    have hokk : KidsOK ksk := hok
    obtain ⟨chain, h', ks', ec, hv', hok', hch, hsc⟩ :=
      compress_spec (some sk) (fk.length != f.length) F [sk] fk hk ksk hv hokk
    have hfin : finalize true (F + 1) (.mk (some sk) fk hk ksk) (fk.length != f.length) =
        CN.mk ([sk] ++ chain) fk h' ((sortKids ks').map fun k => finalize true F k (k.fangs.length != fk.length)) := by
      rw [finalize_succ, inhKids_good fk ksk hg.2.2]
      simp only [Option.toList]
      rw [ec]
    have hkm : kidMatches (.mk (some sk) fk hk ksk) s0 = segMatch sk s0 := by simp [kidMatches, BN.pat]
    have htp : takePats ([sk] ++ chain) (s0 :: rest') = if segMatch sk s0 then takePats chain rest' else none := by
      simp [takePats_cons]
    simp only [KidClaim, BN.fangs, hfin, CN.pats, htp, hkm]
    refine ⟨?_, ?_⟩
    · intro r hr
      by_cases hm : segMatch sk s0 = true
      · simp only [hm, if_true] at hr
        refine ⟨?_, hm⟩
        rw [search_succ, htp]
        simp only [hm, if_true, hr]
        have hs := hsc rest'
        simp only [hr] at hs
        rw [scopeBN_eq_vscope, ← hs]
        have hlen := takePats_len chain rest' r hr
        cases r with
        | nil => simp [after, vscope]
        | cons s1 r1 =>
          simp only [vscope]
          apply kids_lemma F G fk h' ks' hv' s1 r1
          intro k hk'
          have hgk : GoodKids fk ks' := hv'.2.2
          -- the child's own facts
          have hfacts : Good k ∧ TreeOK k ∧ (∃ sk', k.pat = some sk') ∧ (∃ e', k.fangs = e' ++ fk) := by
            clear hs hsc ec hfin hch hv' hlen hr htp
            induction ks' with
            | nil => cases hk'
            | cons a as iha =>
              rcases List.mem_cons.mp hk' with rfl | hmem
              · exact ⟨hgk.2.1, hok'.2.1, Option.isSome_iff_exists.mp hok'.1, hgk.1⟩
              · exact iha hok'.2.2 hmem hgk.2.2
          simp only [List.length_cons] at hlen
          exact ih G fk k s1 r1 hfacts.1 hfacts.2.1 hfacts.2.2.1 hfacts.2.2.2 (by omega) (by omega)
      · simp [hm] at hr
    · intro hn
      by_cases hm : segMatch sk s0 = true
      · simp only [hm, if_true] at hn
        right
        have hs := hsc rest'
        simp only [hn] at hs
        have hne : chain ≠ [] := by
          intro e0; subst e0; simp [takePats] at hn
        have ho := hch hne
        have hfe : fk = f := by
          subst he
          simp only [bne_eq_false_iff_eq, List.length_append] at ho
          have : e = [] := List.eq_nil_of_length_eq_zero (by omega)
          simp [this]
        rw [scopeBN_eq_vscope, hs, hfe]
      · left; simpa using hm

theorem build_pat_aux (routes : List (Route × Nat)) : ∀ (t t' : BN),
    routes.foldlM (fun t rh => register t rh.1 rh.2) t = some t' → t'.pat = t.pat := by
  induction routes with
  | nil => intro t t' h; simp at h; subst h; rfl
  | cons rh rest ih =>
    intro t t' h
    simp only [List.foldlM_cons, Option.bind_eq_bind, Option.bind_eq_some_iff] at h
    obtain ⟨t1, h1, h2⟩ := h
    rw [ih t1 t' h2]
    exact mergeAt_pat rh.1 t _ t1 h1

theorem buildMounts_pat : ∀ (mounts : List (Route × App)) (t t' : BN), buildMounts t mounts = some t' → t'.pat = t.pat
  | [], t, t', h => by simp [buildMounts] at h; subst h; rfl
  | (r, a) :: rest, t, t', h => by
    simp only [buildMounts, Option.bind_eq_bind, Option.bind_eq_some_iff] at h
    obtain ⟨sub, _, t1, h1, h2⟩ := h
    rw [buildMounts_pat rest t1 t' h2]
    exact mergeAt_pat r t sub t1 h1

theorem build_pat (cfg : App) (t : BN) (h : build cfg = some t) : t.pat = none := by
  obtain ⟨id, hf, routes, mounts⟩ := cfg
  simp only [build, Option.bind_eq_bind, Option.bind_eq_some_iff, Option.pure_def, Option.some.injEq] at h
  obtain ⟨t1, h1, t2, h2, rfl⟩ := h
  have e1 := build_pat_aux routes _ t1 h1
  have e2 := buildMounts_pat mounts t1 t2 h2
  split
  · rw [applyFangs_pat, e2, e1]; rfl
  · rw [e2, e1]; rfl

/-- **The search of the finalized router answers with the walk's fang list** -/
theorem search_scope (F G : Nat) (t : BN) (ss : List Bytes) (hg : Good t) (hok : TreeOK t) (hp : t.pat = none)
    (hF : ss.length + 2 ≤ F) (hG : ss.length + 2 ≤ G) :
    (search G (finalize true F t false) ss).1 = scopeBN t ss := by
  obtain ⟨p, f, h, ks⟩ := t
  simp only [BN.pat] at hp
  subst hp
  obtain ⟨F, rfl⟩ : ∃ F', F = F' + 1 := ⟨F - 1, by omega⟩
  obtain ⟨G, rfl⟩ : ∃ G', G = G' + 1 := ⟨G - 1, by omega⟩
  obtain ⟨chain, h', ks', ec, hv', hok', hch, hsc⟩ := compress_spec none false F [] f h ks hg hok
  rw [finalize_succ, inhKids_good f ks hg.2.2]
  simp only [Option.toList]
  rw [ec, search_succ]
  simp only [List.nil_append]
  have hs := hsc ss
  rw [scopeBN_eq_vscope]
  cases hr : takePats chain ss with
  | none => simp only [hr] at hs ⊢; exact hs.symm
  | some r =>
    simp only [hr] at hs ⊢
    rw [← hs]
    have hlen := takePats_len chain ss r hr
    cases r with
    | nil => simp [after, vscope]
    | cons s1 r1 =>
      simp only [vscope]
      apply kids_lemma F G f h' ks' hv' s1 r1
      intro k hk'
      have hgk : GoodKids f ks' := hv'.2.2
      have hfacts : Good k ∧ TreeOK k ∧ (∃ sk', k.pat = some sk') ∧ (∃ e', k.fangs = e' ++ f) := by
        clear hs hsc ec hch hv' hlen hr
        induction ks' with
        | nil => cases hk'
        | cons a as iha =>
          rcases List.mem_cons.mp hk' with rfl | hmem
          · exact ⟨hgk.2.1, hok'.2.1, Option.isSome_iff_exists.mp hok'.1, hgk.1⟩
          · exact iha hok'.2.2 hmem hgk.2.2
      simp only [List.length_cons] at hlen
      exact kid_all F G f k s1 r1 hfacts.1 hfacts.2.1 hfacts.2.2.1 hfacts.2.2.2 (by omega) (by omega)

/-- **C04, scope.**  For every application tree that satisfies the side condition of the property and whose applications have
    distinct ids, and every path: the fang list of the node whose `proc` or `catch` answers — hit or 404, whatever the method tree —
    is, outermost first, exactly the chain of the applications whose composed mount prefix contains the path. -/
theorem scope_statement (cfg : App) (t : BN) (ss : List Bytes) (fuel : Nat) (hsc : sideCond cfg = true)
    (hids : (idsOf cfg).Nodup) (hb : build cfg = some t) (hf : ss.length + 2 ≤ fuel) :
    (search fuel (finalize true fuel t false) ss).1.reverse = scopeChain cfg ss := by
  obtain ⟨hok, _, hg, _, hs⟩ := scope_build cfg t hsc hids hb
  rw [search_scope fuel fuel t ss hg hok (build_pat cfg t hb) hf hf, hs ss, List.reverse_reverse]

end Ohkami.Fangs
