import OhkamiModel.P.Router
/-! Prototype for C04: application trees, the base trie with fang lists (`router/base.rs`), finalisation with the
    compression rule before and after F2 (`router/final.rs`), the search that picks `proc` or `catch`, the onion trace,
    and the spec read off the configuration alone. Segment level; fang lists are innermost first, as in the code. -/
namespace Ohkami.Fangs
open Ohkami

/-! ### configuration -/
inductive App where
  | mk (id : Nat) (hasFangs : Bool) (routes : List (Route × Nat)) (mounts : List (Route × App))

/-! ### base trie -/
inductive BN where
  | mk (pat : Option Seg) (fangs : List Nat) (handler : Option Nat) (kids : List BN)
deriving Repr, Inhabited

namespace BN
def pat : BN → Option Seg | mk p _ _ _ => p
def fangs : BN → List Nat | mk _ f _ _ => f
def handler : BN → Option Nat | mk _ _ h _ => h
def kids : BN → List BN | mk _ _ _ k => k
end BN

-- `FangsList::add` (dedup by id) and `append`
def addFang (l : List Nat) (id : Nat) : List Nat := if l.contains id then l else l ++ [id]
def appendFangs (l more : List Nat) : List Nat := more.foldl addFang l

-- `Pattern::matches`: params match params whatever their names
def patMatches (a b : Seg) : Bool :=
  match a, b with
  | .param, .param => true
  | .static x, .static y => x == y
  | _, _ => false

def isStaticPat : Option Seg → Bool
  | some (.static _) => true
  | _ => false

-- `machable_child_mut` then recurse, or `Node::new` + recurse + `append_child`
def updKids (g : BN → Option BN) : List BN → Seg → Option (List BN)
  | [], s => (g (.mk (some s) [] none [])).map fun k => [k]
  | k :: ks, s =>
    if (k.pat.map (patMatches · s)).getD false then (g k).map fun k' => k' :: ks
    else (updKids g ks s).map fun ks' => k :: ks'

def hasMatch (ks : List BN) (s : Seg) : Bool := ks.any fun k => (k.pat.map (patMatches · s)).getD false

-- `Node::merge_parts` (fix 8878fb7: the other node's children are merged into the children of the same pattern, not pushed beside them)
mutual
/-- fangs appended, a second handler refused (`set_handler`; registration-time error: `none` = refused), children merged one after the other -/
def mergeParts : BN → BN → Option BN
  | .mk p f h ks, .mk _ f' h' ks' =>
    match h, h' with
    | some _, some _ => none
    | _, _ => (mergeKids ks ks').map fun ks2 => .mk p (appendFangs f f') (h' <|> h) ks2
/-- the loop over the other node's children: into the child of the same pattern if there is one (`machable_child_mut`), else `append_child`
    (which cannot refuse then: a static child of the same pattern would have matched) -/
def mergeKids : List BN → List BN → Option (List BN)
  | ks, [] => some ks
  | ks, c :: cs =>
    match c.pat with
    | none => none
    | some s =>
      if hasMatch ks s then (updKids (fun k => mergeParts k c) ks s).bind fun ks2 => mergeKids ks2 cs
      else mergeKids (ks ++ [c]) cs
end

-- `Node::merge_node` + `merge_here`
def mergeAt : Route → BN → BN → Option BN
  | [], t, sub => mergeParts t sub
  | s :: rest, .mk p f h ks, sub =>
    (updKids (fun k => mergeAt rest k sub) ks s).map fun ks' => .mk p f h ks'

-- `register_handler` = merging a one-node tree that only has the handler
def register (t : BN) (r : Route) (h : Nat) : Option BN := mergeAt r t (.mk none [] (some h) [])

-- `Node::apply_fangs`: every node of the tree gets the application's id (dedup)
mutual
def applyFangs (id : Nat) : BN → BN
  | .mk p f h ks => .mk p (addFang f id) h (applyKids id ks)
def applyKids (id : Nat) : List BN → List BN
  | [] => []
  | k :: ks => applyFangs id k :: applyKids id ks
end

-- `Ohkami::into_router`: own routes, then mounts (`ByAnother`), then own fangs over everything
mutual
def build : App → Option BN
  | .mk id hasFangs routes mounts => do
    let t ← routes.foldlM (fun t rh => register t rh.1 rh.2) (BN.mk none [] none [])
    let t ← buildMounts t mounts
    pure (if hasFangs then applyFangs id t else t)
def buildMounts : BN → List (Route × App) → Option BN
  | t, [] => some t
  | t, (r, a) :: rest => do
    let sub ← build a
    let t' ← mergeAt r t sub
    buildMounts t' rest
end

/-! ### final trie -/
inductive CN where
  | mk (pats : List Seg) (fangs : List Nat) (handler : Option Nat) (kids : List CN)
deriving Repr, Inhabited

-- `FangsList::inherit` (F2): the outer list goes outside of what only `self` has
def inherit (self outer : List Nat) : List Nat := self.filter (fun id => !outer.contains id) ++ outer

def isStatic : Option Seg → Bool
  | some (.static _) => true
  | _ => false

/-- `Node::finalize`. `repaired = false` is the code as pinned (compress whenever there is a single static child and
    no handler, joining the fang lists parent-first); `true` is F2 (children inherit, a scope is never crossed nor
    swallowed). Sorting of children: statics before the param. -/
def finalize (repaired : Bool) : Nat → BN → Bool → CN
  | 0, .mk p f h _, _ => .mk p.toList f h []
  | fuel + 1, .mk p f h ks, opensScope =>
    let ks := if repaired then ks.map fun k => BN.mk k.pat (inherit k.fangs f) k.handler k.kids else ks
    let rec compress : Nat → List Seg → List Nat → Option Nat → List BN → (List Seg × List Nat × Option Nat × List BN)
      | 0, ps, f, h, ks => (ps, f, h, ks)
      | n + 1, ps, f, h, ks =>
        match ks, h with
        | [.mk (some (.static c)) f' h' ks'], none =>
          if (p.isNone || isStatic p) && (!repaired || (!opensScope && f'.length == f.length)) then
            let f2 := if repaired then f' else appendFangs f f'
            let ks2 := if repaired then ks'.map fun k => BN.mk k.pat (inherit k.fangs f2) k.handler k.kids else ks'
            compress n (ps ++ [.static c]) f2 h' ks2
          else (ps, f, h, ks)
        | _, _ => (ps, f, h, ks)
    let (ps, f, h, ks) := compress fuel p.toList f h ks
    let statics := ks.filter fun k => isStatic k.pat
    let params := ks.filter fun k => !isStatic k.pat
    .mk ps f h ((statics ++ params).map fun k => finalize repaired fuel k (repaired && k.fangs.length != f.length))

-- does the node's pattern (a run of segments) match a prefix of the request segments?
def takePats : List Seg → List Bytes → Option (List Bytes)
  | [], ss => some ss
  | .static c :: ps, s :: ss => if s = c then takePats ps ss else none
  | .param :: ps, s :: ss => if s ≠ [] then takePats ps ss else none
  | _ :: _, [] => none

/-- `Node::search_target`: the node whose `proc` (hit) or `catch` (miss) answers; result = its fang list and the
    handler if it is a hit with a handler. -/
def search : Nat → CN → List Bytes → (List Nat × Option Nat)
  | 0, .mk _ f _ _, _ => (f, none)
  | fuel + 1, .mk ps f h ks, ss =>
    match takePats ps ss with
    | none => (f, none)            -- only possible at the root: its `catch`
    | some [] => (f, h)
    | some rest =>
      let rec firstKid : List CN → Option (CN × List Bytes)
        | [] => none
        | .mk ps' f' h' ks' :: more =>
          match takePats ps' rest with
          | some _ => some (.mk ps' f' h' ks', rest)
          | none => firstKid more
      match firstKid ks with
      | some (k, rest) => search fuel k rest
      | none => (f, none)

/-! ### trace and spec -/
inductive Ev where | enter (f : Nat) | leave (f : Nat) | handler (h : Option Nat)
deriving Repr, DecidableEq

/-- `into_proc_with`: the first fang of the list is built first, so it is innermost -/
def onion (passes : Nat → Bool) : List Nat → Option Nat → List Ev
  | [], h => [.handler h]
  | f :: inner, h => if passes f then .enter f :: onion passes inner h ++ [.leave f] else [.enter f]

def traceOf (passes : Nat → Bool) (r : List Nat × Option Nat) : List Ev := onion passes r.1.reverse r.2

def segUnder : Route → List Bytes → Option (List Bytes)
  | [], ss => some ss
  | .static c :: ps, s :: ss => if s = c then segUnder ps ss else none
  | .param :: ps, s :: ss => if s ≠ [] then segUnder ps ss else none
  | _ :: _, [] => none

-- the applications (with fangs) whose composed mount prefix is a prefix of the path, outermost first
mutual
def scopeChain : App → List Bytes → List Nat
  | .mk id hasFangs _ mounts, ss => (if hasFangs then [id] else []) ++ scopeMounts mounts ss
def scopeMounts : List (Route × App) → List Bytes → List Nat
  | [], _ => []
  | (r, a) :: rest, ss =>
    match segUnder r ss with
    | some ss' => scopeChain a ss'
    | none => scopeMounts rest ss
end


/-! ### the side condition of the property, as a decidable predicate on the configuration -/
def compat : Seg → Seg → Bool
  | .static x, .static y => x == y
  | _, _ => true

/-- `r` (a route or another mount prefix registered by the mounting application) disturbs the mount prefix `pre`:
    walking both from the root through the same trie nodes, either `r` reaches the mount node (somebody else registers
    at or under the prefix), or the two part at a node into two children that one request segment can both match (a
    static and a param child) — then the greedy, statics-first router of C01 sends some requests that lie under the
    prefix pattern-wise into the other child and never enters the mount. -/
def conflict : Route → Route → Bool
  | [], _ => true
  | _ :: _, [] => false
  | a :: pre, b :: r => if patMatches a b then conflict pre r else compat a b

-- every mount prefix is used by exactly one application and nobody else registers routes under it
mutual
def sideCond : App → Bool
  | .mk _ _ routes mounts =>
    mounts.all (fun m => routes.all fun rh => !conflict m.1 rh.1) &&
    (mounts.map (·.1)).Pairwise (fun a b => !conflict a b && !conflict b a) &&
    sideMounts mounts
def sideMounts : List (Route × App) → Bool
  | [] => true
  | (_, a) :: rest => sideCond a && sideMounts rest
end

-- the ids of the applications of a tree (`ID::new()` draws them from a process-wide counter, so they are pairwise distinct)
mutual
def idsOf : App → List Nat
  | .mk id _ _ mounts => id :: idsOfMounts mounts
def idsOfMounts : List (Route × App) → List Nat
  | [] => []
  | (_, a) :: rest => idsOf a ++ idsOfMounts rest
end

/-- **C04, scope (statement; proved in `FangsScopeSearch.lean`, theorem `scope_statement`, re-exported as `C04.scope`).**
    For every application tree satisfying the side condition, with distinct application ids, and every path: the fang list of the
    answering node of the finalized router is, outermost first, the chain of applications whose mount prefix contains the path. -/
def ScopeStatement : Prop :=
  ∀ (cfg : App) (t : BN) (ss : List Bytes) (fuel : Nat), sideCond cfg = true → (idsOf cfg).Nodup → build cfg = some t →
    ss.length + 2 ≤ fuel →
    (search fuel (finalize true fuel t false) ss).1.reverse = scopeChain cfg ss

end Ohkami.Fangs
