import OhkamiModel.P.SerdeRT2
/-! C09 round trip, top level: `from_bytes (to_string s) = s` for every struct value of the supported shape. -/
namespace Ohkami.Serde

theorem encode_ne_nil (k : Bytes) (hk : k ≠ []) : Percent.encode k ≠ [] := by
  cases k with
  | nil => exact absurd rfl hk
  | cons b bs => simp only [Percent.encode]; split <;> simp

def keys (fs : List (Bytes × Value)) : List Bytes := fs.map (·.1)

-- what the struct reader is told about one pair
structure PairOK (u : Bytes → Bool) (fields : List (Bytes × Ty × Bool)) (p : Bytes × Value) : Prop where
  ty : ∃ t, lookupField fields p.1 = some t ∧ wellTyped u t p.2 = true
  un : unamb true p.2 = true
  ne : p.1 ≠ []
  utf8 : u p.1 = true

def szp : List (Bytes × Value) → Nat
  | [] => 0
  | p :: ps => sz p.2 + 1 + szp ps

theorem encPairs_cons (k : Bytes) (v : Value) (rest : List (Bytes × Value)) (text : Bytes)
    (he : encPairs true ((k, v) :: rest) = .ok text) :
    ∃ r more, encVal true v = .ok r ∧ encPairs true rest = .ok more ∧
      text = Percent.encode k ++ EQ :: (r ++ (if rest = [] then [] else AMP :: more)) := by
  cases rest with
  | nil =>
    cases h : encVal true v with
    | error e => simp [encPairs, h, bind, Except.bind] at he
    | ok r => simp [encPairs, h, bind, Except.bind, pure, Except.pure] at he; exact ⟨r, [], rfl, rfl, by simp [← he]⟩
  | cons p ps =>
    cases h : encVal true v with
    | error e => simp [encPairs, h, bind, Except.bind] at he
    | ok r =>
      cases h2 : encPairs true (p :: ps) with
      | error e => simp [encPairs, h, h2, bind, Except.bind] at he
      | ok more =>
        simp [encPairs, h, h2, bind, Except.bind, pure, Except.pure] at he
        exact ⟨r, more, rfl, rfl, by simp [← he]⟩

theorem keys_eq (u : Bytes → Bool) : ∀ (fields : List (Bytes × Ty × Bool)) (fs : List (Bytes × Value)),
    wellTyped.wtFields u fields fs = true → keys fs = fields.map (·.1)
  | [], [], _ => rfl
  | [], _ :: _, h => by simp [wellTyped.wtFields] at h
  | _ :: _, [], h => by simp [wellTyped.wtFields] at h
  | (n, t, d) :: fields, (m, v) :: fs, h => by
    simp only [wellTyped.wtFields, Bool.and_eq_true, beq_iff_eq] at h
    simp [keys, h.1.1.1, ← keys_eq u fields fs h.2]

theorem lookup_ok (u : Bytes → Bool) : ∀ (fields : List (Bytes × Ty × Bool)) (fs : List (Bytes × Value)),
    wellTyped.wtFields u fields fs = true → (fields.map (·.1)).Nodup →
    ∀ p ∈ fs, (∃ t, lookupField fields p.1 = some t ∧ wellTyped u t p.2 = true) ∧ u p.1 = true
  | [], [], _, _ => by intro p hp; cases hp
  | [], _ :: _, h, _ => by simp [wellTyped.wtFields] at h
  | _ :: _, [], h, _ => by simp [wellTyped.wtFields] at h
  | (n, t, d) :: fields, (m, v) :: fs, h, hnd => by
    simp only [wellTyped.wtFields, Bool.and_eq_true, beq_iff_eq] at h
    obtain ⟨⟨⟨rfl, hu⟩, hw⟩, hrest⟩ := h
    simp only [List.map_cons, List.nodup_cons] at hnd
    intro p hp
    rcases List.mem_cons.mp hp with rfl | hp
    · exact ⟨⟨t, by simp [lookupField], hw⟩, hu⟩
    · have ih := lookup_ok u fields fs hrest hnd.2 p hp
      have hk : p.1 ∈ fields.map (·.1) := by
        rw [← keys_eq u fields fs hrest]; exact List.mem_map_of_mem hp
      have hne : n ≠ p.1 := fun e => hnd.1 (e ▸ hk)
      obtain ⟨⟨t', hl, hw'⟩, hu'⟩ := ih
      exact ⟨⟨t', by simp [lookupField, hne, hl], hw'⟩, hu'⟩

theorem find_nodup : ∀ (fs : List (Bytes × Value)), (keys fs).Nodup → ∀ p ∈ fs, fs.find? (fun x => decide (x.1 = p.1)) = some p
  | [], _ => by intro p hp; cases hp
  | q :: fs, hnd => by
    simp only [keys, List.map_cons, List.nodup_cons] at hnd
    intro p hp
    rcases List.mem_cons.mp hp with rfl | hp
    · simp
    · have hne : q.1 ≠ p.1 := fun e => hnd.1 (e ▸ List.mem_map_of_mem hp)
      simp [List.find?, hne]
      exact find_nodup fs hnd.2 p hp

theorem fillMissing_ok (u : Bytes → Bool) (seen : List (Bytes × Value)) :
    ∀ (fields : List (Bytes × Ty × Bool)) (fs : List (Bytes × Value)),
    wellTyped.wtFields u fields fs = true → (∀ p ∈ fs, seen.find? (fun x => decide (x.1 = p.1)) = some p) →
    fillMissing fields seen = some fs
  | [], [], _, _ => rfl
  | [], _ :: _, h, _ => by simp [wellTyped.wtFields] at h
  | _ :: _, [], h, _ => by simp [wellTyped.wtFields] at h
  | (n, t, d) :: fields, (m, v) :: fs, h, hs => by
    simp only [wellTyped.wtFields, Bool.and_eq_true, beq_iff_eq] at h
    obtain ⟨⟨⟨rfl, _⟩, _⟩, hrest⟩ := h
    have h1 := hs (n, v) (by simp)
    have h2 := fillMissing_ok u seen fields fs hrest (fun p hp => hs p (by simp [hp]))
    simp only [fillMissing, h1, h2]

theorem unambF_mem : ∀ (fs : List (Bytes × Value)), unamb.unambF true fs = true → ∀ p ∈ fs, unamb true p.2 = true
  | [], _ => by intro p hp; cases hp
  | (k, v) :: fs, h => by
    simp only [unamb.unambF, Bool.and_eq_true] at h
    intro p hp
    rcases List.mem_cons.mp hp with rfl | hp
    · exact h.1
    · exact unambF_mem fs h.2 p hp

variable (P : Prims) (hP : PrimsOK P)
include hP

theorem structLoop_ok (fields : List (Bytes × Ty × Bool)) (fs : List (Bytes × Value)) :
    ∀ (todo acc : List (Bytes × Value)) (first : Bool) (side : Side) (text : Bytes) (fuel : Nat),
      (∀ p ∈ todo, PairOK P.validUtf8 fields p) →
      (∀ p ∈ todo, ∀ q ∈ acc, q.1 ≠ p.1) → (keys todo).Nodup →
      encPairs true todo = .ok text →
      szp todo + 1 ≤ fuel →
      fillMissing fields (acc ++ todo) = some fs →
      ∃ side', structLoop P false fuel fields first acc ⟨if first || todo.isEmpty then text else AMP :: text, side⟩
        = .ok (.struct fs, ⟨[], side'⟩) := by
  intro todo
  induction todo with
  | nil =>
    intro acc first side text fuel _ _ _ he hf hfill
    obtain ⟨f, rfl⟩ : ∃ f, fuel = f + 1 := ⟨fuel - 1, by omega⟩
    simp [encPairs] at he; subst he
    simp only [List.append_nil] at hfill
    exact ⟨side, by simp [structLoop, hfill]⟩
  | cons p rest ih =>
    intro acc first side text fuel hok hacc hnd he hf hfill
    obtain ⟨f, rfl⟩ : ∃ f, fuel = f + 1 := ⟨fuel - 1, by omega⟩
    obtain ⟨k, v⟩ := p
    obtain ⟨r, more, h1, h2, rfl⟩ := encPairs_cons k v rest text he
    have hp := hok (k, v) (by simp)
    obtain ⟨t, hl, hwt⟩ := hp.ty
    have hkc : Clean (Percent.encode k) := (cleanC_encode k).clean
    have hstop : Stop (if rest = [] then [] else AMP :: more) := by
      split
      · exact Or.inl rfl
      · exact Or.inr ⟨more, rfl⟩
    have hdv := dec_val P hP v t r _ f hwt hp.un h1 hstop (by simp [szp] at hf; omega)
    have hany : acc.any (fun x => decide (x.1 = k)) = false := by
      rw [List.any_eq_false]
      intro q hq
      simpa using hacc (k, v) (by simp) q hq
    have hnd' : (keys rest).Nodup := by simp [keys] at hnd ⊢; exact hnd.2
    have hacc' : ∀ p ∈ rest, ∀ q ∈ acc ++ [(k, v)], q.1 ≠ p.1 := by
      intro p hp q hq
      rcases List.mem_append.mp hq with hq | hq
      · exact hacc p (by simp [hp]) q hq
      · simp at hq; subst hq
        simp [keys] at hnd
        intro h
        apply hnd.1 p.2
        have : (k, p.2) = p := by cases p; simp_all
        rw [this]; exact hp
    obtain ⟨side', hrec⟩ := ih (acc ++ [(k, v)]) false .value more f (fun p hp => hok p (by simp [hp])) hacc' hnd' h2
      (by simp [szp] at hf; omega) (by simpa using hfill)
    refine ⟨side', ?_⟩
    have hns := nextSection_key (Percent.encode k) (r ++ (if rest = [] then [] else AMP :: more)) hkc (encode_ne_nil k hp.ne)
    have hinput : (if rest = [] then ([] : Bytes) else AMP :: more) = (if (false || rest.isEmpty) = true then more else AMP :: more) := by
      cases rest with
      | nil => simp [encPairs] at h2; simp [h2]
      | cons _ _ => simp
    rw [← hinput] at hrec
    cases first
    · simp [structLoop, hns, hP.pct, hp.utf8, hl, hany, hdv, hrec]
    · simp [structLoop, hns, hP.pct, hp.utf8, hl, hany, hdv, hrec]


/-- **C09, round trip.** For every struct type with distinct, non-empty field names and every value of it that the
    serializer accepts and that is unambiguous in the format, reading the written text gives the value back and
    consumes all of it. -/
theorem roundtrip_struct (fields : List (Bytes × Ty × Bool)) (fs : List (Bytes × Value)) (text : Bytes) (fuel : Nat)
    (hw : wellTyped P.validUtf8 (.struct fields) (.struct fs) = true)
    (hu : unamb true (.struct fs) = true)
    (hnd : (fields.map (·.1)).Nodup) (hne : ∀ n ∈ fields.map (·.1), n ≠ [])
    (he : encode true (.struct fs) = .ok text)
    (hf : szp fs + 2 ≤ fuel) :
    ∃ side, decode P false fuel (.struct fields) ⟨text, .key⟩ = .ok (.struct fs, ⟨[], side⟩) := by
  obtain ⟨f, rfl⟩ : ∃ f, fuel = f + 1 := ⟨fuel - 1, by omega⟩
  simp only [wellTyped] at hw
  simp only [unamb] at hu
  simp only [encode] at he
  have hk := keys_eq P.validUtf8 fields fs hw
  have hndk : (keys fs).Nodup := hk ▸ hnd
  have hpairs : ∀ p ∈ fs, PairOK P.validUtf8 fields p := by
    intro p hp
    obtain ⟨hty, hu8⟩ := lookup_ok P.validUtf8 fields fs hw hnd p hp
    exact ⟨hty, unambF_mem fs hu p hp, hne p.1 (hk ▸ List.mem_map_of_mem hp), hu8⟩
  have hfill : fillMissing fields ([] ++ fs) = some fs :=
    fillMissing_ok P.validUtf8 fs fields fs hw (find_nodup fs hndk)
  obtain ⟨side', h⟩ := structLoop_ok P hP fields fs fs [] true .key text f hpairs (by intro p _ q hq; cases hq) hndk he (by omega) hfill
  exact ⟨side', by simpa [decode] using h⟩

end Ohkami.Serde
