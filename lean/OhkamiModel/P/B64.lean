import OhkamiModel.Basic
/-! Prototype: base64 (STANDARD, padded, canonical) model + BasicAuth statement. -/
namespace Ohkami.B64

def alphabet : List UInt8 :=
  "ABCDEFGHIJKLMNOPQRSTUVWXYZabcdefghijklmnopqrstuvwxyz0123456789+/".toList.map (·.toNat.toUInt8)

def encChar (n : Nat) : UInt8 := alphabet.getD n 0
def decChar (c : UInt8) : Option Nat := let i := alphabet.idxOf c; if i < 64 then some i else none
def pad : UInt8 := 61

def encode : Bytes → Bytes
  | a :: b :: c :: rest =>
    let n := a.toNat * 65536 + b.toNat * 256 + c.toNat
    encChar (n / 262144) :: encChar (n / 4096 % 64) :: encChar (n / 64 % 64) :: encChar (n % 64) :: encode rest
  | [a, b] =>
    let n := a.toNat * 65536 + b.toNat * 256
    [encChar (n / 262144), encChar (n / 4096 % 64), encChar (n / 64 % 64), pad]
  | [a] =>
    let n := a.toNat * 65536
    [encChar (n / 262144), encChar (n / 4096 % 64), pad, pad]
  | [] => []

-- canonical decode: padding required, trailing bits must be zero
def decode : Bytes → Option Bytes
  | [] => some []
  | [c0, c1, c2, c3] =>
    if c2 = pad ∧ c3 = pad then do
      let a ← decChar c0; let b ← decChar c1
      if b % 16 = 0 then some [(a * 4 + b / 16).toUInt8] else none
    else if c3 = pad then do
      let a ← decChar c0; let b ← decChar c1; let c ← decChar c2
      if c % 4 = 0 then some [(a * 4 + b / 16).toUInt8, (b % 16 * 16 + c / 4).toUInt8] else none
    else do
      let a ← decChar c0; let b ← decChar c1; let c ← decChar c2; let d ← decChar c3
      some [(a * 4 + b / 16).toUInt8, (b % 16 * 16 + c / 4).toUInt8, (c % 4 * 64 + d).toUInt8]
  | c0 :: c1 :: c2 :: c3 :: rest => do
      let a ← decChar c0; let b ← decChar c1; let c ← decChar c2; let d ← decChar c3
      let tl ← decode rest
      some ((a * 4 + b / 16).toUInt8 :: (b % 16 * 16 + c / 4).toUInt8 :: (c % 4 * 64 + d).toUInt8 :: tl)
  | _ => none


example : decode (encode [117, 58, 112]) = some [117, 58, 112] := by decide
example : encode [255] = "/w==".toList.map (·.toNat.toUInt8) := by decide

end Ohkami.B64

namespace Ohkami.BasicAuth
open Ohkami.B64

structure Pair where (user pass : Bytes)
def colon : UInt8 := 58
def basicPrefix : Bytes := "Basic ".toList.map (·.toNat.toUInt8)

inductive Out where | admit | unauthorized | panic deriving DecidableEq, Repr

def splitOnce (c : UInt8) : Bytes → Option (Bytes × Bytes)
  | [] => none
  | b :: bs => if b = c then some ([], bs) else (splitOnce c bs).map fun (l, r) => (b :: l, r)

-- `validUtf8` is a parameter here; the real model defines it
def fore (validUtf8 : Bytes → Bool) (pairs : List Pair) (auth : Option Bytes) : Out :=
  match auth with
  | none => .unauthorized
  | some v =>
    if basicPrefix.isPrefixOf v then
      match decode (v.drop basicPrefix.length) with
      | none => .unauthorized
      | some cred =>
        if !validUtf8 cred then .unauthorized       -- after the planned fix (today: panic for some inputs)
        else match splitOnce colon cred with
          | none => .unauthorized
          | some (u, p) => if pairs.any (fun pr => pr.user = u ∧ pr.pass = p) then .admit else .unauthorized
    else .unauthorized


end Ohkami.BasicAuth
